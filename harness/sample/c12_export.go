//go:build verif

package sample

// Shared by the sample-level and the collect-level harness of spec/Samplers.tla
// (properties C12, C13). This file is NOT a test file: it is compiled into
// package sample (only with -tags verif, only through the go test -overlay of
// /verif) so that the harness in package collect can read the dynsampler behind
// a sampler, which only package sample can see.
//
// Observation: for every sampler a worker holds, the dynsampler object behind
// it (pointer identity) and its GoalThroughputPerSec. A pointer is named by the definition of
// the slot in which it was first seen and the number of ClearDynsamplers calls
// before it; a second pointer that would get the same name gets dup > 0, which
// no specification state has.

import (
	"encoding/json"
	"fmt"
	"os"
	"path/filepath"
	"strings"
	"sync"
	"time"

	"github.com/honeycombio/refinery/config"
)

// ---- scenario (params of the graph) ---------------------------------------

type C12Leaf struct {
	T string `json:"t"`
	G int    `json:"g"`
	U bool   `json:"u"`
	N int    `json:"n"`
	F string `json:"f"`
}

type C12Top struct {
	Rules  bool      `json:"rules"`
	Leaves []C12Leaf `json:"leaves"`
}

type C12Def struct {
	D string  `json:"d"`
	P int     `json:"p"`
	L C12Leaf `json:"l"`
}

type C12Scenario struct {
	I     int               `json:"i"`
	A     map[string]C12Top `json:"a"`
	B     map[string]C12Top `json:"b"`
	Names map[string]string `json:"names"` // destination -> environment/dataset name used in the rules file
	Tab   []C12Def          `json:"tab"`
}

type C12Params struct {
	Workers        []string          `json:"workers"`
	Dests          []string          `json:"dests"`
	Scenarios      []C12Scenario     `json:"scenarios"`
	Faithful       bool              `json:"faithful"`
	ShareIdentical bool              `json:"shareIdentical"`
}

var c12Fields = map[string][]string{"f": {"svc"}, "g": {"svc", "op"}}

// c12LeafYAML renders one leaf sampler; indent is the indentation of the
// sampler-type line.
func c12LeafYAML(l C12Leaf, indent string) string {
	var b strings.Builder
	w := func(format string, a ...any) { b.WriteString(indent + fmt.Sprintf(format, a...) + "\n") }
	fl := "[" + strings.Join(c12Fields[l.F], ", ") + "]"
	switch l.T {
	case "de":
		w("DeterministicSampler:")
		w("  SampleRate: %d", l.G)
	case "dy":
		w("DynamicSampler:")
		w("  SampleRate: %d", l.G)
		w("  FieldList: %s", fl)
		if l.N == 1 {
			w("  MaxKeys: 77")
		}
		if l.N == 2 {
			w("  ClearFrequency: 45s")
			w("  UseTraceLength: true")
		}
		if l.N == 3 {
			w("  MaxKeys: 1")
			w("  ClearFrequency: 1500ms")
		}
	case "ed":
		w("EMADynamicSampler:")
		w("  GoalSampleRate: %d", l.G)
		w("  FieldList: %s", fl)
		if l.N == 1 {
			w("  MaxKeys: 77")
		}
		if l.N == 2 {
			w("  AdjustmentInterval: 20s")
			w("  Weight: 0.4")
			w("  BurstMultiple: 3")
		}
		if l.N == 3 {
			w("  MaxKeys: 1")
			w("  AdjustmentInterval: 1500ms")
			w("  Weight: 0.99")
			w("  AgeOutValue: 0.001")
			w("  BurstDetectionDelay: 1")
		}
	case "tt":
		w("TotalThroughputSampler:")
		w("  GoalThroughputPerSec: %d", l.G)
		w("  UseClusterSize: %v", l.U)
		w("  FieldList: %s", fl)
		if l.N == 1 {
			w("  MaxKeys: 77")
		}
		if l.N == 2 {
			w("  ClearFrequency: 45s")
			w("  UseTraceLength: true")
		}
		if l.N == 3 {
			w("  MaxKeys: 1")
			w("  ClearFrequency: 1500ms")
		}
	case "et":
		w("EMAThroughputSampler:")
		w("  GoalThroughputPerSec: %d", l.G)
		w("  UseClusterSize: %v", l.U)
		w("  FieldList: %s", fl)
		if l.N == 1 {
			w("  MaxKeys: 77")
		}
		if l.N == 2 {
			w("  AdjustmentInterval: 20s")
			w("  Weight: 0.4")
			w("  InitialSampleRate: 7")
		}
		if l.N == 3 {
			w("  MaxKeys: 1")
			w("  AdjustmentInterval: 1500ms")
			w("  Weight: 0.01")
			w("  BurstMultiple: 1.5")
			w("  BurstDetectionDelay: 1")
		}
	case "wt":
		w("WindowedThroughputSampler:")
		w("  GoalThroughputPerSec: %d", l.G)
		w("  UseClusterSize: %v", l.U)
		w("  FieldList: %s", fl)
		if l.N == 1 {
			w("  MaxKeys: 77")
		}
		if l.N == 2 {
			w("  UpdateFrequency: 2s")
			w("  LookbackFrequency: 40s")
		}
		if l.N == 3 {
			// a lookback that is neither a multiple of the update period nor of a second
			w("  MaxKeys: 1")
			w("  UpdateFrequency: 2s")
			w("  LookbackFrequency: 5500ms")
		}
	}
	return b.String()
}

func C12RulesYAML(file map[string]C12Top, dests []string, names map[string]string) string {
	var b strings.Builder
	b.WriteString("RulesVersion: 2\nSamplers:\n  __default__:\n    DeterministicSampler:\n      SampleRate: 1\n")
	for _, d := range dests {
		top := file[d]
		if !top.Rules && top.Leaves[0].T == "df" {
			continue // destination absent from the file
		}
		b.WriteString(fmt.Sprintf("  %q:\n", names[d]))
		if !top.Rules {
			b.WriteString(c12LeafYAML(top.Leaves[0], "    "))
			continue
		}
		b.WriteString("    RulesBasedSampler:\n      Rules:\n")
		for i, l := range top.Leaves {
			b.WriteString(fmt.Sprintf("        - Name: rule%d\n          Conditions:\n            - Field: r\n              Operator: \"=\"\n              Value: %d\n              Datatype: int\n          Sampler:\n", i+1, i+1))
			b.WriteString(c12LeafYAML(l, "            "))
		}
	}
	return b.String()
}

// ---- peers: membership the harness controls, callbacks started like the real ones

type C12Peers struct {
	mu        sync.Mutex
	n         int
	callbacks []func()
}

func (p *C12Peers) GetPeers() ([]string, error) {
	p.mu.Lock()
	defer p.mu.Unlock()
	out := make([]string, p.n)
	for i := range out {
		out[i] = fmt.Sprintf("http://peer%d:8081", i)
	}
	return out, nil
}
func (p *C12Peers) GetInstanceID() (string, error) { return "http://peer0:8081", nil }
func (p *C12Peers) RegisterUpdatedPeersCallback(cb func()) {
	p.mu.Lock()
	defer p.mu.Unlock()
	p.callbacks = append(p.callbacks, cb)
}
func (p *C12Peers) Ready() error { return nil }
func (p *C12Peers) Start() error { return nil }
// Set changes the membership without telling anybody (the callbacks are started by Fire).
func (p *C12Peers) Set(n int) {
	p.mu.Lock()
	p.n = n
	p.mu.Unlock()
}

// Fire starts every registered callback in its own goroutine (as
// RedisPubsubPeers.checkHash and FilePeers do) and waits for them.
func (p *C12Peers) Fire() {
	p.mu.Lock()
	cbs := append([]func(){}, p.callbacks...)
	p.mu.Unlock()
	var wg sync.WaitGroup
	for _, cb := range cbs {
		wg.Add(1)
		go func() {
			defer wg.Done()
			cb()
		}()
	}
	wg.Wait()
}

// ---- observation of one sampler --------------------------------------------

// C12Slot is one leaf sampler object: the dynsampler behind it (nil for a
// deterministic sampler), the leaf it was configured with, its goal.
type C12Slot struct {
	Ptr  any // the *dynsampler.X, or nil
	Leaf C12Leaf
	Goal int
	Tput bool
	Bad  string
}

func c12FieldsID(fl []string) string {
	if len(fl) == 2 {
		return "g"
	}
	return "f"
}

func c12LeafSlot(s Sampler) C12Slot {
	switch x := s.(type) {
	case *DeterministicSampler:
		return C12Slot{Leaf: C12Leaf{T: "de", G: x.Config.SampleRate, F: "f"}}
	case *DynamicSampler:
		l := C12Leaf{T: "dy", G: int(x.Config.SampleRate), F: c12FieldsID(x.Config.FieldList)}
		if x.Config.MaxKeys == 77 {
			l.N = 1
		} else if x.Config.MaxKeys == 1 {
			l.N = 3
		} else if x.Config.UseTraceLength {
			l.N = 2
		}
		return C12Slot{Ptr: x.dynsampler, Leaf: l}
	case *EMADynamicSampler:
		l := C12Leaf{T: "ed", G: x.Config.GoalSampleRate, F: c12FieldsID(x.Config.FieldList)}
		if x.Config.MaxKeys == 77 {
			l.N = 1
		} else if x.Config.MaxKeys == 1 {
			l.N = 3
		} else if x.Config.Weight == 0.4 {
			l.N = 2
		}
		return C12Slot{Ptr: x.dynsampler, Leaf: l}
	case *TotalThroughputSampler:
		l := C12Leaf{T: "tt", G: x.Config.GoalThroughputPerSec, U: x.Config.UseClusterSize, F: c12FieldsID(x.Config.FieldList)}
		if x.Config.MaxKeys == 77 {
			l.N = 1
		} else if x.Config.MaxKeys == 1 {
			l.N = 3
		} else if x.Config.UseTraceLength {
			l.N = 2
		}
		return C12Slot{Ptr: x.dynsampler, Leaf: l, Goal: x.dynsampler.GoalThroughputPerSec, Tput: true}
	case *EMAThroughputSampler:
		l := C12Leaf{T: "et", G: x.Config.GoalThroughputPerSec, U: x.Config.UseClusterSize, F: c12FieldsID(x.Config.FieldList)}
		if x.Config.MaxKeys == 77 {
			l.N = 1
		} else if x.Config.MaxKeys == 1 {
			l.N = 3
		} else if x.Config.Weight == 0.4 {
			l.N = 2
		}
		return C12Slot{Ptr: x.dynsampler, Leaf: l, Goal: x.dynsampler.GoalThroughputPerSec, Tput: true}
	case *WindowedThroughputSampler:
		l := C12Leaf{T: "wt", G: x.Config.GoalThroughputPerSec, U: x.Config.UseClusterSize, F: c12FieldsID(x.Config.FieldList)}
		if x.Config.MaxKeys == 77 {
			l.N = 1
		} else if x.Config.MaxKeys == 1 {
			l.N = 3
		} else if time.Duration(x.Config.UpdateFrequency) == 2*time.Second {
			l.N = 2
		}
		g := x.dynsampler.GoalThroughputPerSec
		sl := C12Slot{Ptr: x.dynsampler, Leaf: l, Goal: int(g), Tput: true}
		if g != float64(int(g)) {
			sl.Bad = fmt.Sprintf("fractional goal %v", g)
		}
		return sl
	}
	return C12Slot{Bad: fmt.Sprintf("unexpected sampler %T", s)}
}

// C12Slots lists the leaf samplers of a top-level sampler in rule order.
func C12Slots(s Sampler) (rules bool, out []C12Slot) {
	rb, ok := s.(*RulesBasedSampler)
	if !ok {
		return false, []C12Slot{c12LeafSlot(s)}
	}
	for _, r := range rb.Config.Rules {
		if r.Sampler == nil {
			continue
		}
		ds, ok := rb.samplers[r.String()]
		if !ok {
			out = append(out, C12Slot{Bad: "rule " + r.Name + " has no downstream sampler"})
			continue
		}
		out = append(out, c12LeafSlot(ds))
	}
	return true, out
}


// ---- naming of instances -----------------------------------------------------

type c12Name struct{ cr, ep, dup int }

// C12Namer names dynsampler pointers (see the top of the file).
type C12Namer struct {
	Scenario       *C12Scenario
	ShareIdentical bool
	names          map[any]c12Name
	used           map[[2]int]int
}

func NewC12Namer(sc *C12Scenario, shareIdentical bool) *C12Namer {
	return &C12Namer{Scenario: sc, ShareIdentical: shareIdentical, names: map[any]c12Name{}, used: map[[2]int]int{}}
}

// canon is the index (1-based) of the first definition in the scenario's table
// that the property allows (d, p, l) to share an instance with; 0 if the table
// has no such definition.
func (n *C12Namer) canon(d string, p int, l C12Leaf) int {
	for i, x := range n.Scenario.Tab {
		if x.D != d || x.L != l {
			continue
		}
		if n.ShareIdentical {
			if (x.P == 0) == (p == 0) {
				return i + 1
			}
		} else if x.P == p {
			return i + 1
		}
	}
	return 0
}

// NameNew names the not yet named dynsampler pointers of a top-level sampler of
// destination d; clears is the number of ClearDynsamplers calls so far.
func (n *C12Namer) NameNew(d string, s Sampler, clears int) {
	rules, slots := C12Slots(s)
	for i, sl := range slots {
		if sl.Ptr == nil {
			continue
		}
		if _, ok := n.names[sl.Ptr]; ok {
			continue
		}
		p := 0
		if rules {
			p = i + 1
		}
		cr := n.canon(d, p, sl.Leaf)
		k := [2]int{cr, clears}
		n.names[sl.Ptr] = c12Name{cr: cr, ep: clears, dup: n.used[k]}
		n.used[k]++
	}
}

// View renders the slots of one cached top-level sampler in the shape of
// Samplers!SlotView; clears is the number of ClearDynsamplers calls so far (an
// instance named in an earlier epoch has been dropped from the registry: its
// goal is masked). Anything no specification state can have is appended to bad.
func (n *C12Namer) View(s Sampler, clears int, bad *[]string) []any {
	views := []any{}
	_, slots := C12Slots(s)
	for _, sl := range slots {
		if sl.Bad != "" {
			*bad = append(*bad, sl.Bad)
		}
		v := map[string]any{"cr": 0, "ep": 0, "goal": 0}
		if sl.Ptr != nil {
			nm, named := n.names[sl.Ptr]
			if !named {
				*bad = append(*bad, "instance that no Decide created")
			}
			v["cr"], v["ep"] = nm.cr, nm.ep
			if nm.dup > 0 {
				v["dup"] = nm.dup
			}
			if sl.Tput {
				if nm.ep == clears {
					v["goal"] = sl.Goal
				} else {
					v["goal"] = -1
				}
			}
		}
		views = append(views, v)
	}
	return views
}

// ---- rules files on disk -------------------------------------------------------

// C12Loaded is a real config.Config over a config file and a rules file that
// holds file a or file b of a scenario.
type C12Loaded struct {
	Cfg     config.Config
	sc      *C12Scenario
	dests   []string
	main    string // path of the config file
	rules   string // path of the rules file
	Current string // "a" or "b"
}

func C12ParseParams(init map[string]any) (*C12Params, error) {
	raw, err := json.Marshal(init["params"])
	if err != nil {
		return nil, err
	}
	p := &C12Params{}
	if err := json.Unmarshal(raw, p); err != nil {
		return nil, err
	}
	if len(p.Scenarios) == 0 {
		return nil, fmt.Errorf("graph has no scenario table (params)")
	}
	return p, nil
}

// C12Load writes the scenario's files below dir and loads them. Both rules
// files of the scenario must be files refinery accepts with full validation (at
// startup and on reload). The returned Config is a second object over the same
// files that skips re-validation on every reload (validation parses the
// embedded metadata each time and would dominate the run).
func C12Load(dir string, sc *C12Scenario, dests []string, mainYAML string) (*C12Loaded, error) {
	cp := filepath.Join(dir, fmt.Sprintf("config%d.yaml", sc.I))
	rp := filepath.Join(dir, fmt.Sprintf("rules%d.yaml", sc.I))
	if err := os.WriteFile(cp, []byte(mainYAML), 0o644); err != nil {
		return nil, err
	}
	ld := &C12Loaded{sc: sc, dests: dests, main: cp, rules: rp, Current: "a"}
	if err := ld.write("a"); err != nil {
		return nil, err
	}
	vopts, err := config.NewCmdEnvOptions([]string{"--config", cp, "--rules_config", rp})
	if err != nil {
		return nil, err
	}
	vc, err := config.NewConfig(vopts)
	if err != nil {
		return nil, fmt.Errorf("scenario %d file a rejected by config validation: %w", sc.I, err)
	}
	if err := ld.write("b"); err != nil {
		return nil, err
	}
	if err := vc.Reload(); err != nil {
		return nil, fmt.Errorf("scenario %d file b rejected by config validation on reload: %w", sc.I, err)
	}
	if err := ld.write("a"); err != nil {
		return nil, err
	}
	if err := ld.Fresh(); err != nil {
		return nil, err
	}
	return ld, nil
}

// Fresh replaces Cfg by a new Config object (no reload callbacks registered)
// with file a loaded.
func (ld *C12Loaded) Fresh() error {
	if err := ld.write("a"); err != nil {
		return err
	}
	opts, err := config.NewCmdEnvOptions([]string{"--no-validate", "--config", ld.main, "--rules_config", ld.rules})
	if err != nil {
		return err
	}
	c, err := config.NewConfig(opts)
	if err != nil {
		return err
	}
	ld.Cfg, ld.Current = c, "a"
	return nil
}

func (ld *C12Loaded) write(which string) error {
	file := ld.sc.A
	if which == "b" {
		file = ld.sc.B
	}
	return os.WriteFile(ld.rules, []byte(C12RulesYAML(file, ld.dests, ld.sc.Names)), 0o644)
}

// SwitchTo rewrites the rules file and calls Config.Reload (which applies the
// change and calls the registered reload callbacks) unless `which` is loaded.
func (ld *C12Loaded) SwitchTo(which string) error {
	if ld.Current == which {
		return nil
	}
	if err := ld.write(which); err != nil {
		return err
	}
	if err := ld.Cfg.Reload(); err != nil {
		return fmt.Errorf("config.Reload: %w", err)
	}
	ld.Current = which
	return nil
}

// Other is the file that is not loaded.
func (ld *C12Loaded) Other() string {
	if ld.Current == "a" {
		return "b"
	}
	return "a"
}
