SPECIFICATION Spec
CONSTANTS
  Faithful = FALSE
  Secs <- SecsQuick
  Digits <- DigitsQuick
  Zones <- ZonesQuick
INVARIANTS TypeOK Preserved InexactOnlyAsDeviation RefusedOnlyWhereOpen PadSane LossFree
CHECK_DEADLOCK FALSE
