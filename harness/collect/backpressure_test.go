//go:build verif

package collect

import (
	"fmt"
	"os"
	"sync"
	"testing"
	"time"

	"github.com/honeycombio/refinery/internal/verifkit"
	"github.com/honeycombio/refinery/types"
)

// TestVerifBackpressure drives the real collector through the one schedule the
// transition tour cannot reach with small bounds: the sender goroutine is
// stalled inside the upstream transmission while the workers keep deciding
// traces until the outgoing queue (100,000 decided traces) is full, a further
// trace is decided in that state, the transmission recovers, and a late span of
// that trace arrives. The oracle is the Collector.tla invariants at quiescence
// (OneDecision / ExactlyOnce): every accepted span of a kept trace is forwarded
// exactly once, one decision per trace.
type c01GateTx struct {
	mu      sync.Mutex
	gate    chan struct{} // closed = open
	parked  chan struct{} // closed when the first caller is parked
	once    sync.Once
	seen    map[string]int
	byTrace map[string]int
}

func (g *c01GateTx) EnqueueEvent(ev *types.Event) {}
func (g *c01GateTx) RegisterMetrics()            {}
func (g *c01GateTx) EnqueueSpan(sp *types.Span) {
	first := false
	g.once.Do(func() { first = true })
	if first {
		close(g.parked)
		<-g.gate // only the very first hand-off (the sender goroutine) is stalled
	}
	g.mu.Lock()
	g.seen[fmt.Sprintf("%s/%v", sp.TraceID, sp.Data.Get("sid"))]++
	g.byTrace[sp.TraceID]++
	g.mu.Unlock()
}

func TestVerifBackpressure(t *testing.T) {
	const backlog = 100_000 // capacity of InMemCollector.tracesToSend
	h := &c01Harness{}
	if err := h.Reset(map[string]any{"epoch": float64(1),
		"cfg": map[string]any{"dryRun": false, "addReason": false, "addCounts": false, "addSpanCount": false, "addHost": false, "attrs": ""},
		"params": map[string]any{"qcap": float64(250000), "tt": float64(2), "sd": float64(1), "sl": float64(0), "me": float64(0),
			"workerOf": map[string]any{"tA": float64(0)}, "verdicts": []any{map[string]any{"tA": map[string]any{"keep": true, "rate": float64(1)}}}, "reasons": []any{"x"}}}); err != nil {
		t.Fatal(err)
	}
	gtx := &c01GateTx{gate: make(chan struct{}), parked: make(chan struct{}), seen: map[string]int{}, byTrace: map[string]int{}}
	var openOnce sync.Once
	open := func() { openOnce.Do(func() { close(gtx.gate) }) }
	defer func() {
		open() // never leave the sender parked, or Stop would hang
		if h.stop != nil {
			h.stop()
		}
	}()
	h.coll.Transmission = gtx // before any span is sent: the sender goroutine has nothing to do yet
	accepted := map[string]int{}
	add := func(trace string, id int, root bool) {
		sp := h.span(map[string]any{"t": "tA", "id": float64(id), "kind": "span", "root": root, "crate": float64(0)})
		sp.TraceID = trace
		if err := h.coll.AddSpan(sp); err != nil {
			t.Fatal(err)
		}
		accepted[trace]++
	}
	wait := func(what string, pred func() bool) {
		if err := h.ev.waitFor(what, pred); err != nil {
			t.Fatal(err)
		}
	}
	violations := []any{}
	start := time.Now()
	// 1. one trace is decided and the sender stalls handing its span upstream
	add("first", 1, true)
	wait("first processed", func() bool { return h.ev.counts["processed"] >= 1 })
	h.clock.Advance(h.tick)
	select {
	case <-gtx.parked:
	case <-time.After(c01Timeout):
		t.Fatal("sender never reached the transmission")
	}
	// 2. the workers keep deciding until the outgoing queue is full
	for i := 0; i < backlog; i++ {
		add(fmt.Sprintf("bulk-%06d", i), 1, true)
	}
	wait("bulk processed", func() bool { return h.ev.counts["processed"] >= 1+backlog })
	h.clock.Advance(h.tick)
	wait("bulk decided", func() bool { return h.ev.counts["decision"] >= 1+backlog })
	// 3. the victim trace is decided while the queue is full
	add("victim", 1, false)
	add("victim", 2, true)
	wait("victim processed", func() bool { return h.ev.counts["processed"] >= 3+backlog })
	h.clock.Advance(h.tick)
	wait("victim decided", func() bool { return h.ev.counts["decision"] >= 2+backlog })
	// 4. upstream recovers
	open()
	// every worker has finished its tick handling (a worker blocked on the full queue has been released)
	wait("ticks finished", func() bool { return h.ev.counts["tick"] >= 3*h.nwork })
	// the sender hands everything that was queued upstream; if something queued never comes out, go on after a
	// grace period and let the oracle below say what is missing (an observation aid, not a verdict)
	h.ev.waitForUpTo(10*time.Second, func() bool { return h.ev.counts["trace_queued"] == h.ev.counts["trace_sent"] })
	// 5. a late span of the victim trace
	add("victim", 3, false)
	wait("late processed", func() bool { return h.ev.counts["processed"] >= 4+backlog })
	// oracle
	gtx.mu.Lock()
	for k, n := range gtx.seen {
		if n != 1 {
			violations = append(violations, map[string]any{"what": "span forwarded more than once", "span": k, "times": n})
		}
	}
	for tr, n := range accepted {
		if gtx.byTrace[tr] != n && len(violations) < 5 {
			violations = append(violations, map[string]any{"what": "accepted spans of a kept trace not all forwarded exactly once", "trace": tr, "accepted": n, "forwarded": gtx.byTrace[tr]})
		}
	}
	gtx.mu.Unlock()
	h.ev.mu.Lock()
	for tr, n := range h.ev.ndec {
		if n != 1 && len(violations) < 8 {
			violations = append(violations, map[string]any{"what": "decisions per trace", "trace": tr, "decisions": n})
		}
	}
	h.ev.mu.Unlock()
	verifkit.WriteJSON(os.Getenv("VERIF_OUT"), map[string]any{"evaluations": 4 + backlog, "distinct": len(accepted), "traces": 1, "violations": violations,
		"samples": []any{map[string]any{"schedule": "sender stalled; 100000 traces decided; victim decided with a full outgoing queue; upstream recovers; late span", "wall_s": time.Since(start).Seconds()}}})
}
