---------------------------- MODULE MCSystemBase ----------------------------
(* CX3: two nodes, no stress relief; traces named <owner><verdict> *)
EXTENDS System
mc_Nodes2  == {"a", "b"}
mc_Traces4 == {"ak", "ad", "bk", "bd"}
mc_Owner4  == ("ak" :> "a" @@ "ad" :> "a" @@ "bk" :> "b" @@ "bd" :> "b")
mc_Keep4   == {"ak", "bk"}
mc_TracesB == {"bk", "bd"}
mc_OwnerB  == ("bk" :> "b" @@ "bd" :> "b")
mc_KeepB   == {"bk"}
mc_Traces3b == {"ak", "bk", "bd"}
mc_Owner3b  == ("ak" :> "a" @@ "bk" :> "b" @@ "bd" :> "b")
mc_Keep3b   == {"ak", "bk"}
mc_Nodes3  == {"a", "b", "c"}
mc_Traces3 == {"ak", "bd", "ck"}
mc_Owner3  == ("ak" :> "a" @@ "bd" :> "b" @@ "ck" :> "c")
mc_Keep3   == {"ak", "ck"}
=============================================================================
