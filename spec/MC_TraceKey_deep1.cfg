SPECIFICATION Spec
CONSTANTS
  DataFields = {"a"}
  Vals = {"s:x", "i:7", "b:true"}
  DelimVals = {}
  MaxSpans = 3
  CfgNames = {"a", "a_ra", "ra"}
  Samplers = {"dynamic", "emadynamic", "emathroughput", "windowedthroughput", "totalthroughput"}
  GhostFields = {"z"}
  ProvValSet = {"s:x", "i:7", "b:true"}
  ProvMaxSpans = 3
  ProvCfgNames = {"a", "a_ra", "ra"}
  ProvUTL = {FALSE}
  ProvMix = "all"
INVARIANTS TypeOK NFSound PermutationInvariant DuplicationInvariant IrrelevantCellsInvariant PairsDistinct PayloadSound ProvenanceInvariant AnyProvenanceInvariant OutConsistent
CHECK_DEADLOCK FALSE
ACTION_CONSTRAINT Dump
VIEW View
