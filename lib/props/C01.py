"""C01 One keep/drop decision per trace, applied to every span."""

PROP = dict(
    level="model_checking",
    technique="TLA+ spec Collector.tla (collector workers, buffer, decision memory, sender) model-checked by TLC; every generated transition replayed into a real InMemCollector under a fake clock with hook-event barriers",
    design_ref="DESIGN.md §5 C01, Appendix A",
    level_text="TLC enumerates every interleaving of span arrivals (root/child, on-time and late), send ticks and a sampler reload for 2 workers x 2 traces x <=3 spans and checks OneDecision/ExactlyOnce on the model; every generated transition is then executed on a real InMemCollector (real cache, decision cache, SamplerFactory, deterministic sampler) and the buffer contents, deadlines, forwarded spans with all decorations, decision and drop counts must equal the model's after each step.",
    level_note="Bounded (2 workers, 2-3 traces, <=3 spans, horizon 4-6 ticks). Worker steps are atomic in this binding (barrier after each step); really concurrent schedules are covered by the recorded-trace stage. Kept-decision capacity is large (eviction is C31's subject). Trusted: clockwork fake clock, the harness transmission recorder.",
    assumptions=["stable membership, no stress toggling (as the property states)", "decision memory large enough that nothing is evicted"],
    stages=[dict(kind="walk", name="core", module="MCCollectorCore", pkg="collect", test="TestVerifCollector", harness=["collect/collector_test.go"],
                 cfg={"quick": "MC_Collector_core_q.cfg", "thorough": "MC_Collector_core.cfg"},
                 budget={"quick": 45, "thorough": 600}, maxwalk=40)],
)
