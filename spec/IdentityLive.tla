--------------------------- MODULE IdentityLive ---------------------------
(***************************************************************************)
(* Trace identity and root status on a LIVE router whose ID-field          *)
(* configuration is hot-reloaded between requests (property C21).          *)
(*                                                                         *)
(* Identity.tla checks the classification function on fresh objects, one   *)
(* configuration per evaluation.  IDFields.TraceNames / ParentNames are    *)
(* `reload: true` settings of the MAIN configuration, and the routers of a *)
(* running process hold ONE configuration object for their whole life, so  *)
(* the statement "for any TraceNames/ParentNames lists, through every      *)
(* ingestion encoding" also quantifies over histories                      *)
(*                                                                         *)
(*     traffic under configuration A ; Reload ; traffic under B ; ...      *)
(*                                                                         *)
(* on the same routers: every event is classified by the configuration IN  *)
(* FORCE WHEN IT IS RECEIVED, identically on every ingest path, whatever   *)
(* the routers saw before and whether or not the reload also changed the   *)
(* sampling rules.                                                         *)
(*                                                                         *)
(* State.  cfg / rv: index of the ID-field configuration (IdConfigs) and   *)
(* of the rules file (RuleSets: which of the ID fields the destination's   *)
(* sampler ALSO uses as key fields) in force.  view[p]: what ingest path p *)
(* has in hand for classifying - the <<cfg, rv>> pair it read at its last  *)
(* request (<<0, 0>>: no request yet).  The statement demands that a path  *)
(* reads the configuration at every request (Send refreshes view[p] before *)
(* classifying); view is hidden from the projection and exists so that the *)
(* transition graph distinguishes "first request of p", "p already served  *)
(* a request under this configuration" and "p last served a request under  *)
(* another ID-field configuration, with the same / with other rules": the  *)
(* replay has to drive the real routers through each of these histories    *)
(* before each Send (an implementation that keeps anything derived from    *)
(* the ID-field names across requests diverges on the last two).           *)
(* drv: the paths driven in this behaviour (at most MaxDrive of them; with *)
(* two, every ordered pair "p served under A, reload, q serves" occurs).   *)
(* out / last: classification of the event in hand and the event itself,    *)
(* until Ack (the answer has gone back to the client and the observer has  *)
(* taken note).  Requests are served one at a time, so Send and Reload     *)
(* start from a state with nothing outstanding: every Send group of the    *)
(* graph is then one distinct history class (view[p] against cfg / rv),    *)
(* and the costly Reload is replayed once per such class.                  *)
(*                                                                         *)
(* Events are sets of the four ID fields holding a non-empty string (one   *)
(* fixed value per field).  Paths in FixedT1 are OTLP trace translations,   *)
(* which always carry T1 (trace.trace_id).  Events on LogPaths are log     *)
(* records (meta.signal_type = "log").  A Send is offered only when at     *)
(* most one CONFIGURED trace-ID name is present: with two, the unchanged   *)
(* code already departs from the statement (known finding                  *)
(* C21-traceid-field-order, covered by Identity.tla).                      *)
(***************************************************************************)
EXTENDS Integers, Sequences, FiniteSets, TLC, Json

CONSTANTS T1, T2,       \* trace-ID field names
          P1, P2,       \* parent-ID field names
          IdConfigs,    \* tuple of [tn |-> <<names>>, pn |-> <<names>>]: the IDFields sections the operator may put in force
          RuleSets,     \* tuple of sets of ID fields that are also sampler key fields: the rules files
          Paths,        \* ingest paths offered to Init
          FixedT1,      \* OTLP trace paths: the translator always supplies T1
          LogPaths,     \* OTLP logs paths: every event is a log record
          Events,       \* set of events (subsets of {T1, T2, P1, P2})
          MaxDrive,     \* number of paths driven in one behaviour
          Both,         \* TRUE: one Reload may change the main and the rules file together; FALSE: one file per Reload
          Refresh       \* "always": the statement (a path reads the configuration at every request).  "rules" / "never":
                        \* sanity variants that must VIOLATE the invariants below (a path keeps what it has in hand
                        \* until the rules change / for ever); never used by a cfg of the check itself

VARIABLES drv, cfg, rv, view, out, last, act
vars == <<drv, cfg, rv, view, out, last, act>>

NC == Len(IdConfigs)
NR == Len(RuleSets)
Fresh == <<0, 0>>
NoOut == [tid |-> "-", root |-> "-"]
NoLast == [path |-> "-", evSet |-> {}]

\* configuration families offered to the cfg files -------------------------
IdConfigsQuick == << [tn |-> <<T1>>, pn |-> <<P1>>],        \* both lists renamed by the reload: with the events below a stale
                     [tn |-> <<T2>>, pn |-> <<P2>>] >>      \* trace-name list and a stale parent-name list each show on their own
IdConfigsBig == << [tn |-> <<T1>>, pn |-> <<P1>>],
                   [tn |-> <<T2>>, pn |-> <<P1>>],
                   [tn |-> <<T1>>, pn |-> <<P2>>],
                   [tn |-> <<T2>>, pn |-> <<P2>>],
                   [tn |-> <<T1, T2>>, pn |-> <<P1, P2>>] >>
RuleSetsQuick == << {}, {T2, P1} >>
RuleSetsBig == << {}, {T2, P1}, {T1, P2} >>
EventsQuick == {{T1}, {T2}, {T1, P1}, {T1, P2}, {T2, P1}, {T2, P2}, {T1, T2}, {T1, T2, P1, P2}}
EventsBig == {e \in SUBSET {T1, T2, P1, P2} : e \cap {T1, T2} # {}} \cup {{P1}}

InSeq(s, x) == \E i \in 1..Len(s) : s[i] = x
Min(S) == CHOOSE x \in S : \A y \in S : x <= y

\* the events a path can carry
EventsOf(p) == {e \in Events : p \in FixedT1 => T1 \in e}

\* ---- the C21 statement, for configuration c (a record of IdConfigs) -------
\* (no meta.trace_id in this module's events: the ID is the first configured
\* name holding a non-empty string)
Tid(c, e) == LET h == {k \in 1..Len(c.tn) : c.tn[k] \in e}
             IN  IF h = {} THEN "" ELSE c.tn[Min(h)]
HasParent(c, e) == \E k \in 1..Len(c.pn) : c.pn[k] \in e
Classify(c, e, p) ==
  LET t == Tid(c, e)
  IN  [tid |-> t,
       root |-> IF t = "" THEN "n/a" ELSE IF ~HasParent(c, e) /\ p \notin LogPaths THEN "yes" ELSE "no"]

\* outside the territory of the known findings of Identity.tla
OneConfiguredTraceField(c, e) == Cardinality({k \in 1..Len(c.tn) : c.tn[k] \in e}) <= 1

\* -------------------------------------------------------------------------
Init == /\ drv \in {S \in SUBSET Paths : Cardinality(S) >= 1 /\ Cardinality(S) <= MaxDrive}
        /\ cfg = 1 /\ rv = 1
        /\ view = [p \in Paths |-> Fresh]
        /\ out = NoOut /\ last = NoLast
        /\ act = [name |-> "Init"]

\* path p receives one event: it reads the configuration in force (view is
\* refreshed) and classifies the event by what it then has in hand
Idle == last = NoLast
Send(p, e) ==
  /\ Idle
  /\ p \in drv /\ e \in EventsOf(p)
  /\ OneConfiguredTraceField(IdConfigs[cfg], e)
  /\ view' = [view EXCEPT ![p] = IF \/ Refresh = "always" \/ view[p] = Fresh
                                     \/ (Refresh = "rules" /\ view[p][2] # rv)
                                  THEN <<cfg, rv>> ELSE @]
  /\ out' = Classify(IdConfigs[view'[p][1]], e, p)
  /\ last' = [path |-> p, evSet |-> e]
  /\ UNCHANGED <<drv, cfg, rv>>
  /\ act' = [name |-> "Send", path |-> p, evSet |-> e]

\* the operator's files change and the configuration object is reloaded:
\* main only (c changes), rules only (r changes) or both
Reload(c, r) ==
  /\ Idle
  /\ <<c, r>> # <<cfg, rv>>
  /\ IF Both THEN TRUE ELSE (c = cfg \/ r = rv)
  /\ cfg' = c /\ rv' = r
  /\ UNCHANGED <<drv, view, out, last>>
  /\ act' = [name |-> "Reload", tn |-> IdConfigs[c].tn, pn |-> IdConfigs[c].pn, keysSet |-> RuleSets[r]]

\* the answer is delivered; nothing is outstanding any more
Ack == /\ ~Idle
       /\ out' = NoOut /\ last' = NoLast
       /\ UNCHANGED <<drv, cfg, rv, view>>
       /\ act' = [name |-> "Ack"]

Next == \/ \E p \in Paths, e \in Events : Send(p, e)
        \/ Ack
        \/ \E c \in 1..NC, r \in 1..NR : Reload(c, r)
Spec == Init /\ [][Next]_vars

\* -------------------------------------------------------------------------
TypeOK == /\ drv \subseteq Paths
          /\ cfg \in 1..NC /\ rv \in 1..NR
          /\ \A p \in Paths : view[p] = Fresh \/ (view[p][1] \in 1..NC /\ view[p][2] \in 1..NR)
          /\ out.tid \in {"-", "", T1, T2} /\ out.root \in {"-", "n/a", "yes", "no"}
          /\ last.evSet \subseteq {T1, T2, P1, P2}

Done == last # NoLast
Cur == IdConfigs[cfg]     \* no Reload while an answer is outstanding, so while Done holds cfg is the configuration the event was received under

\* C21: belongs to a trace exactly when a trace-ID field configured WHEN THE EVENT WAS RECEIVED holds a non-empty string
C21LiveBelongs == Done => ((out.tid # "") <=> \E k \in 1..Len(Cur.tn) : Cur.tn[k] \in last.evSet)

\* C21: the ID is the first such field in the order configured when the event was received; no other field can supply it
C21LiveConfiguredOrder ==
  Done => \A k \in 1..Len(Cur.tn) :
            (Cur.tn[k] \in last.evSet /\ \A j \in 1..(k-1) : Cur.tn[j] \notin last.evSet) => out.tid = Cur.tn[k]

\* C21: root exactly when in a trace, no parent-ID field configured when the event was received holds a non-empty string, not a log record
C21LiveRoot ==
  Done => ((out.root = "yes") <=> /\ out.tid # ""
                                  /\ ~ \E k \in 1..Len(Cur.pn) : Cur.pn[k] \in last.evSet
                                  /\ last.path \notin LogPaths)

\* C21: "through every ingestion encoding", "for any configuration": the answer is a function of the configuration in
\* force and the event alone - not of the path (log records apart), of the rules, or of what any path served before
C21LiveHistoryFree ==
  Done => \A p \in Paths : (p \in LogPaths <=> last.path \in LogPaths) => Classify(Cur, last.evSet, p) = out

\* every path that has served a request read the configuration then in force (view never runs ahead of cfg/rv history)
ViewOK == \A p \in Paths : (p \notin drv => view[p] = Fresh) /\ (Done => view[last.path] = <<cfg, rv>>)

Hid == [drv |-> drv, view |-> view, last |-> last]
St == [drv |-> drv, cfg |-> cfg, rv |-> rv, view |-> view, out |-> out, last |-> last]
\* what the harness reads back from the real configuration object and the routers' neighbours
Abs == [tn |-> IdConfigs[cfg].tn, pn |-> IdConfigs[cfg].pn, keysSet |-> RuleSets[rv], out |-> out]
Dump == PrintT(ToJson([fs |-> St, fa |-> act.name, act |-> act', ts |-> St', fabs |-> Abs, tabs |-> Abs']))
View == <<drv, cfg, rv, view, out, last>>
=============================================================================
