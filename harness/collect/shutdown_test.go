//go:build verif

package collect

import (
	"bytes"
	"context"
	"encoding/json"
	"fmt"
	"io"
	"net/http"
	"net/http/httptest"
	"regexp"
	"runtime"
	"strings"
	"sync"
	"testing"
	"time"

	"github.com/jonboulle/clockwork"
	"github.com/tinylib/msgp/msgp"
	"go.opentelemetry.io/otel/trace/noop"

	"github.com/honeycombio/refinery/config"
	"github.com/honeycombio/refinery/internal/health"
	"github.com/honeycombio/refinery/internal/peer"
	"github.com/honeycombio/refinery/internal/verifkit"
	"github.com/honeycombio/refinery/logger"
	"github.com/honeycombio/refinery/metrics"
	"github.com/honeycombio/refinery/pubsub"
	"github.com/honeycombio/refinery/sample"
	"github.com/honeycombio/refinery/sharder"
	"github.com/honeycombio/refinery/transmit"
	"github.com/honeycombio/refinery/types"
)

// Binding of spec/Shutdown.tla (C36): a real InMemCollector feeding a real
// DirectTransmission (fake clocks) that talks to a loopback server standing
// for Honeycomb; StopCollector / StopTransmission call the components' real
// Stop methods in the order startstop uses. Observed: what Honeycomb received,
// panics, and goroutines of refinery packages still alive after the stop.

type c36Server struct {
	mu       sync.Mutex
	ids      map[int]int
	srv      *httptest.Server
	throttle bool                 // rate-limit every batch: 429 + Retry-After 1 s until that second has passed
	first    map[string]time.Time // (fake) time of the first attempt per batch body
	now      func() time.Time
}

func newC36Server() *c36Server {
	s := &c36Server{ids: map[int]int{}, first: map[string]time.Time{}, now: time.Now}
	s.srv = httptest.NewServer(http.HandlerFunc(func(w http.ResponseWriter, r *http.Request) {
		body, _ := io.ReadAll(r.Body)
		s.mu.Lock()
		t0, seen := s.first[string(body)]
		if !seen {
			t0 = s.now()
			s.first[string(body)] = t0
		}
		limited := s.throttle && s.now().Sub(t0) < time.Second // still inside the Retry-After window
		s.mu.Unlock()
		if limited {
			w.Header().Set("Retry-After", "1")
			w.WriteHeader(http.StatusTooManyRequests)
			return
		}
		var js bytes.Buffer
		var evs []map[string]any
		if _, err := msgp.UnmarshalAsJSON(&js, body); err == nil {
			json.Unmarshal(js.Bytes(), &evs)
		}
		s.mu.Lock()
		for _, e := range evs {
			if data, ok := e["data"].(map[string]any); ok {
				if id, ok := data["sid"].(float64); ok {
					s.ids[int(id)]++
				}
			}
		}
		s.mu.Unlock()
		resp := make([]map[string]int, len(evs))
		for i := range resp {
			resp[i] = map[string]int{"status": 202}
		}
		w.Header().Set("Content-Type", "application/json")
		json.NewEncoder(w).Encode(resp)
	}))
	return s
}

type c36Harness struct {
	h            *c01Harness // reused for trace-id selection and span construction
	srv          *c36Server
	tx           *transmit.DirectTransmission
	txClock      *clockwork.FakeClock
	coll         *InMemCollector
	clock        *clockwork.FakeClock
	met          *metrics.MockMetrics
	ev           *c01Events
	phase        string
	panicked     bool
	base         map[string]bool
	added, ticks int
	cleanup      func()
	wrapMet      func(metrics.Metrics) metrics.Metrics // optional: the collector (only) is given the wrapped metrics
}

var c36RefineryFrame = regexp.MustCompile(`github.com/honeycombio/refinery/(collect|transmit)[/.(]`)

// refineryGoroutines returns the number of goroutines whose stack shows a
// function of a refinery component (test files and the harness excluded).
func c36RefineryGoroutines() (int, string) {
	buf := make([]byte, 1<<20)
	buf = buf[:runtime.Stack(buf, true)]
	n := 0
	sample := ""
	for _, g := range strings.Split(string(buf), "\n\n") {
		if strings.Contains(g, "c36RefineryGoroutines") {
			continue
		}
		hit := false
		for _, line := range strings.Split(g, "\n") {
			if c36RefineryFrame.MatchString(line) && !strings.Contains(line, "_test.go") && !strings.Contains(line, "zzverif") && !strings.Contains(line, ".c36") && !strings.Contains(line, ".c01") && !strings.Contains(line, "TestVerif") {
				hit = true
			}
		}
		if hit {
			n++
			if sample == "" {
				sample = g
			}
		}
	}
	return n, sample
}

func (s *c36Harness) Reset(init map[string]any) error {
	if s.cleanup != nil {
		s.cleanup()
		s.cleanup = nil
	}
	p := c01Map(init["params"])
	kept := map[string]bool{}
	for _, t := range p["kept"].([]any) {
		kept[t.(string)] = true
	}
	s.srv = newC36Server()
	s.h = &c01Harness{}
	h := s.h
	h.tick = time.Minute
	h.conf = &config.MockConfig{
		GetHoneycombAPIVal: s.srv.srv.URL,
		GetTracesConfigVal: config.TracesConfig{SendTicker: config.Duration(h.tick), SendDelay: config.Duration(h.tick), TraceTimeout: config.Duration(h.tick), MaxBatchSize: 500},
		SampleCache:        config.SampleCacheConfig{KeptSize: 10000, DroppedSize: 100000, SizeCheckInterval: config.Duration(time.Hour)},
		GetSamplerTypeVal:  &config.DeterministicSamplerConfig{SampleRate: 2},
		TraceIdFieldNames:  []string{"trace.trace_id"},
		ParentIdFieldNames: []string{"trace.parent_id"},
		GetCollectionConfigVal: config.CollectionConfig{WorkerCount: 2, IncomingQueueSize: 1000, PeerQueueSize: 1000,
			HealthCheckTimeout: config.Duration(time.Hour * 100000), ShutdownDelay: config.Duration(time.Millisecond)},
	}
	s.met = &metrics.MockMetrics{}
	s.met.Start()
	s.clock, s.txClock = clockwork.NewFakeClock(), clockwork.NewFakeClock()
	s.srv.now = s.txClock.Now
	s.tx = transmit.NewDirectTransmission(types.TransmitTypeUpstream, http.DefaultTransport.(*http.Transport).Clone(), 500, time.Second, 10*time.Second, false, nil)
	s.tx.Config, s.tx.Logger, s.tx.Metrics, s.tx.Version, s.tx.Clock = h.conf, &logger.NullLogger{}, s.met, "verif", s.txClock
	if err := s.tx.Start(); err != nil {
		return err
	}
	s.ev = newC01Events()
	SetVerifHooks(&VerifHooks{Emit: s.ev.emit})
	hr := &health.Health{Clock: clockwork.NewFakeClock()}
	hr.Start()
	lps := &pubsub.LocalPubSub{Config: h.conf, Metrics: s.met}
	lps.Start()
	sf := &sample.SamplerFactory{Config: h.conf, Metrics: s.met, Logger: &logger.NullLogger{}}
	if err := sf.Start(); err != nil {
		return err
	}
	var collMet metrics.Metrics = s.met
	if s.wrapMet != nil {
		collMet = s.wrapMet(s.met)
	}
	s.coll = &InMemCollector{Config: h.conf, Clock: s.clock, Logger: &logger.NullLogger{}, Tracer: noop.NewTracerProvider().Tracer("verif"),
		Health: hr, Sharder: &sharder.MockSharder{Self: &sharder.TestShard{Addr: "self"}}, Transmission: s.tx, PeerTransmission: &c01Tx{h: h, seen: map[string]int{}},
		PubSub: lps, Metrics: collMet, SamplerFactory: sf, StressRelief: &c01Stress{}, Peers: peer.NewMockPeers([]string{"a"}, "a")}
	if err := s.coll.Start(); err != nil {
		return err
	}
	ctx, cancel := context.WithTimeout(context.Background(), c01Timeout)
	defer cancel()
	if err := s.clock.BlockUntilContext(ctx, 3); err != nil {
		return err
	}
	if err := s.txClock.BlockUntilContext(ctx, 2); err != nil {
		return err
	}
	// trace ids realising the kept/dropped verdicts at rate 2
	h.ids, h.rev = map[string]string{}, map[string]string{}
	for _, tr := range p["traces"].([]any) {
		t := tr.(string)
		for n := 0; ; n++ {
			id := fmt.Sprintf("%s-%06d", t, n)
			if h.keepAt(id, 2) == kept[t] {
				h.ids[t], h.rev[id] = id, t
				break
			}
		}
	}
	s.phase, s.panicked, s.added, s.ticks = "running", false, 0, 0
	srv, tx, coll := s.srv, s.tx, s.coll
	s.cleanup = func() {
		func() {
			defer func() { recover() }()
			if s.phase == "running" {
				coll.Stop()
			}
			if s.phase != "stopped" {
				tx.Stop()
			}
		}()
		sf.Stop()
		hr.Stop()
		lps.Stop()
		srv.srv.Close()
		SetVerifHooks(nil)
	}
	return nil
}

func (s *c36Harness) pendingTx() int {
	v, _ := s.met.Get("libhoney_upstream_queued_items")
	return int(v)
}

func (s *c36Harness) Apply(a map[string]any) (err error) {
	defer func() {
		if r := recover(); r != nil {
			s.panicked = true
			err = nil
		}
	}()
	switch verifkit.Str(a, "name") {
	case "Span":
		sp := s.h.span(map[string]any{"t": a["t"], "id": a["id"], "kind": "span", "root": false, "crate": float64(0)})
		sp.APIHost = s.srv.srv.URL
		if err := s.coll.AddSpan(sp); err != nil {
			return err
		}
		s.added++
		n := s.added
		return s.ev.waitFor("span processed", func() bool { return s.ev.counts["processed"] >= n })
	case "Tick":
		s.ticks++
		n := s.ticks
		s.clock.Advance(time.Minute)
		if err := s.ev.waitFor("ticks", func() bool { return s.ev.counts["tick"] >= 2*n }); err != nil {
			return err
		}
		return s.ev.waitFor("sender idle", func() bool { return s.ev.counts["trace_queued"] == s.ev.counts["trace_sent"] })
	case "Dispatch":
		s.txClock.Advance(time.Second)
		s.txClock.Advance(250 * time.Millisecond)
		deadline := time.Now().Add(c01Timeout)
		for s.pendingTx() != 0 {
			if time.Now().After(deadline) {
				return fmt.Errorf("barrier timeout: dispatch")
			}
			time.Sleep(200 * time.Microsecond)
		}
		return nil
	case "StopCollector":
		s.phase = "collector-stopped"
		return s.coll.Stop()
	case "StopTransmission":
		s.phase = "stopped"
		s.srv.mu.Lock()
		s.srv.throttle = verifkit.Bool(a, "throttled")
		s.srv.mu.Unlock()
		done := make(chan error, 1)
		go func() {
			defer func() {
				if r := recover(); r != nil {
					s.panicked = true
					done <- nil
				}
			}()
			done <- s.tx.Stop()
		}()
		// while Stop runs, let any retry back-off on the fake clock elapse
		deadline := time.Now().Add(c01Timeout)
		for {
			select {
			case err := <-done:
				return err
			default:
			}
			if time.Now().After(deadline) {
				return fmt.Errorf("barrier timeout: transmission Stop")
			}
			ctx, cancel := context.WithTimeout(context.Background(), 20*time.Millisecond)
			if s.txClock.BlockUntilContext(ctx, 1) == nil {
				s.txClock.Advance(2 * time.Second)
			}
			cancel()
		}
	}
	return fmt.Errorf("unknown action %v", a)
}

func (s *c36Harness) Project() (any, error) {
	buffered := []any{}
	if s.phase == "running" {
		for _, t := range []string{"k1", "k2", "d1"} {
			id := s.h.ids[t]
			cl := s.coll.workers[s.coll.getWorkerIDForTrace(id)]
			ch := make(chan struct{})
			cl.pause <- ch
			if tr := cl.cache.Get(id); tr != nil {
				for _, sp := range tr.GetSpans() {
					if v, ok := sp.Data.Get("sid").(int); ok {
						buffered = append(buffered, v)
					}
				}
			}
			close(ch)
		}
	}
	s.srv.mu.Lock()
	hny := []any{}
	for id, n := range s.srv.ids {
		if n == 1 {
			hny = append(hny, id)
		} else {
			hny = append(hny, fmt.Sprintf("%d x%d", id, n))
		}
	}
	s.srv.mu.Unlock()
	leaked := 0
	if s.phase == "stopped" {
		// give exiting goroutines time to finish; a goroutine still inside a refinery component after that is a leak
		deadline := time.Now().Add(5 * time.Second)
		for {
			n, _ := c36RefineryGoroutines()
			leaked = n
			if n == 0 || time.Now().After(deadline) {
				break
			}
			time.Sleep(2 * time.Millisecond)
		}
		// the sampler factory, health and pubsub objects of the harness are still running by design: they are excluded by package
	}
	return map[string]any{"phase": s.phase, "bufferedSet": buffered, "pendingCount": s.pendingTx(), "hnySet": hny, "leaked": leaked, "panicked": s.panicked}, nil
}

func TestVerifShutdown(t *testing.T) {
	s := &c36Harness{}
	err := verifkit.Main(s)
	if s.cleanup != nil {
		s.cleanup()
	}
	if err != nil {
		t.Fatal(err)
	}
}
