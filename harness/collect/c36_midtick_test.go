//go:build verif

package collect

// Binding of spec/StopOrder.tla: InMemCollector.Stop overlapping a send tick.
//
// The model distinguishes two points inside a worker's tick: the tick has been
// taken (TickBegin) and the decision is about to be recorded (Decide). The
// real worker calls its metrics collaborator at exactly these points
// (Count("span_processed") at the top of the ticker case, and
// Histogram("get_sample_rate_duration_ms") right before sampleCache.Record and
// send), so a metrics wrapper can park the worker there without any hook. With
// the worker parked, Stop is started on another goroutine and given time to
// run as far as its own order lets it (in the repository's order it blocks in
// workersWG.Wait()); then the worker is released. If a part the worker still
// needs was taken down meanwhile, the real process panics ("send on closed
// channel") - which is what C36 forbids. The only timing assumption is in the
// harmless direction: if Stop is slower than the grace period, a bad order is
// missed, never a good one reported.
//
// A panic on a collector goroutine kills the process, so the scenarios run in
// a child process (the test binary re-executed) and the parent reads its fate.

import (
	"bytes"
	"encoding/json"
	"fmt"
	"os"
	"os/exec"
	"strings"
	"sync"
	"testing"
	"time"

	"github.com/honeycombio/refinery/internal/verifkit"
	"github.com/honeycombio/refinery/metrics"
)

type c36Gate struct {
	metrics.Metrics
	mu      sync.Mutex
	point   string        // "span_processed" | "get_sample_rate_duration_ms"
	armed   bool          // park the next call at point
	parked  chan struct{} // closed when a worker is parked
	release chan struct{} // closed to let it go on
}

func (g *c36Gate) arm(point string) {
	g.mu.Lock()
	g.point, g.armed = point, true
	g.parked, g.release = make(chan struct{}), make(chan struct{})
	g.mu.Unlock()
}

func (g *c36Gate) maybePark(name string) {
	g.mu.Lock()
	hit := g.armed && name == g.point
	var parked, release chan struct{}
	if hit {
		g.armed = false
		parked, release = g.parked, g.release
	}
	g.mu.Unlock()
	if hit {
		close(parked)
		<-release
	}
}

func (g *c36Gate) Count(name string, n int64) {
	g.maybePark(name)
	g.Metrics.Count(name, n)
}

func (g *c36Gate) Histogram(name string, obs float64) {
	g.maybePark(name)
	g.Metrics.Histogram(name, obs)
}

type c36Scenario struct {
	Point   string `json:"point"`   // where the worker is parked
	Verdict string `json:"verdict"` // "drop" | "keep" | "both": decisions the overlapped tick still has to record
	Spans   int    `json:"spans"`
}

func c36Scenarios(tier string) []c36Scenario {
	var out []c36Scenario
	for _, pt := range []string{"span_processed", "get_sample_rate_duration_ms"} {
		for _, v := range []string{"drop", "keep", "both"} {
			out = append(out, c36Scenario{Point: pt, Verdict: v, Spans: 1})
			if tier == "thorough" {
				out = append(out, c36Scenario{Point: pt, Verdict: v, Spans: 3})
			}
		}
	}
	return out
}

// c36RunScenario executes one overlapped schedule of StopOrder.tla on a real collector.
func c36RunScenario(sc c36Scenario) error {
	gate := &c36Gate{}
	s := &c36Harness{wrapMet: func(m metrics.Metrics) metrics.Metrics { gate.Metrics = m; return gate }}
	traces := []any{"k1", "d1"}
	if err := s.Reset(map[string]any{"params": map[string]any{"kept": []any{"k1"}, "traces": traces}}); err != nil {
		return fmt.Errorf("reset: %w", err)
	}
	var want []string
	switch sc.Verdict {
	case "drop":
		want = []string{"d1"}
	case "keep":
		want = []string{"k1"}
	default:
		want = []string{"d1", "k1"}
	}
	id := 0
	for _, t := range want {
		for i := 0; i < sc.Spans; i++ {
			id++
			if err := s.Apply(map[string]any{"name": "Span", "t": t, "id": float64(id)}); err != nil {
				return fmt.Errorf("span: %w", err)
			}
		}
	}
	// the traces' deadline passes; the worker that takes the tick (or reaches the decision) parks
	gate.arm(sc.Point)
	s.clock.Advance(2 * time.Minute)
	select {
	case <-gate.parked:
	case <-time.After(c01Timeout):
		return fmt.Errorf("no worker reached %s", sc.Point)
	}
	stopped := make(chan error, 1)
	go func() { stopped <- s.coll.Stop() }()
	s.phase = "collector-stopped"
	// Stop runs as far as its own order lets it while the worker is parked
	early := false
	select {
	case err := <-stopped:
		// Stop did not wait for a worker that is still inside its tick; the released worker then runs against a stopped collector
		if err != nil {
			return fmt.Errorf("Stop: %w", err)
		}
		early = true
	case <-time.After(400 * time.Millisecond):
	}
	close(gate.release)
	if !early {
		select {
		case err := <-stopped:
			if err != nil {
				return fmt.Errorf("Stop: %w", err)
			}
		case <-time.After(c01Timeout):
			return fmt.Errorf("collector Stop did not return after the overlapped tick finished")
		}
	} else {
		time.Sleep(200 * time.Millisecond) // lets the released worker run into whatever Stop took down
	}
	if err := s.Apply(map[string]any{"name": "StopTransmission", "throttled": false}); err != nil {
		return fmt.Errorf("transmission stop: %w", err)
	}
	if s.cleanup != nil {
		s.cleanup()
		s.cleanup = nil
	}
	return nil
}

func TestVerifC36MidTick(t *testing.T) {
	if sc := os.Getenv("VERIF_C36_CHILD"); sc != "" {
		var s c36Scenario
		if err := json.Unmarshal([]byte(sc), &s); err != nil {
			t.Fatal(err)
		}
		if err := c36RunScenario(s); err != nil {
			fmt.Println("C36CHILD-ERROR:", err)
			os.Exit(3)
		}
		fmt.Println("C36CHILD-OK")
		return
	}
	tier := os.Getenv("VERIF_TIER")
	rounds := 2
	if tier == "thorough" {
		rounds = 5
	}
	var violations []map[string]any
	var samples []any
	evals := 0
	var failure string
	for r := 0; r < rounds && len(violations) < 3 && failure == ""; r++ {
		for _, sc := range c36Scenarios(tier) {
			js, _ := json.Marshal(sc)
			cmd := exec.Command(os.Args[0], "-test.run", "^TestVerifC36MidTick$", "-test.count", "1")
			cmd.Env = append(os.Environ(), "VERIF_C36_CHILD="+string(js))
			var out bytes.Buffer
			cmd.Stdout, cmd.Stderr = &out, &out
			err := cmd.Run()
			evals++
			text := out.String()
			switch {
			case err == nil && strings.Contains(text, "C36CHILD-OK"):
				if len(samples) < 2 {
					samples = append(samples, map[string]any{"scenario": sc, "outcome": "Stop returned, no panic"})
				}
			case strings.Contains(text, "panic:") || strings.Contains(text, "fatal error:"):
				i := strings.Index(text, "panic:")
				if i < 0 {
					i = strings.Index(text, "fatal error:")
				}
				end := i + 1500
				if end > len(text) {
					end = len(text)
				}
				violations = append(violations, map[string]any{"scenario": sc, "round": r,
					"what": "the process panicked while InMemCollector.Stop overlapped a send tick (StopOrder.tla: NoUseAfterStop)", "output": text[i:end]})
			default:
				tail := text
				if len(tail) > 1500 {
					tail = tail[len(tail)-1500:]
				}
				failure = fmt.Sprintf("scenario %s: child ended with %v and no panic:\n%s", js, err, tail)
			}
			if len(violations) >= 3 || failure != "" {
				break
			}
		}
	}
	res := map[string]any{"evaluations": evals, "distinct": len(c36Scenarios(tier)), "violations": violations, "samples": samples,
		"note": "schedules of StopOrder.tla in which Stop overlaps a send tick (worker parked through the metrics collaborator at TickBegin / Decide, Stop started, worker released), each on a fresh real collector + transmission in a child process; oracle = no panic, Stop returns; seed " + os.Getenv("VERIF_SEED")}
	if failure != "" {
		res["error"] = failure
	}
	if err := verifkit.WriteJSON(os.Getenv("VERIF_OUT"), res); err != nil {
		t.Fatal(err)
	}
}
