SPECIFICATION Spec
CONSTANTS
  Traces <- mc_Traces
  WorkerOf <- mc_WorkerOf
  Verdicts <- mc_Verdicts
  Reason <- mc_Reason
  SpanShapes <- mc_Shapes
  Cfgs <- mc_Cfgs
  InitCfg <- mc_Cfg0
  StressRates <- mc_Stress
  ReloadPairs <- mc_ReloadPairs
  EjectShares = {1}
  DefTimeout = 60
  DefDelay = 2
  MaxSpans = 2
  MaxNow = 2
  TraceTimeout = 3
  SendDelay = 1
  SpanLimit = 0
  MaxExpired = 0
  ArriveUntil = 0
INVARIANTS TypeOK OneDecision ExactlyOnce DeadlineRule RatesCompose SendReasonRule DryRunForwardsAll
PROPERTIES DecidedOnTime DeadlineNeverLater BacklogOrder EjectDecides
ACTION_CONSTRAINT Dump
VIEW View
CHECK_DEADLOCK FALSE
