SPECIFICATION TraceSpec
CONSTANTS
  Subs1 = {"a", "b"}
  Timeouts1 = {3, 5}
  Subs2 = {}
  Timeouts2 = {}
  Tick = 2
  UnitMs = 250
  Exact = FALSE
INVARIANTS C30Alive C30Ready CodeWithinStatement
CONSTRAINT HWM
POSTCONDITION TraceAccepted
CHECK_DEADLOCK FALSE
