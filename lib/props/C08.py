"""C08 The rules sampler follows the documented rule semantics."""

import os
import sys

_H = ["sample/c08rules_test.go"]


def _walk(name, cfg, budget):
    return dict(kind="walk", name=name, module="Rules", pkg="sample", test="TestVerifC08Rules", harness=_H,
                cfg=cfg, budget=budget, maxwalk=4, tlc_timeout={"quick": 900, "thorough": 1800})


def _mode():
    """The stage list depends on the tier (the quick tier is ONE TLC run + ONE go test over the union of
    the families at the small bound; the thorough tier has one stage per family at the large bound).
    lib/stages.py needs a cfg for every stage in every tier, hence this look at the command line.
    With --replay every stage is listed (vcheck picks the one named in the replay file)."""
    argv = sys.argv
    if "--replay" in argv or any(a.startswith("--replay=") for a in argv):
        return "replay"
    for i, a in enumerate(argv):
        if a == "--tier" and i + 1 < len(argv):
            return argv[i + 1]
        if a.startswith("--tier="):
            return a.split("=", 1)[1]
    return os.environ.get("VERIF_TIER", "quick")


_QUICK = [_walk("quick_all", "MC_Rules_quick.cfg", 60)]
_THOROUGH = [_walk("single", "MC_Rules_single_big.cfg", 150),
             _walk("pair_trace", "MC_Rules_pair_trace_big.cfg", 200),
             _walk("pair_span", "MC_Rules_pair_span_big.cfg", 200),
             _walk("list", "MC_Rules_list_big.cfg", 150),
             _walk("mix", "MC_Rules_mix_big.cfg", 150),
             _walk("downstream", "MC_Rules_ds_big.cfg", 150)]
_PROB = [dict(kind="gotest", name="prob", pkg="sample", test="TestVerifC08Prob", harness=_H, budget={"quick": 30, "thorough": 120})]
_STAGES = {"quick": _QUICK + _PROB, "thorough": _THOROUGH + _PROB, "replay": _QUICK + _THOROUGH + _PROB}[_mode() if _mode() in ("quick", "thorough", "replay") else "quick"]

PROP = dict(
    level="model_checking",
    technique="TLA+ spec Rules.tla (the documented rule semantics transcribed from rules_conditions.md / rules.md as operators over an abstract typed value domain) enumerated exhaustively by TLC; every (rule list, trace) vector is replayed into the real RulesBasedSampler obtained from the real config loader and SamplerFactory (function-vector replay, B3); statistical clause by a 6.5-sigma binomial band",
    design_ref="DESIGN.md §5 C08",
    level_text="TLC enumerates every single condition (15 operators x 5 datatypes x typed condition values x typed span values incl. absent), every two-condition rule over two-span traces (Field/Fields, root. prefix, ?.NUM_DESCENDANTS, has-root-span, scope trace/span, with and without root span), every Fields list mixing a plain and a root.-prefixed name (both orders) over three-span traces with the field absent / matching / non-matching on each span independently (both scopes, root arriving first, in the middle or last) every rule list of length <= 2 (drop / SampleRate / downstream sampler / default) and every list of two or three rules that delegate to their OWN downstream sampler (deterministic with rates 1/2/3/6, dynamic, EMA dynamic, total / EMA / windowed throughput; FieldList [f] or [g]) or are plain Drop / SampleRate rules, independently unnamed or carrying the same Name, with the same scope and number of conditions, against trace IDs whose hash lies in each bucket that tells the deterministic rates apart - within the bound, computes the documented outcome and checks FirstMatch / Decision / Delegation (who decided, the deterministic threshold hash(traceID) <= MaxUint32/N and rate N of the MATCHED rule's sampler, the sample key made of the matched rule's own FieldList) / OwnSampler (non-interference: the answer does not change when another rule's downstream sampler or any rule's Name is replaced) / AbsentNeverMatches on the model; each vector is then built as a real rules file loaded by config.NewConfig, a real types.Trace with msgpack payloads, and the matched rule (as far as the reason tells: scope word, Name, kind of downstream sampler), who decided, keep/drop, rate and the set of values in the sample key returned by GetSampleRate must equal the model's outcome (also with the spans of the trace in the opposite arrival order). The known deviation (string-coerced matchers match an absent field read as \"<nil>\") is a named second successor per (operator, datatype); any other mismatch is a violation.",
    level_note="Bounded-exhaustive over the abstract value domain (7-12 strings, 5 ints, 2 floats, booleans), not over all strings/numbers; combinations the documents leave open (untyped comparison across kinds, ordering of booleans, string form of integral floats, not-exists on root.-prefixed fields without root span, conversion of float-looking strings to int) are not enumerated; regular expressions are three fixed patterns; CheckNestedFields is off; the one-step graph is replayed by a linear driver in the harness with verifkit.Walk's acceptance rule (verifkit.Walk is quadratic on one-step graphs); 'probability 1/N' is a statistical band (gotest stage), keep/drop is compared exactly only for drop rules, rate 1, the rate-1 dynamic downstream sampler and deterministic downstream samplers (rates dividing 6, one trace ID per hash bucket of width 2^32/6: the threshold itself is C10's); for the EMA / throughput downstream kinds only who decided and the sample key are compared (their rate depends on traffic and wall-clock time), so two such rules differing only in their goal are not told apart; dynamic downstream samplers only with SampleRate 1; the rules metadata does not list DeterministicSampler as a downstream sampler, so rule lists that use one are loaded by the real loader with NoValidate (as `refinery --no-validate`), all others with validation; rule lists in which two rules that look the same in the reason (scope word, Name, kind) are compared differently (e.g. two unnamed plain rules, one Drop and one SampleRate 3) are not enumerated.",
    assumptions=["dynsampler-go with SampleRate 1 keeps every trace at rate 1", "Go's math/rand draws are independent and uniform",
                 "the deterministic sampler hashes a trace ID as the first 4 bytes (big endian) of sha1(traceID + salt) (C10 checks this)",
                 "bounded abstract value domain"],
    stages=_STAGES,
)
