//go:build verif

package config

import (
	"crypto/md5"
	"encoding/hex"
	"fmt"
	"math/rand"
	"os"
	"path/filepath"
	"strconv"
	"testing"
	"time"

	"github.com/honeycombio/refinery/internal/verifkit"
)

// c27Version is the "running version" of the acceptance oracle: startup is
// NewConfig(opts, c27Version). At v3.0.0 Collection.CacheCapacity (last
// version v3.0.0) still only warns, RedisPeerManagement.Database and .Prefix
// (last version v2.6) have been removed.
const c27Version = "v3.0.0"

func c27ConfigYAML(delay string, batch int, extra string) []byte {
	return []byte(fmt.Sprintf("General:\n  ConfigurationVersion: 2\nTraces:\n  SendDelay: %s\n  MaxBatchSize: %d\n%s", delay, batch, extra))
}

func c27RulesYAML(rate int) []byte {
	return []byte(fmt.Sprintf("RulesVersion: 2\nSamplers:\n  __default__:\n    DeterministicSampler:\n      SampleRate: %d\n", rate))
}

// c27ConfigContents maps the abstract config contents of spec/Reload.tla to
// bytes; a class with several entries is concretised by rotating through them.
func c27ConfigContents() map[string][][]byte {
	return map[string][][]byte{
		"A":   {c27ConfigYAML("1s", 100, "")},
		"B":   {c27ConfigYAML("2s", 200, "")},
		"Bw":  {c27ConfigYAML("3s", 300, "Collection:\n  CacheCapacity: 1000\n")},
		"Br":  {c27ConfigYAML("4s", 400, "RedisPeerManagement:\n  Database: 1\n")},
		"Brw": {c27ConfigYAML("5s", 500, "RedisPeerManagement:\n  Prefix: foo\n")},
		"X": {
			c27ConfigYAML("6s", 600, "NoSuchGroup:\n  Foo: 1\n"),       // unknown group
			c27ConfigYAML("6s", 600, "  NoSuchField: 1\n"),             // unknown field in Traces
			c27ConfigYAML("bogus", 600, ""),                            // wrong type
			c27ConfigYAML("6s", 7, ""),                                 // below the minimum
			append(c27ConfigYAML("6s", 600, ""), "  Broken: [1,\n"...), // not YAML
			{}, // empty file
		},
	}
}

func c27RulesContents() map[string][][]byte {
	return map[string][][]byte{
		"A": {c27RulesYAML(5)},
		"B": {c27RulesYAML(7)},
		"X": {
			[]byte("RulesVersion: 2\nSamplers:\n  __default__:\n    InvalidSampler:\n      SampleRate: 50\n"),
			[]byte("RulesVersion: 3\nSamplers:\n  __default__:\n    DeterministicSampler:\n      SampleRate: 9\n"),
			[]byte("RulesVersion: 2\n"),
			[]byte("RulesVersion: 2\nSamplers: [1,\n"),
		},
	}
}

func c27Hash(b []byte) string {
	s := md5.Sum(b)
	return hex.EncodeToString(s[:])
}

// c27Files is a config file and a rules file in a private directory.
type c27Files struct {
	dir, cpath, rpath string
	n                 int
}

func c27NewFiles() (*c27Files, error) {
	dir, err := os.MkdirTemp("", "c27-")
	if err != nil {
		return nil, err
	}
	return &c27Files{dir: dir, cpath: filepath.Join(dir, "config.yaml"), rpath: filepath.Join(dir, "rules.yaml")}, nil
}

// put replaces the file atomically (write to a temporary name, rename), so a
// concurrent reader sees either the old or the new bytes; nil removes it.
func (f *c27Files) put(path string, b []byte) error {
	if b == nil {
		err := os.Remove(path)
		if os.IsNotExist(err) {
			return nil
		}
		return err
	}
	f.n++
	tmp := path + ".tmp" + strconv.Itoa(f.n)
	if err := os.WriteFile(tmp, b, 0o644); err != nil {
		return err
	}
	return os.Rename(tmp, path)
}

func (f *c27Files) opts() *CmdEnv {
	return &CmdEnv{ConfigLocations: []string{f.cpath}, RulesLocations: []string{f.rpath}}
}

func (f *c27Files) cleanup() { os.RemoveAll(f.dir) }

// c27StartupAccepts is the acceptance oracle: the real startup path on the
// same bytes with the running version. Returns (accepted, warned).
func c27StartupAccepts(cb, rb []byte) (bool, bool, error) {
	f, err := c27NewFiles()
	if err != nil {
		return false, false, err
	}
	defer f.cleanup()
	if err := f.put(f.cpath, cb); err != nil {
		return false, false, err
	}
	if err := f.put(f.rpath, rb); err != nil {
		return false, false, err
	}
	c, err := NewConfig(f.opts(), c27Version)
	if c == nil && err == nil {
		return false, false, fmt.Errorf("NewConfig returned neither a config nor an error")
	}
	return c != nil, c != nil && err != nil, nil
}

// c27CheckClasses makes sure that the real startup path still classifies the
// concrete files the way the specification's content classes say. A mismatch
// is a stale harness, not a verdict about Reload.
func c27CheckClasses() error {
	cc, rc := c27ConfigContents(), c27RulesContents()
	want := map[string][2]bool{"A": {true, false}, "B": {true, false}, "Bw": {true, true}, "Br": {false, false}, "Brw": {false, false}, "X": {false, false}}
	for name, variants := range cc {
		for i, b := range variants {
			acc, warn, err := c27StartupAccepts(b, rc["A"][0])
			if err != nil {
				return err
			}
			if acc != want[name][0] || warn != want[name][1] {
				return fmt.Errorf("stale harness: config content %s[%d] is classified accepted=%v warned=%v by NewConfig(opts, %q), the specification says %v", name, i, acc, warn, c27Version, want[name])
			}
		}
	}
	for name, variants := range rc {
		for i, b := range variants {
			acc, warn, err := c27StartupAccepts(cc["A"][0], b)
			if err != nil {
				return err
			}
			if acc != want[name][0] || warn {
				return fmt.Errorf("stale harness: rules content %s[%d] is classified accepted=%v warned=%v by NewConfig", name, i, acc, warn)
			}
		}
	}
	// unreadable files are rejected by startup
	for _, pair := range [][2][]byte{{nil, rc["A"][0]}, {cc["A"][0], nil}} {
		acc, _, err := c27StartupAccepts(pair[0], pair[1])
		if err != nil {
			return err
		}
		if acc {
			return fmt.Errorf("stale harness: startup accepts a missing file")
		}
	}
	return nil
}

// c27Harness binds the Atomic graph of spec/Reload.tla to a real fileConfig
// over temporary files.
type c27Harness struct {
	files   *c27Files
	cfg     Config
	cc, rc  map[string][][]byte
	nameC   map[string]string // md5 -> abstract content
	nameR   map[string]string
	rot     map[string]int
	counts  map[string]int
	lastRes string
	checked bool
	rng     *rand.Rand
}

func (h *c27Harness) bytesFor(m map[string][][]byte, kind, name string) []byte {
	if name == "U" {
		return nil
	}
	v := m[name]
	k := kind + name
	h.rot[k]++
	return v[(h.rot[k]+h.rng.Intn(len(v)))%len(v)]
}

func (h *c27Harness) Reset(init map[string]any) error {
	if !h.checked {
		if err := c27CheckClasses(); err != nil {
			return err
		}
		h.checked = true
		h.cc, h.rc = c27ConfigContents(), c27RulesContents()
		h.nameC, h.nameR = map[string]string{}, map[string]string{}
		for n, v := range h.cc {
			for _, b := range v {
				h.nameC[c27Hash(b)] = n
			}
		}
		for n, v := range h.rc {
			for _, b := range v {
				h.nameR[c27Hash(b)] = n
			}
		}
		h.rot = map[string]int{}
		seed, _ := strconv.ParseInt(os.Getenv("VERIF_SEED"), 10, 64)
		h.rng = rand.New(rand.NewSource(seed))
	}
	if h.files != nil {
		h.files.cleanup()
	}
	f, err := c27NewFiles()
	if err != nil {
		return err
	}
	h.files = f
	fc, fr := verifkit.Str(init, "fileC"), verifkit.Str(init, "fileR")
	if fc != verifkit.Str(init, "runC") || fr != verifkit.Str(init, "runR") {
		return fmt.Errorf("initial state with running != file: %v", init)
	}
	if err := f.put(f.cpath, h.bytesFor(h.cc, "c", fc)); err != nil {
		return err
	}
	if err := f.put(f.rpath, h.bytesFor(h.rc, "r", fr)); err != nil {
		return err
	}
	// startup
	c, err := NewConfig(f.opts(), c27Version)
	if c == nil {
		return fmt.Errorf("startup rejected the initial pair (%s,%s): %v", fc, fr, err)
	}
	h.cfg = c
	h.counts = map[string]int{}
	h.lastRes = "none"
	if regs, ok := init["registeredSet"].([]any); ok {
		for _, l := range regs {
			h.register(l.(string))
		}
	}
	return nil
}

func (h *c27Harness) register(l string) {
	h.cfg.RegisterReloadCallback(func(cfgHash, rulesHash string) { h.counts[l]++ })
}

func (h *c27Harness) Apply(a map[string]any) (err error) {
	h.counts = map[string]int{}
	h.lastRes = "none"
	switch verifkit.Str(a, "name") {
	case "WriteC":
		return h.files.put(h.files.cpath, h.bytesFor(h.cc, "c", verifkit.Str(a, "c")))
	case "WriteR":
		return h.files.put(h.files.rpath, h.bytesFor(h.rc, "r", verifkit.Str(a, "r")))
	case "Collect":
		// the driver has read the counters; they were cleared above
	case "Register":
		h.register(verifkit.Str(a, "l"))
	case "Reload":
		defer func() {
			if r := recover(); r != nil {
				h.lastRes = fmt.Sprintf("panic: %v", r)
			}
		}()
		if e := h.cfg.Reload(); e != nil {
			h.lastRes = "err"
		} else {
			h.lastRes = "nil"
		}
	default:
		return fmt.Errorf("unknown action %v", a)
	}
	return nil
}

// Project reads the running configuration back through the public getters.
func (h *c27Harness) Project() (any, error) {
	tc := h.cfg.GetTracesConfig()
	delay := -1
	if d := time.Duration(tc.SendDelay); d%time.Second == 0 {
		delay = int(d / time.Second)
	}
	rate := -1
	if sc, _ := h.cfg.GetSamplerConfigForDestName("c27-env"); sc != nil {
		if d, ok := sc.(*DeterministicSamplerConfig); ok {
			rate = d.SampleRate
		}
	}
	hc, hr := h.cfg.GetHashes()
	name := func(m map[string]string, k string) string {
		if n, ok := m[k]; ok {
			return n
		}
		return "?"
	}
	return map[string]any{
		"sendDelay": delay,
		"batch":     int(tc.MaxBatchSize),
		"rate":      rate,
		"hashC":     name(h.nameC, hc),
		"hashR":     name(h.nameR, hr),
		"notified":  map[string]int{"l1": h.counts["l1"], "l2": h.counts["l2"]},
		"res":       h.lastRes,
	}, nil
}

func TestVerifC27Reload(t *testing.T) {
	h := &c27Harness{}
	defer func() {
		if h.files != nil {
			h.files.cleanup()
		}
	}()
	if err := verifkit.Main(h); err != nil {
		t.Fatal(err)
	}
}
