SPECIFICATION Spec
CONSTANTS
  Mode = "pure"
  Shapes <- ShapesQuick
  Names = {"prod", "web"}
  Prefixes = {"", "cls"}
  RuleSets <- RuleSetsQuick
  DefaultKinds = {"det", "dyn"}
  Encs = {"msgpack"}
  WithReload = FALSE
  UpperHexIsClassic = TRUE
INVARIANTS TypeOK EnvKeyUsesEnvironment ClassicKeyUsesDataset DocumentedShapes NeverWithoutSampler PrefixSeparates ExtractedIsWhatDeciderReads DecisionOfOneTarget
PROPERTY DecisionFollowsRules
ACTION_CONSTRAINT Dump
VIEW View
CHECK_DEADLOCK FALSE
