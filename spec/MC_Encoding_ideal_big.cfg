SPECIFICATION Spec
CONSTANTS
  Families = {"frac"}
  Big = TRUE
  Faithful = FALSE
INVARIANTS TypeOK CarriesSame RefIsEncoding EncodingIndependent ViewDiffLocal DevOnlyWhereViewsDiffer DecoderFacts
CHECK_DEADLOCK FALSE
VIEW View
