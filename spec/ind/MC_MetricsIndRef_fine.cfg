SPECIFICATION SpecUFine
CONSTANTS
  Counters = {"c"}
  Gauges = {"g"}
  UpDowns = {"u"}
  Hists = {}
  Stores = {}
  MaxCount = 100
  MaxNet = 100
  Vals = {1, 2}
  MaxGen = 1
  Threads = {"t1", "t2"}
  MaxOps = 3
  RegisterReplaces = FALSE
INVARIANTS InitSame SameInv
PROPERTIES FwdFine BwdFine SameAct
VIEW View
CHECK_DEADLOCK FALSE
