//go:build verif

package pubsub

import (
	"context"
	"fmt"
	"testing"
	"testing/synctest"

	"github.com/honeycombio/refinery/internal/cx1kit"
	"github.com/honeycombio/refinery/internal/verifkit"
	"github.com/honeycombio/refinery/metrics"
)

// cx1Harness replays the per-call graph of spec/PubSub.tla (Watcher = FALSE)
// into a real LocalPubSub that lives in a synctest bubble (one bubble per walk).
// Every subscription callback parks on entry, so the set of deliveries the bus
// has spawned is observable at the quiescence point after each call.
type cx1Harness struct {
	t      *testing.T
	bubble *cx1kit.Bubble
	ps     *LocalPubSub
	met    *metrics.MockMetrics
	core   *cx1kit.Core
}

func cx1BusOps(ps PubSub) cx1kit.BusOps {
	return cx1kit.BusOps{
		Subscribe: func(topic string, cb func(context.Context, string)) func() {
			sub := ps.Subscribe(context.Background(), topic, cb)
			return sub.Close
		},
		Publish: ps.Publish,
		Close:   ps.Close,
		Stop:    ps.Stop,
	}
}

func (h *cx1Harness) end() {
	if h.bubble == nil {
		return
	}
	h.bubble.Do(func() { h.core.Rec.Abandon() })
	h.bubble.Close()
	h.bubble = nil
}

func (h *cx1Harness) Reset(init map[string]any) error {
	h.end()
	got, _ := init["got"].(map[string]any)
	subs := cx1kit.SortedKeys(got)
	h.bubble = cx1kit.NewBubble(h.t)
	var err error
	p := h.bubble.Do(func() {
		h.met = &metrics.MockMetrics{}
		h.met.Start()
		h.ps = &LocalPubSub{Metrics: h.met}
		if e := h.ps.Start(); e != nil {
			err = e
			return
		}
		rec := cx1kit.NewRec(subs, func(string) bool { return true })
		h.core = cx1kit.NewCore(rec, cx1BusOps(h.ps), func(id, pay int) string { return fmt.Sprintf("m%d", id) })
	})
	if p != nil {
		return fmt.Errorf("reset panicked: %v", p)
	}
	return err
}

func (h *cx1Harness) Apply(act map[string]any) error {
	var err error
	p := h.bubble.Do(func() {
		var ok bool
		ok, err = h.core.Apply(verifkit.Str(act, "name"), act,
			func(k string) string { return verifkit.Str(act, k) }, func(k string) int { return verifkit.Int(act, k) })
		if !ok {
			err = fmt.Errorf("unknown action %v", act)
		}
		synctest.Wait()
	})
	if p != nil {
		return fmt.Errorf("harness panicked: %v", p)
	}
	return err
}

func (h *cx1Harness) counter(name string) int {
	v, _ := h.met.Get(name)
	return int(v)
}

func (h *cx1Harness) Project() (any, error) {
	var out map[string]any
	h.bubble.Do(func() {
		out = map[string]any{
			"pendingSet": h.core.Rec.Pending(func(string) int { return 0 }),
			"got":        h.core.Rec.Got(),
			"mPub":       h.counter("local_pubsub_published"),
			"mRecv":      h.counter("local_pubsub_received"),
			"blocked":    h.core.Blocked,
			"reloads":    0,
			"now":        0,
		}
		if h.core.Panic != "" {
			out["panic"] = h.core.Panic
		}
	})
	return out, nil
}

func TestVerifCX1Bus(t *testing.T) {
	h := &cx1Harness{t: t}
	err := verifkit.Main(h)
	h.end()
	if err != nil {
		t.Fatal(err)
	}
}
