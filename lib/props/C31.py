"""C31 The decision cache remembers what it promises."""


def _walk(name, qb, tb):
    return dict(kind="walk", name="DecisionCache-" + name, module="DecisionCache", pkg="collect/cache", test="TestVerifDecisionCache",
                harness=["collect/cache/c31_test.go"],
                alternatives=[
                    # 1. the implementation-shaped model: structure and answers must match exactly
                    dict(name="impl", cfg={"quick": f"MC_DecisionCache_{name}.cfg", "thorough": f"MC_DecisionCache_{name}_big.cfg"}),
                    # 2. promise-only (SpecP): only lookup answers are observed, anything the statement allows is accepted
                    dict(name="promise", cfg={"quick": f"MC_DecisionCache_{name}_p.cfg", "thorough": f"MC_DecisionCache_{name}_p_big.cfg"}),
                ][::-1 if __import__("os").environ.get("C31_PROMISE_FIRST") else 1],
                budget={"quick": qb, "thorough": tb}, random={"quick": 8, "thorough": 60})


PROP = dict(
    level="model_checking",
    technique="TLA+ spec DecisionCache.tla (kept LRU, recent set, add queue, two-generation cuckoo filter as slot-bounded bags, resize) model-checked by TLC; "
              "every generated transition replayed into a real cuckooSentCache built by NewCuckooSentCache (spec->code transition tour)",
    design_ref="DESIGN.md §5 C31, §9 (reading of 'filled to capacity since the record')",
    level_text="TLC explores every order of kept/dropped records, CheckSpan/CheckTrace lookups, add-queue drains, Maintain cycles (future creation at load > 0.5, rotation at load > 0.99), "
               "recent-set expiry and Resize for 2-3 trace ids, kept capacity 1-3, 4- and 8-slot filters, and checks on the model: the keptCap most recently recorded-or-consulted kept decisions "
               "answer kept with the recorded rate and reason (KeptRemembered, RecencyOrder, EvictOnlyOldest), Resize keeps the newest min(n,size) (ResizeKeepsNewest), a drained dropped record is answered "
               "dropped by both lookups even if also recorded kept until the first rotation after it or until the current filter overflows (DroppedRemembered, ObligationEndsOnlyWhenFull), and CheckSpan answers "
               "dropped from the moment of the record while the recent set holds it (RecordDroppedAnswered, RecentSticks). Four scenario configurations (kept / mix / cap / drop) are dumped as transition graphs and "
               "every transition is executed on the real cache: the returned record (kept/dropped/none, rate, interned reason, span counts), the Maintain gauges and the Resize error are compared with the model's, "
               "and the LRU order, filter membership, recent set, queue length, filter loads and capacities after every step.",
    level_note="Two alternatives per walk stage, the check passes if the code conforms to either: (1) 'impl', the implementation-shaped model above (filter structure, loads and capacities compared exactly); "
               "(2) 'promise', SpecP of the same module: only the answers of CheckSpan/CheckTrace are observed and every answer the statement allows is accepted - the keptCap kept decisions most recently recorded or "
               "answered kept must answer kept with the recorded rate and reason (or dropped if ever recorded dropped), a settled dropped record must answer dropped while fewer than Retain(capacity) = slots/2-1 further dropped "
               "records were settled under regular maintenance (capacity in force = smallest DroppedSize so far; void after a Resize that lowers it across a filter size class), a fresh dropped record must answer dropped to CheckSpan; "
               "remembering longer, other rotation/creation moments and other internal sizes are accepted. TLC checks (thorough, MC_DecisionCache_bridge.cfg) that the implementation-shaped model honours that numeric promise (PromiseHeldByModel). "
               "Exhaustive only within the bounds (see spec/MC_DecisionCache_*.cfg). The add-queue goroutine is stopped after construction and its loop body is run by the Drain action; Maintain is called directly "
               "(its internal 1 ms drain time-out is avoided by draining first); recentDroppedIDs runs on a fake clock and only 'all recent entries expire' is explored (C32 covers TTL instants). "
               "False positives are excluded by choosing trace ids with pairwise distinct fingerprints that may live in either bucket (established through the filter's public API), so the filter is exact for the ids used; "
               "an insert into a full filter may lose any one fingerprint and every such outcome is accepted. Add-queue overflow (1000 pending ids) is not explored. Concurrency of Record/Check/Resize is C35's subject, not explored here. "
               "Sample rates above 2^32-1 are truncated by keptTraceCacheEntry (uint32) and are not asserted.",
    assumptions=["clockwork.FakeClock is faithful", "panmari/cuckoofilter: 4-slot buckets, capacity<=3 -> 1 bucket, 4..7 -> 2 buckets (checked by the harness at Reset)",
                 "bounded: 2-3 trace ids, kept capacity 1-3, filter of 4/8 slots, add queue <= 2"],
    stages=[_walk("kept", 20, 120), _walk("mix", 20, 120), _walk("cap", 25, 90), _walk("drop", 30, 120),
            dict(kind="tlc", name="DecisionCache-bridge", module="DecisionCache", cfg={"quick": None, "thorough": "MC_DecisionCache_bridge.cfg"}, workers=8, timeout=540),
            dict(kind="tlc", name="DecisionCache-full", module="DecisionCache", cfg={"quick": None, "thorough": "MC_DecisionCache_full.cfg"}, workers=8, timeout=540)],
)

# coverage extension CX2 (lib/ext/CX2.py, DESIGN.md section 0.5): the interning table the kept record's reason is read back from
# (KeptReasons.tla: every key ever issued still answers its reason) - C31's "answers kept, with the recorded rate and reason".
import extstages  # noqa: E402
# Its projection (dense keys, interning) is structural and the end-to-end walks above already read every kept record's reason back,
# so the stage is ADVISORY: logged and kept in the evidence, never a VIOLATION of C31.
PROP["stages"] += extstages.pick("CX2", ["KeptReasons"], advisory=True)
