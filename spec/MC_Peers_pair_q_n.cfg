SPECIFICATION Spec
CONSTANTS
  Addr <- Addr2
  Gaps <- GapsFixed2
  T = 10
  D = 1
  MaxEvents = 3
  MaxFails = 0
  Extra = "none"
  Backoff = FALSE
  Closed = TRUE
  ObserveCb = FALSE
  TrackQuiet = FALSE
  UnitMs = 1000
  Boot <- NoNodes
  CrashSet <- AllNodes
  StopSet <- AllNodes
  Sync = FALSE
  TrackAge = FALSE
INVARIANTS TypeOK Converged LearnsLive ForgetsDead PeerForgotten PeerLearnt SelfListed PeriodRestored NoDuplicateAddr ChannelSane
PROPERTIES CallbackIffChange NoResurrection
ACTION_CONSTRAINT Dump
VIEW View
