SPECIFICATION Spec
CONSTANTS
  T1 = "trace.trace_id"
  T2 = "traceId"
  P1 = "trace.parent_id"
  P2 = "parentId"
  IdConfigs <- IdConfigsBig
  RuleSets <- RuleSetsQuick
  Events <- EventsBig
  Paths = {"event-json", "event-msgp", "batch-json", "batch-msgp", "otlp-http", "otlp-httpjson", "otlp-grpc", "otlp-logs", "peer-batch", "peer-batch-json"}
  FixedT1 = {"otlp-http", "otlp-httpjson", "otlp-grpc"}
  LogPaths = {"otlp-logs"}
  MaxDrive = 1
  Both = FALSE
  Refresh = "always"
CHECK_DEADLOCK FALSE
INVARIANTS TypeOK C21LiveBelongs C21LiveConfiguredOrder C21LiveRoot C21LiveHistoryFree ViewOK
ACTION_CONSTRAINT Dump
VIEW View
