SPECIFICATION Spec
CONSTANTS
  Topics = {"cfg_update"}
  Subs = {"w", "s1"}
  Pubs = {}
  MaxPub = 2
  MaxStops = 0
  Hows = {"Close", "Stop"}
  Step = FALSE
  Faithful = TRUE
  Revive = TRUE
  Metrics = FALSE
  ParkPlain = FALSE
  Watcher = TRUE
  CwModes = {"normal", "noint", "opamp"}
  MaxNow = 2
INVARIANTS TypeOK MustDeliver AtMostOnce NoForbidden OwnTopic ClosedIsClosed OpAMPInert
ACTION_CONSTRAINT Dump
VIEW ViewReal
CHECK_DEADLOCK FALSE
