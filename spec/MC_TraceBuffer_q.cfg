SPECIFICATION Spec
CONSTANTS
  Ids = {"a", "b", "c"}
  Ghost = "zz"
  Vers = {1, 2}
  Times = {1, 2}
  Nows = {1, 2}
  Maxes = {0, 1, 2}
  NegMax = FALSE
  Rejects = {{}, {"a"}}
  RemoveSets = {{"a"}, {"b", "zz"}, {"a", "b", "c"}}
INVARIANTS TypeOK GetReturnsLive QueueMatchesMap TakenAreGone
PROPERTIES TakeContract OnlyNamedLeave SetExact
ACTION_CONSTRAINT Dump
VIEW View
