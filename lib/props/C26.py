"""C26 Transmission delivers each event once to its own destination within limits."""


def _walk(name, budget, tiers=("quick", "thorough")):
    return dict(kind="walk", name=name, module="Transmission", pkg="transmit", test="TestVerifC26Transmission",
                harness=["transmit/c26_transmission_test.go"], dump_workers=1, tiers=tiers,
                cfg={"quick": f"MC_Transmission_{name}_q.cfg", "thorough": f"MC_Transmission_{name}.cfg"}, budget=budget)


PROP = dict(
    level="model_checking",
    technique="TLA+ spec Transmission.tla (one function per critical section of direct_transmit.go: enqueue+cut, stale pass, greedy body packing with oversize drop, attempt/answer/retry, sleep, stop) model-checked by TLC both interleaved (Coarse=FALSE) and as run-to-quiescence environment steps (Coarse=TRUE); every transition of the latter is replayed into a real started DirectTransmission (clockwork fake clock, real net/http client, scripted httptest servers on loopback that hold each request until the model chooses the answer, payloads padded to the exact byte sizes of the model) and requests received / pending batches / sleepers / metrics / gauge / error logs are compared (spec->code transition tour); plus a seeded concurrent driver under the race detector whose oracle is the model's invariants at quiescence",
    design_ref="DESIGN.md §5 C26",
    level_text="TLC checks on the model, for every order of enqueues, clock ticks, server answers and Stop within the bounds, that each request carries only events of its own (host, key, dataset), that an event is in exactly one batch (a retry resends the same batch to the same place) unless it alone serializes to more than 1 000 000 bytes (then dropped, logged and counted in response_errors), that bodies are <= 5 000 000 bytes and batches <= MaxBatchSize events, that no batch is older than 1.25 x BatchTimeout pending or when cut, that a batch is attempted at most twice and the second time only after a timeout or a 429/503 whose Retry-After is under 60 s, that Stop flushes everything and returns only when every event has an outcome, and that the queued-items gauge equals the number of events without an outcome. Families replayed into the real code: dest (2-4 destinations differing in exactly one of host/key/dataset, one dataset needing URL escaping), retry (21 server behaviours: JSON/msgpack success, per-event error, short and undecodable bodies, 400/401/500, 429/503 with Retry-After 1, 2, 0, 60, absent, HTTP-date future/past, junk, scripted timeouts; oversize events mixed in), split (MaxBatchSize 6 with events of 999 999 / 1 000 000 / 1 000 001 bytes so that batches split on the 5 MB body limit exactly at the boundary), time (ticker period 2 units so that first events fall between ticks; cut ages 8 and 9 of limit 10).",
    level_note="Exhaustive only within the bounds (3 events, or 5-6 in the split family; 1-4 destinations; horizon 4-11 ticks; at most 2 non-success answers per run); the split family's tour is time-boxed (a seed-chosen part of its edges is replayed per run), the others are replayed completely. The walk compares at quiescent points of a sequential environment (the interleaved model is checked by TLC); real concurrency of callers is covered by the 'concurrent' stage only: 2-4 goroutines enqueue 200-byte events for 2-4 destinations while another goroutine advances the fake clock and the servers answer by a seeded script (200, short, per-event error, 500, 429/503 Retry-After 1, timeout), then Stop(), ~1500 fresh rounds per 15 s under -race; its oracle is the model's invariants after Stop returned (every id received in exactly one batch at its own destination, <= MaxBatchSize, <= 2 attempts and the second only when licensed, gauge 0, Downs = events, response_20x/response_errors as the answers imply) - randomized schedules, not exhaustive; race windows are widened only by yielding in the clock's Now() and the metrics' Up/Down/Histogram. Scripted timeouts are produced by a RoundTripper registered on the transmission's own http.Transport (Transport.RegisterProtocol) that turns a marker response received over the real loopback connection into a net timeout error; http.Client.Timeout itself (wall clock) is not exercised. Retry-After values between 2 s and 60 s are not explored (only 0, 1, 2, 60, absent, dates, junk). Conventions of the code the statement leaves open are followed exactly by the replayed model (greedy in-order packing with a 5-byte header reserve, stale cut at the first BatchTimeout/4 tick at or after BatchTimeout, retry exactly when 0 < Retry-After < 60 s or absent/unparsable, a second sleep after a second throttled answer): a legal change of those would be reported and needs the model's Loose alternatives (present in the spec, model-checked, not bound to the walk). Compression is off; APIHost values are well-formed URLs.",
    assumptions=["clockwork.FakeClock / fake ticker is faithful", "bounded: <= 3 events (6 in the split family), <= 4 destinations, <= 2 faulty answers per run",
                 "the stale-dispatch goroutine processes a tick, and a woken sleeper resumes, before the clock moves on",
                 "no EnqueueEvent after Stop has been called", "event destinations are not mutated after enqueue (C16 covers aliasing)"],
    stages=[_walk("dest", {"quick": 10, "thorough": 150}),
            _walk("retry", {"quick": 10, "thorough": 60}),      # thorough: 3 events, all 21 behaviours, 1 faulty answer
            _walk("retry2", {"quick": 0, "thorough": 60}, tiers=("thorough",)),   # 2 events, 2 faulty answers (retry after retry, fault after retry)
            _walk("split", {"quick": 12, "thorough": 150}),   # 1 MB events are slow to move: time-boxed, seed-chosen part of the tour
            _walk("time", {"quick": 6, "thorough": 60}),
            dict(kind="gotest", name="concurrent", pkg="transmit", test="TestVerifC26Concurrent", race=True,
                 harness=["transmit/c26_transmission_test.go", "transmit/c26_concurrent_test.go"], budget={"quick": 12, "thorough": 120}),
            dict(kind="tlc", name="fine", module="Transmission", cfg={"quick": None, "thorough": "MC_Transmission_fine.cfg"}, workers=8),
            dict(kind="tlc", name="loose", module="Transmission", cfg={"quick": None, "thorough": "MC_Transmission_loose.cfg"}, workers=8)],
)

import os, sys  # noqa: E402
sys.path.insert(0, os.path.dirname(os.path.dirname(os.path.abspath(__file__))))
import extstages  # noqa: E402
# coverage extension CX4 (lib/ext/CX4.py, spec/TraceTransmission.tla, hooks transmit/verif_on.go): trace validation of the real DirectTransmission at
# the grain of its critical sections - real concurrent executions (producers, stale dispatcher on a fake clock, scripted Honeycomb, Stop) logged at
# the linearization points and validated by TLC line by line against the fine-grained functions of Transmission.tla, every invariant of the fine
# model evaluated after every logged step, under the race detector. Deciding stages: what they check is C26's statement at a finer grain.
PROP["stages"] += extstages.pick("CX4", ["b2"])
PROP["stages"] += extstages.pick("CX4", ["b3s2", "b1", "split"], tiers=("thorough",))
