SPECIFICATION Spec
CONSTANTS
  Alphabet <- Alpha3
  MaxLen = 2
  MaxMsg = 4
INVARIANTS TypeOK CodeRoundTrips CommaIdHarmless CommaAddressCorrupts DecodeEncode
ACTION_CONSTRAINT Dump
VIEW View
CHECK_DEADLOCK FALSE
