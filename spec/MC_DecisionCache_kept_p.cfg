SPECIFICATION SpecP
CONSTANTS
  Traces = {"a", "b", "c"}
  KeepTraces = {"a", "b", "c"}
  DropTraces = {}
  Rates = {1, 2}
  Reasons = {"ra", "rb"}
  Coupled = TRUE
  KeptSizes = {2}
  ResizeKept = {1, 2, 3}
  DropSizes = {3}
  MaxQueue = 1
  MaxCount = 0
  MaxTotal = 0
  TrackPromise = FALSE
INVARIANTS TypeOKP PromiseShape
ACTION_CONSTRAINT DumpP
VIEW ViewP
