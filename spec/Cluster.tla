------------------------------- MODULE Cluster -------------------------------
(***************************************************************************)
(* One Refinery node seen from its two listeners, its collector and its    *)
(* two transmissions (route/route.go processEvent, collect                 *)
(* ProcessSpanImmediately, transmit/direct_transmit.go batching), with the *)
(* owning peer and Honeycomb as the environment.  Properties C16 and C19.  *)
(*                                                                         *)
(* Events are heap objects: the upstream and peer queues hold what will be *)
(* serialised AT DISPATCH TIME (DirectTransmission.sendBatch reads the     *)
(* event's APIHost and payload when the batch is cut), which is why        *)
(* Receive and Dispatch are separate actions: a mutation of an already     *)
(* queued event between the two is visible to Honeycomb.                   *)
(*                                                                         *)
(* Traces: Own (this node is the owner) and Foreign (the peer owns them).  *)
(* Stress relief verdicts are a fixed function of the trace (SKeep).       *)
(* The sampler of the collector keeps everything at rate 1, so that the    *)
(* collector part stays trivial here (it is C01-C07's subject).            *)
(***************************************************************************)
EXTENDS Integers, Sequences, FiniteSets, TLC, Json

CONSTANTS Own, Foreign,   \* sets of trace ids (strings)
          SKeep,          \* set of traces the stress-relief rule keeps
          SRate,          \* stress relief sample rate
          MaxEvents,      \* number of events received
          CRates          \* client sample rates

VARIABLES stressed,  \* stress relief active
          upQ,       \* records queued on the upstream transmission (not yet dispatched)
          peerQ,     \* records queued on the peer transmission
          hny,       \* records Honeycomb has received
          peer,      \* records the owning peer has received
          buf,       \* ids buffered in the collector, per trace
          dec,       \* trace -> "none" | "kept" | "dropped" | "skept" | "sdropped"  (decision memory; s = by stress relief)
          drate,     \* trace -> remembered rate
          nextId,
          routes,    \* ghost: id -> set of routes taken (C19)
          act

vars == <<stressed, upQ, peerQ, hny, peer, buf, dec, drate, nextId, routes, act>>
Traces == Own \cup Foreign
Max(a, b) == IF a > b THEN a ELSE b

\* what a receiver sees of an event: id, probe marker, stressed marker, sample rate,
\* and whether key / dataset / timestamp / client fields are the client's
Rec(id, probe, str, rate) == [id |-> id, probe |-> probe, stressed |-> str, rate |-> rate, intact |-> TRUE]

Init == /\ stressed = FALSE
        /\ upQ = {} /\ peerQ = {} /\ hny = {} /\ peer = {}
        /\ buf = [t \in Traces |-> {}]
        /\ dec = [t \in Traces |-> "none"]
        /\ drate = [t \in Traces |-> 0]
        /\ nextId = 1
        /\ routes = <<>>
        /\ act = [name |-> "Init"]

Route(id, r) == routes' = Append(routes, {r})

\* an event without a trace id: straight upstream, unsampled
RecvPlain(listener, cr) ==
  /\ nextId <= MaxEvents
  /\ upQ' = upQ \cup {Rec(nextId, FALSE, FALSE, Max(cr, 1))}   \* an absent / zero rate reads as 1
  /\ Route(nextId, "upstream")
  /\ nextId' = nextId + 1
  /\ act' = [name |-> "RecvPlain", listener |-> listener, id |-> nextId, crate |-> cr]
  /\ UNCHANGED <<stressed, peerQ, hny, peer, buf, dec, drate>>

\* a probe sent by another node: discarded
RecvProbe(listener, t) ==
  /\ nextId <= MaxEvents
  /\ Route(nextId, "discarded")
  /\ nextId' = nextId + 1
  /\ act' = [name |-> "RecvProbe", listener |-> listener, id |-> nextId, t |-> t]
  /\ UNCHANGED <<stressed, upQ, peerQ, hny, peer, buf, dec, drate>>

\* a span, routed with the stress flag read as sv
RecvSpanWith(listener, t, cr, sv, nm) ==
  LET id == nextId
      crr == Max(cr, 1)
      known == dec[t] # "none"
      \* ProcessSpanImmediately: remembered decision, else the deterministic stress rule (recorded)
      skeep == IF known THEN dec[t] \in {"kept", "skept"} ELSE t \in SKeep
      srate == IF known THEN drate[t] ELSE SRate
  IN
  /\ nextId <= MaxEvents
  /\ nextId' = nextId + 1
  /\ act' = [name |-> nm, listener |-> listener, id |-> id, t |-> t, crate |-> cr]
  /\ IF sv
     THEN /\ dec' = IF known THEN dec ELSE [dec EXCEPT ![t] = IF skeep THEN "skept" ELSE "sdropped"]
          /\ drate' = IF known THEN drate ELSE [drate EXCEPT ![t] = IF skeep THEN SRate ELSE 0]
          /\ buf' = buf
          /\ IF ~skeep
             THEN /\ Route(id, "stress-dropped") /\ UNCHANGED <<upQ, peerQ>>
             ELSE /\ upQ' = upQ \cup {Rec(id, FALSE, TRUE, crr * srate)}      \* the kept span itself
                  /\ IF t \in Foreign
                     THEN /\ peerQ' = peerQ \cup {Rec(id, TRUE, TRUE, crr * srate)}   \* the probe: a copy
                          /\ Route(id, "upstream")
                     ELSE /\ peerQ' = peerQ /\ Route(id, "upstream")
     ELSE IF t \in Foreign
     THEN /\ peerQ' = peerQ \cup {Rec(id, FALSE, FALSE, crr)}    \* forwarded unchanged
          /\ Route(id, "peer")
          /\ UNCHANGED <<upQ, buf, dec, drate>>
     ELSE \* the collector: late span of a remembered decision, else buffered
          /\ Route(id, "collector")
          \* processSpan looks the trace up in the buffer BEFORE the decision memory: a span of a trace that is still
          \* buffered joins it even if a stress-relief decision was recorded for the trace meanwhile
          /\ IF known /\ buf[t] = {}
             THEN /\ IF dec[t] \in {"kept", "skept"}
                     THEN upQ' = upQ \cup {Rec(id, FALSE, FALSE, crr * drate[t])}
                     ELSE upQ' = upQ
                  /\ UNCHANGED <<buf, dec, drate, peerQ>>
             ELSE /\ buf' = [buf EXCEPT ![t] = @ \cup {[id |-> id, crate |-> cr]}]
                  /\ UNCHANGED <<upQ, peerQ, dec, drate>>
  /\ UNCHANGED <<hny, peer>>

\* a span routed while the stress state is stable
RecvSpan(listener, t, cr) == RecvSpanWith(listener, t, cr, stressed, "RecvSpan") /\ stressed' = stressed

\* a span routed while stress relief switches (the StressRelief goroutine flips the flag concurrently):
\* the event must be routed according to ONE reading of the flag - either the old or the new value -
\* never a mixture of the two
RecvSpanFlip(listener, t, cr) ==
  /\ \E sv \in BOOLEAN : RecvSpanWith(listener, t, cr, sv, "RecvSpanFlip")
  /\ stressed' = ~stressed

\* the collector's send tick: every buffered trace is decided (kept at rate 1) and forwarded
CollectTick ==
  /\ \E t \in Traces : buf[t] # {}
  /\ upQ' = upQ \cup UNION {{Rec(s.id, FALSE, FALSE, Max(s.crate, 1)) : s \in buf[t]} : t \in Traces}
  \* makeDecision records "kept, rate 1"; a stress-relief drop recorded meanwhile (stress toggled while the
  \* trace was buffered) still wins for late spans, because the dropped-trace filter is consulted first
  /\ dec' = [t \in Traces |-> IF buf[t] # {} THEN (IF dec[t] = "sdropped" THEN "sdropped" ELSE "kept") ELSE dec[t]]
  /\ drate' = [t \in Traces |-> IF buf[t] # {} /\ dec[t] # "sdropped" THEN 1 ELSE drate[t]]
  /\ buf' = [t \in Traces |-> {}]
  /\ act' = [name |-> "CollectTick"]
  /\ UNCHANGED <<stressed, peerQ, hny, peer, nextId, routes>>

\* a transmission cuts and sends its pending batches
Dispatch(which) ==
  /\ IF which = "upstream"
     THEN upQ # {} /\ hny' = hny \cup upQ /\ upQ' = {} /\ UNCHANGED <<peer, peerQ>>
     ELSE peerQ # {} /\ peer' = peer \cup peerQ /\ peerQ' = {} /\ UNCHANGED <<hny, upQ>>
  /\ act' = [name |-> "Dispatch", which |-> which]
  /\ UNCHANGED <<stressed, buf, dec, drate, nextId, routes>>

SetStress(b) ==
  /\ stressed # b /\ stressed' = b
  /\ act' = [name |-> "SetStress", on |-> b]
  /\ UNCHANGED <<upQ, peerQ, hny, peer, buf, dec, drate, nextId, routes>>

Next == \/ \E li \in {"incoming", "peer"}, cr \in CRates : RecvPlain(li, cr)
        \/ \E li \in {"incoming", "peer"}, t \in Traces : RecvProbe(li, t)
        \/ \E li \in {"incoming", "peer"}, t \in Traces, cr \in CRates : RecvSpan(li, t, cr)
        \/ \E li \in {"incoming"}, t \in Traces, cr \in {0} : RecvSpanFlip(li, t, cr)
        \/ CollectTick
        \/ \E w \in {"upstream", "peer"} : Dispatch(w)
        \/ \E b \in BOOLEAN : SetStress(b)

Spec == Init /\ [][Next]_vars

TypeOK == /\ stressed \in BOOLEAN /\ nextId \in 1 .. MaxEvents + 1
          /\ \A t \in Traces : dec[t] \in {"none", "kept", "dropped", "skept", "sdropped"}

\* C16: no probe ever reaches Honeycomb; what Honeycomb gets is intact
NoProbeToHoneycomb == \A r \in hny \cup upQ : ~r.probe /\ r.intact
\* C16 / C02: Honeycomb never receives the same event twice
HnyOnce == \A r1, r2 \in hny : r1.id = r2.id => r1 = r2
\* C16: spans kept under stress are marked and carry the stress (or remembered) rate
StressMarked == \A r \in hny \cup upQ : r.stressed => r.rate >= 1
\* C19: every received event took exactly one route
OneRoute == /\ Len(routes) = nextId - 1
            /\ \A i \in DOMAIN routes : Cardinality(routes[i]) = 1
\* C19: what the owning peer receives for a non-probe is the client's event unchanged
PeerIntact == \A r \in peer \cup peerQ : r.intact /\ (r.probe => r.stressed)
\* C16: a stress decision is remembered: once a trace is "skept"/"sdropped" it stays decided
Remembered == [][\A t \in Traces : dec[t] # "none" => dec'[t] # "none"]_vars

\* --- conformance plumbing -------------------------------------------------
Abs == [ stressed |-> stressed,
         hnySet |-> hny, peerSet |-> peer,
         upPending |-> Cardinality(upQ), peerPending |-> Cardinality(peerQ),
         bufSet |-> UNION {{s.id : s \in buf[t]} : t \in Traces} ]
Hid == [ upQ |-> upQ, peerQ |-> peerQ, buf |-> buf, dec |-> dec, drate |-> drate, nextId |-> nextId ]
ASSUME PrintT(ToJson([params |-> [own |-> Own, foreign |-> Foreign, skeep |-> SKeep, srate |-> SRate]]))
Dump == PrintT(ToJson([fa |-> act.name, act |-> act', fabs |-> Abs, fhid |-> Hid, tabs |-> Abs', thid |-> Hid']))
View == <<stressed, upQ, peerQ, hny, peer, buf, dec, drate, nextId>>
=============================================================================
