"""B2 (recorded traces validated by TLC) and the generic Go-driver stage."""
import json
import os
import re
import shutil

import vlib
from vlib import CannotDecide, log
from stages import tier_val


RACE_FRAME = re.compile(r"^\s+(github\.com/honeycombio/refinery/.+)\(\)\s*$")


def race_reports(output):
    """Parse Go race detector reports: returns list of dict(signature, excerpt). The signature is the pair of
    innermost refinery functions of the two conflicting accesses (stable across line-number changes)."""
    reps = []
    for block in output.split("WARNING: DATA RACE")[1:]:
        block = block.split("==================")[0]
        parts = re.split(r"\n(?=Previous (?:read|write) at |Goroutine \d+ )", block)
        sides = []
        for part in parts[:2]:
            fn = None
            lines = part.splitlines()
            for i, line in enumerate(lines):
                m = RACE_FRAME.match(line)
                where = lines[i + 1] if i + 1 < len(lines) else ""   # the frame's file:line follows its function
                # frames of the harness itself (injected zzverif_* files, verifkit, any *_test.go) are not refinery code
                if m and not any(x in line or x in where for x in ("zzverif", "verifkit", "_test.go")) and ".TestVerif" not in line:
                    fn = m.group(1).replace("github.com/honeycombio/refinery/", "")
                    break
            sides.append(fn or "?")
        sig = " <-> ".join(sorted(sides))
        reps.append(dict(signature=sig, excerpt=block.strip()[:3000]))
    return reps


def handle_races(ctx, st, name, output):
    """For stages whose oracle includes the race detector (C35): each distinct race is a known finding or a violation."""
    reps = race_reports(output)
    seen = set()
    for r in reps:
        if r["signature"] in seen:
            continue
        seen.add(r["signature"])
        if r["signature"] == "? <-> ?":
            # both conflicting accesses are in the harness (or the runtime): a defect of the driver, not an observation of refinery
            raise CannotDecide(f"data race inside the harness of stage {name} (no refinery frame on either side):\n{r['excerpt'][:1500]}")
        f = vlib.open_finding(ctx.prop, "race: " + r["signature"])
        if f:
            ctx.known.append(f"{f['id']} {r['signature']}: {f['what'][:200]}")
        else:
            p = ctx.new_replay_path(name)
            with open(p, "w") as fh:
                json.dump(dict(property=ctx.prop, stage=name, kind="data-race", signature=r["signature"], report=r["excerpt"]), fh, indent=1)
            log(f"[{ctx.prop}] DATA RACE {r['signature']}")
            ctx.violations.append(p)
    ctx.extra.setdefault("race_reports", []).append(dict(stage=name, distinct=len(seen)))
    return len(reps)


def split_traces(path):
    """Return list of (first_line_no, [lines]) per reset-delimited trace (1-based line numbers)."""
    traces = []
    cur = None
    with open(path) as fh:
        for n, line in enumerate(fh, 1):
            if not line.strip():
                continue
            ev = json.loads(line)
            if ev.get("event") == "reset" or cur is None:
                cur = [n, []]
                traces.append(cur)
            cur[1].append(line.rstrip("\n"))
    return traces


def validate_trace(ctx, st, trace_path, wd):
    """Validate against each alternative cfg (conventions the property leaves
    open); accepted if any accepts. Returns the first accepting result, else the first."""
    cfgs = tier_val(st["cfg"], ctx.tier)
    if isinstance(cfgs, str):
        cfgs = [cfgs]
    first = None
    for cfg in cfgs:
        v = validate_trace1(ctx, st, cfg, trace_path, wd)
        if v["ok"]:
            return v
        first = first or v
    return first


def validate_trace1(ctx, st, cfg, trace_path, wd):
    """Run TLC on the trace spec. Returns dict(ok, hwm, lines, tlc)."""
    shutil.copy(trace_path, os.path.join(wd, "trace.ndjson"))
    nlines = sum(1 for l in open(trace_path) if l.strip())
    r = vlib.run_tlc(st["module"], cfg, wd, workers=1,
                     timeout=tier_val(st.get("tlc_timeout", 900), ctx.tier), deque=True)
    text = "\n".join(r["tail"])
    with open(r["out"], errors="replace") as fh:
        full = fh.read()
    hwm = None
    for m in re.finditer(r'TRACE-HWM[^0-9]*(\d+)', full):
        hwm = int(m.group(1))
    accepted = "TRACE-ACCEPTED" in full and r["ok"]
    inv = re.search(r"Error: Invariant (\S+) is violated", full)
    prop = re.search(r"Error: Action property (\S+) is violated", full)
    if not accepted and hwm is None:
        ls = re.findall(r"^/\\ l = (\d+)$|^l = (\d+)$", full, re.M)
        if ls:
            hwm = max(int(a or b) for a, b in ls)
    return dict(ok=accepted, hwm=hwm, lines=nlines, tlc=r, invariant=(inv.group(1) if inv else (prop.group(1) if prop else None)), text=text)


def stage_trace(ctx, st):
    name = st.get("name", st["module"])
    budget = tier_val(st.get("budget", {"quick": 20, "thorough": 180}), ctx.tier)
    wd = vlib.scratch(f"{ctx.prop}-{name}-trace")
    vlib.stage_specs(wd)
    if ctx.replay:
        with open(ctx.replay) as fh:
            rf = json.load(fh)
        tp = os.path.join(wd, "replay.ndjson")
        with open(tp, "w") as fh:
            fh.write("\n".join(rf["trace"]) + "\n")
        v = validate_trace(ctx, st, tp, wd)
        if not v["ok"]:
            if v["hwm"] is None and not v["invariant"]:
                raise CannotDecide("TLC failed on replayed trace:\n" + v["text"][-3000:])
            ctx.violations.append(ctx.replay)
        return
    tp = os.path.join(wd, "recorded.ndjson")
    out = os.path.join(wd, "driver_result.json")
    env = dict(VERIF_TRACE_OUT=tp, VERIF_OUT=out, VERIF_SEED=ctx.seed, VERIF_BUDGET_S=budget, VERIF_TIER=ctx.tier)
    env.update(st.get("env", {}))
    g = vlib.run_go_test(st["pkg"], "^" + st["test"] + "$", env, timeout=budget + 600, harness_files=st["harness"], race=st.get("race", False))
    if st.get("race_oracle") and "WARNING: DATA RACE" in g["out"]:
        handle_races(ctx, st, name, g["out"])
    elif g["rc"] != 0 or not os.path.exists(tp):
        raise CannotDecide(f"trace driver {st['pkg']}/{st['test']} failed (rc={g['rc']}):\n{g['out'][-4000:]}")
    if not os.path.exists(tp):
        raise CannotDecide(f"trace driver {st['pkg']}/{st['test']} wrote no trace (rc={g['rc']})")
    traces = split_traces(tp)
    nev = sum(len(t[1]) for t in traces)
    if nev < 2:
        raise CannotDecide("dead driver: no events recorded")
    v = validate_trace(ctx, st, tp, wd)
    log(f"[{ctx.prop}] trace {name}: {len(traces)} traces, {nev} lines, TLC {v['tlc']['generated']} generated {v['tlc']['distinct']} distinct, accepted={v['ok']} hwm={v['hwm']} {v['tlc']['wall_s']:.1f}s")
    ctx.states += v["tlc"]["distinct"] or 0
    ctx.transitions += v["tlc"]["generated"] or 0
    ctx.tlc_generated += v["tlc"]["generated"] or 0
    ctx.traces += len(traces)
    ctx.steps += nev
    ctx.exhaustive = False
    if traces:
        ctx.samples.append(dict(stage=name, recorded_trace=vlib.trunc([json.loads(x) for x in traces[len(traces) // 2][1]], 10)))
    ctx.extra.setdefault("trace_stages", []).append(dict(stage=name, module=st["module"], traces=len(traces), events=nev, accepted=v["ok"], tlc_distinct=v["tlc"]["distinct"], race_detector=bool(st.get("race"))))
    if not v["ok"] and st.get("race_only"):
        # the trace specification belongs to an extension; in this host only the race detector decides
        log(f"[{ctx.prop}] trace {name}: not accepted by {st['module']} (consumed={v['hwm']}); race_only stage, not deciding")
        shutil.rmtree(wd, ignore_errors=True)
        return
    if not v["ok"]:
        if v["hwm"] is None and not v["invariant"]:
            raise CannotDecide(f"TLC failed on recorded traces (not a rejection):\n{v['text'][-3000:]}")
        # locate the sub-trace that contains the first unmatched line (hwm = lines consumed)
        bad = traces[-1]
        for t in traces:
            if t[0] <= (v["hwm"] or 0) + 1 < t[0] + len(t[1]) + 0:
                bad = t
        p = ctx.new_replay_path(name)
        with open(p, "w") as fh:
            json.dump(dict(property=ctx.prop, stage=name, module=st["module"], kind="trace-rejected", invariant=v["invariant"],
                           first_unmatched_line=(v["hwm"] or 0) + 1 - bad[0] + 1, trace=bad[1], tlc_tail=v["tlc"]["tail"][-30:]), fh, indent=1)
        log(f"[{ctx.prop}] trace REJECTED: invariant={v['invariant']} consumed={v['hwm']} of {v['lines']} lines; sub-trace starts at line {bad[0]}")
        ctx.violations.append(p)
    shutil.rmtree(wd, ignore_errors=True)


def stage_gotest(ctx, st):
    """A Go driver that decides by itself against an oracle derived from the spec
    (used for statistical clauses and the race detector). It writes
    {evaluations, distinct, violations: [{...}], samples: [...], known: [{deviation, ...}]} to VERIF_OUT."""
    name = st.get("name", st["test"])
    budget = tier_val(st.get("budget", {"quick": 20, "thorough": 180}), ctx.tier)
    wd = vlib.scratch(f"{ctx.prop}-{name}-gotest")
    out = os.path.join(wd, "result.json")
    env = dict(VERIF_OUT=out, VERIF_SEED=ctx.seed, VERIF_BUDGET_S=budget, VERIF_TIER=ctx.tier)
    if ctx.replay:
        env["VERIF_REPLAY"] = ctx.replay
    env.update(st.get("env", {}))
    g = vlib.run_go_test(st["pkg"], "^" + st["test"] + "$", env, timeout=budget + 600, harness_files=st["harness"], race=st.get("race", False))
    if st.get("race_oracle") and "WARNING: DATA RACE" in g["out"]:
        handle_races(ctx, st, name, g["out"])
    if not os.path.exists(out):
        raise CannotDecide(f"driver {st['pkg']}/{st['test']} produced no result (rc={g['rc']}):\n{g['out'][-4000:]}")
    with open(out) as fh:
        res = json.load(fh)
    if res.get("error"):
        raise CannotDecide(f"driver error: {res['error']}")
    log(f"[{ctx.prop}] gotest {name}: evaluations={res.get('evaluations')} distinct={res.get('distinct')} violations={len(res.get('violations') or [])}")
    if not res.get("evaluations"):
        raise CannotDecide("dead driver: no evaluations")
    ctx.steps += res.get("evaluations", 0)
    ctx.traces += res.get("traces", 0)
    ctx.extra.setdefault("gotest_stages", []).append(dict(stage=name, evaluations=res.get("evaluations"), distinct=res.get("distinct"), note=res.get("note")))
    for s in (res.get("samples") or [])[:2]:
        ctx.samples.append(dict(stage=name, sample=s))
    if st.get("race_only"):   # the driver's own oracle belongs to another property; here only the race detector decides
        res["known"], res["violations"] = [], []
    for k in res.get("known") or []:
        f = vlib.open_finding(ctx.prop, k["deviation"])
        if f:
            ctx.known.append(f"{f['id']} deviation={k['deviation']} hits={k.get('hits', 1)}: {f['what']}")
        else:
            res.setdefault("violations", []).append(dict(kind="unlisted-deviation", **k))
    for v in res.get("violations") or []:
        p = ctx.new_replay_path(name)
        with open(p, "w") as fh:
            json.dump(dict(property=ctx.prop, stage=name, kind="gotest", violation=v), fh, indent=1)
        log(f"[{ctx.prop}] VIOLATING CASE: {json.dumps(v)[:600]}")
        ctx.violations.append(p)
    shutil.rmtree(wd, ignore_errors=True)
