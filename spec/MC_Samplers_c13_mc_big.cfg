SPECIFICATION Spec
CONSTANTS
  NW = 2
  Family = "c13-full"
  PeerCounts = {1, 2, 3, 5}
  MaxChanges = 1
  Faithful = FALSE
  ShareIdentical = TRUE
  CachedDecide = FALSE
  AtomicReload = FALSE
INVARIANTS TypeOK WorkersShare DestsIsolated DefsIsolated RegistryGoals WorkerGoals PeerCountCurrent 
PROPERTIES CacheStable RegistryMonotone
CHECK_DEADLOCK FALSE
VIEW View
