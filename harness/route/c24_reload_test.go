//go:build verif

package route

// Binding of spec/AuthLive.tla (property C24, live-reload family) to a real
// Router that holds a REAL file-backed configuration.
//
// One walk = one router life: the configuration is loaded by config.NewConfig
// from a config file and a rules file in a private directory, the router
// (Router.LnS: mux + gRPC server, on loopback listeners) keeps that Config for
// its whole life, and the walk edits the file (Write), calls the
// configuration's Reload (Reload) and sends one client key to every ingestion
// endpoint (Round). Observed after every step:
//   - cfg: the access-key configuration in force as the getters show it,
//   - res: what Reload returned (nil / error),
//   - out: per endpoint, whether the request was accepted and which API keys
//     the events carried when the router handed them on.

import (
	"fmt"
	"net/http/httptest"
	"os"
	"path/filepath"
	"slices"
	"strconv"
	"strings"
	"testing"

	"github.com/honeycombio/refinery/config"
	"github.com/honeycombio/refinery/internal/verifkit"
)

const c24LiveVersion = "v3.0.0"

// concrete strings behind the specification's names (all of the non-classic
// key shape, so each has a key ID at the fake Honeycomb)
func init() {
	c24KeyLiteral["a"] = "c24LiveKeyAEEEEEEEEEEE"
	c24KeyLiteral["s1"] = "c24LiveSendOneFFFFFFFF"
	c24KeyLiteral["s2"] = "c24LiveSendTwoGGGGGGGG"
}

// filler entries nobody ever sends: the movable key sits in the middle of a
// list with several entries
var (
	c24LiveFillKeys = []string{"c24LiveFillerKeyHHHHHH", "c24LiveFillerKeyIIIIII"}
	c24LiveFillID   = "c24id-filler"
)

// c24LiveCfg is a configuration of AuthLive.tla.
type c24LiveCfg struct {
	Mode    string `json:"mode"`
	Aol     bool   `json:"aol"`
	SendKey string `json:"sendKey"`
	PosA    string `json:"posA"`
}

func c24LiveCfgOf(m map[string]any) c24LiveCfg {
	return c24LiveCfg{Mode: verifkit.Str(m, "mode"), Aol: verifkit.Bool(m, "aol"), SendKey: verifkit.Str(m, "sendKey"), PosA: verifkit.Str(m, "posA")}
}

// yaml renders the whole configuration document a router needs.
func (c c24LiveCfg) yaml(honeyURL, mode string) string {
	var b strings.Builder
	b.WriteString("General:\n  ConfigurationVersion: 2\n")
	fmt.Fprintf(&b, "Network:\n  ListenAddr: 127.0.0.1:0\n  PeerListenAddr: 127.0.0.1:0\n  HoneycombAPI: %s\n", honeyURL)
	b.WriteString("GRPCServerParameters:\n  Enabled: true\n  ListenAddr: 127.0.0.1:0\n  MaxConnectionIdle: 24h\n  MaxConnectionAge: 24h\n")
	b.WriteString("AccessKeys:\n  ReceiveKeys:\n")
	fmt.Fprintf(&b, "    - %s\n", c24LiveFillKeys[0])
	if c.PosA == "keys" {
		fmt.Fprintf(&b, "    - %s\n", c24KeyLiteral["a"])
	}
	fmt.Fprintf(&b, "    - %s\n", c24LiveFillKeys[1])
	if c.PosA == "ids" {
		// ReceiveKeyIDs is absent unless a key is listed by ID: the router
		// then does not look key IDs up at all, as in production
		fmt.Fprintf(&b, "  ReceiveKeyIDs:\n    - %s\n    - %s\n", c24LiveFillID, c24KeyID(c24KeyLiteral["a"]))
	}
	if c.SendKey != "unset" {
		fmt.Fprintf(&b, "  SendKey: %s\n", c24KeyLiteral[c.SendKey])
	}
	fmt.Fprintf(&b, "  SendKeyMode: %s\n", mode)
	fmt.Fprintf(&b, "  AcceptOnlyListedKeys: %v\n", c.Aol)
	return b.String()
}

const c24LiveRules = "RulesVersion: 2\nSamplers:\n  __default__:\n    DeterministicSampler:\n      SampleRate: 1\n"

// c24LivePoisons are the ways a file is made unacceptable to the loader while
// its AccessKeys section is a perfectly good, DIFFERENT configuration.
var c24LivePoisons = []string{"below-minimum", "unknown-group", "wrong-type", "bad-rules"}

func (c c24LiveCfg) documents(honeyURL string, ok bool, poison string) (string, string) {
	if ok {
		return c.yaml(honeyURL, c.Mode), c24LiveRules
	}
	switch poison {
	case "below-minimum":
		return c.yaml(honeyURL, c.Mode) + "Traces:\n  MaxBatchSize: 7\n", c24LiveRules
	case "unknown-group":
		return c.yaml(honeyURL, c.Mode) + "NoSuchGroup:\n  Foo: 1\n", c24LiveRules
	case "wrong-type":
		return c.yaml(honeyURL, c.Mode) + "Traces:\n  SendDelay: bogus\n", c24LiveRules
	default: // bad-rules
		return c.yaml(honeyURL, c.Mode), "RulesVersion: 2\nSamplers:\n  __default__:\n    InvalidSampler:\n      SampleRate: 50\n"
	}
}

type c24LiveHarness struct {
	root    string
	honey   *httptest.Server
	targets []c24Outcome // endpoint / encoding pairs, in the order of the specification's Targets
	checked bool
	nwalk   int
	nwrite  int
	nbad    int
	seed    int

	dir   string
	cfg   config.Config
	env   *c24Env
	res   string
	req   string
	out   []c24Outcome
	panic string
}

func (h *c24LiveHarness) put(path, content string) error {
	h.nwrite++
	tmp := path + ".tmp" + strconv.Itoa(h.nwrite)
	if err := os.WriteFile(tmp, []byte(content), 0o600); err != nil {
		return err
	}
	return os.Rename(tmp, path) // a reader sees the old or the new bytes
}

func (h *c24LiveHarness) writeFiles(c c24LiveCfg, ok bool) error {
	if !ok {
		h.nbad++ // every way of being refused gets its turn
	}
	cdoc, rdoc := c.documents(h.honey.URL, ok, c24LivePoisons[(h.nbad+h.seed)%len(c24LivePoisons)])
	if err := h.put(filepath.Join(h.dir, "config.yaml"), cdoc); err != nil {
		return err
	}
	return h.put(filepath.Join(h.dir, "rules.yaml"), rdoc)
}

func (h *c24LiveHarness) opts() *config.CmdEnv {
	return &config.CmdEnv{ConfigLocations: []string{filepath.Join(h.dir, "config.yaml")}, RulesLocations: []string{filepath.Join(h.dir, "rules.yaml")}}
}

// checkPoisons makes sure the real startup path refuses every poisoned
// document and accepts the clean one; otherwise the harness is stale (that is
// no verdict about the router).
func (h *c24LiveHarness) checkPoisons() error {
	c := c24LiveCfg{Mode: "listedonly", Aol: true, SendKey: "s1", PosA: "ids"}
	dir := filepath.Join(h.root, "poison")
	if err := os.MkdirAll(dir, 0o700); err != nil {
		return err
	}
	try := func(ok bool, poison string) (bool, error) {
		cdoc, rdoc := c.documents(h.honey.URL, ok, poison)
		cp, rp := filepath.Join(dir, "config.yaml"), filepath.Join(dir, "rules.yaml")
		if err := os.WriteFile(cp, []byte(cdoc), 0o600); err != nil {
			return false, err
		}
		if err := os.WriteFile(rp, []byte(rdoc), 0o600); err != nil {
			return false, err
		}
		cfg, err := config.NewConfig(&config.CmdEnv{ConfigLocations: []string{cp}, RulesLocations: []string{rp}}, c24LiveVersion)
		if cfg != nil && err != nil {
			return false, fmt.Errorf("stale harness: the loader warns about a document meant to be clean or refused (%s): %v", poison, err)
		}
		return cfg != nil, nil
	}
	if acc, err := try(true, ""); err != nil || !acc {
		return fmt.Errorf("stale harness: the loader refuses the clean document: %v", err)
	}
	for _, p := range c24LivePoisons {
		acc, err := try(false, p)
		if err != nil {
			return err
		}
		if acc {
			return fmt.Errorf("stale harness: the loader accepts the document poisoned with %q", p)
		}
	}
	return nil
}

func (h *c24LiveHarness) closeEnv() {
	if h.env != nil {
		h.env.close()
		h.env = nil
	}
	if h.dir != "" {
		os.RemoveAll(h.dir)
		h.dir = ""
	}
}

func (h *c24LiveHarness) Reset(init map[string]any) error {
	if !h.checked {
		if err := h.checkPoisons(); err != nil {
			return err
		}
		h.checked = true
		h.seed, _ = strconv.Atoi(os.Getenv("VERIF_SEED"))
		// the endpoints a Round visits (the specification's Targets)
		params, _ := init["params"].(map[string]any)
		ts, _ := params["targets"].([]any)
		for _, t := range ts {
			m := t.(map[string]any)
			h.targets = append(h.targets, c24Outcome{Ep: verifkit.Str(m, "ep"), Enc: verifkit.Str(m, "enc")})
		}
		if len(h.targets) == 0 {
			return fmt.Errorf("the graph does not name the endpoints of a Round (params.targets)")
		}
	}
	h.closeEnv()
	h.nwalk++
	h.dir = filepath.Join(h.root, "walk"+strconv.Itoa(h.nwalk))
	if err := os.MkdirAll(h.dir, 0o700); err != nil {
		return err
	}
	run := c24LiveCfgOf(init["cfg"].(map[string]any))
	file := init["file"].(map[string]any)
	if fc := c24LiveCfgOf(file["cfg"].(map[string]any)); fc != run || !verifkit.Bool(file, "ok") {
		return fmt.Errorf("initial state whose file is not the running configuration: %v", init)
	}
	// startup: the file is loaded the way main() loads it
	if err := h.writeFiles(run, true); err != nil {
		return err
	}
	cfg, err := config.NewConfig(h.opts(), c24LiveVersion)
	if cfg == nil || err != nil {
		return fmt.Errorf("startup refused or warned about the initial configuration %+v: %v", run, err)
	}
	h.cfg = cfg
	if h.env, err = c24StartRouter(cfg); err != nil {
		return err
	}
	h.res, h.req, h.out, h.panic = "none", "none", []c24Outcome{}, ""
	return nil
}

func (h *c24LiveHarness) Apply(a map[string]any) (err error) {
	defer func() {
		if r := recover(); r != nil {
			h.panic = fmt.Sprint(r)
		}
	}()
	switch verifkit.Str(a, "name") {
	case "Write":
		return h.writeFiles(c24LiveCfgOf(a["cfg"].(map[string]any)), verifkit.Bool(a, "ok"))
	case "Reload":
		if e := h.cfg.Reload(); e != nil {
			h.res = "err"
		} else {
			h.res = "nil"
		}
	case "Round":
		h.req = verifkit.Str(a, "key")
		h.out = []c24Outcome{}
		for _, t := range h.targets {
			o, err := h.env.eval(t.Ep, t.Enc, h.req)
			if err != nil {
				return err
			}
			h.out = append(h.out, o)
		}
	case "Clear":
		h.res, h.req, h.out = "none", "none", []c24Outcome{}
	case "Forget":
	default:
		return fmt.Errorf("unknown action %v", a)
	}
	return nil
}

// shown reads the configuration in force back through the public getter.
func (h *c24LiveHarness) shown() map[string]any {
	ak := h.cfg.GetAccessKeyConfig()
	send := "unset"
	if ak.SendKey != "" {
		send = c24KeyName(ak.SendKey)
	}
	inKeys := slices.Contains(ak.ReceiveKeys, c24KeyLiteral["a"])
	inIDs := slices.Contains(ak.ReceiveKeyIDs, c24KeyID(c24KeyLiteral["a"]))
	pos := "none"
	switch {
	case inKeys && inIDs:
		pos = "keys+ids"
	case inKeys:
		pos = "keys"
	case inIDs:
		pos = "ids"
	}
	return map[string]any{"mode": ak.SendKeyMode, "aol": ak.AcceptOnlyListedKeys, "sendKey": send, "posA": pos}
}

func (h *c24LiveHarness) Project() (any, error) {
	p := map[string]any{"cfg": h.shown(), "res": h.res, "req": h.req, "out": h.out}
	if h.panic != "" {
		p["panic"] = h.panic
	}
	return p, nil
}

func TestVerifC24Live(t *testing.T) {
	honey := c24NewHoneycomb()
	defer honey.Close()
	h := &c24LiveHarness{root: t.TempDir(), honey: honey}
	defer h.closeEnv()
	if err := verifkit.Main(h); err != nil {
		t.Fatal(err)
	}
}
