SPECIFICATION SpecU
CONSTANTS
  Subs1 = {"a"}
  Timeouts1 = {3, 5}
  Subs2 = {"b"}
  Timeouts2 = {5}
  Tick = 2
  UnitMs = 250
  Exact = TRUE
INVARIANTS InitSame SameInv
PROPERTIES Fwd Bwd SameAct
VIEW View
