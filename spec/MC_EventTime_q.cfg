SPECIFICATION Spec
CONSTANTS
  Faithful = TRUE
  Secs <- SecsQuick
  Digits <- DigitsQuick
  Zones <- ZonesQuick
INVARIANTS TypeOK InexactOnlyAsDeviation RefusedOnlyWhereOpen PadSane LossFree
ACTION_CONSTRAINT Dump
VIEW View
CHECK_DEADLOCK FALSE
