SPECIFICATION Spec
CONSTANTS
  NW = 3
  Family = "c12-quick"
  PeerCounts = {1}
  MaxChanges = 1
  Faithful = FALSE
  ShareIdentical = TRUE
  CachedDecide = FALSE
  AtomicReload = FALSE
INVARIANTS TypeOK WorkersShare DestsIsolated DefsIsolated RegistryGoals WorkerGoals PeerCountCurrent 
PROPERTIES CacheStable RegistryMonotone
CHECK_DEADLOCK FALSE
VIEW View
