------------------------------ MODULE TraceKey ------------------------------
(***************************************************************************)
(* Sample keys of the dynsampler-backed samplers (property C11).           *)
(*                                                                         *)
(* sample/trace_key.go builds, for a trace and a configured field list, a  *)
(* key string; DynamicSampler, EMADynamicSampler, EMAThroughputSampler,    *)
(* WindowedThroughputSampler and TotalThroughputSampler hand it to their   *)
(* dynsampler and return it from GetSampleRate.  C11 says what the key may *)
(* depend on; it does not fix the text of the key.  So the specification   *)
(* defines the ABSTRACT key                                                *)
(*                                                                         *)
(*   AKey(c, t) = for every plain field the SET of values it takes over    *)
(*                the spans, for every root.-field the root span's value   *)
(*                (or none), and the span count if UseTraceLength          *)
(*                                                                         *)
(* and states C11 as a relation between abstract and real keys:            *)
(*   equal abstract keys      => equal real keys           (always)        *)
(*   different abstract keys  => different real keys       (all fields     *)
(*                               present, delimiter-free values)           *)
(*                                                                         *)
(* Function-vector binding (B3): Init enumerates vectors, Eval fills in    *)
(* the expected observation.                                               *)
(*   "class" vector (c, t, u): u = NF(c, t) is the normal form of t, a     *)
(*      trace rebuilt from AKey(c, t) alone.  All traces of an abstract    *)
(*      class share u, so `key(t) = key(u)` for every enumerated t gives   *)
(*      equality on whole classes; the enumeration contains every order of *)
(*      the spans, every duplication, every split of the values over the   *)
(*      spans, and every value of the fields that are not configured.      *)
(*   "pair" vector (c, t, u): two normal forms of different separable      *)
(*      classes; their real keys must differ.                              *)
(* The real side is each sampler's GetSampleRate: the key it returns, and  *)
(* the rate (>= 1 always).                                                 *)
(***************************************************************************)
EXTENDS Integers, Sequences, FiniteSets, TLC, Json

CONSTANTS DataFields,  \* field names that occur in spans (the catalogue below uses "a" and "b")
          Vals,        \* value tokens ("s:x" string x, "i:7" integer 7, "b:true", "f:2.5"); distinct renderings
          DelimVals,   \* the tokens whose rendering contains a key delimiter (',' or the bullet)
          MaxSpans,
          CfgNames,    \* which field lists of the catalogue are enumerated
          Samplers     \* names of the dynsampler-backed samplers

VARIABLES vec, out, act

vars == <<vec, out, act>>

NoVal == "-"                       \* the field is absent from the span
SpanDom == [DataFields -> Vals \cup {NoVal}]

\* a trace: its spans in arrival order and which of them is the root (0: no root yet)
Traces == UNION {{[spans |-> s, root |-> r] : s \in [1..n -> SpanDom], r \in 0..n} : n \in 0..MaxSpans}

\* field lists (FieldList entries "f" are plain, "root.f" root-only)
Catalogue == [ a     |-> [plain |-> {"a"},      root |-> {}],
               ab    |-> [plain |-> {"a", "b"}, root |-> {}],
               ra    |-> [plain |-> {},         root |-> {"a"}],
               a_rb  |-> [plain |-> {"a"},      root |-> {"b"}],
               a_ra  |-> [plain |-> {"a"},      root |-> {"a"}],
               ab_ra |-> [plain |-> {"a", "b"}, root |-> {"a"}],
               ra_rb |-> [plain |-> {},         root |-> {"a", "b"}] ]

ASSUME /\ \A n \in CfgNames : n \in DOMAIN Catalogue /\ (Catalogue[n].plain \cup Catalogue[n].root) \subseteq DataFields
       /\ DelimVals \subseteq Vals
       /\ MaxSpans \in Nat

Cfg(n, u) == [name |-> n, plain |-> Catalogue[n].plain, root |-> Catalogue[n].root, utl |-> u]
Cfgs == {Cfg(n, u) : n \in CfgNames, u \in BOOLEAN}

----------------------------------------------------------------------------
\* The abstract key
Values(t, f) == {t.spans[i][f] : i \in 1..Len(t.spans)} \ {NoVal}

AKey(c, t) ==
  [ plainSets |-> [f \in c.plain |-> Values(t, f)],
    rootVals  |-> [f \in c.root |-> IF t.root = 0 THEN NoVal ELSE t.spans[t.root][f]],
    count     |-> IF c.utl THEN Len(t.spans) ELSE -1 ]

\* all configured fields present, no value contains a delimiter
Separable(c, t) ==
  /\ \A f \in c.plain : Values(t, f) # {} /\ Values(t, f) \cap DelimVals = {}
  /\ \A f \in c.root : t.root # 0 /\ t.spans[t.root][f] \notin ({NoVal} \cup DelimVals)

----------------------------------------------------------------------------
\* Normal form: a trace built from an abstract key only.
RECURSIVE SeqOf(_)
SeqOf(S) == IF S = {} THEN <<>> ELSE LET x == CHOOSE y \in S : TRUE IN <<x>> \o SeqOf(S \ {x})

Max(S) == CHOOSE x \in S : \A y \in S : y <= x

NFOfKey(c, k) ==
  LET hasRoot == \E f \in c.root : k.rootVals[f] # NoVal
      \* the root span (index 1) must show exactly rootVals for the root fields
      rootVal(f) == IF f \in c.root THEN k.rootVals[f] ELSE NoVal
      \* column of a plain field: its values top-down; the root's own value first; if the
      \* field is a root field the root lacks, leave the root span's cell empty
      col(f) == IF f \notin c.plain THEN <<>>
                ELSE IF hasRoot /\ f \in c.root
                     THEN IF rootVal(f) # NoVal
                          THEN <<rootVal(f)>> \o SeqOf(k.plainSets[f] \ {rootVal(f)})
                          ELSE <<NoVal>> \o SeqOf(k.plainSets[f])
                     ELSE SeqOf(k.plainSets[f])
      need == Max({Len(col(f)) : f \in c.plain} \cup {IF hasRoot THEN 1 ELSE 0})
      n == IF k.count >= 0 THEN k.count ELSE need
      cell(i, f) == IF f \in c.plain
                    THEN IF i <= Len(col(f)) THEN col(f)[i] ELSE NoVal
                    ELSE IF i = 1 /\ hasRoot THEN rootVal(f) ELSE NoVal
  IN [spans |-> [i \in 1..n |-> [f \in DataFields |-> cell(i, f)]],
      root |-> IF hasRoot THEN 1 ELSE 0]

NF(c, t) == NFOfKey(c, AKey(c, t))

SepReps(c) == {NF(c, t) : t \in {x \in Traces : Separable(c, x)}}

----------------------------------------------------------------------------
ClassVectors == {[kind |-> "class", cfg |-> c, t |-> t, u |-> NF(c, t)] : c \in Cfgs, t \in Traces}

\* every unordered pair of different separable classes once
PairVectors ==
  UNION {LET reps == SeqOf(SepReps(c))
         IN {[kind |-> "pair", cfg |-> c, t |-> reps[p[1]], u |-> reps[p[2]]] :
                p \in {q \in (1..Len(reps)) \X (1..Len(reps)) : q[1] < q[2]}} : c \in Cfgs}

Init == /\ vec \in ClassVectors \cup PairVectors
        /\ out = [evaluated |-> FALSE]
        /\ act = [name |-> "Init"]

\* GetSampleRate on t and on u by every sampler (one long-lived sampler per
\* configuration: u, t, u again for a class vector, so state left behind by one
\* trace must not leak into the next key)
Eval == /\ ~out.evaluated
        /\ out' = [evaluated |-> TRUE,
                   sameSet   |-> IF vec.kind = "class" THEN Samplers ELSE {},   \* key(t) = key(u)
                   differSet |-> IF vec.kind = "pair" THEN Samplers ELSE {},    \* key(t) # key(u)
                   stableSet |-> Samplers,   \* asking again gives the same key
                   rateOKSet |-> Samplers]   \* every returned rate >= 1
        /\ UNCHANGED vec
        /\ act' = [name |-> "Eval"]

Next == Eval

Spec == Init /\ [][Next]_vars

----------------------------------------------------------------------------
\* Properties of the abstract key that TLC checks on every vector

TypeOK == /\ vec.kind \in {"class", "pair"}
          /\ vec.cfg \in Cfgs
          /\ vec.t \in Traces /\ vec.u \in Traces
          /\ out.evaluated \in BOOLEAN

\* the normal form is in the class of its trace and is a fixed point
NFSound == vec.kind = "class" =>
             /\ AKey(vec.cfg, vec.u) = AKey(vec.cfg, vec.t)
             /\ NF(vec.cfg, vec.u) = vec.u
             /\ Separable(vec.cfg, vec.u) <=> Separable(vec.cfg, vec.t)

\* C11: reordering the spans does not change the abstract key
Perms(n) == {p \in [1..n -> 1..n] : \A i, j \in 1..n : p[i] = p[j] => i = j}
Permute(t, p) == [spans |-> [i \in 1..Len(t.spans) |-> t.spans[p[i]]],
                  root |-> IF t.root = 0 THEN 0 ELSE CHOOSE i \in 1..Len(t.spans) : p[i] = t.root]
PermutationInvariant ==
  vec.kind = "class" =>
     \A p \in Perms(Len(vec.t.spans)) : AKey(vec.cfg, Permute(vec.t, p)) = AKey(vec.cfg, vec.t)

\* C11: duplicating a span changes the abstract key exactly when the span count is part of it
Duplicate(t, i) == [spans |-> Append(t.spans, t.spans[i]), root |-> t.root]
DuplicationInvariant ==
  vec.kind = "class" =>
     \A i \in 1..Len(vec.t.spans) :
        (AKey(vec.cfg, Duplicate(vec.t, i)) = AKey(vec.cfg, vec.t)) <=> ~vec.cfg.utl

\* C11: fields that are not configured, and root-only fields of other spans, do not matter
Overwrite(t, i, f, v) == [t EXCEPT !.spans[i][f] = v]
IrrelevantCellsInvariant ==
  vec.kind = "class" =>
     \A i \in 1..Len(vec.t.spans), f \in DataFields, v \in Vals \cup {NoVal} :
        (f \notin vec.cfg.plain /\ (f \notin vec.cfg.root \/ i # vec.t.root))
           => AKey(vec.cfg, Overwrite(vec.t, i, f, v)) = AKey(vec.cfg, vec.t)

\* pair vectors really are different separable classes
PairsDistinct ==
  vec.kind = "pair" =>
     /\ AKey(vec.cfg, vec.t) # AKey(vec.cfg, vec.u)
     /\ Separable(vec.cfg, vec.t) /\ Separable(vec.cfg, vec.u)

\* the output never claims both relations
OutConsistent == out.evaluated => out.sameSet \cap out.differSet = {}

----------------------------------------------------------------------------
\* conformance plumbing
St == [vec |-> vec, out |-> out]
Abs == [kind |-> vec.kind, out |-> out]
Dump == PrintT(ToJson([fs |-> St, fa |-> act.name, act |-> act', ts |-> St', fabs |-> Abs, tabs |-> Abs']))
View == <<vec, out>>
=============================================================================
