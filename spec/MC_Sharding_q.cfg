SPECIFICATION Spec
CONSTANTS
  AddrSeq <- Universe3
  Live = {"a:1", "b:1", "c:1"}
  MaxMult = 2
  MaxDup = 1
  Views = {"sorted", "reversed", "rotated"}
  Traces = {"t1", "t2"}
  MaxSends = 2
  Rebuild = "always"
INVARIANTS TypeOK TableIsCurrent SameListSameOwner OwnerListed OneOwner AtMostOneHop NoSelfForward
ACTION_CONSTRAINT Dump
VIEW View
CHECK_DEADLOCK FALSE
