--------------------------- MODULE MCWireFieldsMC ---------------------------
(* C20 decision pipeline, model checking only (no replay): 3 spans (root, two children with and without a client
   sample rate), every subset of 4 client names on the root, 16 decoration profiles, 3 ingest paths *)
EXTENDS MCWireFieldsBase
mc_Spans == {"r", "c", "d"}
mc_Crate == ("r" :> 0) @@ ("c" :> 2) @@ ("d" :> 0)
mc_Shapes == ("r" :> SUBSET (mc_ClientNames \ {"dur"}))
          @@ ("c" :> {{"svc", "http"}, {"http.response.status", "tags", "dur"}})
          @@ ("d" :> {{"http", "http.response.status"}})
mc_Samplers == {mc_RulesNested, mc_RulesRootList, mc_RulesDownstream, mc_Dynamic}
mc_Profiles == {P(d, r, c, sc, r, IF d THEN {"env"} ELSE {}) : d \in BOOLEAN, r \in BOOLEAN, c \in BOOLEAN, sc \in BOOLEAN}
=============================================================================
