--------------------------- MODULE Deterministic ---------------------------
(***************************************************************************)
(* Deterministic sampling (property C10).                                  *)
(*                                                                         *)
(* Two components of /repo decide "keep or drop" from nothing but a hash   *)
(* of the trace ID and a configured rate:                                  *)
(*   Kind = "det"     sample.DeterministicSampler  (sha1, 32-bit space)    *)
(*   Kind = "stress"  collect.StressRelief          (wyhash, 64-bit space) *)
(* Both keep two pieces of state per instance, written by one critical     *)
(* section (Start / UpdateFromConfig) and read by another (GetSampleRate): *)
(*   rate[i]   the configured sample rate  (-1: instance not configured)   *)
(*   bound[i]  the threshold  H \div rate  computed when configuring       *)
(*                                                                         *)
(* The hash space is 0..H.  `h` is the hash of the one trace ID a          *)
(* behaviour talks about; it is chosen in Init and never changes (the      *)
(* hash is a fixed function of the ID: the same on every node, in every    *)
(* run).  Several instances (nodes) are configured independently.          *)
(*                                                                         *)
(* Binding to the code (B3 + transition tour): the harness concretises the *)
(* abstract vector (table, h) as a real trace ID whose independently       *)
(* computed hash lies in the same threshold bucket of the real rate table  *)
(* as h does in the model's (the order isomorphism between the model's     *)
(* thresholds H \div N and the real ones MaxUint \div N' preserves every   *)
(* keep/drop answer), replays Configure/Decide on real sampler objects and *)
(* compares each instance's (rate, keep) answer with Answer(i).            *)
(*                                                                         *)
(* SpecArith is the function-vector view used for the arithmetic lemmas    *)
(* over a larger hash space (all h, all rates up to MaxN).                 *)
(***************************************************************************)
EXTENDS Integers, FiniteSets, TLC, Json

CONSTANTS Kind,         \* "det" | "stress"
          H,            \* hash space is 0..H
          Rates,        \* rates that can be configured (model numbers)
          Insts,        \* instance (node) names
          Tables,       \* names of the harness' rate tables (model rate -> real rate)
          ExtremeFrom,  \* in table "extreme", model rates >= this stand for rates near the
                        \* top of the real range; no real ID with a hash at or below their
                        \* threshold can be found, so such h are not enumerated there
          Profiles,     \* names of settings for the REST of the configuration record that is
                        \* (re)loaded together with the rate (stress relief: Mode, ActivationLevel,
                        \* DeactivationLevel, MinimumActivationDuration - usual, equal, inverted,
                        \* zero ...); the harness owns the concrete values
          Rejectable    \* the profiles an implementation may legitimately refuse as a whole

ASSUME /\ Kind \in {"det", "stress"}
       /\ H \in Nat /\ Rates \subseteq Nat
       /\ Kind = "det" => 0 \notin Rates   \* rate 0 is outside the quantifier of C10 for the sampler
       /\ Rejectable \subseteq Profiles

VARIABLES table, h, rate, bound, act

vars == <<table, h, rate, bound, act>>

\* The decision rule of the property statement
Keep(hh, N, HH) == N <= 1 \/ hh <= HH \div N

\* sampleRate as stored by the critical section that configures an instance
Stored(N) == IF Kind = "stress" /\ N = 0 THEN 1 ELSE N

\* what GetSampleRate(traceID) returns on instance i
Answer(i) ==
  IF rate[i] = -1 THEN [rate |-> -1, keep |-> FALSE]
  ELSE IF rate[i] <= 1 THEN [rate |-> 1, keep |-> TRUE]
  ELSE [rate |-> rate[i], keep |-> h <= bound[i]]

AvailH(t) == IF t = "extreme" THEN {hh \in 0..H : hh > H \div ExtremeFrom} ELSE 0..H

Init == /\ table \in Tables
        /\ h \in AvailH(table)
        /\ rate = [i \in Insts |-> -1]
        /\ bound = [i \in Insts |-> -1]
        /\ act = [name |-> "Init"]

\* DeterministicSampler.Start() of a new sampler object built from the rules /
\* StressRelief.UpdateFromConfig() (also the reload path, same object).
\* A (re)configuration is the whole configuration record: the rate N together
\* with a profile p of the other fields.  C10 lets the kept set depend on the
\* rate only, so whatever p is, the instance must afterwards report N and
\* decide with N's threshold.
Configure(i, N, p) ==
  /\ rate' = [rate EXCEPT ![i] = Stored(N)]
  /\ bound' = [bound EXCEPT ![i] = H \div Stored(N)]
  /\ UNCHANGED <<table, h>>
  /\ act' = [name |-> "Configure", i |-> i, n |-> N, p |-> p]

\* An implementation may refuse a questionable record as a whole.  What C10
\* still demands then is that the rate it reports and the threshold it decides
\* with stay a pair: both keep their previous values (a never configured
\* instance keeps everything and reports 1).  Same label as Configure: the
\* replay accepts either outcome, and nothing in between.
ConfigureRefused(i, N, p) ==
  /\ p \in Rejectable
  /\ rate' = [rate EXCEPT ![i] = IF rate[i] = -1 THEN 1 ELSE rate[i]]
  /\ bound' = [bound EXCEPT ![i] = IF rate[i] = -1 THEN H ELSE bound[i]]
  /\ UNCHANGED <<table, h>>
  /\ act' = [name |-> "Configure", i |-> i, n |-> N, p |-> p]

\* GetSampleRate(traceID): reads rate and bound, changes nothing
Decide(i) ==
  /\ rate[i] # -1
  /\ UNCHANGED <<table, h, rate, bound>>
  /\ act' = [name |-> "Decide", i |-> i]

Next == \/ \E i \in Insts, N \in Rates, p \in Profiles : Configure(i, N, p) \/ ConfigureRefused(i, N, p)
        \/ \E i \in Insts : Decide(i)

Spec == Init /\ [][Next]_vars

----------------------------------------------------------------------------
Started == {i \in Insts : rate[i] # -1}

TypeOK == /\ table \in Tables
          /\ h \in 0..H
          /\ rate \in [Insts -> {-1} \cup {Stored(N) : N \in Rates}]
          /\ bound \in [Insts -> -1..H]

\* the stored threshold always belongs to the stored rate
BoundIsThreshold == \A i \in Started : bound[i] = H \div rate[i]

\* C10: keep exactly when the hash falls under the threshold set by the rate
KeepIsThreshold == \A i \in Started : Answer(i).keep <=> Keep(h, rate[i], H)

\* C10: a rate of 1 or less keeps everything (and reports rate 1)
RateLE1KeepsAll == \A i \in Started : rate[i] <= 1 => Answer(i) = [rate |-> 1, keep |-> TRUE]

\* C10: every node decides the same for the same trace ID and rate
InstancesAgree == \A i, j \in Started : rate[i] = rate[j] => Answer(i) = Answer(j)

\* C10: decisions are nested
NestedAnswers == \A i, j \in Started : rate[i] <= rate[j] /\ Answer(j).keep => Answer(i).keep

\* C10: asking does not change any answer (every run decides the same)
AskingIsPure == [][act'.name = "Decide" => \A i \in Insts : Answer(i)' = Answer(i)]_vars

\* C10: after a configuration step the instance answers for the configured rate
\* (or, for a refusable record, exactly as before / keep-all if it had none)
ConfigureTakesEffect ==
  [][act'.name = "Configure" =>
       \A i \in Insts : i = act'.i =>
         \/ Answer(i)' = (IF Stored(act'.n) <= 1 THEN [rate |-> 1, keep |-> TRUE]
                          ELSE [rate |-> Stored(act'.n), keep |-> Keep(h, Stored(act'.n), H)])
         \/ /\ act'.p \in Rejectable
            /\ Answer(i)' = (IF rate[i] = -1 THEN [rate |-> 1, keep |-> TRUE] ELSE Answer(i))]_vars

\* reconfiguring one instance never changes another instance's answer
ConfigureIsLocal ==
  [][act'.name = "Configure" => \A j \in Insts \ {act'.i} : Answer(j)' = Answer(j)]_vars

----------------------------------------------------------------------------
\* Function-vector view: one instance, configured once, every (h, N).
InitArith == /\ table = "none"
             /\ h \in 0..H
             /\ rate = [i \in Insts |-> -1]
             /\ bound = [i \in Insts |-> -1]
             /\ act = [name |-> "Init"]

NextArith == \E i \in Insts, N \in Rates, p \in Profiles : rate[i] = -1 /\ Configure(i, N, p)

SpecArith == InitArith /\ [][NextArith]_vars

TypeOKArith == /\ h \in 0..H
               /\ rate \in [Insts -> {-1} \cup {Stored(N) : N \in Rates}]
               /\ bound \in [Insts -> -1..H]

\* kept at N => kept at every M <= N  (all M, not only configured ones)
ArithNested ==
  \A i \in Started : Answer(i).keep => \A M \in 0..rate[i] : Keep(h, M, H)

\* dropped at N => dropped at every larger rate
ArithNestedUp ==
  \A i \in Started : ~Answer(i).keep => \A M \in {m \in Rates : m >= rate[i]} : ~Keep(h, M, H)

\* the kept part of the hash space has exactly H \div N + 1 of the H + 1 values:
\* the kept fraction differs from 1/N by less than 1/(H+1) + 1/N * 1/(H+1)
ArithKeptCount ==
  \A i \in Started :
     Cardinality({hh \in 0..H : Keep(hh, rate[i], H)}) =
        IF rate[i] <= 1 THEN H + 1 ELSE H \div rate[i] + 1

ArithFraction ==
  \A i \in Started : rate[i] > 1 =>
     LET k == H \div rate[i] + 1 IN
       /\ k * rate[i] > H + 1 - rate[i]     \* k/(H+1) > 1/N - 1/(H+1)
       /\ (k - 1) * rate[i] <= H            \* (k-1)/(H+1) <= 1/N

----------------------------------------------------------------------------
\* conformance plumbing
St == [kind |-> Kind, H |-> H, rateSet |-> Rates, extremeFrom |-> ExtremeFrom,
       table |-> table, h |-> h, rate |-> rate, bound |-> bound]

Abs == [kind |-> Kind, table |-> table, h |-> h,
        ans |-> [i \in Insts |-> Answer(i)],
        agrees |-> TRUE,              \* real answer = independent hash <= MaxUint \div N
        nested |-> TRUE,              \* over the whole real rate table, for this ID
        twoInstancesAgree |-> TRUE,   \* two fresh real instances, every rate of the table
        repeatable |-> TRUE]          \* repeated calls return the same

Dump == PrintT(ToJson([fs |-> St, fa |-> act.name, act |-> act', ts |-> St', fabs |-> Abs, tabs |-> Abs']))
View == <<table, h, rate, bound>>
=============================================================================
