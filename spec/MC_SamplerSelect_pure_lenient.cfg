SPECIFICATION Spec
CONSTANTS
  Mode = "pure"
  Shapes <- ShapesQuick
  Names = {"prod", "web"}
  Prefixes = {"", "cls"}
  RuleSets <- RuleSetsQuick
  DefaultKinds = {"det", "dyn"}
  DetRuleSets <- RuleSetsQuick
  Encs = {"msgpack"}
  Auths = {"ok"}
  WithReload = FALSE
  Faithful = FALSE
  UpperHexIsClassic = TRUE
INVARIANTS TypeOK EnvKeyUsesEnvironment ClassicKeyUsesDataset DocumentedShapes NeverWithoutSampler PrefixSeparates ExtractedIsWhatDeciderReads DecisionOfOneTarget NoUnknownEnvironmentIngested
PROPERTY DecisionFollowsRules
ACTION_CONSTRAINT Dump
VIEW View
CHECK_DEADLOCK FALSE
