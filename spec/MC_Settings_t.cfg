SPECIFICATION Spec
CONSTANTS
  Classes = {"string", "hostport", "stringlist", "stringmap", "int", "duration", "memsize", "bool"}
  Uniform = FALSE
  Faithful = TRUE
INVARIANTS TypeOK LosersDoNotShow WinnerShows DefaultWhenUndefined SetVarsExpanded UnsetLeftAlone DollarLiteralsVerbatim OtherKindsVerbatim ValidatedIsApplied DeviationsDiffer MapMergePerKey
PROPERTY InputsUntouched
ACTION_CONSTRAINT Dump
VIEW View
CHECK_DEADLOCK FALSE
