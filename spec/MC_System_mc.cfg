SPECIFICATION Spec
CONSTANTS
  Nodes <- mc_Nodes3
  Traces <- mc_TracesM
  Owner <- mc_OwnerM
  Keep <- mc_KeepM
  SamplerRate = 2
  CRates = {3}
  Shapes = {"root-msgpack"}
  MaxSpans = 3
  StressNodes = {"b"}
  SKeep <- mc_SKeepM
  StressRate = 5
  WithPlain = FALSE
  Epochs = FALSE
  Compress = TRUE
INVARIANTS TypeOK AtMostOnce InOnePlace VerdictRespected StressVerdict JustifiedAtNode ExactlyOnceAtRest AccountedAtRest RatesCompose OnlyOwnerCollects DecidedOnce HnyIntact PeerIntact OneHop NoSelfForward ArrivesAtOwner
PROPERTIES Remembered HnyGrows
VIEW View
CHECK_DEADLOCK FALSE
