------------------------------- MODULE TTL -------------------------------
(***************************************************************************)
(* generics.SetWithTTL and generics.MapWithTTL (property C32).             *)
(*                                                                         *)
(* One abstract object stands for both: `exp` is the expiry instant of     *)
(* each item (-1 = not stored), `val` the value the map holds for it.      *)
(* Every query of the real objects (Contains, Members, Length, Get, Keys,  *)
(* SortedKeys, Values, SortedValues, Length) is an observation of the same *)
(* predicate Present(i); queries are also actions because in the code      *)
(* Members/Length/Keys/Values mutate the object (cleanup).                 *)
(*                                                                         *)
(* The boundary convention at the expiry instant itself is the constant    *)
(* Closed: the property only demands that all queries agree, so the check  *)
(* accepts an implementation that conforms to either value.                *)
(***************************************************************************)
EXTENDS Integers, FiniteSets, TLC, Json

CONSTANTS Items,   \* set of strings
          Vals,    \* set of positive integers (map values)
          TTL,     \* time to live in ticks
          MaxNow,  \* horizon
          Closed   \* TRUE: present at now = exp;  FALSE: absent at now = exp

VARIABLES exp, val, lastAdd, now, act

vars == <<exp, val, lastAdd, now, act>>

Present(i) == exp[i] >= 0 /\ (IF Closed THEN now <= exp[i] ELSE now < exp[i])

\* the projection both sides compare
Abs == [ now        |-> now,
         presentSet |-> {i \in Items : Present(i)},
         length     |-> Cardinality({i \in Items : Present(i)}),
         vals       |-> [i \in Items |-> IF Present(i) THEN val[i] ELSE 0] ]

Init == /\ exp = [i \in Items |-> -1]
        /\ val = [i \in Items |-> 0]
        /\ lastAdd = [i \in Items |-> -1]
        /\ now = 0
        /\ act = [name |-> "Init"]

\* SetWithTTL.Add(i) / MapWithTTL.Set(i, v)
Add(i, v) == /\ exp' = [exp EXCEPT ![i] = now + TTL]
             /\ val' = [val EXCEPT ![i] = v]
             /\ lastAdd' = [lastAdd EXCEPT ![i] = now]
             /\ now' = now
             /\ act' = [name |-> "Add", i |-> i, v |-> v]

\* SetWithTTL.Remove(i) / MapWithTTL.Delete(i)
Remove(i) == /\ exp' = [exp EXCEPT ![i] = -1]
             /\ lastAdd' = [lastAdd EXCEPT ![i] = -1]
             /\ UNCHANGED <<val, now>>
             /\ act' = [name |-> "Remove", i |-> i]

\* the fake clock advances by d ticks
Advance(d) == /\ now + d <= MaxNow
              /\ now' = now + d
              /\ UNCHANGED <<exp, val, lastAdd>>
              /\ act' = [name |-> "Advance", d |-> d]

\* a mutating query (cleanup): abstractly a no-op
Query(q) == /\ UNCHANGED <<exp, val, lastAdd, now>>
            /\ act' = [name |-> "Query", q |-> q]

Queries == {"Members", "Length", "Keys", "Values", "SortedValues"}

Next == \/ \E i \in Items, v \in Vals : Add(i, v)
        \/ \E i \in Items : Remove(i)
        \/ \E d \in {1, 2} : Advance(d)
        \/ \E q \in Queries : Query(q)

Spec == Init /\ [][Next]_vars

TypeOK == /\ exp \in [Items -> -1 .. (MaxNow + TTL)]
          /\ val \in [Items -> Vals \cup {0}]
          /\ now \in 0 .. MaxNow

\* C32: present for its TTL after the most recent add, absent afterwards
PresentForTTL ==
  \A i \in Items :
    Present(i) <=> /\ lastAdd[i] >= 0
                   /\ IF Closed THEN now <= lastAdd[i] + TTL ELSE now < lastAdd[i] + TTL

\* C32: all observers agree (they are the same predicate in the spec; the
\* conformance replay checks each real query against it)
ObserversAgree ==
  /\ Abs.length = Cardinality(Abs.presentSet)
  /\ \A i \in Items : (Abs.vals[i] # 0) <=> (i \in Abs.presentSet)

\* a removal or expiry is never undone except by a new Add
NoResurrection ==
  [][\A i \in Items : (~Present(i) /\ Present(i)') => act'.name = "Add" /\ act'.i = i]_vars

\* edge dump used by the conformance replay (enabled from the .cfg)
St == [exp |-> exp, val |-> val, now |-> now]
Dump == PrintT(ToJson([fs |-> St, fa |-> act.name, act |-> act', ts |-> St', fabs |-> Abs, tabs |-> Abs']))
View == <<exp, val, lastAdd, now>>
=============================================================================
