SPECIFICATION FairSpec
CONSTANTS
  MaxEvents = 3
  Faithful = FALSE
  Macro = FALSE
  EnvAts = {1, 2, 3}
  EnvFaults = {"401", "500"}
  BodyFaults = {"gzip", "gziptrunc", "zstd"}
  ParseFaults = {"garbage", "truncated", "ctype"}
INVARIANTS TypeOK ErrorMeansNoEffects SuccessMeansAllTried PerEventExact NoListElsewhere ExactlyOneStatus EffectsAreTheEvents FaultFreeSucceeds FaultMeansError BatchesInOrder
PROPERTIES NothingAfterAnswer StatusStable Answered
CHECK_DEADLOCK FALSE
