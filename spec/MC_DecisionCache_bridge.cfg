SPECIFICATION Spec
CONSTANTS
  Traces = {"a", "b"}
  KeepTraces = {}
  DropTraces = {"a", "b"}
  Rates = {1}
  Reasons = {"ra"}
  Coupled = TRUE
  KeptSizes = {1}
  ResizeKept = {1}
  DropSizes = {1, 4}
  MaxQueue = 1
  MaxCount = 0
  MaxTotal = 0
  TrackPromise = TRUE
INVARIANTS TypeOK PromiseHeldByModel DroppedRemembered
VIEW ViewAll
