SPECIFICATION Spec
CONSTANTS
  Addr <- Addr2
  Gaps <- GapsJitter2
  T = 10
  D = 2
  MaxEvents = 6
  MaxFails = 0
  Extra = "none"
  Backoff = FALSE
  Closed = TRUE
  ObserveCb = TRUE
  TrackQuiet = TRUE
  UnitMs = 1000
  Boot <- NoNodes
  CrashSet <- AllNodes
  StopSet <- AllNodes
  Sync = FALSE
  TrackAge = FALSE
INVARIANTS TypeOK Converged LearnsLive ForgetsDead PeerForgotten PeerLearnt SelfListed PeriodRestored NoDuplicateAddr ChannelSane
PROPERTIES CallbackIffChange NoResurrection
VIEW View
