SPECIFICATION Spec
CONSTANTS
  Catalogue <- CatH1
  DiskC = "A"
  DiskR = "A"
  Feat = {"msg", "poll", "health", "usage", "stop"}
  Feeds <- FeedsTwo
  MaxCum = 1
  Steps = {1}
  Outcomes = {"ok", "fail", "pendok", "hold"}
  ZeroReports = "keys"
  RetryFailed = TRUE
  Faithful = FALSE
INVARIANTS TypeOK AppliedIsInForce FailedIsRefused EffectiveInForce Conservation NoDoubleCount StopUnhealthy StopEnds
PROPERTIES RefusedKeepsOld StatusProtocol OnlyMessagesApply NoReapply NewHashHandled HealthFollows ReportCarriesAll OnlySentDelivers
CHECK_DEADLOCK FALSE
