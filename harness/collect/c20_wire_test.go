//go:build verif

package collect

import (
	"bytes"
	"context"
	"encoding/binary"
	"encoding/hex"
	"encoding/json"
	"fmt"
	"math"
	"os"
	"reflect"
	"sort"
	"strconv"
	"strings"
	"sync"
	"testing"
	"time"

	"github.com/jonboulle/clockwork"
	jsoniter "github.com/json-iterator/go"
	"github.com/tinylib/msgp/msgp"
	"go.opentelemetry.io/otel/trace/noop"

	"github.com/honeycombio/refinery/config"
	"github.com/honeycombio/refinery/internal/health"
	"github.com/honeycombio/refinery/internal/peer"
	"github.com/honeycombio/refinery/internal/verifkit"
	"github.com/honeycombio/refinery/logger"
	"github.com/honeycombio/refinery/metrics"
	"github.com/honeycombio/refinery/pubsub"
	"github.com/honeycombio/refinery/sample"
	"github.com/honeycombio/refinery/sharder"
	"github.com/honeycombio/refinery/types"
)

// ---------------------------------------------------------------------------
// Binding of spec/WireFields.tla (property C20, decision pipeline) to a real
// InMemCollector + real SamplerFactory / samplers.
//
// One walk = one trace of up to two client events (root "r", child "c"). The
// events are built the way the routers build them (msgpack batch element via
// CoreFieldsUnmarshaler with the destination sampler's key fields, msgpack via
// Payload.UnmarshalMsgpack, JSON event via jsoniter map + NewPayload), handed
// to the real collector (AddSpan), decided by the REAL sampler of the walk's
// configuration when the fake clock passes the trace's deadline, decorated and
// handed to a recording Transmission, or handled as late spans.
//
// What is compared after every step is the set of field names (with a verdict
// on the value) an independent msgpack decoder finds in Payload.MarshalMsg of
// every span:
//   - while buffered: the live span (the worker is idle: hook-event barrier);
//   - at the decision: a snapshot taken inside the collector's "decision" hook,
//     i.e. after MemoizeFields + Sampler.GetSampleRate and before anything is
//     decorated;
//   - once sent: the bytes marshalled at Transmission.EnqueueSpan.
// A client field with exactly the client's value (type family and bits) is
// reported under its name, anything else as ALTERED:/LOST:/DUP:/FOREIGN: - no
// specification state contains such an entry.
// ---------------------------------------------------------------------------

const c20wTimeout = 20 * time.Second

// ---- independent msgpack decoder -> canonical typed text (same notation as harness/types/c20_payload_test.go) ----
//   i:<decimal>  f32:<bits>  f64:<bits>  s:<quoted>  b:<hex>  t:true  nil  ext:<type>:<hex>  m{k=v,...} (keys sorted)  a[v,...]

type c20wKV struct{ k, v string }

func c20wDecode(b []byte) (canon string, rest []byte, err error) {
	if len(b) == 0 {
		return "", nil, fmt.Errorf("short")
	}
	need := func(n int) error {
		if len(b) < n {
			return fmt.Errorf("short")
		}
		return nil
	}
	c := b[0]
	be := binary.BigEndian
	str := func(hdr, n int) (string, []byte, error) {
		if err := need(hdr + n); err != nil {
			return "", nil, err
		}
		return "s:" + strconv.Quote(string(b[hdr:hdr+n])), b[hdr+n:], nil
	}
	bin := func(hdr, n int) (string, []byte, error) {
		if err := need(hdr + n); err != nil {
			return "", nil, err
		}
		return "b:" + hex.EncodeToString(b[hdr:hdr+n]), b[hdr+n:], nil
	}
	ext := func(hdr, n int) (string, []byte, error) {
		if err := need(hdr + 1 + n); err != nil {
			return "", nil, err
		}
		return fmt.Sprintf("ext:%d:%s", int8(b[hdr]), hex.EncodeToString(b[hdr+1:hdr+1+n])), b[hdr+1+n:], nil
	}
	arr := func(hdr, n int) (string, []byte, error) {
		if err := need(hdr); err != nil {
			return "", nil, err
		}
		r := b[hdr:]
		parts := make([]string, 0, n)
		for i := 0; i < n; i++ {
			var v string
			var err error
			v, r, err = c20wDecode(r)
			if err != nil {
				return "", nil, err
			}
			parts = append(parts, v)
		}
		return "a[" + strings.Join(parts, ",") + "]", r, nil
	}
	mp := func(hdr, n int) (string, []byte, error) {
		if err := need(hdr); err != nil {
			return "", nil, err
		}
		kvs, r, err := c20wDecodeMapBody(b[hdr:], n)
		if err != nil {
			return "", nil, err
		}
		sort.Slice(kvs, func(i, j int) bool { return kvs[i].k < kvs[j].k })
		parts := make([]string, len(kvs))
		for i, kv := range kvs {
			parts[i] = kv.k + "=" + kv.v
		}
		return "m{" + strings.Join(parts, ",") + "}", r, nil
	}
	switch {
	case c <= 0x7f:
		return fmt.Sprintf("i:%d", c), b[1:], nil
	case c >= 0xe0:
		return fmt.Sprintf("i:%d", int8(c)), b[1:], nil
	case c >= 0xa0 && c <= 0xbf:
		return str(1, int(c&0x1f))
	case c >= 0x90 && c <= 0x9f:
		return arr(1, int(c&0x0f))
	case c >= 0x80 && c <= 0x8f:
		return mp(1, int(c&0x0f))
	}
	switch c {
	case 0xc0:
		return "nil", b[1:], nil
	case 0xc2:
		return "t:false", b[1:], nil
	case 0xc3:
		return "t:true", b[1:], nil
	case 0xc4, 0xd9, 0xc7:
		if err := need(2); err != nil {
			return "", nil, err
		}
		n := int(b[1])
		if c == 0xc4 {
			return bin(2, n)
		} else if c == 0xd9 {
			return str(2, n)
		}
		return ext(2, n)
	case 0xc5, 0xda, 0xc8, 0xdc, 0xde:
		if err := need(3); err != nil {
			return "", nil, err
		}
		n := int(be.Uint16(b[1:]))
		switch c {
		case 0xc5:
			return bin(3, n)
		case 0xda:
			return str(3, n)
		case 0xc8:
			return ext(3, n)
		case 0xdc:
			return arr(3, n)
		}
		return mp(3, n)
	case 0xc6, 0xdb, 0xc9, 0xdd, 0xdf:
		if err := need(5); err != nil {
			return "", nil, err
		}
		n := int(be.Uint32(b[1:]))
		switch c {
		case 0xc6:
			return bin(5, n)
		case 0xdb:
			return str(5, n)
		case 0xc9:
			return ext(5, n)
		case 0xdd:
			return arr(5, n)
		}
		return mp(5, n)
	case 0xca:
		if err := need(5); err != nil {
			return "", nil, err
		}
		return fmt.Sprintf("f32:%08x", be.Uint32(b[1:])), b[5:], nil
	case 0xcb:
		if err := need(9); err != nil {
			return "", nil, err
		}
		return fmt.Sprintf("f64:%016x", be.Uint64(b[1:])), b[9:], nil
	case 0xcc:
		if err := need(2); err != nil {
			return "", nil, err
		}
		return fmt.Sprintf("i:%d", b[1]), b[2:], nil
	case 0xcd:
		if err := need(3); err != nil {
			return "", nil, err
		}
		return fmt.Sprintf("i:%d", be.Uint16(b[1:])), b[3:], nil
	case 0xce:
		if err := need(5); err != nil {
			return "", nil, err
		}
		return fmt.Sprintf("i:%d", be.Uint32(b[1:])), b[5:], nil
	case 0xcf:
		if err := need(9); err != nil {
			return "", nil, err
		}
		return fmt.Sprintf("i:%d", be.Uint64(b[1:])), b[9:], nil
	case 0xd0:
		if err := need(2); err != nil {
			return "", nil, err
		}
		return fmt.Sprintf("i:%d", int8(b[1])), b[2:], nil
	case 0xd1:
		if err := need(3); err != nil {
			return "", nil, err
		}
		return fmt.Sprintf("i:%d", int16(be.Uint16(b[1:]))), b[3:], nil
	case 0xd2:
		if err := need(5); err != nil {
			return "", nil, err
		}
		return fmt.Sprintf("i:%d", int32(be.Uint32(b[1:]))), b[5:], nil
	case 0xd3:
		if err := need(9); err != nil {
			return "", nil, err
		}
		return fmt.Sprintf("i:%d", int64(be.Uint64(b[1:]))), b[9:], nil
	case 0xd4, 0xd5, 0xd6, 0xd7, 0xd8:
		return ext(1, 1<<(c-0xd4))
	}
	return "", nil, fmt.Errorf("c20w: unknown msgpack lead byte %#x", c)
}

func c20wDecodeMapBody(b []byte, n int) ([]c20wKV, []byte, error) {
	var out []c20wKV
	for i := 0; i < n; i++ {
		k, r, err := c20wDecode(b)
		if err != nil {
			return nil, nil, err
		}
		var key string
		switch {
		case strings.HasPrefix(k, "s:"):
			key, _ = strconv.Unquote(k[2:])
		case strings.HasPrefix(k, "b:"):
			raw, _ := hex.DecodeString(k[2:])
			key = string(raw)
		default:
			return nil, nil, fmt.Errorf("c20w: map key %s is neither str nor bin", k)
		}
		v, r2, err := c20wDecode(r)
		if err != nil {
			return nil, nil, err
		}
		out = append(out, c20wKV{key, v})
		b = r2
	}
	return out, b, nil
}

func c20wDecodeTopMap(b []byte) ([]c20wKV, []byte, error) {
	if len(b) == 0 {
		return nil, nil, fmt.Errorf("empty")
	}
	var n, hdr int
	switch c := b[0]; {
	case c >= 0x80 && c <= 0x8f:
		n, hdr = int(c&0x0f), 1
	case c == 0xde && len(b) >= 3:
		n, hdr = int(binary.BigEndian.Uint16(b[1:])), 3
	case c == 0xdf && len(b) >= 5:
		n, hdr = int(binary.BigEndian.Uint32(b[1:])), 5
	default:
		return nil, nil, fmt.Errorf("c20w: not a map (lead byte %#x)", b[0])
	}
	return c20wDecodeMapBody(b[hdr:], n)
}

// c20wCanonGo renders a Go value (what encoding/json reads from the client's JSON) the same way.
func c20wCanonGo(v any) string {
	switch x := v.(type) {
	case nil:
		return "nil"
	case bool:
		return fmt.Sprintf("t:%v", x)
	case float64:
		return fmt.Sprintf("f64:%016x", math.Float64bits(x))
	case string:
		return "s:" + strconv.Quote(x)
	case map[string]any:
		keys := make([]string, 0, len(x))
		for k := range x {
			keys = append(keys, k)
		}
		sort.Strings(keys)
		parts := make([]string, len(keys))
		for i, k := range keys {
			parts[i] = k + "=" + c20wCanonGo(x[k])
		}
		return "m{" + strings.Join(parts, ",") + "}"
	case []any:
		parts := make([]string, len(x))
		for i, e := range x {
			parts[i] = c20wCanonGo(e)
		}
		return "a[" + strings.Join(parts, ",") + "]"
	}
	return fmt.Sprintf("go:%T:%v", v, v)
}

// ---- client values ----

type c20wVal struct {
	mp    []byte // msgpack encoding (msgpack ingest paths)
	js    string // JSON text (JSON ingest path)
	canon string // what an independent reader sees in the input
}

func c20wMsgpPool() [][]byte {
	inner := msgp.AppendMapHeader(nil, 2)
	inner = msgp.AppendString(inner, "c")
	inner = msgp.AppendUint64(inner, math.MaxUint64)
	inner = msgp.AppendString(inner, "d")
	inner = msgp.AppendFloat32(inner, 0.1)
	arr := msgp.AppendArrayHeader(nil, 4)
	arr = msgp.AppendInt64(arr, -7)
	arr = msgp.AppendString(arr, "two")
	arr = msgp.AppendNil(arr)
	arr = msgp.AppendBytes(arr, []byte{0, 1, 0xff})
	return [][]byte{
		msgp.AppendInt64(nil, -5),
		msgp.AppendUint64(nil, math.MaxUint64),
		msgp.AppendFloat32(nil, 0.1),
		msgp.AppendFloat64(nil, 2.25e100),
		msgp.AppendBool(nil, true),
		msgp.AppendString(nil, ""),
		msgp.AppendString(nil, "héllo \"w\"\n世"),
		msgp.AppendBytes(nil, []byte{0xde, 0xad, 0, 0xbe, 0xef}),
		msgp.AppendNil(nil),
		arr,
		append([]byte{0xd3}, 0, 0, 0, 0, 0, 0, 0, 9), // int64 format holding a small value
		msgp.AppendInt64(nil, math.MinInt64),
		msgp.AppendUint64(nil, 300),
		append(append(msgp.AppendMapHeader(nil, 1), msgp.AppendString(nil, "in")...), inner...),
		msgp.AppendString(nil, strings.Repeat("x", 300)),
		msgp.AppendFloat64(nil, math.Copysign(0, -1)), // (no Inf/NaN: the rules sampler's nested lookup renders the payload as JSON)
	}
}

var c20wJSONPool = []string{
	`5`, `-1.5e3`, `1e100`, `12345678901234567890`, `"str"`, `""`, `"héllo \"w\"\n世"`, `true`, `false`, `null`,
	`[1,"a",{"x":null},[]]`, `0.1`, `{"in":{"c":18446744073709551615,"d":[true]}}`, `-0`, `9007199254740993`, `"` + strings.Repeat("y", 300) + `"`,
}

const c20wNFill = 16

func c20wFill(i int) string { return fmt.Sprintf("kf.%02d", i) }

// the nested client value: http: {method, response: {status, size, ratio}, ids: [..]}
func c20wHTTP(status int64) (mp []byte, js string) {
	b := msgp.AppendMapHeader(nil, 3)
	b = msgp.AppendString(b, "method")
	b = msgp.AppendString(b, "GET")
	b = msgp.AppendString(b, "response")
	b = msgp.AppendMapHeader(b, 3)
	b = msgp.AppendString(b, "status")
	b = append(b, 0xd3)
	b = binary.BigEndian.AppendUint64(b, uint64(status)) // int64 format
	b = msgp.AppendString(b, "size")
	b = msgp.AppendUint64(b, math.MaxUint64)
	b = msgp.AppendString(b, "ratio")
	b = msgp.AppendFloat32(b, 0.1)
	b = msgp.AppendString(b, "ids")
	b = msgp.AppendArrayHeader(b, 3)
	b = msgp.AppendUint64(b, 1)
	b = msgp.AppendString(b, "a")
	b = msgp.AppendBytes(b, []byte{3})
	return b, fmt.Sprintf(`{"method":"GET","response":{"status":%d,"size":18446744073709551615,"ratio":0.1},"ids":[1,"a",null]}`, status)
}

func c20wTags() (mp []byte, js string) {
	b := msgp.AppendArrayHeader(nil, 4)
	b = msgp.AppendString(b, "blue")
	b = msgp.AppendInt64(b, -7)
	b = msgp.AppendNil(b)
	b = msgp.AppendFloat32(b, 1.5)
	return b, `["blue",-7,null,1.5]`
}

// ---- the sampler configurations named by the specification ----

func c20wCond(op string, value any, datatype string, fields ...string) *config.RulesBasedSamplerCondition {
	c := &config.RulesBasedSamplerCondition{Operator: op, Value: value, Datatype: datatype}
	if len(fields) == 1 {
		c.Field = fields[0]
	} else {
		c.Fields = fields
	}
	return c
}

func c20wSampler(id string) (any, error) {
	statusRules := func(nested bool) any {
		return &config.RulesBasedSamplerConfig{CheckNestedFields: nested, Rules: []*config.RulesBasedSamplerRule{
			{Name: "has request id", Drop: true, Conditions: []*config.RulesBasedSamplerCondition{c20wCond(config.Exists, nil, "", "http.request.id")}},
			{Name: "server errors", SampleRate: 1, Conditions: []*config.RulesBasedSamplerCondition{c20wCond(config.GTE, 500, "int", "http.response.status")}},
			{Name: "other statuses", Drop: true, Conditions: []*config.RulesBasedSamplerCondition{c20wCond(config.Exists, nil, "", "http.response.status")}},
			{Name: "same path again", SampleRate: 1, Conditions: []*config.RulesBasedSamplerCondition{c20wCond(config.NotExists, nil, "", "http.response.status")}},
		}}
	}
	switch id {
	case "rules-nested":
		return statusRules(true), nil
	case "rules-flat":
		return statusRules(false), nil
	case "rules-rootlist":
		return &config.RulesBasedSamplerConfig{CheckNestedFields: true, Rules: []*config.RulesBasedSamplerRule{
			{Name: "root status or method", SampleRate: 1, Scope: "trace", Conditions: []*config.RulesBasedSamplerCondition{
				c20wCond(config.Exists, nil, "", "root.http.response.status", "http.method"),
				c20wCond(config.Exists, nil, "", "svc", "root.tags.0")}},
			{Name: "tagged", Drop: true, Conditions: []*config.RulesBasedSamplerCondition{c20wCond(config.Exists, nil, "", "root.tags.0", "svc")}},
		}}, nil
	case "rules-spanscope":
		return &config.RulesBasedSamplerConfig{CheckNestedFields: true, Rules: []*config.RulesBasedSamplerRule{
			{Name: "GET spans of a service", SampleRate: 1, Scope: "span", Conditions: []*config.RulesBasedSamplerCondition{
				c20wCond(config.Exists, nil, "", "svc"),
				c20wCond(config.EQ, "GET", "string", "http.method")}},
			{Name: "methodless", Drop: true, Scope: "span", Conditions: []*config.RulesBasedSamplerCondition{c20wCond(config.NotExists, nil, "", "http.method")}},
		}}, nil
	case "rules-downstream":
		return &config.RulesBasedSamplerConfig{CheckNestedFields: true, Rules: []*config.RulesBasedSamplerRule{
			{Name: "tagged", Conditions: []*config.RulesBasedSamplerCondition{c20wCond(config.Exists, nil, "", "tags.0")},
				Sampler: &config.RulesBasedDownstreamSampler{DynamicSampler: &config.DynamicSamplerConfig{SampleRate: 1, FieldList: []string{"svc", "http.response.status", "root.dur"}}}},
			{Name: "rest", Sampler: &config.RulesBasedDownstreamSampler{EMADynamicSampler: &config.EMADynamicSamplerConfig{GoalSampleRate: 1, FieldList: []string{"http"}}}},
		}}, nil
	case "dynamic":
		return &config.DynamicSamplerConfig{SampleRate: 1, FieldList: []string{"svc", "http", "root.dur", "root.tags"}, UseTraceLength: true}, nil
	case "throughput":
		return &config.TotalThroughputSamplerConfig{GoalThroughputPerSec: 1000, FieldList: []string{"http.response.status", "dur"}}, nil
	case "deterministic":
		return &config.DeterministicSamplerConfig{SampleRate: 1}, nil
	}
	return nil, fmt.Errorf("c20w: unknown sampler %q", id)
}

// ---- recording transmission, hook events ----

type c20wTx struct {
	mu   sync.Mutex
	sent map[*types.Span][][]byte // MarshalMsg at enqueue time, per enqueue
}

func (x *c20wTx) EnqueueEvent(ev *types.Event) {}
func (x *c20wTx) RegisterMetrics()             {}
func (x *c20wTx) EnqueueSpan(sp *types.Span) {
	// what DirectTransmission puts on the wire for this event: batchedEvent.MarshalMsg appends Payload.MarshalMsg
	prefix := []byte{0x83, 0xa4, 't', 'i', 'm', 'e', 0xc0, 0xa4, 'd', 'a', 't', 'a'}
	buf, err := sp.Data.MarshalMsg(append(make([]byte, 0, 64), prefix...))
	if err != nil || !bytes.HasPrefix(buf, prefix) {
		buf = []byte{0xc1} // undecodable: reported by Project
	} else {
		buf = buf[len(prefix):]
	}
	x.mu.Lock()
	x.sent[sp] = append(x.sent[sp], buf)
	x.mu.Unlock()
}

type c20wEvents struct {
	mu       sync.Mutex
	cond     *sync.Cond
	counts   map[string]int
	keep     *bool
	trace    string // the current walk's trace id
	ndec     int    // decisions made for it
	decision func() // runs inside the "decision" hook, on the worker goroutine
}

func (e *c20wEvents) emit(event string, kv ...any) {
	if event == "decision" {
		e.mu.Lock()
		mine := c20wKVGet(kv, "t") == e.trace
		if k, ok := c20wKVGet(kv, "keep").(bool); ok && mine {
			e.keep = &k
			e.ndec++
		}
		e.mu.Unlock()
		if mine && e.decision != nil {
			e.decision()
		}
	}
	e.mu.Lock()
	e.counts[event]++
	e.cond.Broadcast()
	e.mu.Unlock()
}

func c20wKVGet(kv []any, key string) any {
	for i := 0; i+1 < len(kv); i += 2 {
		if kv[i] == key {
			return kv[i+1]
		}
	}
	return nil
}

func (e *c20wEvents) waitFor(what string, pred func() bool) error {
	deadline := time.Now().Add(c20wTimeout)
	timer := time.AfterFunc(c20wTimeout, func() { e.mu.Lock(); e.cond.Broadcast(); e.mu.Unlock() })
	defer timer.Stop()
	e.mu.Lock()
	defer e.mu.Unlock()
	for !pred() {
		if time.Now().After(deadline) {
			return fmt.Errorf("c20w: barrier timeout waiting for %s (counts %v)", what, e.counts)
		}
		e.cond.Wait()
	}
	return nil
}

type c20wStress struct{}

func (m *c20wStress) Start() error      { return nil }
func (m *c20wStress) UpdateFromConfig() {}
func (m *c20wStress) Recalc() uint      { return 0 }
func (m *c20wStress) Stressed() bool    { return false }
func (m *c20wStress) GetSampleRate(traceID string) (uint, bool, string) {
	return 1, true, "stress_relief"
}

// c20wConfig works around config.MockConfig.GetAddCountsToRoot returning the
// AddSpanCountToRoot field (a defect of the test mock, not of production code).
type c20wConfig struct{ *config.MockConfig }

func (c c20wConfig) GetAddCountsToRoot() bool {
	c.Mux.RLock()
	defer c.Mux.RUnlock()
	return c.AddCountsToRoot
}

// ---- the harness ----

type c20wSpan struct {
	id      string
	names   []string           // client field names in payload order
	vals    map[string]c20wVal // every client field (universe, identity, fill)
	sp      *types.Span
	stage   string
	atDec   []byte // MarshalMsg inside the decision hook
	hasDec  bool
	wireErr string
}

type c20wHarness struct {
	conf     *config.MockConfig
	cfgw     c20wConfig
	clock    *clockwork.FakeClock
	tick     time.Duration
	coll     *InMemCollector
	tx       *c20wTx
	ev       *c20wEvents
	sf       *sample.SamplerFactory
	walk     int
	stop     func()
	spans    map[string]*c20wSpan
	order    []string
	path     string
	vs, seed int
	traceID  string
	attrs    map[string]string
	added    int
	ticks    int
	decided  bool
	revealed bool
	panicMsg string
}

var c20wUniverse = []string{"svc", "http", "http.response.status", "tags", "dur"}

var c20wMeta = map[string]bool{
	"meta.trace_id": true, "meta.refinery.root": true, "meta.span_count": true, "meta.event_count": true,
	"meta.span_event_count": true, "meta.span_link_count": true,
	"meta.refinery.reason": true, "meta.refinery.send_reason": true, "meta.refinery.sample_key": true,
	"meta.refinery.dryrun.kept": true, "meta.refinery.local_hostname": true,
	"meta.refinery.original_sample_rate": true, "meta.refinery.final_sample_rate": true, "meta.dryrun.sample_rate": true,
}

func c20wStrs(v any) []string {
	var out []string
	if l, ok := v.([]any); ok {
		for _, x := range l {
			s, _ := x.(string)
			out = append(out, s)
		}
	}
	sort.Strings(out)
	return out
}

func (h *c20wHarness) isJSON() bool { return h.path == "map" }

func (h *c20wHarness) finish(name string, v c20wVal) (c20wVal, error) {
	if h.isJSON() {
		var x any
		if err := json.Unmarshal([]byte(v.js), &x); err != nil {
			return v, fmt.Errorf("c20w: pool json %q: %v", v.js, err)
		}
		v.canon = c20wCanonGo(x)
		return v, nil
	}
	c, rest, err := c20wDecode(v.mp)
	if err != nil || len(rest) != 0 {
		return v, fmt.Errorf("c20w: pool msgpack for %s does not decode: %v", name, err)
	}
	v.canon = c
	return v, nil
}

// value picks the concrete value span number si sends for a universe name.
func (h *c20wHarness) value(name string, si int) (c20wVal, error) {
	var v c20wVal
	idx := 0
	for i, n := range c20wUniverse {
		if n == name {
			idx = i
		}
	}
	sel := idx*5 + h.vs*7 + h.seed*3 + si*11
	switch name {
	case "http":
		status := int64(503)
		if (h.seed+si)%3 == 2 {
			status = 204
		}
		v.mp, v.js = c20wHTTP(status)
	case "http.response.status":
		st := []int64{200, 500, 404}[(h.seed+si)%3]
		v.mp, v.js = msgp.AppendInt64(nil, st), strconv.FormatInt(st, 10)
	case "tags":
		v.mp, v.js = c20wTags()
	default:
		mp := c20wMsgpPool()
		v.mp, v.js = mp[sel%len(mp)], c20wJSONPool[sel%len(c20wJSONPool)]
	}
	return h.finish(name, v)
}

// applyConfig writes the walk's configuration into the (shared) MockConfig.
func (h *c20wHarness) applyConfig(cfg map[string]any, scfg any) {
	h.attrs = nil
	for _, a := range c20wStrs(cfg["attrs"]) {
		if h.attrs == nil {
			h.attrs = map[string]string{}
		}
		h.attrs[a] = "value-of-" + a
	}
	h.conf.Mux.Lock()
	h.conf.GetSamplerTypeVal = scfg
	h.conf.DryRun = verifkit.Bool(cfg, "dryRun")
	h.conf.AddRuleReasonToTrace = verifkit.Bool(cfg, "addReason")
	h.conf.AddCountsToRoot = verifkit.Bool(cfg, "addCounts")
	h.conf.AddSpanCountToRoot = verifkit.Bool(cfg, "addSpanCount")
	h.conf.AddHostMetadataToTrace = verifkit.Bool(cfg, "addHost")
	h.conf.AdditionalAttributes = h.attrs
	h.conf.Mux.Unlock()
}

// start builds the real pipeline once per test process: starting an InMemCollector allocates its 100,000-slot
// outgoing queue, so the walks share one collector; every walk uses a fresh trace id and installs its
// configuration through the collector's own reload path (Config.Reload -> reloadConfigs -> worker reload).
func (h *c20wHarness) start() error {
	h.tick = time.Minute
	h.conf = &config.MockConfig{
		GetTracesConfigVal: config.TracesConfig{
			SendTicker: config.Duration(h.tick), SendDelay: config.Duration(h.tick), TraceTimeout: config.Duration(2 * h.tick), MaxBatchSize: 500,
		},
		SampleCache:        config.SampleCacheConfig{KeptSize: 10000, DroppedSize: 100000, SizeCheckInterval: config.Duration(time.Hour)},
		GetSamplerTypeVal:  &config.DeterministicSamplerConfig{SampleRate: 1},
		TraceIdFieldNames:  []string{"trace.trace_id", "traceId"},
		ParentIdFieldNames: []string{"trace.parent_id", "parentId"},
		GetCollectionConfigVal: config.CollectionConfig{
			WorkerCount: 1, ShutdownDelay: config.Duration(time.Millisecond),
			IncomingQueueSize: 100, PeerQueueSize: 100, HealthCheckTimeout: config.Duration(time.Hour * 100000),
		},
	}
	h.cfgw = c20wConfig{h.conf}
	h.clock = clockwork.NewFakeClock()
	h.ev = &c20wEvents{counts: map[string]int{}}
	h.ev.cond = sync.NewCond(&h.ev.mu)
	h.ev.decision = h.snapshotAtDecision
	SetVerifHooks(&VerifHooks{Emit: h.ev.emit})
	h.tx = &c20wTx{sent: map[*types.Span][][]byte{}}
	met := &metrics.MockMetrics{}
	met.Start()
	hr := &health.Health{Clock: clockwork.NewFakeClock()}
	hr.Start()
	lps := &pubsub.LocalPubSub{Config: h.cfgw, Metrics: met}
	lps.Start()
	h.sf = &sample.SamplerFactory{Config: h.cfgw, Metrics: met, Logger: &logger.NullLogger{}}
	if err := h.sf.Start(); err != nil {
		return err
	}
	h.coll = &InMemCollector{
		TestMode: true, Config: h.cfgw, Clock: h.clock, Logger: &logger.NullLogger{},
		Tracer: noop.NewTracerProvider().Tracer("verif"), Health: hr,
		Transmission: h.tx, PeerTransmission: &c20wTx{sent: map[*types.Span][][]byte{}},
		PubSub: lps, Metrics: met, StressRelief: &c20wStress{}, SamplerFactory: h.sf,
		Peers:   peer.NewMockPeers([]string{"api1"}, "api1"),
		Sharder: &sharder.MockSharder{Self: &sharder.TestShard{Addr: "api1"}},
	}
	if err := h.coll.Start(); err != nil {
		return err
	}
	coll, sf := h.coll, h.sf
	h.stop = func() {
		coll.Stop()
		sf.Stop()
		hr.Stop()
		lps.Stop()
		SetVerifHooks(nil)
	}
	ctx, cancel := context.WithTimeout(context.Background(), c20wTimeout)
	defer cancel()
	if err := h.clock.BlockUntilContext(ctx, 2); err != nil { // the worker and the monitor have created their tickers
		return fmt.Errorf("c20w: tickers not created: %w", err)
	}
	return nil
}

// oneTick lets one SendTicker period of fake time pass and waits until the worker has handled the tick and the
// sender goroutine has forwarded everything that tick decided.
func (h *c20wHarness) oneTick() error {
	h.ticks++
	n := h.ticks
	h.clock.Advance(h.tick)
	if err := h.ev.waitFor("tick", func() bool { return h.ev.counts["tick"] >= n }); err != nil {
		return err
	}
	return h.ev.waitFor("sender idle", func() bool { return h.ev.counts["trace_queued"] == h.ev.counts["trace_sent"] })
}

func (h *c20wHarness) Reset(init map[string]any) error {
	h.panicMsg = ""
	if h.coll == nil {
		if err := h.start(); err != nil {
			return err
		}
	}
	// a walk that stopped before its decision leaves its trace in the buffer: let it expire under the old configuration
	for i := 0; i < 3 && h.pending(); i++ {
		if err := h.oneTick(); err != nil {
			return err
		}
	}
	if h.pending() {
		return fmt.Errorf("c20w: the previous walk's trace was not decided within 3 ticks")
	}
	h.path = verifkit.Str(init, "path")
	h.vs = verifkit.Int(init, "vs")
	h.seed, _ = strconv.Atoi(os.Getenv("VERIF_SEED"))
	cfg, _ := init["cfg"].(map[string]any)
	samplerID := verifkit.Str(init, "sampler")
	scfg, err := c20wSampler(samplerID)
	if err != nil {
		return err
	}
	h.applyConfig(cfg, scfg)
	h.ev.mu.Lock()
	base, wbase := h.ev.counts["reloaded"], h.ev.counts["worker_reloaded"]
	h.ev.mu.Unlock()
	h.conf.Reload()
	if err := h.ev.waitFor("reload", func() bool { return h.ev.counts["reloaded"] > base && h.ev.counts["worker_reloaded"] > wbase }); err != nil {
		return err
	}
	// the specification's key-field sets must be the real sampler's (a mismatch is a harness/spec error, not a verdict)
	all, nonroot := h.sf.GetSamplerImplementationForKey("c20ds").GetKeyFields()
	all, nonroot = append([]string(nil), all...), append([]string(nil), nonroot...)
	sort.Strings(all)
	sort.Strings(nonroot)
	wantAll, wantNonRoot := c20wStrs(init["samplerAllSet"]), c20wStrs(init["samplerNonRootSet"])
	dedup := func(in []string) []string {
		out := []string{}
		for i, s := range in {
			if i == 0 || in[i-1] != s {
				out = append(out, s)
			}
		}
		return out
	}
	if !reflect.DeepEqual(dedup(all), dedup(wantAll)) || !reflect.DeepEqual(dedup(nonroot), dedup(wantNonRoot)) {
		return fmt.Errorf("c20w: sampler %s has key fields %v / %v, the specification says %v / %v", samplerID, all, nonroot, wantAll, wantNonRoot)
	}

	h.walk++
	h.traceID = fmt.Sprintf("c20w-trace-%d-%d-%d", h.vs, h.seed, h.walk)
	h.ev.mu.Lock()
	h.ev.keep, h.ev.trace, h.ev.ndec = nil, h.traceID, 0
	h.ev.mu.Unlock()
	h.tx.mu.Lock()
	h.tx.sent = map[*types.Span][][]byte{}
	h.tx.mu.Unlock()
	h.spans = map[string]*c20wSpan{}
	h.order = h.order[:0]
	client, _ := init["client"].(map[string]any)
	ids := make([]string, 0, len(client))
	for id := range client {
		ids = append(ids, id)
	}
	sort.Strings(ids)
	for si, id := range ids {
		s := &c20wSpan{id: id, vals: map[string]c20wVal{}, stage: "new"}
		sentNames := map[string]bool{}
		for _, n := range c20wStrs(client[id]) {
			sentNames[n] = true
		}
		var uni []string
		rot := (h.vs + h.seed + si) % len(c20wUniverse)
		for i := range c20wUniverse {
			n := c20wUniverse[(i+rot)%len(c20wUniverse)]
			if !sentNames[n] {
				continue
			}
			v, err := h.value(n, si)
			if err != nil {
				return err
			}
			s.vals[n] = v
			uni = append(uni, n)
		}
		var before, after []string
		for i := 0; i < c20wNFill; i++ {
			mp := c20wMsgpPool()
			v, err := h.finish(c20wFill(i), c20wVal{mp: mp[i%len(mp)], js: c20wJSONPool[i%len(c20wJSONPool)]})
			if err != nil {
				return err
			}
			s.vals[c20wFill(i)] = v
			if (i+h.seed+h.vs+si)%2 == 0 {
				before = append(before, c20wFill(i))
			} else {
				after = append(after, c20wFill(i))
			}
		}
		idv, _ := h.finish("trace.trace_id", c20wVal{mp: msgp.AppendString(nil, h.traceID), js: strconv.Quote(h.traceID)})
		s.vals["trace.trace_id"] = idv
		ident := []string{"trace.trace_id"}
		if id != "r" {
			pv, _ := h.finish("trace.parent_id", c20wVal{mp: msgp.AppendString(nil, "parent-1"), js: `"parent-1"`})
			s.vals["trace.parent_id"] = pv
			ident = append(ident, "trace.parent_id")
		}
		s.names = append(append(append(before, ident[0]), uni...), append(ident[1:], after...)...)
		h.spans[id] = s
		h.order = append(h.order, id)
	}
	h.decided, h.revealed = false, false
	return nil
}

// pending: the current walk buffered something and its trace has not been decided.
func (h *c20wHarness) pending() bool {
	if h.decided {
		return false
	}
	for _, s := range h.spans {
		if s.stage == "buf" {
			h.ev.mu.Lock()
			n := h.ev.ndec
			h.ev.mu.Unlock()
			return n == 0
		}
	}
	return false
}

// build constructs the event the way the routers do.
func (h *c20wHarness) build(s *c20wSpan, crate int) (*types.Span, error) {
	pl := types.NewPayload(h.cfgw, nil)
	switch h.path {
	case "map": // route.requestToEvent: jsoniter into a map, NewPayload, ExtractMetadata
		var b bytes.Buffer
		b.WriteByte('{')
		for i, n := range s.names {
			if i > 0 {
				b.WriteByte(',')
			}
			b.WriteString(strconv.Quote(n) + ":" + s.vals[n].js)
		}
		b.WriteByte('}')
		data := map[string]any{}
		if err := jsoniter.Unmarshal(b.Bytes(), &data); err != nil {
			return nil, err
		}
		pl = types.NewPayload(h.cfgw, data)
		if err := pl.ExtractMetadata(); err != nil {
			return nil, err
		}
	case "msgp", "umsg":
		in := msgp.AppendMapHeader(nil, uint32(len(s.names)))
		for _, n := range s.names {
			in = msgp.AppendString(in, n)
			in = append(in, s.vals[n].mp...)
		}
		if h.path == "msgp" { // route.batchedEvent.UnmarshalMsg: the event is followed by more of the batch
			cu := types.NewCoreFieldsUnmarshaler(types.CoreFieldsUnmarshalerOptions{Config: h.cfgw, APIKey: "c20key", Env: "c20env", Dataset: "c20ds"})
			in = append(in, 0xc0, 0xc0)
			rest, err := cu.UnmarshalMsgpFirstEvent(in, &pl)
			if err != nil {
				return nil, err
			}
			if len(rest) != 2 {
				return nil, fmt.Errorf("c20w: UnmarshalMsgpFirstEvent left %d bytes, want 2", len(rest))
			}
		} else if err := pl.UnmarshalMsgpack(in); err != nil {
			return nil, err
		}
		for i := range in { // the request body is not the payload's to keep
			in[i] = 0xc1
		}
	default:
		return nil, fmt.Errorf("c20w: unknown path %q", h.path)
	}
	if pl.MetaTraceID != h.traceID {
		return nil, fmt.Errorf("c20w: payload trace id %q, want %q", pl.MetaTraceID, h.traceID)
	}
	return &types.Span{
		TraceID: h.traceID,
		IsRoot:  s.id == "r",
		Event: &types.Event{Context: context.Background(), APIHost: "http://api", APIKey: "c9945edf5d245834089a1bd6cc9ad01e", Dataset: "c20ds",
			SampleRate: uint(crate), Data: pl},
	}, nil
}

// snapshotAtDecision runs on the worker goroutine inside the "decision" hook:
// the sampler has been consulted, nothing has been decorated yet.
func (h *c20wHarness) snapshotAtDecision() {
	for _, id := range h.order {
		s := h.spans[id]
		if s.stage != "buf" || s.sp == nil {
			continue
		}
		buf, err := s.sp.Data.MarshalMsg(nil)
		if err != nil {
			buf = []byte{0xc1}
		}
		s.atDec, s.hasDec = buf, true
	}
}

func (h *c20wHarness) addSpan(s *c20wSpan, crate int) error {
	sp, err := h.build(s, crate)
	if err != nil {
		return err
	}
	s.sp = sp
	if err := h.coll.AddSpan(sp); err != nil {
		return err
	}
	h.added++
	n := h.added
	return h.ev.waitFor("span processed", func() bool { return h.ev.counts["processed"] >= n })
}

var c20wCrate = map[string]int{"r": 0, "c": 2}

func (h *c20wHarness) Apply(a map[string]any) (err error) {
	defer func() {
		if r := recover(); r != nil {
			h.panicMsg = fmt.Sprint(r)
			err = nil
		}
	}()
	switch verifkit.Str(a, "name") {
	case "Ingest":
		s := h.spans[verifkit.Str(a, "s")]
		s.stage = "buf"
		return h.addSpan(s, c20wCrate[s.id])
	case "Decide":
		ndec := 0
		if verifkit.Str(a, "how") == "eject" {
			// memory pressure: the monitor asks the worker to decide now (InMemCollector.checkAlloc -> sendTracesEarly)
			var wg sync.WaitGroup
			wg.Add(1)
			h.coll.workers[0].sendEarly <- sendEarly{wg: &wg, bytesToSend: 1}
			wg.Wait()
			if err := h.ev.waitFor("sender idle", func() bool { return h.ev.counts["trace_queued"] == h.ev.counts["trace_sent"] }); err != nil {
				return err
			}
			h.ev.mu.Lock()
			ndec = h.ev.ndec
			h.ev.mu.Unlock()
		}
		// let fake time pass, one SendTicker period at a time, until the worker has decided the trace
		// (root: SendDelay = 1 tick; no root: TraceTimeout = 2 ticks); each tick waits for the sender goroutine too
		for i := 0; i < 4 && ndec == 0 && verifkit.Str(a, "how") != "eject"; i++ {
			if err := h.oneTick(); err != nil {
				return err
			}
			h.ev.mu.Lock()
			ndec = h.ev.ndec
			h.ev.mu.Unlock()
		}
		if ndec != 1 {
			return fmt.Errorf("c20w: %d decisions of the trace (%v)", ndec, a)
		}
		h.decided = true
		return nil
	case "Send":
		h.revealed = true
		for _, id := range h.order {
			if s := h.spans[id]; s.stage == "buf" {
				h.settle(s)
			}
		}
	case "Late":
		s := h.spans[verifkit.Str(a, "s")]
		if err := h.addSpan(s, c20wCrate[s.id]); err != nil {
			return err
		}
		h.settle(s)
	default:
		return fmt.Errorf("c20w: unknown action %v", a)
	}
	return nil
}

func (h *c20wHarness) settle(s *c20wSpan) {
	h.tx.mu.Lock()
	n := len(h.tx.sent[s.sp])
	h.tx.mu.Unlock()
	if n > 0 {
		s.stage = "sent"
	} else {
		s.stage = "dropped"
	}
}

// wireNames judges one marshalled event against what the client sent.
func (h *c20wHarness) wireNames(s *c20wSpan, raw []byte) []string {
	kvs, rest, err := c20wDecodeTopMap(raw)
	if err != nil || len(rest) != 0 {
		return []string{fmt.Sprintf("UNDECODABLE:%v/%d trailing bytes", err, len(rest))}
	}
	short := func(c string) string {
		if len(c) > 120 {
			return c[:120] + "..."
		}
		return c
	}
	inUniverse := map[string]bool{}
	for _, n := range c20wUniverse {
		inUniverse[n] = true
	}
	var out []string
	seen := map[string]bool{}
	for _, kv := range kvs {
		if seen[kv.k] {
			out = append(out, "DUP:"+kv.k)
			continue
		}
		seen[kv.k] = true
		if cv, ok := s.vals[kv.k]; ok {
			if kv.v != cv.canon {
				out = append(out, "ALTERED:"+kv.k+"="+short(kv.v)+" sent "+short(cv.canon))
			} else if inUniverse[kv.k] {
				out = append(out, kv.k)
			}
			continue
		}
		if c20wMeta[kv.k] {
			out = append(out, kv.k)
			continue
		}
		if av, ok := h.attrs[kv.k]; ok {
			if kv.v == "s:"+strconv.Quote(av) {
				out = append(out, kv.k)
			} else {
				out = append(out, "ALTERED:"+kv.k+"="+short(kv.v))
			}
			continue
		}
		out = append(out, "FOREIGN:"+kv.k+"="+short(kv.v))
	}
	for n := range s.vals {
		if !seen[n] {
			out = append(out, "LOST:"+n)
		}
	}
	sort.Strings(out)
	return out
}

func (h *c20wHarness) Project() (out any, err error) {
	stage, wire := map[string]any{}, map[string]any{}
	res := map[string]any{"stage": stage, "wire": wire, "decision": "none"}
	if h.panicMsg != "" {
		res["panic"] = h.panicMsg
	}
	defer func() {
		if r := recover(); r != nil {
			res["panic"] = fmt.Sprint(r)
			out, err = res, nil
		}
	}()
	if h.decided {
		h.ev.mu.Lock()
		if h.ev.keep != nil && *h.ev.keep {
			res["decision"] = "keep"
		} else {
			res["decision"] = "drop"
		}
		h.ev.mu.Unlock()
	}
	for _, id := range h.order {
		s := h.spans[id]
		stage[id] = s.stage
		names := []string{}
		switch s.stage {
		case "buf":
			switch {
			case h.decided && s.hasDec:
				names = h.wireNames(s, s.atDec) // as of the decision hook
			case h.decided:
				names = []string{"NOT-SEEN-AT-DECISION"}
			default:
				raw, merr := s.sp.Data.MarshalMsg(nil) // the worker is idle
				if merr != nil {
					names = []string{"MARSHAL-ERROR:" + merr.Error()}
				} else {
					names = h.wireNames(s, raw)
				}
			}
		case "sent":
			h.tx.mu.Lock()
			recs := h.tx.sent[s.sp]
			h.tx.mu.Unlock()
			names = h.wireNames(s, recs[0])
			if len(recs) > 1 {
				names = append(names, fmt.Sprintf("FORWARDED-%d-TIMES", len(recs)))
			}
			// the transmission marshals later than EnqueueSpan: nobody may touch the event in between
			if again, merr := s.sp.Data.MarshalMsg(nil); merr != nil {
				names = append(names, "MARSHAL-ERROR:"+merr.Error())
			} else if a := h.wireNames(s, again); !reflect.DeepEqual(a, h.wireNames(s, recs[0])) {
				names = append(names, fmt.Sprintf("CHANGED-AFTER-ENQUEUE:%v", a))
			}
		}
		wire[id+"Set"] = names
	}
	return res, nil
}

func TestVerifC20Wire(t *testing.T) {
	// self-test of the independent decoder
	for _, tc := range []struct {
		in   []byte
		want string
	}{
		{msgp.AppendUint64(nil, math.MaxUint64), "i:18446744073709551615"},
		{msgp.AppendInt64(nil, math.MinInt64), fmt.Sprintf("i:%d", int64(math.MinInt64))},
		{msgp.AppendFloat32(nil, 0.1), fmt.Sprintf("f32:%08x", math.Float32bits(0.1))},
	} {
		got, rest, err := c20wDecode(tc.in)
		if err != nil || len(rest) != 0 || got != tc.want {
			t.Fatalf("c20w decoder self-test: %x -> %q (%v), want %q", tc.in, got, err, tc.want)
		}
	}
	h := &c20wHarness{}
	err := verifkit.Main(h)
	if h.stop != nil {
		h.stop()
	}
	if err != nil {
		t.Fatal(err)
	}
}
