"""C13 Throughput goals scale with the current cluster size."""


def _alts(fam):
    # see lib/props/C12.py: observed-key is the registry key the unchanged tree computes (it omits
    # UseClusterSize); allowed only while known_findings.json lists "key-collision" as open for C13.
    return [
        dict(name="ideal-key", cfg={"quick": f"MC_Samplers_{fam}_ideal.cfg", "thorough": f"MC_Samplers_{fam}_ideal_big.cfg"}),
        dict(name="ideal-key-per-rule", cfg={"quick": f"MC_Samplers_{fam}_noshare.cfg", "thorough": f"MC_Samplers_{fam}_noshare_big.cfg"}),
        dict(name="observed-key", cfg={"quick": f"MC_Samplers_{fam}_obs.cfg", "thorough": f"MC_Samplers_{fam}_obs_big.cfg"}),
    ]


# second half: the goal follows the cluster size THROUGH THE REAL MEMBERSHIP COMPONENT (spec/PeerGoal.tla).
# "code": goals recomputed exactly when a handled message changes the listed id set / on creation (what the tree does);
# "loose": all C13 asks for - recomputed whenever the implementation likes, but in force once membership has been
# stable for PeerEntryTimeout + one refresh interval.  VIOLATION only if neither fits.
_PG_H = ["sample/c12_export.go", "sample/c13_peergoal_test.go", "internal/peer/c13_export.go"]


def _pg(name, quick, thorough, budget, tiers=("quick", "thorough")):
    return dict(kind="walk", name=name, module="PeerGoal", pkg="sample", test="TestVerifC13PeerGoal", harness=_PG_H, tiers=tiers,
                alternatives=[dict(name=a, cfg={"quick": f"MC_PeerGoal_{quick}_{a}.cfg", "thorough": f"MC_PeerGoal_{thorough}_{a}.cfg"}) for a in ("code", "loose")],
                budget=budget, maxwalk=120, dump_workers=4, tlc_timeout=900)


PROP = dict(
    level="model_checking",
    technique="TLA+ spec Samplers.tla (registry, goalThroughputConfigs, peerCount, asynchronous peer-change callback, reload path) model-checked by TLC; every generated transition replayed into the real sample.SamplerFactory with the callback started like the real peers implementations do (spec->code transition tour); TLA+ spec PeerGoal.tla (peer registry: start / heartbeat / unregister / crash / lazy entry expiry / change notification, together with the factory's goal scaling) model-checked by TLC incl. the timed invariant, every generated transition replayed into 2-3 real RedisPubsubPeers on a real pubsub.LocalPubSub and a fake clock, each feeding a real SamplerFactory (spec->code transition tour)",
    design_ref="DESIGN.md §5 C13",
    level_text="TLC enumerates rules files mixing TotalThroughput, EMAThroughput and WindowedThroughput samplers with and without UseClusterSize (by destination, by rule with different field lists, by rule differing in UseClusterSize only, and a single cluster-size sampler with awkward tuning values that survives a reload), goals {1,2,10}, cluster sizes {1,2,3,5} changing in any order, the callback goroutine running at any later point, lazy creation before/after/between changes, and configuration reloads, and checks on the model that whenever no callback is outstanding every registered throughput instance has goal = max(1, goal div peers) iff its definition has UseClusterSize and the configured goal otherwise (RegistryGoals), and that at quiescence this holds for the sampler every worker would use (WorkerGoals). Every generated transition is executed on the real SamplerFactory (rules files loaded by the real config package, Config.Reload, ClearDynsamplers, updatePeerCounts started as `go callback()`), and GoalThroughputPerSec read from the live dynsampler-go instances must equal the model's after every step. Second half (PeerGoal.tla): the cluster size is no longer set by the harness but produced by the real membership component. TLC explores, for 2 nodes (both tiers) and 3 nodes (thorough), every order of node start, refresh-ticker firing (gap 3 or 4 ticks of 1 s), graceful stop (unregister message), silent crash (entry expiry after PeerEntryTimeout = 10 ticks), lazy sampler creation at any point, ClearDynsamplers and re-creation, goals {12} / {2,12}, and checks on the model: once membership has been stable for PeerEntryTimeout + one refresh interval (+1 tick of discretisation; TLC refutes the bound without it) every running node's factory scales by exactly the number of live nodes (GoalConverged), the goals never lag the node's own GetPeers() by more than one refresh interval (LagBounded), a join / graceful leave is in force as soon as the message is handled, a sampler created at any time starts with the goal of the size its node reports. Every generated transition is executed on real RedisPubsubPeers instances (real Start, Ready goroutine, listen, checkHash, `go callback()`), one per node, on one real LocalPubSub and one fake clock, each the Peers of a real SamplerFactory with TotalThroughput, EMAThroughput and WindowedThroughput samplers with and without UseClusterSize (rules loaded by the real config package); after every step len(GetPeers()) and the set of GoalThroughputPerSec values of the live dynsampler instances of every running node must equal the model's. If the code does not follow the code-shaped model the walk falls back to the loose model (goals recomputed at any step or not, either boundary convention at the expiry instant, but in force by the bound above); VIOLATION only if neither fits.",
    level_note="Exhaustive only within the bound (2 destinations, <=2 downstream samplers, 1 worker in the replay / 2 in TLC, one configuration change, peers in {1,2,3,5}, goals in {1,2,10}). Since /repo commit 871b085 the code conforms to the ideal key (alternative observed-key is kept last only to name a regression). A ghost variable (has updatePeerCounts run since the registry was cleared) splits model states so that the edge tour replays creation-after-reload both with and without an intervening goal update. createSampler's three critical sections (registry, goalThroughputConfigs, updatePeerCounts) are one model step; a GetPeers error / empty peer list (count kept) is not modelled. PeerGoal: the channel delivers a published message to every subscriber at once (LocalPubSub; delivery orders, delays and publish failures are C18's Peers.tla), the refresh ticker's channel is interposed (the goroutine gets its tick when the model says so; the period the code asked for must lie in the 3..4 s envelope, else cannot-decide), the peer map is re-seated on the fake clock after Start (NewMapWithTTL ignores the injected clock), a change callback is awaited exactly when the hash checkHash stores changed during the step (read through an exported accessor: a refactoring of that field is a build failure = cannot-decide, not a verdict); the loose alternative does not compare len(GetPeers()). 3-node graphs: samplers on one node only (replay) / two nodes (TLC only).",
    assumptions=["bounded: peers {1,2,3,5}, goals {1,2,10}, 2 destinations, one configuration change",
                 "the peers implementation calls the registered callback in a new goroutine after the membership it reports has changed (RedisPubsubPeers.checkHash, FilePeers)",
                 "PeerGoal: clockwork.FakeClock is faithful; a published message reaches every running node at once and is never lost; the refresh ticker fires 3..4 s after its previous firing; bounded: 2-3 nodes, <=3-5 start/stop/crash events, one ClearDynsamplers"],
    stages=[
        dict(kind="tlc", name="Samplers-c13-mc", module="Samplers", cfg={"quick": None, "thorough": "MC_Samplers_c13_mc_big.cfg"}, workers=8, timeout=900),
        dict(kind="walk", name="Samplers-c13", module="Samplers", pkg="sample", test="TestVerifSamplers",
             harness=["sample/c12_export.go", "sample/c12_samplers_test.go"], alternatives=_alts("c13"),
             budget={"quick": 60, "thorough": 360}, dump_workers=8),
        dict(kind="tlc", name="PeerGoal-timed", module="PeerGoal", cfg={"quick": "MC_PeerGoal_pair_q_timed.cfg", "thorough": "MC_PeerGoal_pair_timed.cfg"}, workers=4),
        _pg("PeerGoal-pair", "pair_q", "pair_t", {"quick": 30, "thorough": 60}),
        _pg("PeerGoal-trio", "trio", "trio", {"thorough": 100}, tiers=("thorough",)),
        dict(kind="tlc", name="PeerGoal-timed-trio", module="PeerGoal", cfg="MC_PeerGoal_trio_timed.cfg", workers=8, tiers=("thorough",)),
    ],
)
