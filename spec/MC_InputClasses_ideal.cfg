SPECIFICATION Spec
CHECK_DEADLOCK FALSE
CONSTANTS
  Endpoints = {"event", "batch", "peer-batch", "otlp-http-traces", "otlp-http-logs", "otlp-grpc-traces", "otlp-grpc-logs", "proxy", "query"}
  CTypes = {"json", "msgpack", "protobuf", "absent", "junk"}
  Comps = {"none", "gzip", "zstd", "corrupt"}
  Shapes = {"valid", "empty", "truncated", "subst", "wrongtop", "deep", "hugelen", "lenbomb", "dupkeys", "nonstrkeys", "badutf8", "naninf", "exttypes"}
  Hdrs = {"nokey", "key", "odd"}
  ReqMode = "full"
  CfgSamplers = {"DeterministicSampler", "DynamicSampler", "EMADynamicSampler", "EMAThroughputSampler", "WindowedThroughputSampler", "TotalThroughputSampler", "RulesBasedSampler"}
  CondOps = {"=", "!=", ">", "<", ">=", "<=", "starts-with", "contains", "does-not-contain", "exists", "not-exists", "has-root-span", "matches", "in", "not-in"}
  CondVals = {"absent", "int", "str", "nan", "list", "intlist", "emptylist", "badregex", "nestedlist", "map"}
  CondTypes = {"absent", "string", "int", "float", "bool"}
  RuleKinds = {"int", "dur", "float", "list"}
  CondScopes = {"span", "trace"}
  FieldVals = {"fv-str", "fv-int", "fv-nil", "fv-array", "fv-map", "fv-absent"}
  Faithful = FALSE
INVARIANTS TypeOK Answered OnlyListed
PROPERTY Evaluated
