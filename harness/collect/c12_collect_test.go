//go:build verif

package collect

import (
	"context"
	"fmt"
	"os"
	"sync"
	"testing"
	"time"

	"github.com/jonboulle/clockwork"
	"go.opentelemetry.io/otel/trace/noop"

	"github.com/honeycombio/refinery/internal/health"
	"github.com/honeycombio/refinery/internal/verifkit"
	"github.com/honeycombio/refinery/logger"
	"github.com/honeycombio/refinery/metrics"
	"github.com/honeycombio/refinery/pubsub"
	"github.com/honeycombio/refinery/sample"
	"github.com/honeycombio/refinery/sharder"
	"github.com/honeycombio/refinery/types"
)

// Binding of spec/Samplers.tla (property C12, AtomicReload = TRUE) to a real
// InMemCollector with its worker goroutines, its monitor goroutine, the real
// SamplerFactory and a real file-backed config.Config.
//
// Every worker is parked on its pause channel except while the harness lets it
// take exactly one step, so the schedule is the specification's:
//   Decide(w,d)     a root span of environment d is routed to worker w
//                   (AddSpan), the worker buffers it, then a sendEarly request
//                   makes it decide the trace: CollectorWorker.makeDecision looks
//                   up / fills cl.datasetSamplers. A reload signal waiting in the
//                   worker's channel is held back meanwhile (the schedule in
//                   which select takes the span first).
//   Reload          the rules file is rewritten, Config.Reload fires
//                   InMemCollector.sendReloadSignal, the monitor goroutine runs
//                   reloadConfigs (ClearDynsamplers + one signal per worker).
//   WorkerReload(w) worker w is released until it has taken its reload signal.
//   PeersChanged / PeerCallback as in the sample-level harness.
// Barriers are hook events (collect/verif_on.go) and channel hand-offs, never
// sleeps. The projection is read while all workers are parked.

const c12Timeout = 30 * time.Second

type c12Events struct {
	mu     sync.Mutex
	cond   *sync.Cond
	counts map[string]int
}

func (e *c12Events) emit(event string, kv ...any) {
	e.mu.Lock()
	e.counts[event]++
	switch event {
	case "worker_reloaded":
		e.counts[fmt.Sprintf("worker_reloaded/%v", kv[1])]++
	case "processed", "decision":
		for i := 0; i+1 < len(kv); i += 2 {
			if kv[i] == "t" {
				e.counts[fmt.Sprintf("%s/%v", event, kv[i+1])]++
			}
		}
	}
	e.cond.Broadcast()
	e.mu.Unlock()
}

func (e *c12Events) waitFor(what string, pred func(c map[string]int) bool) error {
	timer := time.AfterFunc(c12Timeout, func() { e.mu.Lock(); e.cond.Broadcast(); e.mu.Unlock() })
	defer timer.Stop()
	deadline := time.Now().Add(c12Timeout)
	e.mu.Lock()
	defer e.mu.Unlock()
	for !pred(e.counts) {
		if time.Now().After(deadline) {
			return fmt.Errorf("barrier timeout waiting for %s", what)
		}
		e.cond.Wait()
	}
	return nil
}

type c12Tx struct{}

func (c12Tx) EnqueueEvent(ev *types.Event) {}
func (c12Tx) EnqueueSpan(sp *types.Span)   {}

type c12CollectHarness struct {
	params *sample.C12Params
	dir    string
	loaded map[int]*sample.C12Loaded

	sc      *sample.C12Scenario
	ld      *sample.C12Loaded
	coll    *InMemCollector
	factory *sample.SamplerFactory
	met     *metrics.MockMetrics
	peers   *sample.C12Peers
	namer   *sample.C12Namer
	ev      *c12Events
	parked  []chan struct{}
	ids     [][]string // per worker: trace ids that hash to it
	nextID  []int
	clears  int
	reloads int
	stop    func()
}

const c12MainYAML = `General:
  ConfigurationVersion: 2
Collection:
  WorkerCount: %d
SampleCache:
  KeptSize: 200
  DroppedSize: 2000
`

func (h *c12CollectHarness) park(w int) {
	ch := make(chan struct{})
	h.coll.workers[w].pause <- ch // received by the worker's select: it now waits for close(ch)
	h.parked[w] = ch
}

func (h *c12CollectHarness) unpark(w int) {
	close(h.parked[w])
	h.parked[w] = nil
}

func (h *c12CollectHarness) Reset(init map[string]any) error {
	if h.stop != nil {
		h.stop()
		h.stop = nil
	}
	if h.params == nil {
		p, err := sample.C12ParseParams(init)
		if err != nil {
			return err
		}
		h.params = p
		h.loaded = map[int]*sample.C12Loaded{}
		if h.dir, err = os.MkdirTemp("", "c12collect"); err != nil {
			return err
		}
	}
	sci := verifkit.Int(init, "sci")
	if sci < 1 || sci > len(h.params.Scenarios) {
		return fmt.Errorf("scenario index %d out of range", sci)
	}
	h.sc = &h.params.Scenarios[sci-1]
	nw := len(h.params.Workers)
	ld, ok := h.loaded[sci]
	if ok {
		// a new Config object: the previous collector's reload callback stays behind
		if err := ld.Fresh(); err != nil {
			return err
		}
	} else {
		var err error
		if ld, err = sample.C12Load(h.dir, h.sc, h.params.Dests, fmt.Sprintf(c12MainYAML, nw)); err != nil {
			return err
		}
		h.loaded[sci] = ld
	}
	h.ld = ld
	h.ev = &c12Events{counts: map[string]int{}}
	h.ev.cond = sync.NewCond(&h.ev.mu)
	SetVerifHooks(&VerifHooks{Emit: h.ev.emit})
	h.met = &metrics.MockMetrics{}
	h.met.Start()
	h.peers = &sample.C12Peers{}
	h.peers.Set(1)
	clock := clockwork.NewFakeClock()
	hr := &health.Health{Clock: clockwork.NewFakeClock()}
	hr.Start()
	lps := &pubsub.LocalPubSub{Config: ld.Cfg, Metrics: h.met}
	lps.Start()
	h.factory = &sample.SamplerFactory{Config: ld.Cfg, Logger: &logger.NullLogger{}, Metrics: h.met, Peers: h.peers}
	if err := h.factory.Start(); err != nil {
		return err
	}
	h.coll = &InMemCollector{
		TestMode: true, Config: ld.Cfg, Clock: clock, Logger: &logger.NullLogger{},
		Tracer: noop.NewTracerProvider().Tracer("verif"), Health: hr,
		Transmission: c12Tx{}, PeerTransmission: c12Tx{},
		PubSub: lps, Metrics: h.met, StressRelief: &MockStressReliever{}, SamplerFactory: h.factory,
		Peers:   h.peers,
		Sharder: &sharder.MockSharder{Self: &sharder.TestShard{Addr: "api1"}},
	}
	if err := h.coll.Start(); err != nil {
		return err
	}
	if len(h.coll.workers) != nw {
		return fmt.Errorf("collector started %d workers, want %d", len(h.coll.workers), nw)
	}
	coll, sf := h.coll, h.factory
	h.parked = make([]chan struct{}, nw)
	h.stop = func() {
		for w := range h.parked {
			if h.parked[w] != nil {
				h.unpark(w)
			}
		}
		coll.Stop()
		sf.Stop()
		hr.Stop()
		lps.Stop()
		SetVerifHooks(nil)
	}
	ctx, cancel := context.WithTimeout(context.Background(), c12Timeout)
	defer cancel()
	if err := clock.BlockUntilContext(ctx, nw+1); err != nil { // workers and monitor have their tickers
		return fmt.Errorf("tickers not created: %w", err)
	}
	for w := 0; w < nw; w++ {
		h.park(w)
	}
	if h.ids == nil {
		h.ids = make([][]string, nw)
		for n := 0; !c12Enough(h.ids, 256); n++ {
			id := fmt.Sprintf("c12trace%06d", n)
			w := h.coll.getWorkerIDForTrace(id)
			h.ids[w] = append(h.ids[w], id)
			if n > 100000 {
				return fmt.Errorf("cannot find trace ids for every worker")
			}
		}
	}
	h.nextID = make([]int, nw)
	h.namer = sample.NewC12Namer(h.sc, h.params.ShareIdentical)
	h.clears, h.reloads = 0, 0
	return nil
}

func c12Enough(ids [][]string, n int) bool {
	for _, x := range ids {
		if len(x) < n {
			return false
		}
	}
	return true
}

func (h *c12CollectHarness) workerIndex(w string) int {
	for i, x := range h.params.Workers {
		if x == w {
			return i
		}
	}
	return -1
}

func (h *c12CollectHarness) Apply(a map[string]any) error {
	switch verifkit.Str(a, "name") {
	case "Decide":
		w, d := h.workerIndex(verifkit.Str(a, "w")), verifkit.Str(a, "d")
		cl := h.coll.workers[w]
		env := h.sc.Names[d]
		_, had := cl.datasetSamplers[env] // the worker is parked
		held := false
		select {
		case <-cl.reload:
			held = true
		default:
		}
		k := h.nextID[w]
		h.nextID[w]++
		if k >= len(h.ids[w]) {
			return fmt.Errorf("walk longer than the %d prepared trace ids of worker %d", len(h.ids[w]), w)
		}
		id := h.ids[w][k] // a fresh trace id that the collector routes to worker w
		pl := types.NewPayload(h.ld.Cfg, map[string]any{"r": int64(k%2 + 1), "svc": "s", "op": fmt.Sprintf("o%d", k%3), "trace.trace_id": id})
		pl.ExtractMetadata()
		sp := &types.Span{TraceID: id, IsRoot: true,
			Event: &types.Event{APIHost: "http://api", APIKey: "c12-environment-key", Dataset: "ds", Environment: env, Data: pl}}
		before := 0
		h.ev.mu.Lock()
		before = h.ev.counts["processed/"+id]
		beforeDec := h.ev.counts["decision/"+id]
		h.ev.mu.Unlock()
		h.unpark(w)
		if err := h.coll.AddSpan(sp); err != nil {
			return err
		}
		if err := h.ev.waitFor("span processed", func(c map[string]int) bool { return c["processed/"+id] > before }); err != nil {
			return err
		}
		var wg sync.WaitGroup
		wg.Add(1)
		cl.sendEarly <- sendEarly{wg: &wg, bytesToSend: 1 << 40}
		wg.Wait()
		if err := h.ev.waitFor("decision", func(c map[string]int) bool { return c["decision/"+id] > beforeDec }); err != nil {
			return err
		}
		h.park(w)
		if held {
			cl.reload <- struct{}{}
		}
		s, ok := cl.datasetSamplers[env]
		if !ok {
			return fmt.Errorf("worker %d decided a trace of %q without caching a sampler", w, env)
		}
		if !had {
			h.namer.NameNew(d, s, h.clears)
		}
	case "Reload":
		h.reloads++
		n := h.reloads
		if err := h.ld.SwitchTo(h.ld.Other()); err != nil {
			return err
		}
		if err := h.ev.waitFor("reloadConfigs", func(c map[string]int) bool { return c["reloaded"] >= n }); err != nil {
			return err
		}
		h.clears++
	case "WorkerReload":
		w := h.workerIndex(verifkit.Str(a, "w"))
		key := fmt.Sprintf("worker_reloaded/%d", w)
		h.ev.mu.Lock()
		before := h.ev.counts[key]
		h.ev.mu.Unlock()
		if len(h.coll.workers[w].reload) == 0 {
			return fmt.Errorf("WorkerReload(%d): no reload signal is waiting for the worker", w)
		}
		h.unpark(w)
		if err := h.ev.waitFor(key, func(c map[string]int) bool { return c[key] > before }); err != nil {
			return err
		}
		h.park(w)
	case "PeersChanged":
		h.peers.Set(verifkit.Int(a, "n"))
	case "PeerCallback":
		h.peers.Fire()
	default:
		return fmt.Errorf("unknown action %v", a)
	}
	return nil
}

func (h *c12CollectHarness) Project() (any, error) {
	local := map[string]any{}
	var bad []string
	for w, name := range h.params.Workers {
		cl := h.coll.workers[w] // parked
		per := map[string]any{}
		for _, d := range h.params.Dests {
			s, ok := cl.datasetSamplers[h.sc.Names[d]]
			views := []any{}
			if ok {
				views = h.namer.View(s, h.clears, &bad)
			}
			per[d] = map[string]any{"c": ok, "s": views}
		}
		if extra := len(cl.datasetSamplers); extra > len(h.params.Dests) {
			bad = append(bad, fmt.Sprintf("worker %d caches %d samplers", w, extra))
		}
		local[name] = per
	}
	out := map[string]any{"local": local}
	if len(bad) > 0 {
		out["bad"] = bad
	}
	return out, nil
}

func TestVerifSamplersCollect(t *testing.T) {
	h := &c12CollectHarness{}
	err := verifkit.Main(h)
	if h.stop != nil {
		h.stop()
	}
	if h.dir != "" {
		os.RemoveAll(h.dir)
	}
	if err != nil {
		t.Fatal(err)
	}
}
