#!/usr/bin/env python3
"""Writes the MC_Peers_*.cfg files (run from /verif/spec). One scenario = constants of Peers.tla;
each replayed scenario exists in four variants for what C18 leaves open:
  c  closed expiry (entry listed at now = expiry) + callback firings compared
  n  closed expiry, callbacks not compared
  oc / on  the same with open expiry."""
import os

HERE = os.path.dirname(os.path.abspath(__file__))
INV = "INVARIANTS TypeOK Converged LearnsLive ForgetsDead PeerForgotten PeerLearnt SelfListed PeriodRestored NoDuplicateAddr ChannelSane\nPROPERTIES CallbackIffChange NoResurrection\n"

# name: (Addr, Gaps, D, MaxEvents, MaxFails[, Boot, CrashSet, StopSet, Sync])
SCEN = {
    "pair_q":     ("Addr2", "GapsFixed2", 1, 3, 0),          # quick walk / quick timed model check: no publish failures
    "solo":       ("Addr1", "GapsJitter1", 1, 2, 3),         # walk: one node and its own looped-back heartbeat, up to 3 failed publishes
    "pairfail":   ("Addr2", "GapsFixed2", 1, 2, 1),          # walk: two nodes, one failed publish, no leave
    "pairfail_mc": ("Addr2", "GapsFixed2", 1, 3, 2),         # model check only
    "pair_t":     ("Addr2", "GapsJitter2", 1, 4, 0),         # thorough walk: jitter
    "restart":    ("AddrRestart", "GapsRestartF", 0, 4, 0),  # thorough walk: a process replaced by a new id on the same address
    "trio":       ("Addr3", "GapsFixed3", 0, 3, 0),          # thorough walk: three nodes, same-instant delivery in any order
    "pair_mc":    ("Addr2", "GapsJitter2", 2, 6, 0),         # thorough model check only: jitter, delay up to 2 ticks
    "restart_mc": ("AddrRestart", "GapsRestart", 1, 4, 0),   # thorough model check only
    "trio_mc":    ("Addr3", "GapsFixed3", 0, 4, 0),          # thorough model check only
    # mixed histories from a running three-node cluster (a1 observes): a silent crash and a clean unregister of DIFFERENT peers in either
    # order and at any distance, every tick and every delivery order replayed up to and past each entry's deadline
    "mix_q":      ("Addr3", "GapsFixed3", 0, 2, 0, "BootABC", "OnlyC", "OnlyB", "TRUE"),     # quick walk + quick timed model check: c1 crashes, b1 unregisters
    "mix_t":      ("Addr3", "GapsFixed3", 0, 2, 0, "BootABC", "AllNodes", "AllNodes", "TRUE"),  # thorough walk: any two of the three crash or unregister
    "mix_mc":     ("Addr3", "GapsFixed3", 0, 3, 0, "BootABC", "AllNodes", "AllNodes", "FALSE"),  # thorough model check only: anybody leaves, three events (incl. the whole cluster)
    # rolling restart while a crashed peer's entry is ageing: c1 crashes, b1 unregisters, b2 joins on b1's address and unregisters again
    "roll":       ("AddrRoll", "GapsRoll4", 0, 4, 0, "BootABC", "OnlyC", "SetB", "TRUE"),     # thorough walk
    "roll_mc":    ("AddrRoll", "GapsRoll", 0, 4, 0, "BootABC", "OnlyC", "SetB", "TRUE"),      # thorough model check only (unequal periods)
}


AGE = ("pair_q", "mix_q", "mix_mc", "roll_mc")   # timed configurations that also carry the per-node clocks (PeerForgotten / PeerLearnt)


def consts(s, closed, cb, quiet, backoff="FALSE", extra="none"):
    a, g, d, e, f = SCEN[s][:5]
    boot, crash, stop, sync = SCEN[s][5:] or ("NoNodes", "AllNodes", "AllNodes", "FALSE")
    return ("CONSTANTS\n  Addr <- %s\n  Gaps <- %s\n  T = 10\n  D = %d\n  MaxEvents = %d\n  MaxFails = %d\n  Extra = \"%s\"\n  Backoff = %s\n  Closed = %s\n  ObserveCb = %s\n  TrackQuiet = %s\n  UnitMs = 1000\n"
            "  Boot <- %s\n  CrashSet <- %s\n  StopSet <- %s\n  Sync = %s\n  TrackAge = %s\n"
            % (a, g, d, e, f, extra, backoff, closed, cb, quiet, boot, crash, stop, sync, "TRUE" if quiet == "TRUE" and s in AGE and backoff == "FALSE" else "FALSE"))


def write(name, text):
    with open(os.path.join(HERE, name), "w") as fh:
        fh.write(text)


# variants of a replayed graph: c/n/oc/on as above with the code's publish schedule (ticker only, fixed period);
# x/ox: the loosest behaviour C18 admits - callbacks not compared, a node may publish extra registers (at Start,
# on handling a message), and may back off while publishes fail as long as the first success restores the period
VARIANTS = (("c", "TRUE", "TRUE", "FALSE", "none"), ("n", "TRUE", "FALSE", "FALSE", "none"),
            ("oc", "FALSE", "TRUE", "FALSE", "none"), ("on", "FALSE", "FALSE", "FALSE", "none"),
            ("x", "TRUE", "FALSE", "TRUE", "any"), ("ox", "FALSE", "FALSE", "TRUE", "any"))
for s in ("pair_q", "solo", "pairfail", "pair_t", "restart", "trio", "mix_q", "mix_t", "roll"):
    for v, closed, cb, bo, ex in VARIANTS:
        # replayed graph: the quiet counter is frozen (it would only multiply the states)
        if ex == "any" and s != "solo":
            ex = "start"   # "any" multiplies the two-node graphs by 30; it is replayed for one node and model-checked for two
        write(f"MC_Peers_{s}_{v}.cfg", "SPECIFICATION Spec\n" + consts(s, closed, cb, "FALSE", bo, ex) + INV + "ACTION_CONSTRAINT Dump\nVIEW View\n")
for s in ("pair_q", "solo", "pairfail_mc", "pair_mc", "restart_mc", "trio_mc", "mix_q", "mix_mc", "roll_mc"):
    # the timed invariants on the same (or a larger) bound
    write(f"MC_Peers_{s}_timed.cfg", "SPECIFICATION Spec\n" + consts(s, "TRUE", "TRUE", "TRUE") + INV + "VIEW View\n")
# ... and for an implementation with backoff (model check only)
write("MC_Peers_pairfail_mc_loose_timed.cfg", "SPECIFICATION Spec\n" + consts("pairfail_mc", "TRUE", "TRUE", "TRUE", "TRUE", "start") + INV + "VIEW View\n")
write("MC_Peers_pair_q_loose_timed.cfg", "SPECIFICATION Spec\n" + consts("pair_q", "TRUE", "TRUE", "TRUE", "TRUE", "any") + INV + "VIEW View\n")

for s in ("solo", "pairfail_mc", "pair_mc", "restart_mc", "trio", "mix_q"):
    # liveness under fairness (no VIEW: act is part of the behaviour graph)
    write(f"MC_Peers_{s}_live.cfg", "SPECIFICATION FairSpec\n" + consts(s, "TRUE", "TRUE", "FALSE") + "INVARIANTS TypeOK\nPROPERTIES EventuallyAgreed HashCatchesUp\n")

for name, alpha, ml, mm in (("q", "Alpha3", 2, 4), ("t", "Alpha4", 3, 5)):
    write(f"MC_PeersCodec_{name}.cfg",
          "SPECIFICATION Spec\nCONSTANTS\n  Alphabet <- %s\n  MaxLen = %d\n  MaxMsg = %d\n" % (alpha, ml, mm)
          + "INVARIANTS TypeOK CodeRoundTrips CommaIdHarmless CommaAddressCorrupts DecodeEncode\nACTION_CONSTRAINT Dump\nVIEW View\nCHECK_DEADLOCK FALSE\n")
