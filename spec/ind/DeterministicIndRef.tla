------------------------- MODULE DeterministicIndRef -------------------------
(* TLC tie between spec/Deterministic.tla and spec/ind/DeterministicInd.tla *)
(* (method: see TTLIndRef.tla).  Deterministic.tla has many initial states, *)
(* so the initial states of both modules are explored and each must satisfy *)
(* both Init predicates.  SpecU ties Spec, SpecUArith ties SpecArith.       *)
EXTENDS Deterministic

I == INSTANCE DeterministicInd

Park == TLCSet(1, <<table', h', rate', bound'>>)
Typed == [name |-> "Typed"]

InitU == Init \/ (I!Init /\ act = [name |-> "Init"])
Union == Next \/ (I!Next /\ act' = Typed)
SpecU == InitU /\ [][Union]_vars
InitSame == TLCGet("level") = 1 => (Init /\ I!Init)
Fwd == [][I!Next]_vars
Bwd == [][Park /\ ENABLED (Next /\ <<table', h', rate', bound'>> = TLCGet(1))]_vars

InitUArith == InitArith \/ (I!InitArith /\ act = [name |-> "Init"])
UnionArith == NextArith \/ (I!NextArith /\ act' = Typed)
SpecUArith == InitUArith /\ [][UnionArith]_vars
InitSameArith == TLCGet("level") = 1 => (InitArith /\ I!InitArith)
FwdArith == [][I!NextArith]_vars
BwdArith == [][Park /\ ENABLED (NextArith /\ <<table', h', rate', bound'>> = TLCGet(1))]_vars

SameInv == /\ TypeOK <=> I!TypeOK
           /\ TypeOKArith <=> I!TypeOKArith
           /\ BoundIsThreshold <=> I!BoundIsThreshold
           /\ KeepIsThreshold <=> I!KeepIsThreshold
           /\ RateLE1KeepsAll <=> I!RateLE1KeepsAll
           /\ InstancesAgree <=> I!InstancesAgree
           /\ NestedAnswers <=> I!NestedAnswers
           /\ ArithNested <=> I!ArithNested
           /\ ArithNestedUp <=> I!ArithNestedUp
           /\ ArithFraction <=> I!ArithFraction
           /\ I!IndInv /\ I!ConstOK
SameCount == ArithKeptCount <=> I!ArithKeptCount

\* on the original steps the labelled action properties and the label-free ones agree
SameAct ==
  [][act'.name # "Typed" =>
       /\ (act'.name = "Decide" => \A i \in Insts : Answer(i)' = Answer(i)) <=> I!AskingIsPureStep
       /\ (act'.name = "Configure" =>
             \A i \in Insts : i = act'.i =>
               \/ Answer(i)' = (IF Stored(act'.n) <= 1 THEN [rate |-> 1, keep |-> TRUE]
                                ELSE [rate |-> Stored(act'.n), keep |-> Keep(h, Stored(act'.n), H)])
               \/ /\ act'.p \in Rejectable
                  /\ Answer(i)' = (IF rate[i] = -1 THEN [rate |-> 1, keep |-> TRUE] ELSE Answer(i)))
          <=> I!ConfigureTakesEffectStep
       /\ (act'.name = "Configure" => \A j \in Insts \ {act'.i} : Answer(j)' = Answer(j))
          <=> I!ConfigureIsLocalStep]_vars
=============================================================================
