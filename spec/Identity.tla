----------------------------- MODULE Identity -----------------------------
(***************************************************************************)
(* Trace identity and root status of an incoming event (property C21).     *)
(*                                                                         *)
(* B3 function vector: Init enumerates every input                         *)
(*   inp = [path, tn, pn, kf, ev]                                          *)
(* where tn / pn are the configured TraceIdFieldNames / ParentIdFieldNames *)
(* lists (order matters), ev is the payload as the client laid it out: a   *)
(* sequence of [n |-> field name, ty |-> typing] for the fields present,   *)
(* kf is the set of these fields that the sampler of the event's          *)
(* destination ALSO uses as key fields (CoreFieldsUnmarshaler memoizes     *)
(* those in the same scan; trace identity must not depend on the sampler), *)
(* and path is the ingestion path (constructor + encoding) of /repo that   *)
(* the harness uses for it.  The single action Eval stands for "construct  *)
(* the Payload and extract its metadata" (types.Payload.ExtractMetadata /  *)
(* extractCriticalFieldsFromBytes) and records what the collector would    *)
(* see: p.MetaTraceID and p.MetaRefineryRoot.Value.                        *)
(*                                                                         *)
(* Typings: "absent" (not in ev), "str" (non-empty string, value id-<n>),  *)
(* "empty" (""), "nonstr" (a number); meta.signal_type additionally "log"  *)
(* and "trace".                                                            *)
(*                                                                         *)
(* Ideal (the C21 statement):                                              *)
(*   TraceID = meta.trace_id if it holds a non-empty string, otherwise the *)
(*   value of the first name IN CONFIGURED ORDER (tn) holding a non-empty  *)
(*   string, otherwise none; independent of ev's order and of the path.    *)
(*   Root = has a trace /\ no configured parent field holds a non-empty    *)
(*   string /\ meta.signal_type # "log".                                   *)
(*                                                                         *)
(* Deviation (Faithful = TRUE, what the unchanged code does): the fields   *)
(* are scanned once in payload order (msgpack paths) or in Go map          *)
(* iteration order (map paths, any permutation); the first trace-ID field  *)
(* met while MetaTraceID is still "" wins, and a string meta.trace_id      *)
(* overwrites whatever was found before it - even with "".  The harness    *)
(* repeats map-path vectors and reports the SET of results it saw, so a    *)
(* "sometimes wrong" answer is a wrong answer.                             *)
(***************************************************************************)
EXTENDS Integers, Sequences, FiniteSets, TLC, Json

CONSTANTS T1, T2,        \* the two trace-ID field names
          P1, P2,        \* the two parent-ID field names
          TraceOrders,   \* set of configured TraceIdFieldNames lists (sequences)
          ParentOrders,  \* set of configured ParentIdFieldNames lists
          Orders,        \* set of payload layouts: sequences over all six fields
          MapOrder,      \* the one layout used for map paths (their order is Go's, not ours)
          SeqPaths,      \* ingestion paths that keep the client's field order (msgpack bytes)
          MapPaths,      \* ingestion paths that go through a Go map
          KeySets,       \* which of the six fields are ALSO key fields of the destination's sampler
                         \* (enumerated on KeyPaths only; the answer must not depend on it)
          KeyPaths,      \* the SeqPaths whose constructor extracts the sampler's key fields
          PTypings,      \* typings enumerated for the parent-ID fields (subset of IdTypings)
          STypings,      \* typings enumerated for meta.signal_type (subset of SigTypings)
          Faithful       \* TRUE: the graph also contains what the unchanged code does

VARIABLES inp, out, act
vars == <<inp, out, act>>

MT == "meta.trace_id"
MS == "meta.signal_type"
Fields == {T1, T2, P1, P2, MT, MS}
IdTypings == {"absent", "str", "empty", "nonstr"}
SigTypings == {"absent", "log", "trace", "empty", "nonstr"}
Typings == {ty \in [Fields -> IdTypings \cup SigTypings] :
              /\ ty[MS] \in STypings
              /\ \A f \in {T1, T2, MT} : ty[f] \in IdTypings
              /\ \A f \in {P1, P2} : ty[f] \in PTypings}

\* payload layouts offered to the cfg files -------------------------------
PermSeqs(S) == {s \in [1..Cardinality(S) -> S] : \A i, j \in 1..Cardinality(S) : i # j => s[i] # s[j]}
\* every relative order of the three fields that decide the trace ID, with the
\* others before / between / after them, and each of those reversed
OrdersQuick == {<<P1, s[1], MS, s[2], P2, s[3]>> : s \in PermSeqs({T1, T2, MT})}
OrdersMid == OrdersQuick \cup {<<s[1], P2, s[2], s[3], MS, P1>> : s \in PermSeqs({T1, T2, MT})}
OrdersBig == OrdersMid \cup
             UNION {{<<s[1], s[2], s[3], MS, P1, P2>>, <<P2, MS, P1, s[1], s[2], s[3]>>} : s \in PermSeqs({T1, T2, MT})}
TraceOrdersQuick == {<<T1, T2>>, <<T2, T1>>}
TraceOrdersBig == {<<T1, T2>>, <<T2, T1>>, <<T2>>}
ParentOrdersQuick == {<<P1, P2>>}
ParentOrdersBig == {<<P1, P2>>, <<P2, P1>>, <<P2>>}
ParentOrdersTwo == {<<P1, P2>>, <<P2, P1>>}
MapOrderDef == <<T1, T2, P1, P2, MT, MS>>
KeySetsQuick == {{}, {T1, P1}}
KeySetsBig == {{}, {T1}, {P1}, {T1, P1}, {T2, P2, MS}}
KeySetsNone == {{}}
KeySetsOnly == KeySetsBig \ {{}}

\* -------------------------------------------------------------------------
Build(o, ty) == LET keep == SelectSeq(o, LAMBDA f : ty[f] # "absent")
                IN  [i \in 1..Len(keep) |-> [n |-> keep[i], ty |-> ty[keep[i]]]]

InSeq(s, x) == \E i \in 1..Len(s) : s[i] = x
IsStr(e) == e.ty \in {"str", "empty", "log", "trace"}
NonEmpty(e) == e.ty \in {"str", "log", "trace"}
ValOf(e) == CASE e.ty = "str" -> "id-" \o e.n
              [] e.ty = "log" -> "log"
              [] e.ty = "trace" -> "trace"
              [] OTHER -> ""
Has(ev, name) == \E i \in 1..Len(ev) : ev[i].n = name
Elem(ev, name) == ev[CHOOSE i \in 1..Len(ev) : ev[i].n = name]
HoldsNonEmptyStr(ev, name) == Has(ev, name) /\ NonEmpty(Elem(ev, name))
Min(S) == CHOOSE x \in S : \A y \in S : x <= y

\* ---- the C21 statement ---------------------------------------------------
IdealTid(i) ==
  IF HoldsNonEmptyStr(i.ev, MT) THEN ValOf(Elem(i.ev, MT))
  ELSE LET c == {k \in 1..Len(i.tn) : HoldsNonEmptyStr(i.ev, i.tn[k])}
       IN  IF c = {} THEN "" ELSE ValOf(Elem(i.ev, i.tn[Min(c)]))

NoParent(i) == ~ \E k \in 1..Len(i.pn) : HoldsNonEmptyStr(i.ev, i.pn[k])
NotLog(i) == ~ (Has(i.ev, MS) /\ Elem(i.ev, MS).ty = "log")

\* what the collector is handed: the trace ID ("" = not part of a trace, the
\* event is forwarded unsampled and its root flag is never looked at)
Res(i, tid) == [tid |-> tid,
                root |-> IF tid = "" THEN "n/a" ELSE IF NoParent(i) /\ NotLog(i) THEN "yes" ELSE "no"]
Ideal(i) == Res(i, IdealTid(i))

\* ---- what the unchanged code does (payload.go) ---------------------------
\* one pass over the fields in the order met; erase = a string meta.trace_id
\* overwrites the ID found so far even when it is ""
RECURSIVE ScanTid(_, _, _, _)
ScanTid(s, tn, tid, erase) ==
  IF s = <<>> THEN tid
  ELSE LET e == Head(s)
           t2 == IF e.n = MT /\ IsStr(e)
                   THEN (IF erase \/ NonEmpty(e) THEN ValOf(e) ELSE tid)
                 ELSE IF InSeq(tn, e.n) /\ IsStr(e) /\ tid = ""
                   THEN ValOf(e)
                 ELSE tid
       IN  ScanTid(Tail(s), tn, t2, erase)

\* only the fields that take part in the scan matter for its outcome
Relevant(i) == SelectSeq(i.ev, LAMBDA e : e.n = MT \/ InSeq(i.tn, e.n))
PermsOf(r) == {[k \in 1..Len(r) |-> r[p[k]]] : p \in Permutations(1..Len(r))}
ScanOrders(i) == IF i.path \in MapPaths THEN PermsOf(Relevant(i)) ELSE {Relevant(i)}
CodeTids(i, erase) == {ScanTid(s, i.tn, "", erase) : s \in ScanOrders(i)}

\* -------------------------------------------------------------------------
NotDone == [done |-> FALSE, resSet |-> {}]

Init == /\ \E p \in SeqPaths \cup MapPaths, t \in TraceOrders, q \in ParentOrders, ty \in Typings :
             \E o \in (IF p \in MapPaths THEN {MapOrder} ELSE Orders),
                k \in (IF p \in KeyPaths THEN KeySets ELSE {{}}) :
                inp = [path |-> p, tn |-> t, pn |-> q, kf |-> k, ev |-> Build(o, ty)]
        /\ out = NotDone
        /\ act = [name |-> "Init"]

\* construct the payload through inp.path and extract its metadata
Eval == /\ ~out.done
        /\ out' = [done |-> TRUE, resSet |-> {Ideal(inp)}]
        /\ inp' = inp
        /\ act' = [name |-> "Eval"]

\* the same call on the unchanged code (known findings, see known_findings.json)
EvalDev == /\ Faithful
           /\ ~out.done
           /\ \E S \in (SUBSET CodeTids(inp, TRUE)) \ {{}} :
                /\ S # {IdealTid(inp)}
                /\ out' = [done |-> TRUE, resSet |-> {Res(inp, t) : t \in S}]
                /\ act' = [name |-> "Eval",
                           dev |-> IF S \subseteq CodeTids(inp, FALSE) THEN "traceid-field-order" ELSE "empty-meta-traceid"]
           /\ inp' = inp

Next == Eval \/ EvalDev
Spec == Init /\ [][Next]_vars

TypeOK == /\ inp.path \in SeqPaths \cup MapPaths
          /\ inp.tn \in TraceOrders /\ inp.pn \in ParentOrders
          /\ inp.kf \in KeySets \cup {{}}
          /\ out.done \in BOOLEAN
          /\ \A r \in out.resSet : r.root \in {"n/a", "yes", "no"}

IdealStep == act.name = "Eval" /\ "dev" \notin DOMAIN act
TheRes == CHOOSE r \in out.resSet : TRUE

\* C21: one answer; belongs to a trace exactly when meta.trace_id or a configured field holds a non-empty string
C21Belongs ==
  IdealStep => /\ Cardinality(out.resSet) = 1
               /\ (TheRes.tid # "") <=> (HoldsNonEmptyStr(inp.ev, MT) \/ \E k \in 1..Len(inp.tn) : HoldsNonEmptyStr(inp.ev, inp.tn[k]))

\* C21: meta.trace_id first, then configured order; nothing else can supply the ID
C21ConfiguredOrder ==
  IdealStep =>
    /\ HoldsNonEmptyStr(inp.ev, MT) => TheRes.tid = "id-" \o MT
    /\ ~HoldsNonEmptyStr(inp.ev, MT) =>
         \A k \in 1..Len(inp.tn) :
           (HoldsNonEmptyStr(inp.ev, inp.tn[k]) /\ \A j \in 1..(k-1) : ~HoldsNonEmptyStr(inp.ev, inp.tn[j]))
             => TheRes.tid = "id-" \o inp.tn[k]

\* C21: root exactly when in a trace, no non-empty parent, not a log record
C21Root ==
  IdealStep =>
    (TheRes.root = "yes") <=> /\ TheRes.tid # ""
                              /\ ~ \E k \in 1..Len(inp.pn) : HoldsNonEmptyStr(inp.ev, inp.pn[k])
                              /\ ~ (Has(inp.ev, MS) /\ Elem(inp.ev, MS).ty = "log")

\* C21: independent of field order and encoding: any two evaluated inputs with the
\* same configuration and the same typed fields have the same ideal answer
\* (stated on the function, checked for every input against every layout)
C21OrderIndependent ==
  IdealStep =>
    \A o \in Orders :
       LET ty == [f \in Fields |-> IF Has(inp.ev, f) THEN Elem(inp.ev, f).ty ELSE "absent"]
       IN  Ideal([inp EXCEPT !.ev = Build(o, ty)]) = TheRes

\* C21: "for any configuration": the sampler's key fields play no part
C21SamplerIndependent ==
  IdealStep => \A k \in KeySets : Ideal([inp EXCEPT !.kf = k]) = TheRes

\* with Faithful = FALSE nothing but the ideal answer is in the graph
OnlyIdeal == (~Faithful /\ out.done) => out.resSet = {Ideal(inp)}

St == [inp |-> inp, out |-> out]
Abs == [out |-> out]
Dump == PrintT(ToJson([fs |-> St, fa |-> act.name, act |-> act', ts |-> St', fabs |-> Abs, tabs |-> Abs']))
View == <<inp, out>>
=============================================================================
