SPECIFICATION FairSpec
CONSTANTS
  Addr <- AddrRestart
  Gaps <- GapsRestart
  T = 10
  D = 1
  MaxEvents = 4
  MaxFails = 0
  Extra = "none"
  Backoff = FALSE
  Closed = TRUE
  ObserveCb = TRUE
  TrackQuiet = FALSE
  UnitMs = 1000
  Boot <- NoNodes
  CrashSet <- AllNodes
  StopSet <- AllNodes
  Sync = FALSE
  TrackAge = FALSE
INVARIANTS TypeOK
PROPERTIES EventuallyAgreed HashCatchesUp
