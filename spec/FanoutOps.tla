----------------------------- MODULE FanoutOps -----------------------------
(***************************************************************************)
(* Pure operators shared by Fanout.tla (the sequential meaning of the      *)
(* generics/fanout.go helpers, bound to the code) and FanoutConc.tla (the  *)
(* goroutine/channel algorithm, checked against that meaning).             *)
(***************************************************************************)
EXTENDS Integers, Sequences, FiniteSets, TLC

\* the worker function and the predicate the harness installs
F(x) == x * 10
Pred(u) == (u \div 10) % 2 = 1          \* keeps the products of odd inputs

Range(q) == {q[i] : i \in DOMAIN q}
Min2(a, b) == IF a < b THEN a ELSE b
Max2(a, b) == IF a > b THEN a ELSE b
Pair(x) == ToString(x) \o "->" \o ToString(F(x))

\* products of all inputs, in input order (callers may only rely on it as a multiset)
Products(in) == [i \in DOMAIN in |-> F(in[i])]
Keep(u, usePred) == ~usePred \/ Pred(u)
\* what Fanout / EasyFanout return, as a multiset written in input order
OutSeq(in, usePred) == SelectSeq(Products(in), LAMBDA u : Keep(u, usePred))
\* what FanoutToMap / EasyFanoutToMap / FanoutChunksToMap return: input -> product
OutPairs(in, usePred) == {Pair(x) : x \in {y \in Range(in) : Keep(F(y), usePred)}}

\* number of chunks of size cs that cover n inputs
NChunks(n, cs) == (n + cs - 1) \div cs
\* "The actual number of workers will be the minimum of the maximum parallelism factor and the
\* number of chunks in the input" (doc comment of FanoutChunksToMap)
ChunkWorkersDoc(n, cs, maxPar) == Min2(maxPar, NChunks(n, cs))
\* what the code computes: min(maxParallelism, max(len(input)/chunkSize, 1)) - integer division
\* rounds DOWN, so a trailing partial chunk is not counted
ChunkWorkersCode(n, cs, maxPar) == Min2(maxPar, Max2(n \div cs, 1))
=============================================================================
