"""CX2 coverage extension: trace buffer, kept-reason interning, generic Set and Fanout helpers."""

PROP = dict(
    level="model_checking",
    technique="TLA+ specs TraceBuffer.tla, KeptReasons.tla (more to come) model-checked by TLC; every generated transition replayed into the real objects",
    design_ref="pending_fixes/CX2-design.md",
    level_text="(under construction)",
    level_note="(under construction)",
    assumptions=[],
    stages=[
        dict(kind="walk", name="TraceBuffer", module="TraceBuffer", pkg="collect/cache", test="TestVerifCX2Buffer",
             harness=["collect/cache/cx2_buffer_test.go", "collect/cache/cx2_reasons_test.go"],
             cfg={"quick": "MC_TraceBuffer_q.cfg", "thorough": "MC_TraceBuffer_big.cfg"}, budget={"quick": 20, "thorough": 90}),
        dict(kind="walk", name="KeptReasons", module="KeptReasons", pkg="collect/cache", test="TestVerifCX2Reasons",
             harness=["collect/cache/cx2_buffer_test.go", "collect/cache/cx2_reasons_test.go"],
             cfg={"quick": "MC_KeptReasons.cfg", "thorough": "MC_KeptReasons_big.cfg"}, budget={"quick": 10, "thorough": 30}),
    ],
)
