"""C06 Forwarded spans are decorated as configured, including after reload."""

PROP = dict(
    level="model_checking",
    technique="TLA+ spec Collector.tla model-checked by TLC (exhaustive, small bounds); every generated transition replayed into a real InMemCollector under a fake clock with hook-event barriers (transition tour)",
    design_ref="DESIGN.md section 5 C06, Appendix A",
    level_text="The model's forwarded record carries reason, send reason, host flag, additional attributes and root span/event/link counts as a function of the configuration in force when the span is forwarded; TLC enumerates spans/span events/links, on-time and late roots and every single option toggle (AddRuleReasonToTrace, AddCountsToRoot, AddSpanCountToRoot, AdditionalAttributes, AddHostMetadataToTrace) between any two steps, and each transition is replayed on the real collector comparing all of those fields.",
    level_note="Bounded (1-2 workers, 1-3 traces, <=3 spans, horizon of a few SendTicker ticks; one model tick = one SendTicker period). Worker steps are atomic in the transition-tour binding (hook-event barrier after each step; sender drained), so only sequential schedules are forced here; really concurrent schedules are covered by the recorded-trace stage where present. Decision memory is sized so nothing is evicted (eviction is C31's subject). Sampler = real DeterministicSampler with trace IDs chosen by hash to realise the model's verdicts. Trusted: clockwork fake clock, the harness's recording Transmission, the guarded hooks (collect/verif_on.go).",
    assumptions=["stable membership, no stress toggling while buffered (as the property states)", "decision memory large enough that nothing is evicted", "bounded model: see level_note"],
    stages=[dict(kind="walk", name="decor", module="MCCollectorDecor", pkg="collect", test="TestVerifCollector", harness=["collect/collector_test.go"], cfg={"quick": "MC_Collector_decor_q.cfg", "thorough": "MC_Collector_decor.cfg"}, budget={"quick": 45, "thorough": 600}, maxwalk=40),
            dict(kind="walk", name="decor-eject", module="MCCollectorDecorEject", pkg="collect", test="TestVerifCollector", harness=["collect/collector_test.go"], cfg={"quick": "MC_Collector_decoreject_q.cfg", "thorough": "MC_Collector_decoreject.cfg"}, budget={"quick": 30, "thorough": 300}, maxwalk=40)],
)
