SPECIFICATION Spec
CONSTANTS
  Elems = {1, 2}
  ArgSets = {{}, {1}, {1, 2}}
INVARIANTS TypeOK Laws
PROPERTIES OperandsUntouched Membership
ACTION_CONSTRAINT Dump
VIEW View
