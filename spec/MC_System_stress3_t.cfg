SPECIFICATION Spec
CONSTANTS
  Nodes <- mc_Nodes2
  Traces <- mc_TracesS2
  Owner <- mc_OwnerS2
  Keep <- mc_KeepS2
  SamplerRate = 2
  CRates = {3}
  Shapes = {"root-json"}
  MaxSpans = 3
  StressNodes = {"b"}
  SKeep <- mc_SKeepS2
  StressRate = 5
  WithPlain = FALSE
  Epochs = TRUE
  Compress = TRUE
INVARIANTS TypeOK AtMostOnce InOnePlace VerdictRespected StressVerdict JustifiedAtNode ExactlyOnceAtRest AccountedAtRest RatesCompose OnlyOwnerCollects DecidedOnce HnyIntact PeerIntact OneHop NoSelfForward ArrivesAtOwner
PROPERTIES Remembered HnyGrows
ACTION_CONSTRAINT Dump
VIEW View
CHECK_DEADLOCK FALSE
