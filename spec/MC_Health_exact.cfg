SPECIFICATION Spec
CONSTANTS
  Subs1 = {"a"}
  Timeouts1 = {3, 5}
  Subs2 = {"b"}
  Timeouts2 = {5}
  Tick = 2
  UnitMs = 250
  Exact = TRUE
INVARIANTS TypeOK C30Alive C30Ready CodeMatchesGhosts CodeWithinStatement
PROPERTY DeadUntilReport
ACTION_CONSTRAINT Dump
VIEW View
