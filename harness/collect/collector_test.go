//go:build verif

package collect

import (
	"context"
	"fmt"
	"os"
	"sort"
	"sync"
	"testing"
	"time"

	"github.com/jonboulle/clockwork"
	"go.opentelemetry.io/otel/trace/noop"

	"github.com/honeycombio/refinery/config"
	"github.com/honeycombio/refinery/internal/health"
	"github.com/honeycombio/refinery/internal/peer"
	"github.com/honeycombio/refinery/internal/verifkit"
	"github.com/honeycombio/refinery/logger"
	"github.com/honeycombio/refinery/metrics"
	"github.com/honeycombio/refinery/pubsub"
	"github.com/honeycombio/refinery/sample"
	"github.com/honeycombio/refinery/sharder"
	"github.com/honeycombio/refinery/types"
)

// ---------------------------------------------------------------------------
// Binding of spec/Collector.tla to a real InMemCollector (properties C01-C07).
//
// Every model step is followed by barriers (hook-event counters, never
// sleeps): spans processed, ticks taken by every worker, sender drained,
// reload propagated. The projection is then read with the workers parked on
// their pause channel.
// ---------------------------------------------------------------------------

const c01Timeout = 20 * time.Second

// c01Events counts hook events and lets the harness wait for them.
type c01Events struct {
	mu     sync.Mutex
	cond   *sync.Cond
	counts map[string]int
	ndec   map[string]int // per real trace id
	ndrop  map[string]int
	log    func(event string, kv []any)
}

func newC01Events() *c01Events {
	e := &c01Events{counts: map[string]int{}, ndec: map[string]int{}, ndrop: map[string]int{}}
	e.cond = sync.NewCond(&e.mu)
	return e
}

func c01kv(kv []any, key string) any {
	for i := 0; i+1 < len(kv); i += 2 {
		if kv[i] == key {
			return kv[i+1]
		}
	}
	return nil
}

func (e *c01Events) emit(event string, kv ...any) {
	e.mu.Lock()
	e.counts[event]++
	switch event {
	case "tick", "worker_reloaded", "ejected":
		e.counts[fmt.Sprintf("%s/%v", event, c01kv(kv, "w"))]++
	case "decision":
		e.ndec[c01kv(kv, "t").(string)]++
	case "trace_dropped":
		e.ndrop[c01kv(kv, "t").(string)] += int(c01kv(kv, "n").(int64))
	case "late":
		if !c01kv(kv, "kept").(bool) && !c01kv(kv, "dry_run").(bool) {
			e.ndrop[c01kv(kv, "t").(string)]++
		}
	case "stress_decision":
		// the drop itself is observed below through "stress_dropped" (not hooked): see StressSpan
	}
	if e.log != nil {
		e.log(event, kv)
	}
	e.cond.Broadcast()
	e.mu.Unlock()
}

func (e *c01Events) get(k string) int {
	e.mu.Lock()
	defer e.mu.Unlock()
	return e.counts[k]
}

// waitForUpTo waits for pred at most d and reports whether it held (an observation aid, never a verdict).
func (e *c01Events) waitForUpTo(d time.Duration, pred func() bool) bool {
	deadline := time.Now().Add(d)
	timer := time.AfterFunc(d, func() { e.mu.Lock(); e.cond.Broadcast(); e.mu.Unlock() })
	defer timer.Stop()
	e.mu.Lock()
	defer e.mu.Unlock()
	for !pred() {
		if time.Now().After(deadline) {
			return false
		}
		e.cond.Wait()
	}
	return true
}

// waitFor blocks until pred holds (checked under the mutex) or the deadline passes.
func (e *c01Events) waitFor(what string, pred func() bool) error {
	deadline := time.Now().Add(c01Timeout)
	timer := time.AfterFunc(c01Timeout, func() { e.mu.Lock(); e.cond.Broadcast(); e.mu.Unlock() })
	defer timer.Stop()
	e.mu.Lock()
	defer e.mu.Unlock()
	for !pred() {
		if time.Now().After(deadline) {
			return fmt.Errorf("barrier timeout waiting for %s (counts %v)", what, e.counts)
		}
		e.cond.Wait()
	}
	return nil
}

// c01Tx records what the collector hands to the upstream transmission.
type c01Tx struct {
	mu    sync.Mutex
	h     *c01Harness
	recs  []map[string]any
	seen  map[string]int
	onFwd func(rec map[string]any)
}

func (x *c01Tx) EnqueueEvent(ev *types.Event) {}
func (x *c01Tx) RegisterMetrics()             {}
func (x *c01Tx) EnqueueSpan(sp *types.Span) {
	rec := x.h.describe(sp)
	x.mu.Lock()
	key := fmt.Sprintf("%v/%v", rec["t"], rec["id"])
	x.seen[key]++
	rec["k"] = x.seen[key]
	x.recs = append(x.recs, rec)
	cb := x.onFwd
	x.mu.Unlock()
	if cb != nil {
		cb(rec)
	}
}

type c01Stress struct {
	mu   sync.Mutex
	keep bool
	rate uint
}

func (m *c01Stress) Start() error      { return nil }
func (m *c01Stress) UpdateFromConfig() {}
func (m *c01Stress) Recalc() uint      { return 0 }
func (m *c01Stress) Stressed() bool    { return false }
func (m *c01Stress) GetSampleRate(traceID string) (uint, bool, string) {
	m.mu.Lock()
	defer m.mu.Unlock()
	return m.rate, m.keep, "stress_relief"
}

type c01Harness struct {
	conf        *config.MockConfig
	clock       *clockwork.FakeClock
	t0          time.Time
	tick        time.Duration
	coll        *InMemCollector
	tx          *c01Tx
	ev          *c01Events
	stress      *c01Stress
	sf          *sample.SamplerFactory
	hr          *health.Health
	ids         map[string]string // model trace -> real trace id
	rev         map[string]string
	traces      []string
	nwork       int
	rates       []int // sampler rate per epoch (1-based index-1)
	epoch       int
	added       int
	ticks       int
	reloads     int
	ejects      map[int]int
	stressDrops map[string]int
	unit        int // data size of one span
	stop        func()
	inj         *c01Injector
}

// c01Config works around config.MockConfig.GetAddCountsToRoot returning the
// AddSpanCountToRoot field (a defect of the test mock, not of production code).
type c01Config struct {
	*config.MockConfig
	inj *c01Injector
}

func (c c01Config) GetAddCountsToRoot() bool {
	c.Mux.RLock()
	defer c.Mux.RUnlock()
	return c.AddCountsToRoot
}

// c01Injector lets the harness deliver a second configuration change at the
// moment the collector reads its configuration while processing a reload
// (the getters below are the ones reloadConfigs and the workers' reload
// branch call).
type c01Injector struct {
	mu    sync.Mutex
	armed func()
}

func (j *c01Injector) fire() {
	if j == nil {
		return
	}
	j.mu.Lock()
	f := j.armed
	j.armed = nil
	j.mu.Unlock()
	if f != nil {
		f()
	}
}

// the change arrives right AFTER the collector has read the old value
func (c c01Config) GetAddHostMetadataToTrace() bool {
	v := c.MockConfig.GetAddHostMetadataToTrace()
	c.inj.fire()
	return v
}

func (c c01Config) GetSampleCacheConfig() config.SampleCacheConfig {
	v := c.MockConfig.GetSampleCacheConfig()
	c.inj.fire()
	return v
}

// c01SpanID extracts the harness's span id from a hook event that carries the span.
func c01SpanID(kv []any) int {
	sp, _ := c01kv(kv, "span").(*types.Span)
	if sp == nil {
		return -1
	}
	switch v := sp.Data.Get("sid").(type) {
	case int:
		return v
	case int64:
		return int(v)
	case float64:
		return int(v)
	}
	return -1
}

func c01Map(v any) map[string]any { m, _ := v.(map[string]any); return m }

// describe projects a forwarded span into the record shape of Collector!Merged.
func (h *c01Harness) describe(sp *types.Span) map[string]any {
	geti := func(k string) int {
		switch v := sp.Data.Get(k).(type) {
		case int64:
			return int(v)
		case int:
			return v
		case uint:
			return int(v)
		case float64:
			return int(v)
		}
		return 0
	}
	getc := geti // an absent count and a zero count are not distinguished
	gets := func(k string) string { s, _ := sp.Data.Get(k).(string); return s }
	dry := ""
	if sp.Data.Exists(config.DryRunFieldName) {
		if b, _ := sp.Data.Get(config.DryRunFieldName).(bool); b {
			dry = "true"
		} else {
			dry = "false"
		}
	}
	stressed, _ := sp.Data.Get(types.MetaStressed).(bool)
	attrs := ""
	if v := gets("env"); v != "" {
		attrs = "env=" + v
	}
	rate := int(sp.SampleRate)
	if rate < 1 {
		rate = 1 // absent and zero are equivalent
	}
	orig := geti(types.MetaRefineryOriginalSampleRate)
	if c01Relayed && geti("crate_sent") == 0 && orig == c01RelayedOrig {
		orig = 0 // no client rate to record: the client's own body field is still there, Refinery recorded nothing
	}
	return map[string]any{
		"t": h.rev[sp.TraceID], "id": geti("sid"), "crate": geti("crate_sent"),
		"rate": rate, "final": geti(types.MetaRefineryFinalSampleRate), "orig": orig,
		"dry": dry, "dryrate": geti("meta.dryrun.sample_rate"),
		"reason": gets(types.MetaRefineryReason), "sreason": gets(types.MetaRefinerySendReason),
		"stressed": stressed, "attrs": attrs, "host": sp.Data.Exists(types.MetaRefineryLocalHostname),
		"cnt": map[string]any{"sc": getc(types.MetaSpanCount), "ec": getc(types.MetaSpanEventCount), "lc": getc(types.MetaSpanLinkCount), "tc": getc(types.MetaEventCount)},
	}
}

func (h *c01Harness) applyCfg(c map[string]any) {
	h.conf.Mux.Lock()
	h.conf.DryRun = verifkit.Bool(c, "dryRun")
	h.conf.AddRuleReasonToTrace = verifkit.Bool(c, "addReason")
	h.conf.AddCountsToRoot = verifkit.Bool(c, "addCounts")
	h.conf.AddSpanCountToRoot = verifkit.Bool(c, "addSpanCount")
	h.conf.AddHostMetadataToTrace = verifkit.Bool(c, "addHost")
	if a := verifkit.Str(c, "attrs"); a != "" {
		h.conf.AdditionalAttributes = map[string]string{"env": a[len("env="):]}
	} else {
		h.conf.AdditionalAttributes = nil
	}
	h.conf.Mux.Unlock()
}

func (h *c01Harness) keepAt(id string, rate int) bool {
	d := &sample.DeterministicSampler{Config: &config.DeterministicSamplerConfig{SampleRate: rate}, Logger: &logger.NullLogger{}}
	d.Start()
	_, keep, _, _ := d.GetSampleRate(&types.Trace{TraceID: id})
	return keep
}

func (h *c01Harness) Reset(init map[string]any) error {
	if h.stop != nil {
		h.stop()
		h.stop = nil
	}
	p := c01Map(init["params"])
	tt, sd, sl, me := verifkit.Int(p, "tt"), verifkit.Int(p, "sd"), verifkit.Int(p, "sl"), verifkit.Int(p, "me")
	// one model tick: a minute of fake time, unless the built-in 60 s / 2 s
	// defaults are in play (then a second, so that they are whole ticks)
	h.tick = time.Minute
	if tt == 0 || sd == 0 {
		h.tick = time.Second
	}
	workerOf := c01Map(p["workerOf"])
	h.traces = h.traces[:0]
	h.nwork = 0
	for t, w := range workerOf {
		h.traces = append(h.traces, t)
		if int(w.(float64))+1 > h.nwork {
			h.nwork = int(w.(float64)) + 1
		}
	}
	sort.Strings(h.traces)
	verdicts := p["verdicts"].([]any)
	h.rates = nil
	for _, ve := range verdicts {
		for _, v := range c01Map(ve) {
			h.rates = append(h.rates, verifkit.Int(c01Map(v), "rate"))
			break
		}
	}
	h.epoch = verifkit.Int(init, "epoch")

	qcap := verifkit.Int(p, "qcap") // queue capacity per collector (Admission.tla); large otherwise
	if qcap == 0 {
		qcap = 1000
	}
	h.conf = &config.MockConfig{
		GetTracesConfigVal: config.TracesConfig{
			SendTicker:       config.Duration(h.tick),
			SendDelay:        config.Duration(time.Duration(sd) * h.tick),
			TraceTimeout:     config.Duration(time.Duration(tt) * h.tick),
			SpanLimit:        uint(sl),
			MaxExpiredTraces: uint(me),
			MaxBatchSize:     500,
		},
		SampleCache:        config.SampleCacheConfig{KeptSize: 10000, DroppedSize: 100000, SizeCheckInterval: config.Duration(time.Hour)},
		GetSamplerTypeVal:  &config.DeterministicSamplerConfig{SampleRate: h.rates[h.epoch-1]},
		TraceIdFieldNames:  []string{"trace.trace_id"},
		ParentIdFieldNames: []string{"trace.parent_id"},
		GetCollectionConfigVal: config.CollectionConfig{
			WorkerCount: h.nwork, ShutdownDelay: config.Duration(time.Millisecond),
			IncomingQueueSize: qcap, PeerQueueSize: qcap, HealthCheckTimeout: config.Duration(time.Hour * 100000),
		},
	}
	h.applyCfg(c01Map(init["cfg"]))
	h.clock = clockwork.NewFakeClock()
	h.t0 = h.clock.Now()
	h.ev = newC01Events()
	SetVerifHooks(&VerifHooks{Emit: h.ev.emit})
	h.tx = &c01Tx{h: h, seen: map[string]int{}}
	h.stress = &c01Stress{}
	met := &metrics.MockMetrics{}
	met.Start()
	h.hr = &health.Health{Clock: clockwork.NewFakeClock()} // its own clock: never ticks
	h.hr.Start()
	h.inj = &c01Injector{}
	cfgw := c01Config{h.conf, h.inj}
	lps := &pubsub.LocalPubSub{Config: cfgw, Metrics: met}
	lps.Start()
	h.sf = &sample.SamplerFactory{Config: cfgw, Metrics: met, Logger: &logger.NullLogger{}}
	if err := h.sf.Start(); err != nil {
		return err
	}
	h.coll = &InMemCollector{
		TestMode: true, Config: cfgw, Clock: h.clock, Logger: &logger.NullLogger{},
		Tracer: noop.NewTracerProvider().Tracer("verif"), Health: h.hr,
		Transmission: h.tx, PeerTransmission: &c01Tx{h: h, seen: map[string]int{}},
		PubSub: lps, Metrics: met, StressRelief: h.stress, SamplerFactory: h.sf,
		Peers:   peer.NewMockPeers([]string{"api1"}, "api1"),
		Sharder: &sharder.MockSharder{Self: &sharder.TestShard{Addr: "api1"}},
	}
	if err := h.coll.Start(); err != nil {
		return err
	}
	coll, sf, hr := h.coll, h.sf, h.hr
	h.stop = func() {
		coll.Stop()
		sf.Stop()
		hr.Stop()
		lps.Stop()
		SetVerifHooks(nil)
	}
	// every worker and the monitor have created their tickers
	ctx, cancel := context.WithTimeout(context.Background(), c01Timeout)
	defer cancel()
	if err := h.clock.BlockUntilContext(ctx, h.nwork+1); err != nil {
		return fmt.Errorf("tickers not created: %w", err)
	}
	// choose real trace ids: right worker, right verdict in every epoch
	h.ids, h.rev = map[string]string{}, map[string]string{}
	for _, t := range h.traces {
		want := int(workerOf[t].(float64))
		found := false
		for n := 0; n < 200000 && !found; n++ {
			id := fmt.Sprintf("%s-%06d", t, n)
			if h.coll.getWorkerIDForTrace(id) != want {
				continue
			}
			ok := true
			for e, ve := range verdicts {
				v := c01Map(c01Map(ve)[t])
				if h.keepAt(id, verifkit.Int(v, "rate")) != verifkit.Bool(v, "keep") {
					ok = false
					break
				}
				_ = e
			}
			if ok {
				h.ids[t], h.rev[id] = id, t
				found = true
			}
		}
		if !found {
			return fmt.Errorf("no trace id realises the verdicts for %s", t)
		}
	}
	h.added, h.ticks, h.reloads = 0, 0, 0
	h.ejects = map[int]int{}
	h.stressDrops = map[string]int{}
	h.unit = 0
	return nil
}

// VERIF_RELAYED=1: every span body carries pre-existing meta.refinery rate fields with values no rate of the model takes
var c01Relayed = os.Getenv("VERIF_RELAYED") != ""

const c01RelayedOrig, c01RelayedFinal = 13, 17

func (h *c01Harness) span(a map[string]any) *types.Span {
	data := map[string]any{"sid": verifkit.Int(a, "id"), "crate_sent": verifkit.Int(a, "crate"), "trace.trace_id": h.ids[verifkit.Str(a, "t")]}
	switch verifkit.Str(a, "kind") {
	case "event":
		data["meta.annotation_type"] = "span_event"
	case "link":
		data["meta.annotation_type"] = "link"
	}
	if !verifkit.Bool(a, "root") {
		data["trace.parent_id"] = "p"
	}
	if c01Relayed {
		// the client's BODY already carries Refinery's rate meta fields (a span relayed by an edge Refinery or
		// re-ingested from an export); the client-supplied rate is still the envelope's (C04)
		data[types.MetaRefineryOriginalSampleRate] = c01RelayedOrig
		data[types.MetaRefineryFinalSampleRate] = c01RelayedFinal
	}
	// every span has the same data size (the ejection model counts spans)
	probe := types.NewPayload(h.conf, data)
	const c01SpanSize = 400
	pad := c01SpanSize - probe.GetDataSize() - len("pad")
	if pad < 0 {
		panic("span larger than the fixed size")
	}
	data["pad"] = fmt.Sprintf("%*s", pad, "")
	pl := types.NewPayload(h.conf, data)
	pl.ExtractMetadata()
	return &types.Span{
		TraceID: h.ids[verifkit.Str(a, "t")],
		IsRoot:  verifkit.Bool(a, "root"),
		Event: &types.Event{Context: context.Background(), APIHost: "http://api", APIKey: "c9945edf5d245834089a1bd6cc9ad01e", Dataset: "ds",
			SampleRate: uint(verifkit.Int(a, "crate")), Data: pl},
	}
}

func (h *c01Harness) senderIdle() error {
	return h.ev.waitFor("sender idle", func() bool { return h.ev.counts["trace_queued"] == h.ev.counts["trace_sent"] })
}

func (h *c01Harness) Apply(a map[string]any) (err error) {
	switch verifkit.Str(a, "name") {
	case "Span":
		sp := h.span(a)
		if h.unit == 0 {
			h.unit = sp.GetDataSize()
		}
		if err := h.coll.AddSpan(sp); err != nil {
			return err
		}
		h.added++
		n := h.added
		return h.ev.waitFor("span processed", func() bool { return h.ev.counts["processed"] >= n })
	case "Tick":
		h.ticks++
		n := h.ticks
		h.clock.Advance(h.tick)
		if err := h.ev.waitFor("ticks", func() bool {
			for w := 0; w < h.nwork; w++ {
				if h.ev.counts[fmt.Sprintf("tick/%d", w)] < n {
					return false
				}
			}
			return true
		}); err != nil {
			return err
		}
		return h.senderIdle()
	case "Eject":
		w := verifkit.Int(a, "w")
		var wg sync.WaitGroup
		wg.Add(1)
		if h.unit == 0 {
			return fmt.Errorf("eject before any span")
		}
		h.coll.workers[w].sendEarly <- sendEarly{wg: &wg, bytesToSend: verifkit.Int(a, "share") * h.unit}
		wg.Wait()
		return h.senderIdle()
	case "ReloadRules":
		h.epoch++
		h.conf.Mux.Lock()
		h.conf.GetSamplerTypeVal = &config.DeterministicSamplerConfig{SampleRate: h.rates[h.epoch-1]}
		h.conf.Mux.Unlock()
		return h.reload()
	case "ReloadCfg":
		h.applyCfg(c01Map(a["cfg"]))
		return h.reload()
	case "ReloadCfgDuring":
		// first change; while the collector reads its configuration for that reload, the second change arrives
		h.applyCfg(c01Map(a["cfg1"]))
		fired := make(chan struct{})
		h.inj.mu.Lock()
		h.inj.armed = func() {
			h.applyCfg(c01Map(a["cfg2"]))
			h.conf.Reload()
			close(fired)
		}
		h.inj.mu.Unlock()
		base := h.ev.get("reloaded")
		h.conf.Reload()
		select {
		case <-fired:
		case <-time.After(c01Timeout):
			return fmt.Errorf("barrier timeout: the collector never read its configuration during the reload")
		}
		// both notifications must be processed; if the second one never is, go on after the deadline and let
		// the projection show which configuration is in force (that is the observation, not this wait)
		h.ev.waitForUpTo(5*time.Second, func() bool { return h.ev.counts["reloaded"] >= base+2 })
		for w := 0; w < h.nwork; w++ { // workers have taken their reload signals
			for {
				ch := make(chan struct{})
				h.coll.workers[w].pause <- ch
				empty := len(h.coll.workers[w].reload) == 0
				close(ch)
				if empty {
					break
				}
			}
		}
		return nil
	case "StressSpan":
		h.stress.mu.Lock()
		h.stress.keep, h.stress.rate = verifkit.Bool(a, "keep"), uint(verifkit.Int(a, "rate"))
		h.stress.mu.Unlock()
		sp := h.span(a)
		_, kept := h.coll.ProcessSpanImmediately(sp)
		if !kept {
			h.stressDrops[verifkit.Str(a, "t")]++
		}
		return nil
	}
	return fmt.Errorf("unknown action %v", a)
}

func (h *c01Harness) reload() error {
	h.ev.mu.Lock()
	base := h.ev.counts["reloaded"]
	wbase := make([]int, h.nwork)
	for w := 0; w < h.nwork; w++ {
		wbase[w] = h.ev.counts[fmt.Sprintf("worker_reloaded/%d", w)]
	}
	h.ev.mu.Unlock()
	h.conf.Reload()
	if err := h.ev.waitFor("reload", func() bool { return h.ev.counts["reloaded"] > base }); err != nil {
		return err
	}
	return h.ev.waitFor("worker reloads", func() bool {
		for w := 0; w < h.nwork; w++ {
			if h.ev.counts[fmt.Sprintf("worker_reloaded/%d", w)] <= wbase[w] {
				return false
			}
		}
		return true
	})
}

func (h *c01Harness) Project() (any, error) {
	now := int(h.clock.Now().Sub(h.t0) / h.tick)
	buf := map[string]any{}
	for _, t := range h.traces {
		id := h.ids[t]
		cl := h.coll.workers[h.coll.getWorkerIDForTrace(id)]
		ch := make(chan struct{})
		cl.pause <- ch // the worker is parked until ch is closed
		tr := cl.cache.Get(id)
		if tr == nil {
			buf[t] = map[string]any{"n": 0, "sendBy": -1, "root": false}
		} else {
			sb := tr.SendBy.Sub(h.t0)
			if sb%h.tick != 0 {
				close(ch)
				return nil, fmt.Errorf("SendBy of %s is not on a tick boundary: %v", t, sb)
			}
			buf[t] = map[string]any{"n": int(tr.DescendantCount()), "sendBy": int(sb / h.tick), "root": tr.RootSpan != nil}
		}
		close(ch)
	}
	h.tx.mu.Lock()
	fwd := make([]any, 0, len(h.tx.recs))
	for _, r := range h.tx.recs {
		c := map[string]any{}
		for k, v := range r {
			c[k] = v
		}
		if c["k"] == 1 {
			delete(c, "k") // the specification's records have no ordinal: a second forwarding (k=2) matches nothing
		}
		fwd = append(fwd, c)
	}
	h.tx.mu.Unlock()
	ndec, ndrop := map[string]int{}, map[string]int{}
	h.ev.mu.Lock()
	for _, t := range h.traces {
		ndec[t] = h.ev.ndec[h.ids[t]]
		ndrop[t] = h.ev.ndrop[h.ids[t]] + h.stressDrops[t]
	}
	h.ev.mu.Unlock()
	return map[string]any{"now": now, "buf": buf, "fwdSet": fwd, "ndec": ndec, "ndrop": ndrop, "hostOn": h.coll.localHostname() != ""}, nil
}

func TestVerifCollector(t *testing.T) {
	h := &c01Harness{}
	err := verifkit.Main(h)
	if h.stop != nil {
		h.stop()
	}
	if err != nil {
		t.Fatal(err)
	}
}
