SPECIFICATION Spec
CONSTANTS
  Classes = {"string", "hostport", "stringlist", "stringmap", "int", "duration", "memsize", "bool"}
  Uniform = FALSE
  Faithful = FALSE
INVARIANTS TypeOK LosersDoNotShow WinnerShows DefaultWhenUndefined SetVarsExpanded UnsetLeftAlone OtherKindsVerbatim ValidatedIsApplied DeviationsDiffer
PROPERTY InputsUntouched
CHECK_DEADLOCK FALSE
