------------------------ MODULE DeterministicIndProofs ------------------------
(* TLAPS proofs about DeterministicInd for ARBITRARY constants satisfying   *)
(* ConstOK: any hash space 0..H (H = 2^32-1, 2^64-1, ...), any set of       *)
(* naturals as rates, any sets of instances, tables and profiles.           *)
(*   tlapm --threads 16 DeterministicIndProofs.tla                          *)
EXTENDS DeterministicInd, FiniteSetTheorems, TLAPS

ASSUME Const == ConstOK

----------------------------------------------------------------------------
(* floor division *)
LEMMA DivDef == ASSUME NEW a \in Nat, NEW b \in Nat \ {0}
                PROVE  /\ a \div b \in Nat
                       /\ b * (a \div b) <= a
                       /\ a < b * (a \div b + 1)
                       /\ a \div b <= a
  OBVIOUS

LEMMA MulMono == ASSUME NEW a \in Nat, NEW b \in Nat, NEW c \in Nat, a <= b PROVE c * a <= c * b /\ a * c <= b * c
  BY Z3T(30)
LEMMA Dist == ASSUME NEW a \in Int, NEW b \in Int
              PROVE (a + 1) * b = b * (a + 1) /\ ((a + 1) - 1) * b = b * a /\ b * (a + 1) = b * a + b
  BY Z3T(30)

\* the nesting lemma of C10: a larger rate has a smaller threshold
LEMMA DivMono == ASSUME NEW a \in Nat, NEW M \in Nat \ {0}, NEW N \in Nat \ {0}, M <= N
                 PROVE  a \div N <= a \div M
<1> DEFINE x == a \div M
           y == a \div N
<1>1 x \in Nat /\ M * x <= a /\ a < M * (x + 1)  BY DivDef
<1>2 y \in Nat /\ N * y <= a /\ a < N * (y + 1)  BY DivDef
<1>3 SUFFICES ASSUME x + 1 <= y PROVE FALSE
  BY <1>1, <1>2
<1>4 M * (x + 1) <= M * y  BY <1>1, <1>2, <1>3, MulMono
<1>5 M * y <= N * y  BY <1>2, MulMono
<1> HIDE DEF x, y
<1>6 M * (x + 1) \in Int /\ M * y \in Int /\ N * y \in Int  BY <1>1, <1>2
<1> QED BY <1>1, <1>2, <1>4, <1>5, <1>6

LEMMA Div1 == ASSUME NEW a \in Nat PROVE a \div 1 = a
  OBVIOUS

----------------------------------------------------------------------------
THEOREM InitInd == Init => IndInv
  BY Const DEF Init, IndInv, ConstOK, Avail

THEOREM InitArithInd == InitArith /\ "none" \in Tables => IndInv
  BY Const DEF InitArith, IndInv, ConstOK

LEMMA StoredOK == ASSUME NEW N \in Rates PROVE Stored(N) \in Nat \ {0}
  BY Const DEF ConstOK, Stored

LEMMA StepIndNext == IndInv /\ Next => IndInv'
<1> SUFFICES ASSUME IndInv, Next PROVE IndInv'
  OBVIOUS
<1> H \in Nat  BY Const DEF ConstOK
<1>1 ASSUME NEW i \in Insts, NEW N \in Rates, NEW p \in Profiles, Configure(i, N, p) PROVE IndInv'
  <2>1 Stored(N) \in Nat \ {0} /\ H \div Stored(N) \in Int  BY StoredOK, DivDef
  <2>2 ASSUME NEW j \in Insts
       PROVE  \/ rate'[j] = -1 /\ bound'[j] = -1
              \/ /\ rate'[j] >= 1
                 /\ \E K \in Rates : rate'[j] = Stored(K)
                 /\ bound'[j] = H \div rate'[j]
    <3>1 CASE j = i  BY <1>1, <2>1, <3>1 DEF IndInv, Configure
    <3>2 CASE j # i  BY <1>1, <3>2 DEF IndInv, Configure
    <3> QED BY <3>1, <3>2
  <2>3 rate' \in [Insts -> Int] /\ bound' \in [Insts -> Int]  BY <1>1, <2>1 DEF IndInv, Configure
  <2> QED BY <1>1, <2>2, <2>3 DEF IndInv, Configure
<1>2 ASSUME NEW i \in Insts, NEW N \in Rates, NEW p \in Profiles, ConfigureRefused(i, N, p) PROVE IndInv'
  <2>1 \E K \in Rates : Stored(K) = 1  BY <1>2, Const DEF ConfigureRefused, ConstOK, Stored
  <2>2 H \div 1 = H  BY Div1
  <2>3 ASSUME NEW j \in Insts
       PROVE  \/ rate'[j] = -1 /\ bound'[j] = -1
              \/ /\ rate'[j] >= 1
                 /\ \E K \in Rates : rate'[j] = Stored(K)
                 /\ bound'[j] = H \div rate'[j]
    <3>1 CASE j = i /\ rate[i] = -1  BY <1>2, <2>1, <2>2, <3>1 DEF IndInv, ConfigureRefused
    <3>2 CASE j = i /\ rate[i] # -1  BY <1>2, <3>2 DEF IndInv, ConfigureRefused
    <3>3 CASE j # i  BY <1>2, <3>3 DEF IndInv, ConfigureRefused
    <3> QED BY <3>1, <3>2, <3>3
  <2>4 rate' \in [Insts -> Int] /\ bound' \in [Insts -> Int]  BY <1>2 DEF IndInv, ConfigureRefused
  <2> QED BY <1>2, <2>3, <2>4 DEF IndInv, ConfigureRefused
<1>3 ASSUME NEW i \in Insts, Decide(i) PROVE IndInv'
  BY <1>3 DEF IndInv, Decide
<1> QED BY <1>1, <1>2, <1>3 DEF Next

THEOREM StepInd == IndInv /\ [Next]_vars => IndInv'
<1>1 IndInv /\ UNCHANGED vars => IndInv'  BY DEF IndInv, vars
<1> QED BY <1>1, StepIndNext

\* SpecArith's step is a Configure step
THEOREM NextArithIsNext == NextArith => Next
  BY DEF NextArith, Next

----------------------------------------------------------------------------
LEMMA StartedFacts == ASSUME IndInv, NEW i \in Started
                      PROVE /\ i \in Insts /\ rate[i] \in Nat \ {0} /\ bound[i] = H \div rate[i]
                            /\ bound[i] \in Nat /\ bound[i] <= H
                            /\ \E K \in Rates : rate[i] = Stored(K)
<1>1 i \in Insts /\ rate[i] # -1  BY DEF Started
<1>2 rate[i] \in Int /\ rate[i] >= 1 /\ bound[i] = H \div rate[i] /\ \E K \in Rates : rate[i] = Stored(K)
  BY <1>1 DEF IndInv
<1>3 H \in Nat  BY Const DEF ConstOK
<1> QED BY <1>1, <1>2, <1>3, DivDef

THEOREM IndSafeBasic == IndInv => SafetyBasic
<1> SUFFICES ASSUME IndInv PROVE SafetyBasic
  OBVIOUS
<1> H \in Nat  BY Const DEF ConstOK
<1>1 TypeOK
  <2>1 table \in Tables /\ h \in 0..H  BY DEF IndInv
  <2>2 rate \in [Insts -> {-1} \cup {Stored(N) : N \in Rates}]  BY DEF IndInv
  <2>3 ASSUME NEW i \in Insts PROVE bound[i] \in -1..H
    <3>1 CASE rate[i] = -1  BY <3>1 DEF IndInv
    <3>2 CASE rate[i] # -1  BY <3>2, StartedFacts DEF Started
    <3> QED BY <3>1, <3>2
  <2>4 bound \in [Insts -> -1..H]  BY <2>3 DEF IndInv
  <2> QED BY <2>1, <2>2, <2>4 DEF TypeOK
<1>2 BoundIsThreshold  BY StartedFacts DEF BoundIsThreshold
<1>3 KeepIsThreshold  BY StartedFacts DEF KeepIsThreshold, Answer, Keep
<1>4 RateLE1KeepsAll  BY StartedFacts DEF RateLE1KeepsAll, Answer
<1>5 InstancesAgree  BY StartedFacts DEF InstancesAgree, Answer
<1> QED BY <1>1, <1>2, <1>3, <1>4, <1>5 DEF SafetyBasic

THEOREM IndSafeArith == IndInv => SafetyArith /\ ArithNested
<1> SUFFICES ASSUME IndInv PROVE SafetyArith /\ ArithNested
  OBVIOUS
<1> H \in Nat /\ h \in Nat /\ h <= H  BY Const DEF ConstOK, IndInv
<1>1 NestedAnswers
  <2> SUFFICES ASSUME NEW i \in Started, NEW j \in Started, rate[i] <= rate[j], Answer(j).keep
               PROVE  Answer(i).keep
    BY DEF NestedAnswers
  <2>1 H \div rate[j] <= H \div rate[i]  BY StartedFacts, DivMono
  <2>2 CASE rate[i] <= 1  BY <2>2, StartedFacts DEF Answer
  <2>3 CASE rate[i] > 1  BY <2>1, <2>3, StartedFacts DEF Answer
  <2> QED BY <2>2, <2>3, StartedFacts
<1>2 ArithNested
  <2> SUFFICES ASSUME NEW i \in Started, Answer(i).keep, NEW M \in 0..rate[i] PROVE Keep(h, M, H)
    BY DEF ArithNested
  <2>1 CASE M <= 1  BY <2>1 DEF Keep
  <2>2 CASE M > 1
    <3>1 rate[i] > 1 /\ h <= H \div rate[i]  BY <2>2, StartedFacts DEF Answer
    <3>2 H \div rate[i] <= H \div M  BY <2>2, StartedFacts, DivMono
    <3>3 H \div rate[i] \in Nat /\ H \div M \in Nat  BY <2>2, StartedFacts, DivDef
    <3> QED BY <3>1, <3>2, <3>3 DEF Keep
  <2> QED BY <2>1, <2>2
<1>3 ArithNestedUp
  <2> SUFFICES ASSUME NEW i \in Started, ~Answer(i).keep, NEW M \in {m \in Rates : m >= rate[i]}
               PROVE  ~Keep(h, M, H)
    BY DEF ArithNestedUp
  <2>1 rate[i] > 1 /\ ~(h <= H \div rate[i])  BY StartedFacts DEF Answer
  <2>2 M \in Nat \ {0} /\ M > 1  BY <2>1, StartedFacts, Const DEF ConstOK
  <2>3 H \div M <= H \div rate[i]  BY <2>2, StartedFacts, DivMono
  <2>4 H \div rate[i] \in Nat /\ H \div M \in Nat  BY <2>2, StartedFacts, DivDef
  <2> QED BY <2>1, <2>2, <2>3, <2>4 DEF Keep
<1>4 ArithFraction
  <2> SUFFICES ASSUME NEW i \in Started, rate[i] > 1
               PROVE  LET k == H \div rate[i] + 1 IN
                        /\ k * rate[i] > H + 1 - rate[i]
                        /\ (k - 1) * rate[i] <= H
    BY DEF ArithFraction
  <2> DEFINE r == rate[i]
             q == H \div r
  <2>1 r \in Nat \ {0}  BY StartedFacts
  <2>2 q \in Nat /\ r * q <= H /\ H < r * (q + 1)  BY <2>1, DivDef
  <2>3 (q + 1) * r = r * (q + 1) /\ ((q + 1) - 1) * r = r * q  BY <2>1, <2>2, Dist
  <2> HIDE DEF r, q
  <2>4 r * (q + 1) \in Int /\ r * q \in Int  BY <2>1, <2>2
  <2>5 (q + 1) * r > H + 1 - r /\ ((q + 1) - 1) * r <= H  BY <2>1, <2>2, <2>3, <2>4
  <2> QED BY <2>5 DEF r, q
<1> QED BY <1>1, <1>2, <1>3, <1>4 DEF SafetyArith

\* the kept part of the hash space has exactly H \div N + 1 values
THEOREM IndKeptCount == IndInv => ArithKeptCount
<1> SUFFICES ASSUME IndInv, NEW i \in Started
             PROVE  Cardinality({hh \in 0..H : Keep(hh, rate[i], H)}) =
                      IF rate[i] <= 1 THEN H + 1 ELSE H \div rate[i] + 1
  BY DEF ArithKeptCount
<1> H \in Nat  BY Const DEF ConstOK
<1>0 rate[i] \in Nat \ {0} /\ H \div rate[i] \in Nat /\ H \div rate[i] <= H  BY StartedFacts, DivDef
<1>1 CASE rate[i] <= 1
  <2>1 {hh \in 0..H : Keep(hh, rate[i], H)} = 0..H  BY <1>1 DEF Keep
  <2>2 Cardinality(0..H) = H + 1  BY FS_Interval
  <2> QED BY <1>1, <2>1, <2>2
<1>2 CASE rate[i] > 1
  <2> DEFINE q == H \div rate[i]
  <2>0 q \in Nat /\ q <= H  BY <1>0
  <2>1 {hh \in 0..H : Keep(hh, rate[i], H)} = 0..q  BY <1>0, <1>2 DEF Keep
  <2> HIDE DEF q
  <2>2 Cardinality(0..q) = q - 0 + 1  BY <2>0, FS_Interval
  <2>3 Cardinality(0..q) = q + 1  BY <2>0, <2>2
  <2>4 Cardinality({hh \in 0..H : Keep(hh, rate[i], H)}) = q + 1  BY <2>1, <2>3
  <2> QED BY <1>0, <1>2, <2>4 DEF q
<1> QED BY <1>0, <1>1, <1>2

----------------------------------------------------------------------------
THEOREM StepProps == IndInv /\ Next => AskingIsPureStep /\ ConfigureTakesEffectStep /\ ConfigureIsLocalStep
<1> SUFFICES ASSUME IndInv, Next PROVE AskingIsPureStep /\ ConfigureTakesEffectStep /\ ConfigureIsLocalStep
  OBVIOUS
<1> H \in Nat  BY Const DEF ConstOK
<1>1 AskingIsPureStep  BY DEF AskingIsPureStep, Decide, Answer
<1>2 ConfigureIsLocalStep
  BY DEF ConfigureIsLocalStep, Configure, ConfigureRefused, Answer, IndInv
<1>3 ConfigureTakesEffectStep
  <2> SUFFICES ASSUME NEW i \in Insts, NEW N \in Rates, NEW p \in Profiles,
                      Configure(i, N, p) \/ ConfigureRefused(i, N, p)
               PROVE  \/ Answer(i)' = (IF Stored(N) <= 1 THEN [rate |-> 1, keep |-> TRUE]
                                       ELSE [rate |-> Stored(N), keep |-> Keep(h, Stored(N), H)])
                      \/ /\ p \in Rejectable
                         /\ Answer(i)' = (IF rate[i] = -1 THEN [rate |-> 1, keep |-> TRUE] ELSE Answer(i))
    BY DEF ConfigureTakesEffectStep
  <2>1 CASE Configure(i, N, p)
    <3>1 Stored(N) \in Nat \ {0}  BY StoredOK
    <3>2 rate'[i] = Stored(N) /\ bound'[i] = H \div Stored(N) /\ h' = h  BY <2>1 DEF Configure, IndInv
    <3> QED BY <3>1, <3>2 DEF Answer, Keep
  <2>2 CASE ConfigureRefused(i, N, p)
    <3>1 CASE rate[i] = -1
      <4>1 rate'[i] = 1 /\ h' = h  BY <2>2, <3>1 DEF ConfigureRefused, IndInv
      <4> QED BY <2>2, <3>1, <4>1 DEF ConfigureRefused, Answer
    <3>2 CASE rate[i] # -1
      <4>1 rate'[i] = rate[i] /\ bound'[i] = bound[i] /\ h' = h  BY <2>2, <3>2 DEF ConfigureRefused, IndInv
      <4> QED BY <2>2, <3>2, <4>1 DEF ConfigureRefused, Answer
    <3> QED BY <3>1, <3>2
  <2> QED BY <2>1, <2>2
<1> QED BY <1>1, <1>2, <1>3

THEOREM Unbounded == Spec => [](SafetyBasic /\ SafetyArith /\ ArithNested /\ ArithKeptCount)
<1>1 Init => IndInv  BY InitInd
<1>2 IndInv /\ [Next]_vars => IndInv'  BY StepInd
<1>3 IndInv => SafetyBasic /\ SafetyArith /\ ArithNested /\ ArithKeptCount  BY IndSafeBasic, IndSafeArith, IndKeptCount
<1> QED BY <1>1, <1>2, <1>3, PTL DEF Spec
=============================================================================
