SPECIFICATION Spec
CONSTANTS
  Mode = "pure"
  Shapes <- ShapesAll
  Names = {"prod", "web"}
  Prefixes = {"", "cls"}
  RuleSets <- RuleSetsSome
  DefaultKinds = {"det", "dyn"}
  Encs = {"msgpack"}
  WithReload = FALSE
  UpperHexIsClassic = FALSE
INVARIANTS TypeOK EnvKeyUsesEnvironment ClassicKeyUsesDataset DocumentedShapes NeverWithoutSampler PrefixSeparates ExtractedIsWhatDeciderReads DecisionOfOneTarget
PROPERTY DecisionFollowsRules
ACTION_CONSTRAINT Dump
VIEW View
CHECK_DEADLOCK FALSE
