---------------------------- MODULE TracePubSub ----------------------------
(***************************************************************************)
(* Trace validation (binding B2) for the step model of PubSub.tla          *)
(* (Step = TRUE): a Go driver lets several goroutines Subscribe, Publish,  *)
(* Close subscriptions and Close the real LocalPubSub concurrently and     *)
(* logs what can be seen WITHOUT hooks inside the bus:                     *)
(*                                                                         *)
(*   reset                    a fresh, started LocalPubSub                 *)
(*   subcall  {s, t}          a goroutine is about to call Subscribe       *)
(*   subret   {s}             ... it has returned                          *)
(*   pubcall  {p, m, t}       goroutine p is about to Publish message m    *)
(*                            (ids are handed out in log order)            *)
(*   pubret   {p}             ... Publish has returned to p                *)
(*   closecall/closeret {s}   Subscription.Close of slot s                 *)
(*   stopcall/stopret         LocalPubSub.Close()                          *)
(*   cb       {m, s}          the callback of slot s was entered with m    *)
(*   end                      every goroutine has finished and nothing is  *)
(*                            left to run (synctest.Wait)                  *)
(*                                                                         *)
(* The critical sections - Subscribe, PubSnap, PubVisit, CloseSnap,        *)
(* CloseNil, the bus Close - are silent steps between the call and the     *)
(* return of their operation: TLC looks for an interleaving of the model's *)
(* steps that explains the log (a linearizability check against the step   *)
(* model).  A delivery nobody may get, a duplicate, or a delivery that     *)
(* must happen but is still missing at `end` leaves a line that cannot be  *)
(* consumed.  With Faithful = FALSE the model is the ideal (draining)      *)
(* design, in which no callback is entered after Close returned; with      *)
(* Faithful = TRUE it is LocalPubSub as written.                           *)
(***************************************************************************)
EXTENDS PubSub, SequencesExt

VARIABLES l,       \* number of trace lines consumed so far
          subfl,   \* per slot: "no" | "called" | "done"  (Subscribe in flight) and its topic
          clfl,    \* per slot: "no" | "called" | "done"  (Subscription.Close in flight)
          stfl     \* "no" | "called" | "done"            (bus Close in flight; one at a time)

Trace == ndJsonDeserialize("trace.ndjson")

tvars == <<vars, l, subfl, clfl, stfl>>
NoSub == [st |-> "no", t |-> "-"]

TInitRest == /\ subfl = [s \in Subs |-> NoSub]
             /\ clfl = [s \in Subs |-> "no"]
             /\ stfl = "no"

TraceInit == Init /\ l = 0 /\ TLCSet(1, 0) /\ TInitRest

Line == Trace[l + 1]
Consume == l < Len(Trace) /\ l' = l + 1
HWM == TLCSet(1, IF l > TLCGet(1) THEN l ELSE TLCGet(1))
IsEvent(e) == Consume /\ Line.event = e

(***************************************************************************)
(* logged events                                                           *)
(***************************************************************************)
TraceReset ==
  /\ IsEvent("reset")
  /\ listed' = [t \in Topics |-> <<>>] /\ cb' = [s \in Subs |-> FALSE] /\ stopic' = [s \in Subs |-> "-"]
  /\ nstops' = 0 /\ npub' = 0 /\ msgs' = <<>> /\ pending' = {} /\ got' = [s \in Subs |-> <<>>] /\ mRecv' = 0
  /\ ppc' = [p \in Pubs |-> "idle"] /\ pm' = [p \in Pubs |-> 0] /\ psnap' = [p \in Pubs |-> <<>>]
  /\ cpc' = [s \in Subs |-> "idle"]
  /\ closeCalled' = [s \in Subs |-> FALSE] /\ closeRet' = [s \in Subs |-> FALSE]
  /\ elig' = <<>> /\ must' = <<>> /\ forbid' = <<>> /\ retd' = {}
  /\ UNCHANGED cwvars
  /\ act' = [name |-> "Init"]
  /\ subfl' = [s \in Subs |-> NoSub] /\ clfl' = [s \in Subs |-> "no"] /\ stfl' = "no"

SubCall == /\ IsEvent("subcall") /\ subfl[Line.s].st = "no" /\ stopic[Line.s] = "-"
           /\ subfl' = [subfl EXCEPT ![Line.s] = [st |-> "called", t |-> Line.t]]
           /\ UNCHANGED <<vars, clfl, stfl>>
SubRet == /\ IsEvent("subret") /\ subfl[Line.s].st = "done"
          /\ subfl' = [subfl EXCEPT ![Line.s] = NoSub]
          /\ UNCHANGED <<vars, clfl, stfl>>

TPubCall == /\ IsEvent("pubcall") /\ Line.m = npub + 1
            /\ PubCall(Line.p, Line.t)
            /\ UNCHANGED <<subfl, clfl, stfl>>
TPubRet == /\ IsEvent("pubret")
           /\ PubRet(Line.p)
           /\ UNCHANGED <<subfl, clfl, stfl>>

CloseCall == /\ IsEvent("closecall") /\ clfl[Line.s] = "no"
             /\ clfl' = [clfl EXCEPT ![Line.s] = "called"]
             /\ UNCHANGED <<vars, subfl, stfl>>
CloseRet == /\ IsEvent("closeret") /\ clfl[Line.s] = "done"
            /\ clfl' = [clfl EXCEPT ![Line.s] = "no"]
            /\ UNCHANGED <<vars, subfl, stfl>>

StopCall == /\ IsEvent("stopcall") /\ stfl = "no"
            /\ stfl' = "called"
            /\ UNCHANGED <<vars, subfl, clfl>>
StopRet == /\ IsEvent("stopret") /\ stfl = "done"
           /\ stfl' = "no"
           /\ UNCHANGED <<vars, subfl, clfl>>

Cb == /\ IsEvent("cb")
      /\ SRun(Line.m, Line.s)
      /\ UNCHANGED <<subfl, clfl, stfl>>

End == /\ IsEvent("end")
       /\ pending = {} /\ \A p \in Pubs : ppc[p] = "idle"
       /\ \A s \in Subs : subfl[s].st = "no" /\ clfl[s] = "no"
       /\ stfl = "no"
       /\ UNCHANGED <<vars, subfl, clfl, stfl>>

(***************************************************************************)
(* silent steps                                                            *)
(***************************************************************************)
SilentSubscribe == \E s \in Subs : /\ subfl[s].st = "called"
                                   /\ SSubscribe(s, subfl[s].t)
                                   /\ subfl' = [subfl EXCEPT ![s].st = "done"]
                                   /\ UNCHANGED <<l, clfl, stfl>>
SilentPub == \E p \in Pubs : /\ PubSnap(p) \/ PubVisit(p)
                             /\ UNCHANGED <<l, subfl, clfl, stfl>>
SilentCloseSnap == \E s \in Subs : /\ clfl[s] = "called" /\ cpc[s] = "idle"
                                   /\ CloseSnap(s)
                                   /\ clfl' = [clfl EXCEPT ![s] = IF cpc'[s] = "found" THEN "mid" ELSE "done"]
                                   /\ UNCHANGED <<l, subfl, stfl>>
SilentCloseNil == \E s \in Subs : /\ clfl[s] = "mid"
                                  /\ CloseNil(s)
                                  /\ clfl' = [clfl EXCEPT ![s] = "done"]
                                  /\ UNCHANGED <<l, subfl, stfl>>
SilentStop == /\ stfl = "called"
              /\ SBusClose
              /\ stfl' = "done"
              /\ UNCHANGED <<l, subfl, clfl>>

TraceNext == \/ TraceReset \/ SubCall \/ SubRet \/ TPubCall \/ TPubRet \/ CloseCall \/ CloseRet
             \/ StopCall \/ StopRet \/ Cb \/ End
             \/ SilentSubscribe \/ SilentPub \/ SilentCloseSnap \/ SilentCloseNil \/ SilentStop

TraceSpec == TraceInit /\ [][TraceNext]_tvars

TraceAccepted ==
  LET hwm == TLCGet(1) IN
  IF hwm = Len(Trace) THEN PrintT(<<"TRACE-ACCEPTED", hwm>>)
  ELSE PrintT(<<"TRACE-HWM", hwm>>) /\ FALSE

\* the real state and the flight bookkeeping (ghosts and labels only grow with the log)
TraceView == <<listed, cb, stopic, pending, got, ppc, pm, psnap, cpc, l, subfl, clfl, stfl>>
=============================================================================
