SPECIFICATION TraceSpec
CONSTANTS
  Vals = {1, 2, 3}
  MaxLen = 0
  Pars = {1}
  Chunks = {0}
  CeilWorkers = FALSE
INVARIANTS NoSendOnClosed CleanupLast AtReturn Quiescent
CONSTRAINT HWM
POSTCONDITION TraceAccepted
CHECK_DEADLOCK FALSE
