SPECIFICATION Spec
CONSTANTS
  Cap = 2
  MaxSpans = 6
INVARIANTS TypeOK Conservation
PROPERTIES RefusedOnlyWhenFull
ACTION_CONSTRAINT Dump
VIEW View
CHECK_DEADLOCK FALSE
