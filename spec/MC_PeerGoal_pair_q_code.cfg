SPECIFICATION Spec
CONSTANTS
  Gaps <- Gaps2
  T = 10
  Goals = {12}
  MaxEvents = 3
  MaxClears = 1
  Hosts = {"a", "b"}
  Strict = TRUE
  TrackQuiet = FALSE
  UnitMs = 1000
INVARIANTS TypeOK SeenIsACount 
PROPERTIES PromptOnMessage CreatedCurrent
CHECK_DEADLOCK FALSE
ACTION_CONSTRAINT Dump
VIEW View
