SPECIFICATION Spec
CONSTANTS
  Vals = {1, 2}
  MaxLen = 3
  Pars = {1, 2, 3}
  ChunkSizes = {1, 2}
  Faithful = TRUE
INVARIANTS TypeOK Meaning NoIdleChunkWorkers
ACTION_CONSTRAINT Dump
VIEW View
CHECK_DEADLOCK FALSE
