------------------------------ MODULE UsageInd ------------------------------
(***************************************************************************)
(* Typed companion of spec/Usage.tla (property C34) for unbounded proofs.  *)
(*                                                                         *)
(* Same variables, constants and actions as Usage.tla (the action bodies   *)
(* are copied; only `act` and the Abs/St/Dump plumbing are gone).          *)
(* spec/ind/UsageIndRef.tla has TLC check on the bounded models of         *)
(* MC_Usage_*.cfg that Usage!Next and Next are the same relation on the    *)
(* reachable states and that the label-free action properties below are    *)
(* the labelled ones of Usage.tla.                                         *)
(*                                                                         *)
(* Proved (UsageIndApa.tla: Apalache; UsageIndProofs.tla: TLAPS) for EVERY *)
(* horizon MaxCum >= 0, EVERY Attempts >= 1, every set of growth steps     *)
(* >= 0, both ZeroReports conventions, Overwrite = FALSE:                  *)
(*   Init => IndInv, IndInv /\ Next => IndInv', IndInv => Safety,          *)
(*   IndInv /\ Next => each of the four action properties.                 *)
(***************************************************************************)
EXTENDS Integers, FiniteSets

CONSTANTS
  \* @type: Set(SIG);
  Signals,
  \* @type: Int;
  MaxCum,
  \* @type: Set(Int);
  Steps,
  \* @type: Bool;
  Overwrite,
  \* @type: Str;
  ZeroReports,
  \* @type: Int;
  Attempts

ConstOK == /\ MaxCum \in Int /\ MaxCum >= 0
           /\ Attempts \in Int /\ Attempts >= 1
           /\ \A d \in Steps : d \in Int /\ d >= 0
           /\ Overwrite = FALSE
           /\ ZeroReports \in {"keys", "never"}

VARIABLES
  \* @type: SIG -> Int;
  cum,
  \* @type: SIG -> Int;
  seen,
  \* @type: SIG -> Int;
  cur,
  \* @type: SIG -> Int;
  pend,
  \* @type: SIG -> Int;
  rep,
  \* @type: Str;
  phase,
  \* @type: Int;
  att,
  \* @type: Str;
  res,
  \* @type: SIG -> Int;
  delivered

vars == <<cum, seen, cur, pend, rep, phase, att, res, delivered>>

Zero == [s \in Signals |-> 0]
None == IF ZeroReports = "keys" THEN 0 - 1 ELSE 0
Empty == [s \in Signals |-> None]
V(x) == IF x < 0 THEN 0 ELSE x

Phases == {"idle", "offered", "waitprev", "accepted"}
Results == {"none", "nodata", "fail", "ok"}

Init == /\ cum = Zero /\ seen = Zero /\ cur = Empty /\ pend = Empty /\ rep = Zero
        /\ delivered = Zero
        /\ phase = "idle" /\ att = 0 /\ res = "none"

Grow(s, d) == /\ cum[s] + d <= MaxCum
              /\ cum' = [cum EXCEPT ![s] = @ + d]
              /\ UNCHANGED <<seen, cur, pend, rep, phase, att, res, delivered>>

Sample(s) == /\ IF cum[s] = 0 THEN UNCHANGED <<cur, seen>>
                ELSE /\ cur' = [cur EXCEPT ![s] = V(@) + (cum[s] - seen[s])]
                     /\ seen' = [seen EXCEPT ![s] = cum[s]]
             /\ UNCHANGED <<cum, pend, rep, phase, att, res, delivered>>

NothingToReport == IF ZeroReports = "keys" THEN cur = Empty /\ pend = Empty
                   ELSE \A s \in Signals : V(cur[s]) + V(pend[s]) = 0

NewReport ==
  /\ phase = "idle"
  /\ \/ /\ NothingToReport
        /\ res' = "nodata"
        /\ UNCHANGED <<cur, pend, rep, phase, att>>
     \/ /\ ~NothingToReport
        /\ rep' = [s \in Signals |-> V(cur[s]) + V(pend[s])]
        /\ pend' = IF Overwrite THEN cur
                   ELSE [s \in Signals |-> IF cur[s] = None THEN pend[s] ELSE V(pend[s]) + V(cur[s])]
        /\ cur' = Empty
        /\ phase' = "offered" /\ att' = 1
        /\ res' = "none"
  /\ UNCHANGED <<cum, seen, delivered>>

Abandon == /\ phase' = "idle" /\ att' = 0 /\ res' = "fail" /\ rep' = Zero
           /\ UNCHANGED <<cum, seen, cur, pend, delivered>>

RespondFail == /\ phase = "offered"
               /\ Abandon

RespondPending ==
  /\ phase = "offered"
  /\ IF att < Attempts
       THEN /\ phase' = "waitprev"
            /\ UNCHANGED <<cum, seen, cur, pend, rep, att, res, delivered>>
       ELSE Abandon

PrevSent == /\ phase = "waitprev"
            /\ phase' = "offered" /\ att' = att + 1
            /\ UNCHANGED <<cum, seen, cur, pend, rep, res, delivered>>

Accept == /\ phase = "offered"
          /\ phase' = "accepted"
          /\ UNCHANGED <<cum, seen, cur, pend, rep, att, res, delivered>>

Ack == /\ phase = "accepted"
       /\ delivered' = [s \in Signals |-> delivered[s] + rep[s]]
       /\ pend' = Empty
       /\ rep' = Zero
       /\ phase' = "idle" /\ att' = 0 /\ res' = "ok"
       /\ UNCHANGED <<cum, seen, cur>>

Next == \/ \E s \in Signals, d \in Steps : Grow(s, d)
        \/ \E s \in Signals : Sample(s)
        \/ NewReport \/ RespondFail \/ RespondPending \/ PrevSent \/ Accept \/ Ack

Spec == Init /\ [][Next]_vars

----------------------------------------------------------------------------
(* the invariants of MC_Usage_*.cfg, verbatim *)

TypeOK == /\ cum \in [Signals -> 0 .. MaxCum] /\ seen \in [Signals -> 0 .. MaxCum]
          /\ cur \in [Signals -> Int] /\ pend \in [Signals -> Int]
          /\ rep \in [Signals -> Int] /\ delivered \in [Signals -> Int]
          /\ phase \in Phases /\ res \in Results /\ att \in 0 .. Attempts
          /\ (phase = "idle") = (att = 0)

Conservation ==
  \A s \in Signals : delivered[s] + V(pend[s]) + V(cur[s]) + (cum[s] - seen[s]) = cum[s]

NonNegative == \A s \in Signals : rep[s] >= 0 /\ cur[s] >= None /\ pend[s] >= None /\ delivered[s] >= 0

NoDoubleCount == \A s \in Signals : delivered[s] <= cum[s]

InFlightIsPending == phase # "idle" => \A s \in Signals : rep[s] = V(pend[s])

Safety == TypeOK /\ Conservation /\ NonNegative /\ NoDoubleCount /\ InFlightIsPending

(* the action properties of MC_Usage_*.cfg; `act'.name = "X"` of Usage.tla *)
(* reads "the step is an X step"                                           *)
DeliveredMonotoneStep == \A s \in Signals : delivered'[s] >= delivered[s]
OnlyAckDeliversStep == delivered' # delivered => Ack
OnlyAckClearsPendingStep == pend' # pend => (NewReport \/ Ack)
PendingTwiceKeepsStep ==
  (phase = "offered" /\ att = Attempts /\ RespondPending)
     => (pend' = pend /\ cur' = cur /\ delivered' = delivered /\ phase' = "idle" /\ res' = "fail")

----------------------------------------------------------------------------
(* the inductive invariant: Safety strengthened by                         *)
(*   seen <= cum            the sampler never reads ahead of the counter   *)
(*   waitprev => att < Attempts   a retry is always still allowed          *)
(*   idle => rep = 0        nothing is in flight between reports           *)

IndInv ==
  /\ cum \in [Signals -> Int] /\ seen \in [Signals -> Int]
  /\ cur \in [Signals -> Int] /\ pend \in [Signals -> Int]
  /\ rep \in [Signals -> Int] /\ delivered \in [Signals -> Int]
  /\ phase \in Phases /\ res \in Results
  /\ att \in Int /\ 0 <= att /\ att <= Attempts
  /\ (phase = "idle") = (att = 0)
  /\ phase = "waitprev" => att < Attempts
  /\ \A s \in Signals :
       /\ 0 <= seen[s] /\ seen[s] <= cum[s] /\ cum[s] <= MaxCum
       /\ rep[s] >= 0 /\ cur[s] >= None /\ pend[s] >= None /\ delivered[s] >= 0
       /\ delivered[s] + V(pend[s]) + V(cur[s]) = seen[s]
       /\ phase # "idle" => rep[s] = V(pend[s])
       /\ phase = "idle" => rep[s] = 0
=============================================================================
