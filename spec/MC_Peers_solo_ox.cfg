SPECIFICATION Spec
CONSTANTS
  Addr <- Addr1
  Gaps <- GapsJitter1
  T = 10
  D = 1
  MaxEvents = 2
  MaxFails = 3
  Extra = "any"
  Backoff = TRUE
  Closed = FALSE
  ObserveCb = FALSE
  TrackQuiet = FALSE
  UnitMs = 1000
  Boot <- NoNodes
  CrashSet <- AllNodes
  StopSet <- AllNodes
  Sync = FALSE
  TrackAge = FALSE
INVARIANTS TypeOK Converged LearnsLive ForgetsDead PeerForgotten PeerLearnt SelfListed PeriodRestored NoDuplicateAddr ChannelSane
PROPERTIES CallbackIffChange NoResurrection
ACTION_CONSTRAINT Dump
VIEW View
