//go:build verif

// Package c10kit is shared by the two C10 harnesses (sample/c10_det_test.go and
// collect/c10_stress_test.go). It is never part of /repo: vcheck maps it to
// github.com/honeycombio/refinery/internal/c10kit with `go test -overlay`.
//
// It concretises the abstract vectors of spec/Deterministic.tla: a model hash
// h in 0..H and a model rate N stand for a real trace ID and a real rate such
// that the real ID's hash lies in the same threshold bucket of the real rate
// table as h does in the model's. The hash is always the harness' own
// computation (Space.Hash), never the sampler's.
package c10kit

import (
	"fmt"
	"sort"
)

// Model is the part of the specification's constants the harness needs.
type Model struct {
	H           int
	Rates       []int // all configurable model rates, ascending
	Big         []int // those >= 2, ascending
	ExtremeFrom int
}

// Space describes one hash space (one component of /repo).
type Space struct {
	Name   string
	HMax   uint64                 // largest hash value
	Hash   func(id string) uint64 // independent computation of the component's hash
	Tables map[string][]uint64    // ordinary tables: ascending real rates >= 2
	ExtLo  []uint64               // table "extreme": rates for model rates < ExtremeFrom
	ExtHi  []uint64               // table "extreme": rates near the top of the range (the last ones are used)

	cache map[string]*corpus
}

type candidate struct {
	id   string
	hash uint64
}

type bucket struct {
	first    []candidate // in scan order
	min, max candidate
	n        int
}

type corpus struct {
	real    map[int]uint64 // model rate -> real rate
	buckets []bucket       // index b = number of thresholds >= hash
}

func num(v any) (int, bool) {
	f, ok := v.(float64)
	return int(f), ok
}

// ParseInit extracts the model constants, the table and h from an initial
// specification state.
func ParseInit(init map[string]any) (m Model, table string, h int, insts []string, err error) {
	var ok bool
	if m.H, ok = num(init["H"]); !ok {
		return m, "", 0, nil, fmt.Errorf("init state has no H")
	}
	if m.ExtremeFrom, ok = num(init["extremeFrom"]); !ok {
		return m, "", 0, nil, fmt.Errorf("init state has no extremeFrom")
	}
	rs, _ := init["rateSet"].([]any)
	for _, r := range rs {
		n, ok := num(r)
		if !ok {
			return m, "", 0, nil, fmt.Errorf("bad rateSet")
		}
		m.Rates = append(m.Rates, n)
	}
	sort.Ints(m.Rates)
	prev := -1
	for _, n := range m.Rates {
		if n >= 2 {
			t := m.H / n
			if prev >= 0 && t >= prev {
				return m, "", 0, nil, fmt.Errorf("model thresholds are not strictly decreasing at rate %d", n)
			}
			prev = t
			m.Big = append(m.Big, n)
		}
	}
	table, _ = init["table"].(string)
	if h, ok = num(init["h"]); !ok {
		return m, "", 0, nil, fmt.Errorf("init state has no h")
	}
	rm, _ := init["rate"].(map[string]any)
	for i := range rm {
		insts = append(insts, i)
	}
	sort.Strings(insts)
	if len(insts) == 0 {
		return m, "", 0, nil, fmt.Errorf("init state has no instances")
	}
	return m, table, h, insts, nil
}

// RealRates maps the model's rates to the real rates of a table. The mapping is
// strictly increasing, which is all the abstraction needs.
func (s *Space) RealRates(m Model, table string) (map[int]uint64, error) {
	real := map[int]uint64{0: 0, 1: 1}
	if table == "extreme" {
		var lo, hi []int
		for _, n := range m.Big {
			if n < m.ExtremeFrom {
				lo = append(lo, n)
			} else {
				hi = append(hi, n)
			}
		}
		if len(lo) > len(s.ExtLo) || len(hi) > len(s.ExtHi) {
			return nil, fmt.Errorf("table extreme too short for the model")
		}
		for k, n := range lo {
			real[n] = s.ExtLo[k]
		}
		for k, n := range hi {
			real[n] = s.ExtHi[len(s.ExtHi)-len(hi)+k]
		}
		return real, nil
	}
	t, ok := s.Tables[table]
	if !ok || len(t) < len(m.Big) {
		return nil, fmt.Errorf("no table %q with %d rates", table, len(m.Big))
	}
	for k, n := range m.Big {
		real[n] = t[k]
	}
	return real, nil
}

// TableRates returns the real rates >= 2 of a table, ascending.
func (s *Space) TableRates(m Model, table string) ([]uint64, error) {
	real, err := s.RealRates(m, table)
	if err != nil {
		return nil, err
	}
	var out []uint64
	for _, n := range m.Big {
		out = append(out, real[n])
	}
	return out, nil
}

// Expected is the decision rule of the property, on the independent hash.
func (s *Space) Expected(rate uint64, id string) bool {
	return rate <= 1 || s.Hash(id) <= s.HMax/rate
}

func splitmix(x uint64) uint64 {
	x += 0x9e3779b97f4a7c15
	x = (x ^ (x >> 30)) * 0xbf58476d1ce4e5b9
	x = (x ^ (x >> 27)) * 0x94d049bb133111eb
	return x ^ (x >> 31)
}

// CandidateID is the n-th trace ID of the fixed search corpus; the shapes are
// the ones clients send (W3C 32 hex, 16 hex, upper case, UUID-like, free text).
func CandidateID(n uint64) string {
	a, b := splitmix(2*n), splitmix(2*n+1)
	switch n % 5 {
	case 0:
		return fmt.Sprintf("%016x%016x", a, b)
	case 1:
		return fmt.Sprintf("%016x", a)
	case 2:
		return fmt.Sprintf("%016X%016X", a, b)
	case 3:
		return fmt.Sprintf("%08x-%04x-%04x-%04x-%012x", uint32(a>>32), uint16(a>>16), uint16(a), uint16(b>>48), b&0xffffffffffff)
	default:
		return fmt.Sprintf("trace/%d", a%1000000007)
	}
}

func (s *Space) corpusFor(m Model, table string) (*corpus, error) {
	key := fmt.Sprintf("%s|%d|%v|%d", table, m.H, m.Rates, m.ExtremeFrom)
	if c, ok := s.cache[key]; ok {
		return c, nil
	}
	real, err := s.RealRates(m, table)
	if err != nil {
		return nil, err
	}
	k := len(m.Big)
	thr := make([]uint64, k) // descending as the rate ascends
	var maxFindable uint64 = 2
	for j, n := range m.Big {
		thr[j] = s.HMax / real[n]
		if !(table == "extreme" && n >= m.ExtremeFrom) && real[n] > maxFindable {
			maxFindable = real[n]
		}
	}
	c := &corpus{real: real, buckets: make([]bucket, k+1)}
	scan := 32 * maxFindable
	if scan < 1<<17 {
		scan = 1 << 17
	}
	for n := uint64(0); n < scan; n++ {
		id := CandidateID(n)
		hv := s.Hash(id)
		b := 0
		for b < k && hv <= thr[b] {
			b++
		}
		bk := &c.buckets[b]
		cd := candidate{id, hv}
		if bk.n == 0 || hv < bk.min.hash {
			bk.min = cd
		}
		if bk.n == 0 || hv > bk.max.hash {
			bk.max = cd
		}
		if len(bk.first) < 64 {
			bk.first = append(bk.first, cd)
		}
		bk.n++
	}
	if s.cache == nil {
		s.cache = map[string]*corpus{}
	}
	s.cache[key] = c
	return c, nil
}

// Concretise returns the real trace ID that stands for model hash h under the
// given table: an ID whose real hash is in the bucket of the real thresholds
// that corresponds to h's bucket of the model thresholds. The largest h of a
// model bucket (h exactly at a model threshold) maps to the found ID closest
// below the real threshold, the smallest h to the one closest above the next
// threshold, the others to IDs in scan order.
func (s *Space) Concretise(m Model, table string, h int) (string, map[int]uint64, error) {
	c, err := s.corpusFor(m, table)
	if err != nil {
		return "", nil, err
	}
	k := len(m.Big)
	b := 0
	for b < k && h <= m.H/m.Big[b] {
		b++
	}
	hi := m.H
	if b > 0 {
		hi = m.H / m.Big[b-1]
	}
	lo := -1 // exclusive
	if b < k {
		lo = m.H / m.Big[b]
	}
	bk := c.buckets[b]
	if bk.n == 0 {
		return "", nil, fmt.Errorf("no trace ID found for table %s bucket %d (h=%d)", table, b, h)
	}
	switch {
	case h == hi:
		return bk.max.id, c.real, nil
	case h == lo+1:
		return bk.min.id, c.real, nil
	default:
		return bk.first[(h-lo-2)%len(bk.first)].id, c.real, nil
	}
}
