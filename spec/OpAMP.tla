------------------------------- MODULE OpAMP -------------------------------
(***************************************************************************)
(* agent.Agent (coverage extension CX6): remote configuration delivery and *)
(* status reporting over OpAMP.                                            *)
(*                                                                         *)
(* The agent sits between four components, each modelled abstractly:       *)
(*   the OpAMP client (upstream): what the server knows is what the agent  *)
(*       handed to SetRemoteConfigStatus / UpdateEffectiveConfig (and to   *)
(*       the GetEffectiveConfig callback) / SetHealth / SendCustomMessage; *)
(*   the configuration (config.Config.Reload with WithConfigData /         *)
(*       WithRulesData): an abstract Reload whose outcome is applied,      *)
(*       warn (applied, warnings only), unchanged or refused;              *)
(*   the health.Reporter: two booleans alive / ready;                      *)
(*   the metrics store and the usage tracker (spec/Usage.tla, C34, models  *)
(*       the tracker and sendUsageReport one critical section at a time;   *)
(*       here a usage tick is one step and only the wiring is new: which   *)
(*       counters feed which signal, sampling in the health tick, reports  *)
(*       in the usage tick, what a failed / held send leaves behind).      *)
(*                                                                         *)
(* One action per callback / critical section of agent.go:                 *)
(*   OnMessage(h)   Callbacks.OnMessage with the remote config of hash h   *)
(*                  (updateRemoteConfig; the callback runs on the client's *)
(*                  receive goroutine, one message at a time)              *)
(*   OnMessageNone  OnMessage without a remote config                      *)
(*   Poll           the server asks for the full state: the client calls   *)
(*                  Callbacks.GetEffectiveConfig (composeEffectiveConfig)  *)
(*   HealthTick     one round of healthCheck(): calculateHealth + SetHealth*)
(*                  if it changed, then the usage counters are sampled     *)
(*   UsageTick(o)   one round of reportUsagePeriodically(): sendUsageReport*)
(*                  with the client's answer o                             *)
(*   Ack            the client has sent the message it was holding         *)
(*   Stop           Agent.Stop                                             *)
(* and the environment: SetAlive / SetReady (health.Reporter), Grow (a     *)
(* counter of the metrics store grows).  Nothing is modelled after Stop    *)
(* (the client is stopped: no callbacks; ticks of loops that are gone).    *)
(*                                                                         *)
(* Contents.  A remote configuration carries a config body and / or a rules*)
(* body ("-" = absent).  Config bodies: "A" "B" valid, "W" valid with a    *)
(* warning (a deprecated key), "N" valid with OpAMP.RecordUsage false, "X" *)
(* refused by validation.  Rules bodies: "A" "B" valid, "X" refused.       *)
(* fileConfig.reload rereads the local files and APPENDS the delivered     *)
(* bodies as further layers (later layers override the keys they name; the *)
(* hash covers all layers).  So what is in force is identified by the      *)
(* delivered layers `running` = [c, r] ("-" = the file alone), every Reload*)
(* starts again from the files (a message without a config body means "the *)
(* config FILE", not "the config delivered earlier"), delivering the file's*)
(* own content is a change (another hash), and the same bodies under a new *)
(* message hash are "unchanged".  The pair is accepted or refused as a     *)
(* whole.  Val gives the values in force: all bodies name the same keys.   *)
(*                                                                         *)
(* Left open by the statement and therefore constants (the check accepts   *)
(* every value): RetryFailed - a message repeating the hash whose status   *)
(* is FAILED is handled again (the code) or skipped; ZeroReports - whether *)
(* a usage report whose figures are all zero is sent: "keys" is the code   *)
(* (the tracker's two maps are Go maps; a report is built iff either has   *)
(* an entry and sampling a non-zero counter makes one even for a zero      *)
(* delta - an absent entry is -1 here, as in Usage.tla), "never" the other *)
(* natural convention.                                                     *)
(*                                                                         *)
(* Faithful = TRUE adds what agent.go does where it departs from the       *)
(* statement, as named deviations:                                         *)
(*   health-loop-survives-stop   healthCheck() does not return when the    *)
(*       context is cancelled (`case <-agent.ctx.Done():` has an empty     *)
(*       body): after Stop the goroutine is still there (it spins).        *)
(***************************************************************************)
EXTENDS Integers, Sequences, FiniteSets, TLC, Json

CONSTANTS Catalogue,    \* [hash -> [kind, c, r]]: the remote configurations the server may send
          DiskC, DiskR, \* contents of the local config and rules file
          Feat,         \* subset of {"msg","poll","health","usage","stop"}: the actions of this run
          Feeds,        \* [counter of the metrics store -> usage signal]
          MaxCum,       \* horizon of each counter
          Steps,        \* growth increments
          Outcomes,     \* answers of the client to a usage report: subset of {"ok","fail","pendok","hold"}
          RetryFailed,  \* TRUE: the code (same hash, status FAILED -> handled again)
          ZeroReports,  \* "keys": the code (a report is sent iff the tracker has an entry, even if it is zero) | "never"
          Faithful      \* TRUE: include the deviations of the code

VARIABLES running,   \* [c, r]: the delivered layers in force ("-": the file alone)
          lastRecv,  \* agent.lastRemoteConfigReceived: its hash, "none" at start
          status,    \* the remote config status upstream holds (= agent.remoteConfigStatus): [hash, st, err]
          sent,      \* the statuses handed to the client during the last action
          reload,    \* what Config.Reload did during the last action ("none" = not called)
          effSent,   \* the effective configuration upstream holds
          alive, ready,  \* health.Reporter
          lastHealth,    \* agent.lastHealth: "none" | "T" | "F"
          healthUp,      \* the health upstream holds: [healthy]
          cum,       \* counters of the metrics store
          seen,      \* usageTracker.lastUsageData per signal
          cur,       \* usageTracker.currentDataPoints per signal
          pend,      \* usageTracker.lastDataPoints per signal
          offered,   \* [on, u]: whether a message was offered to the client during the last usage tick, and the usage in it
          delivered, \* usage in messages the client has sent
          phase,     \* "idle" | "inflight": the usage loop waits for the client to send its message
          live,      \* goroutines of the agent that exist
          stopped,
          act

vars == <<running, lastRecv, status, sent, reload, effSent, alive, ready, lastHealth, healthUp,
          cum, seen, cur, pend, offered, delivered, phase, live, stopped, act>>

Hashes  == DOMAIN Catalogue
Counters == DOMAIN Feeds
Signals == {Feeds[m] : m \in Counters}

ValidC == {"A", "B", "W", "N"}
ValidR == {"A", "B"}
Records(c) == c # "N"          \* OpAMP.RecordUsage of a config body

NoStatus == [hash |-> "none", st |-> "UNSET", err |-> FALSE]
Zero == [s \in Signals |-> 0]
NotOffered == [on |-> FALSE, u |-> Zero]
\* an absent map entry of the usage tracker, and the usage an entry stands for
None == IF ZeroReports = "keys" THEN 0 - 1 ELSE 0
Empty == [s \in Signals |-> None]
V(x) == IF x < 0 THEN 0 ELSE x
Loops == {"health", "usage"}

\* ---------------------------------------------------------------- Reload
\* what Reload evaluates for message m: the files with the delivered bodies laid over them
Target(m) == [c |-> m.c, r |-> m.r]
Acceptable(t) == t.c \in ValidC \cup {"-"} /\ t.r \in ValidR \cup {"-"}
\* the values in force
Val(run) == [c |-> IF run.c = "-" THEN DiskC ELSE run.c, r |-> IF run.r = "-" THEN DiskR ELSE run.r]

Outcome(m, run) ==
  LET t == Target(m) IN
  IF ~Acceptable(t) THEN "refused"
  ELSE IF t = run THEN "unchanged"
  ELSE IF t.c = "W" THEN "warn"
  ELSE "applied"

InForce(o) == o \in {"applied", "warn", "unchanged"}

\* ---------------------------------------------------------------- actions
Quiet == /\ sent' = <<>> /\ reload' = "none"

UsageUnch == UNCHANGED <<cum, seen, cur, pend, offered, delivered, phase>>
HealthUnch == UNCHANGED <<alive, ready, lastHealth, healthUp>>
ConfigUnch == UNCHANGED <<running, lastRecv, status, effSent>>

\* isConfigChanged
Changed(h) == \/ lastRecv = "none"
              \/ status.hash # h
              \/ IF RetryFailed THEN status.st # "APPLIED" ELSE status.st \notin {"APPLIED", "FAILED"}

OnMessage(h) ==
  LET m == Catalogue[h] IN
  /\ "msg" \in Feat /\ ~stopped
  /\ IF m.kind = "nomap" \/ ~Changed(h)
       THEN \* no config map in the message, or the hash has been handled: nothing happens
            /\ Quiet /\ ConfigUnch
       ELSE /\ lastRecv' = h
            /\ IF m.c = "-" /\ m.r = "-"
                 THEN \* a config map without a Refinery document: remembered, nothing to apply
                      /\ Quiet /\ UNCHANGED <<running, status, effSent>>
                 ELSE LET o == Outcome(m, running)
                          fin == IF InForce(o) THEN "APPLIED" ELSE "FAILED" IN
                      /\ reload' = o
                      /\ running' = IF o \in {"applied", "warn"} THEN Target(m) ELSE running
                      /\ sent' = << [hash |-> h, st |-> "APPLYING", err |-> FALSE],
                                    [hash |-> h, st |-> fin, err |-> (fin = "FAILED")] >>
                      /\ status' = [hash |-> h, st |-> fin, err |-> (fin = "FAILED")]
                      \* UpdateEffectiveConfig after APPLIED
                      /\ effSent' = IF fin = "APPLIED" THEN running' ELSE effSent
  /\ HealthUnch /\ UsageUnch /\ UNCHANGED <<live, stopped>>
  /\ act' = [name |-> "OnMessage", h |-> h]

OnMessageNone ==
  /\ "msg" \in Feat /\ ~stopped
  /\ Quiet /\ ConfigUnch /\ HealthUnch /\ UsageUnch /\ UNCHANGED <<live, stopped>>
  /\ act' = [name |-> "OnMessageNone"]

Poll ==
  /\ "poll" \in Feat /\ ~stopped
  /\ effSent' = running
  /\ Quiet /\ UNCHANGED <<running, lastRecv, status>> /\ HealthUnch /\ UsageUnch /\ UNCHANGED <<live, stopped>>
  /\ act' = [name |-> "Poll"]

SetAlive(b) ==
  /\ "health" \in Feat /\ alive # b /\ ~stopped
  /\ alive' = b
  /\ Quiet /\ ConfigUnch /\ UsageUnch /\ UNCHANGED <<ready, lastHealth, healthUp, live, stopped>>
  /\ act' = [name |-> "SetAlive", b |-> b]

SetReady(b) ==
  /\ "health" \in Feat /\ ready # b /\ ~stopped
  /\ ready' = b
  /\ Quiet /\ ConfigUnch /\ UsageUnch /\ UNCHANGED <<alive, lastHealth, healthUp, live, stopped>>
  /\ act' = [name |-> "SetReady", b |-> b]

Grow(m, d) ==
  /\ "usage" \in Feat /\ cum[m] + d <= MaxCum /\ ~stopped
  /\ cum' = [cum EXCEPT ![m] = @ + d]
  /\ Quiet /\ ConfigUnch /\ HealthUnch /\ UNCHANGED <<seen, cur, pend, offered, delivered, phase, live, stopped>>
  /\ act' = [name |-> "Grow", m |-> m, d |-> d]

Total(s) == LET RECURSIVE Sum(_)
                Sum(S) == IF S = {} THEN 0 ELSE LET x == CHOOSE y \in S : TRUE IN cum[x] + Sum(S \ {x})
            IN Sum({m \in Counters : Feeds[m] = s})

B2S(b) == IF b THEN "T" ELSE "F"

\* one round of healthCheck(): the ticker of a loop that is gone fires into the void
HealthTick ==
  /\ ("health" \in Feat \/ "usage" \in Feat) /\ ~stopped
  /\ IF "health" \in live
       THEN /\ LET h == alive /\ ready IN
               IF lastHealth = "none" \/ lastHealth # B2S(h)
                 THEN /\ lastHealth' = B2S(h) /\ healthUp' = [healthy |-> h]
                 ELSE UNCHANGED <<lastHealth, healthUp>>
            \* usageTracker.Add per signal with the sum of its counters; a zero reading is ignored
            /\ IF Records(running.c)
                 THEN /\ cur' = [s \in Signals |-> IF Total(s) = 0 THEN cur[s] ELSE V(cur[s]) + (Total(s) - seen[s])]
                      /\ seen' = [s \in Signals |-> IF Total(s) = 0 THEN seen[s] ELSE Total(s)]
                 ELSE UNCHANGED <<cur, seen>>
       ELSE UNCHANGED <<lastHealth, healthUp, cur, seen>>
  /\ Quiet /\ ConfigUnch /\ UNCHANGED <<alive, ready, cum, pend, offered, delivered, phase, live, stopped>>
  /\ act' = [name |-> "HealthTick"]

Rep == [s \in Signals |-> V(cur[s]) + V(pend[s])]
NothingToReport == IF ZeroReports = "keys" THEN cur = Empty /\ pend = Empty ELSE Rep = Zero
\* usageTracker.NewReport: the unreported usage joins the unconfirmed usage
Merged == [s \in Signals |-> IF cur[s] = None THEN pend[s] ELSE V(pend[s]) + V(cur[s])]

\* one round of reportUsagePeriodically(): NewReport, SendCustomMessage, wait for the message to be sent
UsageTick(o) ==
  /\ "usage" \in Feat /\ phase = "idle" /\ ~stopped
  /\ IF "usage" \in live /\ ~NothingToReport
       THEN /\ offered' = [on |-> TRUE, u |-> Rep]
            /\ cur' = Empty
            /\ CASE o \in {"ok", "pendok"} -> /\ delivered' = [s \in Signals |-> delivered[s] + Rep[s]]
                                              /\ pend' = Empty /\ phase' = "idle"
                 [] o = "fail"             -> /\ pend' = Merged /\ UNCHANGED <<delivered, phase>>
                 [] o = "hold"             -> /\ pend' = Merged /\ phase' = "inflight" /\ UNCHANGED delivered
       ELSE \* errNoData (or the loop is gone): nothing is offered
            /\ offered' = NotOffered /\ UNCHANGED <<cur, pend, delivered, phase>>
  /\ Quiet /\ ConfigUnch /\ HealthUnch /\ UNCHANGED <<cum, seen, live, stopped>>
  /\ act' = [name |-> "UsageTick", o |-> o]

\* the client has sent the held message: completeSend
Ack ==
  /\ "usage" \in Feat /\ phase = "inflight" /\ "usage" \in live /\ ~stopped
  /\ delivered' = [s \in Signals |-> delivered[s] + V(pend[s])]
  /\ pend' = Empty /\ phase' = "idle"
  /\ Quiet /\ ConfigUnch /\ HealthUnch /\ UNCHANGED <<cum, seen, cur, offered, live, stopped>>
  /\ act' = [name |-> "Ack"]

\* Agent.Stop: unhealthy upstream, client stopped, context cancelled
Stop ==
  /\ "stop" \in Feat /\ ~stopped
  /\ stopped' = TRUE
  /\ healthUp' = [healthy |-> FALSE]
  /\ phase' = "idle"       \* a held report is abandoned (its usage stays unconfirmed in the tracker)
  /\ Quiet /\ ConfigUnch /\ UNCHANGED <<alive, ready, lastHealth, cum, seen, cur, pend, offered, delivered>>
  /\ \/ /\ live' = {}
        /\ act' = [name |-> "Stop"]
     \/ /\ Faithful
        /\ live' = {"health"}
        /\ act' = [name |-> "Stop", dev |-> "health-loop-survives-stop"]

Next == \/ \E h \in Hashes : OnMessage(h)
        \/ OnMessageNone \/ Poll
        \/ \E b \in BOOLEAN : SetAlive(b) \/ SetReady(b)
        \/ \E m \in Counters, d \in Steps : Grow(m, d)
        \/ HealthTick
        \/ \E o \in Outcomes : UsageTick(o)
        \/ Ack \/ Stop

Init == /\ running = [c |-> "-", r |-> "-"]
        /\ lastRecv = "none" /\ status = NoStatus /\ sent = <<>> /\ reload = "none"
        /\ effSent = [c |-> "-", r |-> "-"]         \* the client's first message carries GetEffectiveConfig
        /\ alive = FALSE /\ ready = FALSE /\ lastHealth = "none"
        /\ healthUp = [healthy |-> FALSE]               \* connect(): SetHealth(false)
        /\ cum = [m \in Counters |-> 0]
        /\ seen = Zero /\ cur = Empty /\ pend = Empty /\ delivered = Zero
        /\ offered = NotOffered /\ phase = "idle"
        /\ live = Loops /\ stopped = FALSE
        /\ act = [name |-> "Init"]

Spec == Init /\ [][Next]_vars

\* ---------------------------------------------------------------- properties
Pairs == [c : ValidC \cup {"-"}, r : ValidR \cup {"-"}]
Stati == [hash : Hashes \cup {"none"}, st : {"UNSET", "APPLYING", "APPLIED", "FAILED"}, err : BOOLEAN]

TypeOK == /\ running \in Pairs /\ effSent \in Pairs
          /\ lastRecv \in Hashes \cup {"none"}
          /\ status \in Stati /\ status.st # "APPLYING"
          /\ sent \in Seq(Stati) /\ Len(sent) \in {0, 2}
          /\ reload \in {"none", "applied", "warn", "unchanged", "refused"}
          /\ alive \in BOOLEAN /\ ready \in BOOLEAN /\ lastHealth \in {"none", "T", "F"}
          /\ healthUp \in [healthy : BOOLEAN]
          /\ cum \in [Counters -> 0 .. MaxCum]
          /\ \A s \in Signals : seen[s] >= 0 /\ cur[s] >= None /\ pend[s] >= None /\ delivered[s] >= 0
          /\ offered.on \in BOOLEAN /\ (~offered.on => offered.u = Zero)
          /\ phase \in {"idle", "inflight"} /\ live \subseteq Loops /\ stopped \in BOOLEAN

\* (1) APPLIED for hash h means: what h asked for is in force
AppliedIsInForce ==
  status.st = "APPLIED" => /\ status.hash \in Hashes
                           /\ running = Target(Catalogue[status.hash])
                           /\ ~status.err
\* (1) FAILED for hash h means: what h asked for is not acceptable, and it carries the error text
FailedIsRefused ==
  status.st = "FAILED" => /\ status.hash \in Hashes
                          /\ ~Acceptable(Target(Catalogue[status.hash]))
                          /\ status.err
\* (1) a refused configuration changes nothing; FAILED is reported exactly then
RefusedKeepsOld ==
  [][(reload' = "refused") => (running' = running /\ effSent' = effSent /\ status'.st = "FAILED")]_vars
\* (1) a handled message is announced with APPLYING first and closed with APPLIED or FAILED, for its own hash
StatusProtocol ==
  [][(reload' # "none") <=> (/\ Len(sent') = 2 /\ sent'[1].st = "APPLYING" /\ sent'[2].st \in {"APPLIED", "FAILED"}
                             /\ sent'[1].hash = act'.h /\ sent'[2].hash = act'.h /\ status' = sent'[2]
                             /\ (sent'[2].st = "APPLIED") = InForce(reload'))]_vars
\* (1) only a message changes the configuration in force or the status
OnlyMessagesApply ==
  [][(running' # running \/ status' # status) => (act'.name = "OnMessage" /\ reload' # "none")]_vars
\* (1) the hash already handled (APPLIED) is not applied again
NoReapply ==
  [][(act'.name = "OnMessage" /\ lastRecv # "none" /\ status.hash = act'.h /\ status.st = "APPLIED")
       => (reload' = "none" /\ sent' = <<>> /\ status' = status)]_vars
\* (1) a new hash with a Refinery document is always handled
NewHashHandled ==
  [][(act'.name = "OnMessage" /\ status.hash # act'.h /\ Catalogue[act'.h].kind = "map"
       /\ (Catalogue[act'.h].c # "-" \/ Catalogue[act'.h].r # "-")) => reload' # "none"]_vars
\* (2) upstream's copy of the effective configuration is the configuration in force
EffectiveInForce == effSent = running

\* (3) after a health tick upstream's health is the reporter's
HealthFollows ==
  [][(act'.name = "HealthTick" /\ "health" \in live) => (healthUp'.healthy = (alive' /\ ready'))]_vars
\* (3) usage: acknowledged + unconfirmed + unreported + unsampled = counter growth
Conservation ==
  \A s \in Signals : delivered[s] + V(pend[s]) + V(cur[s]) + (Total(s) - seen[s]) = Total(s)
NoDoubleCount == \A s \in Signals : delivered[s] <= Total(s)
\* (3) a failed or held send loses nothing: everything sampled and unacknowledged is in the next report
ReportCarriesAll ==
  [][(act'.name = "UsageTick" /\ offered'.on) => (offered'.u = [s \in Signals |-> V(cur[s]) + V(pend[s])])]_vars
OnlySentDelivers ==
  [][(delivered' # delivered) => (act'.name = "Ack" \/ (act'.name = "UsageTick" /\ act'.o \in {"ok", "pendok"}))]_vars
\* (4) Stop ends the agent's goroutines (fails for Faithful = TRUE: MC_OpAMP_code_cex.cfg)
StopEnds == stopped => live = {}
StopUnhealthy == stopped => ~healthUp.healthy

\* ---------------------------------------------------------------- catalogues and feeds (cfg: Catalogue <- CatX)
Msg(c, r) == [kind |-> "map", c |-> c, r |-> r]
CatQuick == [h \in {"h1", "h2", "h3", "h5", "h7", "h9"} |->
              CASE h = "h1" -> Msg("B", "-")      \* applied
                [] h = "h2" -> Msg("W", "B")      \* applied with a warning
                [] h = "h3" -> Msg("X", "-")      \* refused (config)
                [] h = "h5" -> Msg("-", "-")      \* config map without a Refinery document
                [] h = "h7" -> [kind |-> "nomap", c |-> "-", r |-> "-"]
                [] h = "h9" -> Msg("B", "-")]     \* the bodies of h1 under another hash
CatFull == [h \in {"h1", "h2", "h3", "h4", "h5", "h6", "h7", "h8", "h9"} |->
              CASE h = "h4" -> Msg("B", "X")      \* refused (rules)
                [] h = "h6" -> Msg("A", "A")      \* what the files say
                [] h = "h8" -> Msg("-", "B")      \* rules only: the config part is the file's again
                [] OTHER -> CatQuick[h]]
CatBig == [h \in {"h1", "h2", "h3", "h4", "h5", "h6", "h7", "h8", "h9", "h10", "h11"} |->
              CASE h = "h10" -> Msg("W", "-")     \* warning, then h2 changes the rules only
                [] h = "h11" -> Msg("X", "X")     \* both refused
                [] OTHER -> CatFull[h]]
CatOne == [h \in {"h1", "h3"} |-> CatQuick[h]]
CatH1 == [h \in {"h1"} |-> CatQuick[h]]
CatUsage == [h \in {"hn", "h1"} |-> IF h = "hn" THEN Msg("N", "-") ELSE Msg("B", "-")]
CatNone == [h \in {} |-> Msg("-", "-")]

FeedsOne == [m \in {"bytes_received_traces"} |-> "traces"]
FeedsTwo == [m \in {"bytes_received_traces", "incoming_router_span", "incoming_router_event"} |->
               IF m = "bytes_received_traces" THEN "traces" ELSE "events_received"]
FeedsAll == [m \in {"bytes_received_traces", "bytes_received_logs", "incoming_router_span", "incoming_router_nonspan_event",
                    "incoming_router_event", "events_dropped"} |->
               CASE m = "bytes_received_traces" -> "traces"
                 [] m = "bytes_received_logs" -> "logs"
                 [] m = "events_dropped" -> "events_dropped"
                 [] OTHER -> "events_received"]

\* ---------------------------------------------------------------- conformance plumbing
\* what the harness observes: the fake client (upstream), the real configuration's getters and the
\* serialized effective configuration, the loops that exist
Abs == [ running   |-> Val(running),   \* getters of the real configuration
         effective |-> Val(running),   \* composeEffectiveConfig() now, decoded
         effSent   |-> Val(effSent),
         status    |-> status,
         sent      |-> sent,
         reload    |-> reload,      \* result of Config.Reload + whether the reload callbacks ran
         healthUp  |-> healthUp,
         offered   |-> offered,
         delivered |-> delivered,
         inflight  |-> (phase = "inflight"),
         liveSet   |-> live,
         stopped   |-> stopped ]
St == [ running |-> running, lastRecv |-> lastRecv, status |-> status, sent |-> sent, reload |-> reload, effSent |-> effSent,
        alive |-> alive, ready |-> ready, lastHealth |-> lastHealth, healthUp |-> healthUp,
        cum |-> cum, seen |-> seen, cur |-> cur, pend |-> pend, offered |-> offered, delivered |-> delivered,
        phase |-> phase, liveSet |-> live, stopped |-> stopped,
        catalogue |-> Catalogue, feeds |-> Feeds, disk |-> [c |-> DiskC, r |-> DiskR] ]
Dump == PrintT(ToJson([fs |-> St, fa |-> act.name, act |-> act', ts |-> St', fabs |-> Abs, tabs |-> Abs']))
View == <<running, lastRecv, status, sent, reload, effSent, alive, ready, lastHealth, healthUp,
          cum, seen, cur, pend, offered, delivered, phase, live, stopped>>
=============================================================================
