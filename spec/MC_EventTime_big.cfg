SPECIFICATION Spec
CONSTANTS
  Faithful = TRUE
  Secs <- SecsAll
  Digits <- DigitsAll
  Zones <- ZonesAll
INVARIANTS TypeOK InexactOnlyAsDeviation RefusedOnlyWhereOpen PadSane LossFree
ACTION_CONSTRAINT Dump
VIEW View
CHECK_DEADLOCK FALSE
