SPECIFICATION SpecP
CONSTANTS
  Traces = {"a", "b"}
  KeepTraces = {}
  DropTraces = {"a", "b"}
  Rates = {1}
  Reasons = {"ra"}
  Coupled = TRUE
  KeptSizes = {1}
  ResizeKept = {}
  DropSizes = {3}
  MaxQueue = 1
  MaxCount = 0
  MaxTotal = 8
  TrackPromise = FALSE
INVARIANTS TypeOKP PromiseShape
ACTION_CONSTRAINT DumpP
VIEW ViewP
