------------------------------ MODULE Sharding ------------------------------
(***************************************************************************)
(* Trace ownership in a stably configured cluster (property C17):          *)
(* sharder/deterministic.go loadPeerList + WhichShard and the forwarding   *)
(* branch of route/route.go processEvent on both listeners.                *)
(*                                                                         *)
(* A node's peer source (internal/peer: FilePeers, RedisPubsubPeers) hands *)
(* it a LIST of addresses and calls it back whenever the list changes.     *)
(* Such a list is a MULTISET: it may name one address more than once       *)
(* (Redis: one entry per instance id, so a peer that restarted on its old  *)
(* address is listed twice until the old entry expires; file: the node's   *)
(* own address is appended to the configured list), it may name addresses  *)
(* of peers that are gone, and it arrives in any order.  Every node has    *)
(* its own membership history: the list it started on (Start) and the      *)
(* lists it was handed afterwards (Learn).                                 *)
(*                                                                         *)
(* The model of the real algorithm: a node's partition table is built from *)
(* the list it currently sees, and from nothing else (built[n] = cur[n]).  *)
(* Ownership is an uninterpreted function of the table (the hash is not    *)
(* modelled): some address of the table's list, fixed the first time it is *)
(* needed.  What the property promises: nodes that see the same list (in   *)
(* any order) name the same owner and the owner is on the list, whatever   *)
(* lists they saw before; once every node of the live set S sees the same  *)
(* list M naming exactly S, a span entering any node reaches the owner's   *)
(* collector after at most one forwarding hop and is never forwarded to    *)
(* the node it is already on.                                              *)
(*                                                                         *)
(* The nodes' sharders share no state, so the membership phase is played   *)
(* one node at a time (in address order): the next node starts when the    *)
(* previous one has settled on M.  Spans are routed once all have.         *)
(***************************************************************************)
EXTENDS Integers, Sequences, FiniteSets, TLC, Json

CONSTANTS AddrSeq,   \* the universe of peer addresses (strings), as a sequence in sorted order
          Live,      \* the addresses that may be live nodes; the others only ever appear as stale list entries
          MaxMult,   \* a live address may be listed up to MaxMult times (a stale one once)
          MaxDup,    \* at most MaxDup surplus entries per list
          Views,     \* orders in which a list may be handed over: subset of {"sorted", "reversed", "rotated"}
          Traces,    \* trace ids (strings)
          MaxSends,
          Rebuild    \* "always": the real algorithm.  "onSetChange" / "onLengthChange": tables that survive a list change
                     \* the detector does not see; never used for the graph, only to check that the invariants bite

\* universes for the cfgs (a cfg cannot spell a sequence): AddrSeq <- Universe3 / Universe4
Universe3 == <<"a:1", "b:1", "c:1">>
Universe4 == <<"a:1", "b:1", "c:1", "d:1">>

U == {AddrSeq[i] : i \in 1..Len(AddrSeq)}
Pos(a) == CHOOSE i \in 1..Len(AddrSeq) : AddrSeq[i] = a
RECURSIVE SumTo(_, _)
SumTo(m, i) == IF i = 0 THEN 0 ELSE m[AddrSeq[i]] + SumTo(m, i - 1)
Size(m) == SumTo(m, Len(AddrSeq))
Supp(m) == {a \in U : m[a] > 0}
Empty == [a \in U |-> 0]                                  \* "not started yet"
\* the peer lists of the model: multisets of addresses, as [address -> multiplicity]
MSets == {m \in [U -> 0..MaxMult] : /\ Size(m) >= 1
                                    /\ Size(m) - Cardinality(Supp(m)) <= MaxDup
                                    /\ \A a \in U \ Live : m[a] <= 1}
ListsFor(n) == {m \in MSets : m[n] > 0}                   \* both peer sources always list the node itself

ASSUME PrintT(ToJson([params |-> [universe |-> AddrSeq]]))

VARIABLES S,        \* the live set of this run
          M,        \* the list of the stably configured cluster: Supp(M) = S
          cur,      \* [node -> the list its peer source currently returns]  (Empty: not started)
          built,    \* [node -> the list its partition table was built from]
          landed,   \* [trace -> set of nodes whose collector received a span of it]
          count,    \* [trace -> spans collected]
          hops,     \* maximum forwarding hops seen
          selfFwd,  \* forwards addressed to the forwarding node itself
          outside,  \* deliveries to an address outside S
          sends,
          own,      \* the hash, resolved lazily: set of [tab, t, o] - a table built from list tab gives trace t to o
          act

vars == <<S, M, cur, built, landed, count, hops, selfFwd, outside, sends, own, act>>

Started == {n \in S : cur[n] # Empty}
Settled == \A n \in Started : cur[n] = M
\* the stably configured cluster of the property: every node is up and sees the same list, which names exactly the live nodes
Stable == Started = S /\ \A n, m \in S : cur[n] = cur[m] /\ Supp(cur[n]) = S
NextNode == CHOOSE n \in S \ Started : \A m \in S \ Started : Pos(n) <= Pos(m)
LastNode == CHOOSE n \in Started : \A m \in Started : Pos(m) <= Pos(n)

Init == /\ S \in (SUBSET Live) \ {{}}
        /\ M \in {m \in MSets : Supp(m) = S}
        /\ cur = [n \in S |-> Empty]
        /\ built = [n \in S |-> Empty]
        /\ landed = [t \in Traces |-> {}]
        /\ count = [t \in Traces |-> 0]
        /\ hops = 0 /\ selfFwd = 0 /\ outside = 0 /\ sends = 0
        /\ own = {}
        /\ act = [name |-> "Init"]

\* loadPeerList: what the table of a node is built from after it was handed list m
Table(old, m) ==
  CASE Rebuild = "always" -> m
    [] Rebuild = "onSetChange" -> IF old # Empty /\ Supp(old) = Supp(m) THEN old ELSE m
    [] Rebuild = "onLengthChange" -> IF old # Empty /\ Size(old) = Size(m) THEN old ELSE m

\* node n's peer source returns list m, in order v: at start-up (Start) or through the change callback (Learn)
Deliver(n, m, v) ==
  /\ sends = 0
  /\ m[n] > 0                     \* m \in ListsFor(n)
  /\ \/ /\ Started # S /\ Settled /\ n = NextNode
        /\ act' = [name |-> "Start", n |-> n, list |-> m, view |-> v]
     \/ /\ Started # {} /\ n = LastNode
        /\ act' = [name |-> "Learn", n |-> n, list |-> m, view |-> v]
  /\ cur' = [cur EXCEPT ![n] = m]
  /\ built' = [built EXCEPT ![n] = Table(@, m)]
  /\ UNCHANGED <<S, M, landed, count, hops, selfFwd, outside, sends, own>>

\* where a span of trace t ends up when it is at node `at` after h hops, every node routing by its own table
\* (f: the owner each table names for t); the harness carries a forwarded span for at most 4 hops
RECURSIVE Path(_, _, _)
Path(f, at, h) ==
  LET o == f[built[at]] IN
  IF o = at THEN [land |-> {at}, hops |-> h, out |-> 0]
  ELSE IF o \notin S THEN [land |-> {}, hops |-> h + 1, out |-> 1]
  ELSE IF h + 1 >= 4 THEN [land |-> {}, hops |-> h + 1, out |-> 0]
  ELSE Path(f, o, h + 1)

\* a span of trace t enters node n on its incoming listener
Send(n, t) ==
  /\ Stable
  /\ sends < MaxSends
  /\ sends' = sends + 1
  /\ LET Tb == {built[k] : k \in S} IN
     \E f \in [Tb -> U] :
       /\ \A k \in Tb : f[k] \in Supp(k)
       /\ \A r \in own : (r.t = t /\ r.tab \in Tb) => f[r.tab] = r.o
       /\ own' = own \cup {[tab |-> k, t |-> t, o |-> f[k]] : k \in Tb}
       /\ LET p == Path(f, n, 0) IN
          /\ landed' = [landed EXCEPT ![t] = @ \cup p.land]
          /\ count' = [count EXCEPT ![t] = @ + Cardinality(p.land)]
          /\ hops' = IF p.hops > hops THEN p.hops ELSE hops
          /\ outside' = outside + p.out
  /\ act' = [name |-> "Send", n |-> n, t |-> t]
  /\ UNCHANGED <<S, M, cur, built, selfFwd>>

Next == \/ \E n \in S, m \in MSets, v \in Views : Deliver(n, m, v)
        \/ \E n \in S, t \in Traces : Send(n, t)
Spec == Init /\ [][Next]_vars

TypeOK == /\ S \subseteq Live /\ M \in MSets /\ Supp(M) = S
          /\ cur \in [S -> MSets \cup {Empty}] /\ built \in [S -> MSets \cup {Empty}]
          /\ sends \in 0..MaxSends

\* C17 --------------------------------------------------------------------
\* ownership is a function of the list a node sees NOW: its table is the one a node started on that list builds
Stale == {n \in Started : built[n] # cur[n]}
TableIsCurrent == Stale = {}
\* ... hence nodes that see the same list name the same owner, whatever they saw before, and the owner is on the list
SameListSameOwner == \A n, m \in Started : cur[n] = cur[m] => built[n] = built[m]
OwnerListed == /\ \A n \in Started : Supp(built[n]) \subseteq Supp(cur[n])
               /\ \A r \in own : r.o \in Supp(r.tab)
OneOwner == \A t \in Traces : Cardinality(landed[t]) <= 1 /\ landed[t] \subseteq S
AtMostOneHop == hops <= 1
NoSelfForward == selfFwd = 0 /\ outside = 0

\* what the harness can observe without knowing the hash
Abs == [ cur |-> cur,                   \* what each node's Peers.GetPeers() returns, as multiplicities
         stable |-> Stable,
         staleSet |-> Stale,            \* nodes whose sharder names, for some probe trace id, another owner than a sharder started on the node's current list
         strayedSet |-> {n \in Started : ~(Supp(built[n]) \subseteq Supp(cur[n]))},   \* nodes naming an owner that is not on their current list
         agree |-> SameListSameOwner,   \* nodes with the same current list name the same owner for every probe trace id
         landedCount |-> [t \in Traces |-> Cardinality(landed[t])],
         count |-> count, hops |-> hops, selfFwd |-> selfFwd, outside |-> outside ]
Hid == [ S |-> S, M |-> M, built |-> built, sends |-> sends, own |-> own ]
Dump == PrintT(ToJson([fa |-> act.name, act |-> act', fabs |-> Abs, fhid |-> Hid, tabs |-> Abs', thid |-> Hid']))
View == <<S, M, cur, built, landed, count, hops, selfFwd, outside, sends, own>>
=============================================================================
