"""C32 TTL sets and maps agree on membership at every instant."""

PROP = dict(
    level="model_checking",
    technique="TLA+ spec TTL.tla model-checked by TLC; every generated transition replayed into the real SetWithTTL/MapWithTTL and all observers compared (spec->code transition tour)",
    design_ref="DESIGN.md §5 C32",
    level_text="TLC explores every add/remove/query/clock-advance order for 2 items within the horizon, including the exact expiry instant, and checks PresentForTTL/ObserversAgree/NoResurrection on the model; each generated transition is then executed on the real generics.SetWithTTL and MapWithTTL under a fake clock and every query of both objects must agree with the model (either boundary convention is accepted as long as all queries agree).",
    level_note="Exhaustive only within the bound (2 items, TTL 2 ticks, horizon 5-8 ticks); concurrency of the two objects' own mutexes is not explored; the fake clock (clockwork) is trusted.",
    assumptions=["clockwork.FakeClock is faithful", "bounded: 2 items, TTL=2 ticks"],
    stages=[dict(kind="walk", module="TTL", pkg="generics", test="TestVerifTTL", harness=["generics/ttl_test.go"],
                 alternatives=[dict(name="closed", cfg={"quick": "MC_TTL_closed.cfg", "thorough": "MC_TTL_closed_big.cfg"}),
                               dict(name="open", cfg={"quick": "MC_TTL_open.cfg", "thorough": "MC_TTL_open_big.cfg"})],
                 budget={"quick": 30, "thorough": 240}, random={"quick": 12, "thorough": 90}, blind=0.35, maxwalk=40),
            dict(kind="trace", name="TraceTTL", module="TraceTTL", cfg=["TraceTTL.cfg", "TraceTTL_open.cfg"], pkg="generics", test="TestVerifTTLTrace",
                 harness=["generics/ttltrace_test.go"])],
)

# coverage extension CX2 (lib/ext/CX2.py, DESIGN.md section 0.5): the other members of package generics (Set, Fanout*). No listed property
# speaks of them, so these stages are ADVISORY: they run in the thorough tier, their divergences are logged and kept in the evidence, but
# they never produce a VIOLATION of C32.
import extstages  # noqa: E402
PROP["stages"] += extstages.pick("CX2", ["GenSet", "Fanout", "Fanout-ideal", "FanoutConc", "FanoutConc-ceil", "TraceFanoutConc-race"], advisory=True, tiers=("thorough",))
# coverage extension CX5 (lib/ext/CX5.py, spec/ind/): UNBOUNDED safety of TTL.tla - an inductive invariant for a typed companion module, discharged
# by TLAPS (arbitrary constants) and Apalache (symbolic integers), with a TLC check on the bounded models that the companion's transition relation
# and properties are this module's. A proof obligation that fails or times out is a weak invariant or a tool limit, never an observation of the
# code: the stages are advisory (logged, kept in the evidence, never decide).
PROP["stages"] += extstages.pick("CX5", ["TTL-ref", "TTL-tlaps", "TTL-apalache"], advisory=True, tiers=("thorough",))
