SPECIFICATION Spec
CONSTANTS
  AllFormats = TRUE
  Routers = {"incoming"}
INVARIANTS TypeOK DataOnlyWithToken ErrorOtherwise InaccessibleWithoutToken Uniform UsableWithToken
ACTION_CONSTRAINT Dump
VIEW View
CHECK_DEADLOCK FALSE
