SPECIFICATION Spec
CONSTANTS
  Ids = {"a", "b", "c", "d"}
  Ghost = "zz"
  Vers = {1}
  Times = {1, 2, 3}
  Nows = {1, 2, 3}
  Maxes = {0, 1, 2, 3}
  NegMax = FALSE
  Rejects = {{"a", "c"}}
  RemoveSets = {{"a"}, {"b", "d"}}
INVARIANTS TypeOK GetReturnsLive QueueMatchesMap TakenAreGone
PROPERTIES TakeContract OnlyNamedLeave SetExact
ACTION_CONSTRAINT Dump
VIEW View
