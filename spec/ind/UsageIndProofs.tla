--------------------------- MODULE UsageIndProofs ---------------------------
(* TLAPS proofs about UsageInd for ARBITRARY constants satisfying ConstOK  *)
(* (any set Signals, any MaxCum >= 0, any Attempts >= 1, any steps >= 0).  *)
(*   tlapm --threads 16 UsageIndProofs.tla                                 *)
EXTENDS UsageInd, TLAPS

ASSUME Const == ConstOK

USE DEF Zero, None, Empty, V, Phases, Results

\* IndInv split into its global part and its per-signal part (helps the SMT backends)
TypePart ==
  /\ cum \in [Signals -> Int] /\ seen \in [Signals -> Int]
  /\ cur \in [Signals -> Int] /\ pend \in [Signals -> Int]
  /\ rep \in [Signals -> Int] /\ delivered \in [Signals -> Int]
  /\ phase \in Phases /\ res \in Results
  /\ att \in Int /\ 0 <= att /\ att <= Attempts
  /\ (phase = "idle") = (att = 0)
  /\ phase = "waitprev" => att < Attempts
PerSig(s) ==
  /\ 0 <= seen[s] /\ seen[s] <= cum[s] /\ cum[s] <= MaxCum
  /\ rep[s] >= 0 /\ cur[s] >= None /\ pend[s] >= None /\ delivered[s] >= 0
  /\ delivered[s] + V(pend[s]) + V(cur[s]) = seen[s]
  /\ phase # "idle" => rep[s] = V(pend[s])
  /\ phase = "idle" => rep[s] = 0

LEMMA Split == IndInv <=> (TypePart /\ \A s \in Signals : PerSig(s))
  BY DEF IndInv, TypePart, PerSig
LEMMA SplitP == IndInv' <=> (TypePart' /\ \A s \in Signals : PerSig(s)')
  BY DEF IndInv, TypePart, PerSig

THEOREM InitInd == Init => IndInv
  BY Const DEF Init, IndInv, ConstOK

LEMMA StepIndNext == IndInv /\ Next => IndInv'
<1> SUFFICES ASSUME IndInv, Next PROVE IndInv'
  OBVIOUS
<1>1 ASSUME NEW s \in Signals, NEW d \in Steps, Grow(s, d) PROVE IndInv'
  <2>0 TypePart /\ \A t \in Signals : PerSig(t)  BY Split
  <2>1 TypePart'  BY <1>1, <2>0, Const DEF TypePart, Grow, ConstOK
  <2>2 ASSUME NEW t \in Signals PROVE PerSig(t)'
    <3>1 CASE t = s  BY <1>1, <2>0, <3>1, Const DEF TypePart, PerSig, Grow, ConstOK
    <3>2 CASE t # s  BY <1>1, <2>0, <3>2, Const DEF TypePart, PerSig, Grow, ConstOK
    <3> QED BY <3>1, <3>2
  <2> QED BY <2>1, <2>2, SplitP
<1>2 ASSUME NEW s \in Signals, Sample(s) PROVE IndInv'
  <2>1 CASE cum[s] = 0
    BY <1>2, <2>1, Const DEF IndInv, Sample, ConstOK
  <2>2 CASE cum[s] # 0
    <3>0 TypePart /\ \A t \in Signals : PerSig(t)  BY Split
    <3>1 TypePart'  BY <1>2, <2>2, <3>0 DEF TypePart, Sample
    <3>2 ASSUME NEW t \in Signals PROVE PerSig(t)'
      <4>1 CASE t = s  BY <1>2, <2>2, <3>0, <4>1, Const DEF TypePart, PerSig, Sample, ConstOK
      <4>2 CASE t # s  BY <1>2, <2>2, <3>0, <4>2, Const DEF TypePart, PerSig, Sample, ConstOK
      <4> QED BY <4>1, <4>2
    <3> QED BY <3>1, <3>2, SplitP
  <2> QED BY <2>1, <2>2
<1>3 ASSUME NewReport PROVE IndInv'
  <2>1 CASE NothingToReport /\ res' = "nodata" /\ UNCHANGED <<cur, pend, rep, phase, att>>
    BY <1>3, <2>1, Const DEF IndInv, NewReport, ConstOK
  <2>2 CASE /\ ~NothingToReport
            /\ rep' = [s \in Signals |-> V(cur[s]) + V(pend[s])]
            /\ pend' = IF Overwrite THEN cur
                       ELSE [s \in Signals |-> IF cur[s] = None THEN pend[s] ELSE V(pend[s]) + V(cur[s])]
            /\ cur' = Empty
            /\ phase' = "offered" /\ att' = 1
            /\ res' = "none"
    <3>0 TypePart /\ \A t \in Signals : PerSig(t)  BY Split
    <3>1 UNCHANGED <<cum, seen, delivered>>  BY <1>3 DEF NewReport
    <3>2 TypePart'  BY <2>2, <3>0, <3>1, Const DEF TypePart, ConstOK
    <3>3 ASSUME NEW t \in Signals PROVE PerSig(t)'
      BY <2>2, <3>0, <3>1, Const DEF TypePart, PerSig, ConstOK
    <3> QED BY <3>2, <3>3, SplitP
  <2> QED BY <1>3, <2>1, <2>2 DEF NewReport
<1>4 ASSUME RespondFail PROVE IndInv'
  BY <1>4, Const DEF IndInv, RespondFail, Abandon, ConstOK
<1>5 ASSUME RespondPending PROVE IndInv'
  <2>1 CASE att < Attempts
    BY <1>5, <2>1, Const DEF IndInv, RespondPending, Abandon, ConstOK
  <2>2 CASE ~(att < Attempts)
    BY <1>5, <2>2, Const DEF IndInv, RespondPending, Abandon, ConstOK
  <2> QED BY <2>1, <2>2
<1>6 ASSUME PrevSent PROVE IndInv'
  BY <1>6, Const DEF IndInv, PrevSent, ConstOK
<1>7 ASSUME Accept PROVE IndInv'
  BY <1>7, Const DEF IndInv, Accept, ConstOK
<1>8 ASSUME Ack PROVE IndInv'
  BY <1>8, Const DEF IndInv, Ack, ConstOK
<1> QED BY <1>1, <1>2, <1>3, <1>4, <1>5, <1>6, <1>7, <1>8 DEF Next

THEOREM StepInd == IndInv /\ [Next]_vars => IndInv'
<1>1 IndInv /\ UNCHANGED vars => IndInv'
  BY DEF IndInv, vars
<1> QED BY <1>1, StepIndNext

THEOREM IndSafe == IndInv => Safety
<1> SUFFICES ASSUME IndInv PROVE Safety
  OBVIOUS
<1>1 TypeOK  BY Const DEF IndInv, TypeOK, ConstOK
<1>2 Conservation  BY Const DEF IndInv, Conservation, ConstOK
<1>3 NonNegative  BY Const DEF IndInv, NonNegative, ConstOK
<1>4 NoDoubleCount  BY Const DEF IndInv, NoDoubleCount, ConstOK
<1>5 InFlightIsPending  BY Const DEF IndInv, InFlightIsPending, ConstOK
<1> QED BY <1>1, <1>2, <1>3, <1>4, <1>5 DEF Safety

ActProps == /\ DeliveredMonotoneStep /\ OnlyAckDeliversStep
            /\ OnlyAckClearsPendingStep /\ PendingTwiceKeepsStep

THEOREM StepProps == IndInv /\ Next => ActProps
<1> SUFFICES ASSUME IndInv, Next PROVE ActProps
  OBVIOUS
<1> USE DEF ActProps, DeliveredMonotoneStep, OnlyAckDeliversStep, OnlyAckClearsPendingStep, PendingTwiceKeepsStep
<1>1 ASSUME NEW s \in Signals, NEW d \in Steps, Grow(s, d) PROVE ActProps
  BY <1>1, Const DEF IndInv, Grow, ConstOK, RespondPending, Abandon
<1>2 ASSUME NEW s \in Signals, Sample(s) PROVE ActProps
  BY <1>2, Const DEF IndInv, Sample, ConstOK, RespondPending, Abandon
<1>3 ASSUME NewReport PROVE ActProps
  BY <1>3, Const DEF IndInv, NewReport, ConstOK, RespondPending, Abandon
<1>4 ASSUME RespondFail PROVE ActProps
  BY <1>4, Const DEF IndInv, RespondFail, Abandon, ConstOK, RespondPending
<1>5 ASSUME RespondPending PROVE ActProps
  BY <1>5, Const DEF IndInv, RespondPending, Abandon, ConstOK
<1>6 ASSUME PrevSent PROVE ActProps
  BY <1>6, Const DEF IndInv, PrevSent, ConstOK, RespondPending, Abandon
<1>7 ASSUME Accept PROVE ActProps
  BY <1>7, Const DEF IndInv, Accept, ConstOK, RespondPending, Abandon
<1>8 ASSUME Ack PROVE ActProps
  <2>0 TypePart /\ \A t \in Signals : PerSig(t)  BY Split
  <2>1 \A t \in Signals : delivered'[t] >= delivered[t]
    BY <1>8, <2>0 DEF Ack, TypePart, PerSig
  <2>2 phase = "accepted"  BY <1>8 DEF Ack
  <2> QED BY <1>8, <2>1, <2>2 DEF RespondPending
<1> QED BY <1>1, <1>2, <1>3, <1>4, <1>5, <1>6, <1>7, <1>8 DEF Next

THEOREM Unbounded == Spec => []Safety
<1>1 Init => IndInv  BY InitInd
<1>2 IndInv /\ [Next]_vars => IndInv'  BY StepInd
<1>3 IndInv => Safety  BY IndSafe
<1> QED BY <1>1, <1>2, <1>3, PTL DEF Spec
=============================================================================
