"""C20 Forwarded events carry exactly the client's fields."""

PROP = dict(
    level="model_checking",
    technique="TLA+ spec Payload.tla (types.Payload as an object: client field set, Refinery-added fields, memoizedFields/missingFields/hasExtractedMetadata bookkeeping; "
              "actions Construct per ingestion path, ExtractMetadata, MemoizeFields, Set, Get/Exists/All/MarshalMsg/MarshalJSON) model-checked by TLC; every generated transition "
              "replayed into a real types.Payload and, after every step, the bytes of Payload.MarshalMsg (appended to a buffer the way transmit.batchedEvent.MarshalMsg frames them) "
              "decoded by an independent msgpack decoder and compared with the model, together with Get/Exists, All() and MarshalJSON (read by encoding/json). "
              "Second spec WireFields.tla: the fields ON THE WIRE of every span of a trace while it travels ingest -> collector buffer -> makeDecision (MemoizeFields + the real sampler's reads) -> "
              "send/sendTraces decorations -> Transmission, and late spans; wire content derived from the payload bookkeeping (memoized / serialized / metadata) so that a read leaving anything behind is a "
              "violation of the invariants TLC checks; every transition replayed on a real InMemCollector + real SamplerFactory/samplers under a fake clock, observing Payload.MarshalMsg of the live buffered "
              "span, of every span inside the collector's decision hook (after the sampler, before any decoration) and of what Transmission.EnqueueSpan receives",
    design_ref="DESIGN.md §5 C20",
    level_text="TLC enumerates, for each ingestion path (JSON event map via jsoniter+NewPayload, JSON batch via fastjson->AppendJSONValue->UnmarshalMsgpFirstEvent, msgpack batch/peer via "
               "UnmarshalMsgpFirstEvent with the sampler's key fields, OTLP UnmarshalMsgpEventMetadataOnly, Payload.UnmarshalMsg), every subset of a 6-name universe (a sampler key field, a nested-map "
               "key field, a trace-ID field, a bin-typed key, a reserved meta.* name, an additional attribute) as the client's fields and every sequence of up to 3 mutating "
               "calls after construction (ExtractMetadata, MemoizeFields on several key sets, Set of meta.* / attribute / client-named fields) interleaved with the queries, and checks on the model that the forwarded "
               "map is exactly client fields + added fields (reserved names sent by the client excepted) and that the missing/memoized bookkeeping never hides a field. On the real Payload the "
               "harness attaches typed values from a pool - the abstract fields get one value each (rotated by seed), and every event additionally carries ALL pool values as 16 constant sampler key fields (memoized at construction on the key-field paths, by MemoizeFields on the others, raw before that), so each wire type goes through pass-through and memoize+re-encode in every walk - (int64 incl. MinInt64 and int64-format small ints, uint64 incl. MaxUint64, float32, float64 incl. -Inf, bool, empty/unicode/long strings, "
               "bin, nil, arrays, nested maps with a timestamp inside, msgpack timestamp ext -1; JSON: integers beyond 2^53, exponents, -0, escapes, nested), and after every step requires: no "
               "duplicate or foreign key, every value of the same msgpack type family and bits as sent (JSON: the float64/string/bool/null/nested value encoding/json reads), bytes already "
               "in the output buffer untouched, and Get/Exists/All/MarshalJSON in agreement with the marshalled bytes. "
               "Decision pipeline (WireFields.tla): TLC enumerates one trace of a root and a child event (either order, on time or late, decided with or without its root) x field shapes over "
               "{svc, http (nested map), http.response.status (literal dotted name), tags (array), dur} x 8 real sampler configurations (RulesBasedSampler with CheckNestedFields on/off, conditions naming "
               "nested paths incl. one that never resolves and one named by several rules, root.-prefixed names and Fields lists, span scope, downstream Dynamic/EMADynamic samplers; DynamicSampler keyed on "
               "a scalar, a nested map and root.-only fields; TotalThroughput; Deterministic) x decoration profiles (DryRun, AddRuleReasonToTrace, AddCountsToRoot, AddSpanCountToRoot, "
               "AddHostMetadataToTrace, AdditionalAttributes) x ingest path (msgpack batch element with key-field memoization, Payload.UnmarshalMsgpack, JSON event map) with the verdict and the presence of "
               "a sample key left to the environment, and checks: non-meta names on the wire = the client's at every moment (C20ExactlyClient), a buffered span is untouched, Decide changes no span's wire "
               "content (C20ReadsArePure, action property), only additions the configuration documents (C20OnlyDocumented), nothing ever leaves the wire (C20Monotone). Replayed on the real collector: "
               "after every step every span's marshalled bytes are decoded independently; a client field counts only with exactly the client's value (type family and bits; 16 pass-through fields of every "
               "wire type ride along), anything else is reported as ALTERED/LOST/DUP/FOREIGN, which no specification state contains; a span changed after EnqueueSpan is reported too.",
    level_note="Structure is bounded-exhaustive, values are sampled from the pool (rotated by seed and variant); integers are compared by value (msgpack has one integer family), floats by "
               "width and bits. The input bytes are overwritten after construction (the code must have copied what it keeps). route.batchedEvents and transmit.batchedEvent framing are re-enacted "
               "in package types (same calls: AppendJSONValue + UnmarshalMsgpFirstEvent on a batch remainder; MarshalMsg appended to a prefilled buffer), not driven through HTTP. "
               "Reserved metadata names sent by the client are masked (the statement's exception). The single-event msgpack route (vmihailenco decoder into a map) is not covered. "
               "WireFields: the verdict is the real sampler's (not predicted by the model); values of the meta.* additions are not compared (C04-C06 do), only their names; the walks share one collector "
               "(its Start allocates a 100,000-slot queue): each walk uses a fresh trace id and installs its configuration through the collector's reload path; stress-relief and ejection paths, span events/links "
               "and msgpack timestamps are not in this model (Payload stage / C05 / C16). "
               "Known deviation ts-reencoded (a msgpack timestamp in a memoized sampler key field leaves as tinylib's private extension 5) is reported as KNOWN-FINDING.",
    assumptions=["bounded: 6 names, construction + <=3 mutating calls (model only: 5), values from a pool of 16 msgpack / 16 JSON values + nested map + timestamp",
                 "application-defined msgpack extension types out of scope (statement)",
                 "WireFields bounded: one trace, 2 events (3 in the model-checking-only configuration), 5 client names + 4 path names, 8 sampler configurations, 4 (quick) / 8 (thorough) / 16 (model checking only) decoration profiles"],
    stages=[
        dict(kind="walk", name="Payload", module="Payload", pkg="types", test="TestVerifC20Payload", harness=["types/c20_payload_test.go"],
             cfg={"quick": "MC_Payload.cfg", "thorough": "MC_Payload_big.cfg"}, budget={"quick": 40, "thorough": 240}, maxwalk=16),
        dict(kind="tlc", name="PayloadIdeal", module="Payload", cfg={"quick": None, "thorough": "MC_Payload_ideal.cfg"}, workers=8),
        dict(kind="walk", name="WireFieldsQ", module="MCWireFieldsQ", pkg="collect", test="TestVerifC20Wire", harness=["collect/c20_wire_test.go"],
             cfg="MC_WireFields_q.cfg", budget=20, maxwalk=8, tiers=("quick",)),
        dict(kind="walk", name="WireFieldsT", module="MCWireFieldsT", pkg="collect", test="TestVerifC20Wire", harness=["collect/c20_wire_test.go"],
             cfg="MC_WireFields_t.cfg", budget=150, maxwalk=8, tiers=("thorough",)),
        dict(kind="tlc", name="WireFieldsMC", module="MCWireFieldsMC", cfg={"quick": None, "thorough": "MC_WireFields_mc.cfg"}, workers=8),
    ],
)
