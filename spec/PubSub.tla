------------------------------- MODULE PubSub -------------------------------
(***************************************************************************)
(* pubsub.LocalPubSub (pubsub/pubsub_local.go, interface pubsub/pubsub.go) *)
(* and internal/configwatcher.ConfigWatcher (watcher.go)  - extension CX1. *)
(*                                                                         *)
(* THE BUS.  Real state: ps.topics (topic -> slice of subscriptions, in    *)
(* subscription order; `listed`), each subscription's callback pointer     *)
(* (`cb`: non-nil?), the goroutines `go cb(ctx, msg)` that Publish has     *)
(* spawned and whose callback has not finished (`pending`), and the two    *)
(* counters the bus reports (local_pubsub_published / _received).          *)
(* Two granularities share these variables:                                *)
(*   Step = FALSE  one action per PUBLIC CALL (Subscribe, Publish,         *)
(*                 Subscription.Close, Close/Stop) plus Run(m, s): the     *)
(*                 callback of message m for subscription s completes.     *)
(*                 This is the graph the walker replays: the harness runs  *)
(*                 the real bus inside a testing/synctest bubble, every    *)
(*                 callback parks on a gate as soon as it is entered and   *)
(*                 Run releases it, so `pending` is observable.            *)
(*   Step = TRUE   one action per CRITICAL SECTION: Publish is PubCall,    *)
(*                 PubSnap (ps.mut: count metrics, copy the slice),        *)
(*                 PubVisit (sub.mut.RLock: read cb, spawn), PubRet;       *)
(*                 Subscription.Close is CloseSnap (ps.mut.RLock) then     *)
(*                 CloseNil (sub.mut.Lock).  Run(m, s) is then the instant *)
(*                 the spawned goroutine enters the callback.  TLC checks  *)
(*                 the concurrent meaning on this model and validates logs *)
(*                 of real concurrent runs against it (TracePubSub.tla).   *)
(*                                                                         *)
(* What a user relies on (interface comments + the brief), as invariants:  *)
(*   MustDeliver   a message whose Publish was called after Subscribe(s)   *)
(*                 returned and returned before Close(s)/Close() was       *)
(*                 called is handed to s (pending or delivered);           *)
(*   AtMostOnce    never twice;                                            *)
(*   NoForbidden   never to a subscription of another topic, to one whose  *)
(*                 Close (or the bus's Close/Stop) had returned before the *)
(*                 Publish was called, or to one made after the Publish    *)
(*                 returned;                                               *)
(*   NoCallbackAfterClose (ideal only) no callback is ENTERED after        *)
(*                 Close(s) returned ("the callback will no longer be      *)
(*                 called").  LocalPubSub reads cb and then spawns a       *)
(*                 goroutine, so the code can enter a callback after       *)
(*                 Close returned: deviation "callback-after-close"        *)
(*                 (Faithful = TRUE).  The ideal design drains: Close      *)
(*                 does not return while a delivery to s is in flight.     *)
(* Left open (nothing is promised): delivery ORDER (every delivery is its  *)
(* own goroutine - not even one publisher's messages are ordered), what a  *)
(* Subscribe after Close/Stop yields (constant Revive: the code simply     *)
(* works again; the alternative is a dead subscription), the error value   *)
(* of a Publish after Stop, use before Start.                              *)
(* The received counter counts len(ps.topics[topic]) - closed              *)
(* subscriptions stay in the slice until the bus is closed, so it          *)
(* over-counts: deviation "received-counts-closed".                        *)
(*                                                                         *)
(* THE WATCHER (Watcher = TRUE; Step = FALSE only).  One ConfigWatcher on  *)
(* the real bus, topic "cfg_update", subscription slot "w".  Time is the   *)
(* bubble's virtual clock in units of ConfigReloadInterval I: the model    *)
(* instant n is I/2 + n*I after Start; the monitor's ticker (period I      *)
(* jittered by +-10%) therefore fires exactly once between two model       *)
(* instants for n <= 4.  Time stamps (message payloads, cw.msgTime) are    *)
(* in half units: 2n+1 = the model instant n, 2j = the j-th tick.          *)
(*   Reload of the (mock) config notices a pending file change and calls   *)
(*   ReloadCallback, which publishes the current time unless a message     *)
(*   stamped less than I ago has been received (storm avoidance);          *)
(*   SubscriptionListener parses the stamp, stores it and reloads; a       *)
(*   malformed message is ignored; Stop closes the subscription and ends   *)
(*   the monitor; with OpAMP enabled Start does nothing; with interval 0   *)
(*   there is no monitor and nothing is suppressed.                        *)
(* Deviation "monitor-leak": monitor() creates cw.done itself, so a Stop   *)
(* that runs before the goroutine got going finds done == nil, closes      *)
(* nothing, and the monitor keeps reloading the configuration forever.     *)
(***************************************************************************)
EXTENDS Integers, Sequences, FiniteSets, TLC, Json

CONSTANTS Topics,     \* set of strings
          Subs,       \* subscription slots (strings); "w" is the watcher's when Watcher
          Pubs,       \* publisher processes of the step model
          MaxPub,     \* bound on the number of Publish calls
          MaxStops,   \* bound on the number of bus Close()/Stop() calls
          Hows,       \* which of the two spellings {"Close", "Stop"} the per-call model uses (Stop just calls Close)
          Step,       \* FALSE: per-call actions (walk)   TRUE: per-critical-section actions
          Faithful,   \* TRUE: include the deviations of the code as it is
          Revive,     \* TRUE: Subscribe after Close/Stop works (code); FALSE: it yields a dead subscription
          Metrics,    \* TRUE: the received counter is part of the projection (and of the deviation)
          ParkPlain,  \* TRUE: every callback parks until Run (FALSE: only the watcher's does; the harness' own
                      \*       subscriptions record the message at once - keeps the watcher graphs small)
          Watcher,    \* TRUE: a ConfigWatcher is attached
          CwModes,    \* subset of {"normal", "noint", "opamp"}: initial watcher configurations
          MaxNow      \* horizon in units of the reload interval (<= 4, see above)

VARIABLES
  listed,     \* [Topics -> Seq(Subs)]      ps.topics
  cb,         \* [Subs -> BOOLEAN]          sub.cb # nil
  stopic,     \* [Subs -> Topics \cup {"-"}] topic the slot was subscribed to ("-": slot unused)
  nstops,     \* number of Close()/Stop() calls on the bus so far
  npub,       \* number of Publish calls so far; message ids are 1..npub
  msgs,       \* Seq([t, pay]) topic and payload of each message
  pending,    \* set of [m, s]: spawned deliveries whose callback has not completed/been entered
  got,        \* [Subs -> Seq(id)] messages whose callback ran, in that order
  mRecv,      \* local_pubsub_received
  \* step model
  ppc, pm, psnap,   \* per publisher: "idle"|"called"|"visit", its message id, the rest of its snapshot
  cpc,              \* per slot: "idle" | "found" (Subscription.Close between its two critical sections)
  \* ghosts for the properties
  closeCalled, closeRet,   \* [Subs -> BOOLEAN] Close of the slot (or of the bus while it was listed) was called / has returned
  elig,       \* Seq(SUBSET Subs): subscriptions open when Publish(m) was called
  must,       \* Seq(SUBSET Subs): ... and still not being closed when it returned ({} until it returns)
  forbid,     \* Seq(SUBSET Subs): subscriptions that must never see m
  retd,       \* ids of the Publish calls that have returned
  \* watcher
  cwMode, cwRun, monitor, cwMsg, fileChanged, reloads, now,
  act

busvars == <<listed, cb, stopic, nstops, npub, msgs, pending, got, mRecv>>
stepvars == <<ppc, pm, psnap, cpc>>
ghostvars == <<closeCalled, closeRet, elig, must, forbid, retd>>
cwvars == <<cwMode, cwRun, monitor, cwMsg, fileChanged, reloads, now>>
vars == <<busvars, stepvars, ghostvars, cwvars, act>>

CfgTopic == "cfg_update"
W == "w"
Range(q) == {q[i] : i \in DOMAIN q}
Count(q, x) == Cardinality({i \in DOMAIN q : q[i] = x})
Ids == 1 .. npub
P(m, s) == [m |-> m, s |-> s]

Targets(t) == {s \in Range(listed[t]) : cb[s]}
\* what the received counter is increased by: the ideal count, and the code's when it differs
RecvCounts(t) ==
  IF ~Metrics THEN {[cnt |-> 0, dev |-> ""]}
  ELSE {[cnt |-> Cardinality(Targets(t)), dev |-> ""]}
       \cup (IF Faithful /\ Len(listed[t]) # Cardinality(Targets(t))
             THEN {[cnt |-> Len(listed[t]), dev |-> "received-counts-closed"]} ELSE {})
Lab(base, dev) == IF dev = "" THEN base ELSE [dev |-> dev] @@ base

Abs == [ pendingSet |-> {[m |-> x.m, s |-> x.s, pay |-> msgs[x.m].pay] : x \in pending},
         got        |-> got,
         mPub       |-> npub,           \* local_pubsub_published
         mRecv      |-> mRecv,
         blocked    |-> FALSE,          \* no call waits for a slow consumer
         reloads    |-> reloads,
         now        |-> now ]

Init ==
  /\ listed = [t \in Topics |-> <<>>]
  /\ cb = [s \in Subs |-> FALSE]
  /\ stopic = [s \in Subs |-> "-"]
  /\ nstops = 0 /\ npub = 0 /\ msgs = <<>> /\ pending = {} /\ got = [s \in Subs |-> <<>>] /\ mRecv = 0
  /\ ppc = [p \in Pubs |-> "idle"] /\ pm = [p \in Pubs |-> 0] /\ psnap = [p \in Pubs |-> <<>>]
  /\ cpc = [s \in Subs |-> "idle"]
  /\ closeCalled = [s \in Subs |-> FALSE] /\ closeRet = [s \in Subs |-> FALSE]
  /\ elig = <<>> /\ must = <<>> /\ forbid = <<>> /\ retd = {}
  /\ cwMode \in (IF Watcher THEN CwModes ELSE {"none"})
  /\ cwRun = (IF Watcher THEN "new" ELSE "none")
  /\ monitor = "none" /\ cwMsg = -1 /\ fileChanged = FALSE /\ reloads = 0 /\ now = 0
  /\ act = [name |-> "Init"]

(***************************************************************************)
(* Pieces shared by both granularities                                     *)
(***************************************************************************)
\* LocalPubSub.Subscribe: one critical section under ps.mut
SubscribeEff(s, t) ==
  /\ stopic[s] = "-"
  /\ stopic' = [stopic EXCEPT ![s] = t]
  /\ IF nstops > 0 /\ ~Revive
       THEN UNCHANGED <<listed, cb>>                       \* a dead subscription
       ELSE /\ listed' = [listed EXCEPT ![t] = Append(@, s)]
            /\ cb' = [cb EXCEPT ![s] = TRUE]
  \* it was made after these Publish calls returned: it must not see them
  /\ forbid' = [m \in DOMAIN forbid |-> IF m \in retd THEN forbid[m] \cup {s} ELSE forbid[m]]

\* LocalPubSub.Close (= Stop): one critical section under ps.mut, nesting every sub.mut
BusCloseEff ==
  /\ nstops < MaxStops
  /\ nstops' = nstops + 1
  /\ cb' = [s \in Subs |-> FALSE]
  /\ listed' = [t \in Topics |-> <<>>]
  /\ closeCalled' = [s \in Subs |-> closeCalled[s] \/ stopic[s] # "-"]
  /\ closeRet' = [s \in Subs |-> closeRet[s] \/ stopic[s] # "-"]

\* the whole of Publish(t, pay) when nothing can interleave; bp/bg are the pending set and the
\* delivered sequences it adds to
ParkedSubs == IF ParkPlain THEN Subs ELSE {W}
PublishEff(t, pay, cnt, bp, bg) ==
  /\ npub < MaxPub
  /\ npub' = npub + 1
  /\ msgs' = Append(msgs, [t |-> t, pay |-> pay])
  /\ pending' = bp \cup {P(npub + 1, s) : s \in Targets(t) \cap ParkedSubs}
  /\ got' = [s \in Subs |-> IF s \in Targets(t) \ ParkedSubs THEN Append(bg[s], npub + 1) ELSE bg[s]]
  /\ mRecv' = mRecv + cnt
  /\ elig' = Append(elig, Targets(t))
  /\ must' = Append(must, Targets(t))
  /\ forbid' = Append(forbid, Subs \ Targets(t))
  /\ retd' = retd \cup {npub + 1}
NoPublish == UNCHANGED <<npub, msgs, mRecv, elig, must, forbid, retd>>

(***************************************************************************)
(* The watcher's two callbacks (they run inside other actions)             *)
(***************************************************************************)
\* ReloadCallback at stamp a when the last received stamp is b: "pub" or "skip".
\* a - b = 2 between two ticks is one jittered period: either side of the interval.
Decide(a, b) ==
  IF cwMode = "noint" \/ b < 0 THEN {"pub"}
  ELSE IF a - b <= 1 THEN {"skip"}
  ELSE IF a - b >= 3 THEN {"pub"}
  ELSE IF a % 2 = 1 THEN {"pub"} ELSE {"pub", "skip"}

\* Config.Reload() called at stamp a, with b the stamp cw.msgTime holds at that moment
\* and bp/bg the pending set and delivered sequences: counts the reload; a pending file change
\* is noticed and announced through ReloadCallback unless suppressed.
ReloadEff(a, b, bp, bg) ==
  /\ fileChanged => npub < MaxPub      \* (bound) never cut off only one of the outcomes of a reload
  /\ reloads' = reloads + 1
  /\ fileChanged' = FALSE
  /\ IF fileChanged
       THEN \E d \in Decide(a, b) :
              IF d = "pub"
                THEN \E c \in RecvCounts(CfgTopic) : PublishEff(CfgTopic, a, c.cnt, bp, bg)
                ELSE NoPublish /\ pending' = bp /\ got' = bg
       ELSE NoPublish /\ pending' = bp /\ got' = bg

(***************************************************************************)
(* Per-call actions (Step = FALSE)                                         *)
(***************************************************************************)
Subscribe(s, t) ==
  /\ ~(Watcher /\ s = W)
  /\ SubscribeEff(s, t)
  /\ UNCHANGED <<nstops, npub, msgs, pending, got, mRecv, stepvars, closeCalled, closeRet, elig, must, retd, cwvars>>
  /\ act' = [name |-> "Subscribe", s |-> s, t |-> t]

Publish(t, pay) ==
  \E c \in RecvCounts(t) :
    /\ PublishEff(t, pay, c.cnt, pending, got)
    /\ UNCHANGED <<listed, cb, stopic, nstops, stepvars, closeCalled, closeRet, cwvars>>
    /\ act' = Lab([name |-> "Publish", t |-> t, pay |-> pay], c.dev)

\* Subscription.Close (idempotent; after the bus was closed it finds nothing to do)
CloseSubEff(s) ==
  /\ cb' = [cb EXCEPT ![s] = FALSE]
  /\ closeCalled' = [closeCalled EXCEPT ![s] = TRUE]
  /\ closeRet' = [closeRet EXCEPT ![s] = TRUE]
CloseSub(s) ==
  /\ ~(Watcher /\ s = W)
  /\ stopic[s] # "-"
  /\ CloseSubEff(s)
  /\ UNCHANGED <<listed, stopic, nstops, npub, msgs, pending, got, mRecv, stepvars, elig, must, forbid, retd, cwvars>>
  /\ act' = [name |-> "CloseSub", s |-> s]

BusClose(how) ==
  /\ BusCloseEff
  /\ UNCHANGED <<stopic, npub, msgs, pending, got, mRecv, stepvars, elig, must, forbid, retd, cwvars>>
  /\ act' = [name |-> "BusClose", how |-> how]

\* the callback of message m for s completes (walk) / is entered (step model)
RunPlain(m, s) ==
  /\ P(m, s) \in pending
  /\ ~(Watcher /\ s = W)
  /\ pending' = pending \ {P(m, s)}
  /\ got' = [got EXCEPT ![s] = Append(@, m)]
  /\ UNCHANGED <<listed, cb, stopic, nstops, npub, msgs, mRecv, stepvars, ghostvars, cwvars>>
  /\ act' = [name |-> "Run", m |-> m, s |-> s]

\* ConfigWatcher.SubscriptionListener runs for message m
RunWatcher(m) ==
  /\ Watcher /\ P(m, W) \in pending
  /\ IF msgs[m].pay < 0                              \* not a time stamp: ignored, no reload
       THEN /\ pending' = pending \ {P(m, W)}
            /\ got' = [got EXCEPT ![W] = Append(@, m)]
            /\ NoPublish
            /\ UNCHANGED <<cwMsg, fileChanged, reloads>>
       ELSE /\ cwMsg' = msgs[m].pay
            /\ ReloadEff(2 * now + 1, msgs[m].pay, pending \ {P(m, W)}, [got EXCEPT ![W] = Append(@, m)])
  /\ UNCHANGED <<listed, cb, stopic, nstops, stepvars, closeCalled, closeRet, cwMode, cwRun, monitor, now>>
  /\ act' = [name |-> "Run", m |-> m, s |-> W]

\* the configuration files change on disk (noticed by the next Reload)
FileChange ==
  /\ Watcher /\ ~fileChanged
  /\ fileChanged' = TRUE
  /\ UNCHANGED <<busvars, stepvars, ghostvars, cwMode, cwRun, monitor, cwMsg, reloads, now>>
  /\ act' = [name |-> "FileChange"]

\* ConfigWatcher.Start (then the monitor goroutine gets going)
CwSubscribes == cwMode # "opamp"
CwStart ==
  /\ Watcher /\ cwRun = "new"
  /\ cwRun' = "started"
  /\ monitor' = IF cwMode = "normal" THEN "run" ELSE "none"
  /\ IF CwSubscribes THEN SubscribeEff(W, CfgTopic) ELSE UNCHANGED <<listed, cb, stopic, forbid>>
  /\ UNCHANGED <<nstops, npub, msgs, pending, got, mRecv, stepvars, closeCalled, closeRet, elig, must, retd,
                 cwMode, cwMsg, fileChanged, reloads, now>>
  /\ act' = [name |-> "CwStart"]

\* ConfigWatcher.Stop: ends the monitor, closes the subscription
CwStop ==
  /\ Watcher /\ cwRun = "started"
  /\ cwRun' = "stopped"
  /\ monitor' = IF monitor = "run" THEN "exit" ELSE monitor
  /\ IF CwSubscribes THEN CloseSubEff(W) ELSE UNCHANGED <<cb, closeCalled, closeRet>>
  /\ UNCHANGED <<listed, stopic, nstops, npub, msgs, pending, got, mRecv, stepvars, elig, must, forbid, retd,
                 cwMode, cwMsg, fileChanged, reloads, now>>
  /\ act' = [name |-> "CwStop"]

\* Start immediately followed by Stop: the monitor goroutine may not have created cw.done yet
CwStartStop ==
  /\ Watcher /\ cwRun = "new"
  /\ cwRun' = "stopped"
  /\ monitor' = IF cwMode # "normal" THEN "none" ELSE IF Faithful THEN "maybe" ELSE "exit"
  /\ IF CwSubscribes
       THEN /\ stopic[W] = "-"
            /\ stopic' = [stopic EXCEPT ![W] = CfgTopic]
            /\ IF nstops > 0 /\ ~Revive THEN UNCHANGED listed
               ELSE listed' = [listed EXCEPT ![CfgTopic] = Append(@, W)]
            /\ cb' = [cb EXCEPT ![W] = FALSE]
            /\ closeCalled' = [closeCalled EXCEPT ![W] = TRUE]
            /\ closeRet' = [closeRet EXCEPT ![W] = TRUE]
            /\ forbid' = [m \in DOMAIN forbid |-> forbid[m] \cup {W}]
       ELSE UNCHANGED <<listed, cb, stopic, forbid, closeCalled, closeRet>>
  /\ UNCHANGED <<nstops, npub, msgs, pending, got, mRecv, stepvars, elig, must, retd,
                 cwMode, cwMsg, fileChanged, reloads, now>>
  /\ act' = [name |-> "CwStartStop"]

\* the virtual clock advances by one reload interval; a live monitor ticks once on the way
Advance ==
  /\ Watcher /\ cwRun # "new" /\ now < MaxNow
  /\ (fileChanged /\ monitor = "maybe") => npub < MaxPub      \* (bound) as in ReloadEff
  /\ now' = now + 1
  /\ \/ /\ monitor \in {"run", "leaked"}
        /\ ReloadEff(2 * (now + 1), cwMsg, pending, got)
        /\ UNCHANGED <<monitor>>
        /\ act' = [name |-> "Advance"]
     \/ /\ monitor \in {"none", "exit", "maybe"}
        /\ monitor' = IF monitor = "maybe" THEN "exit" ELSE monitor
        /\ NoPublish /\ UNCHANGED <<pending, got, fileChanged, reloads>>
        /\ act' = [name |-> "Advance"]
     \/ /\ monitor = "maybe"                      \* Stop found cw.done == nil: the monitor was never told
        /\ monitor' = "leaked"
        /\ ReloadEff(2 * (now + 1), cwMsg, pending, got)
        /\ act' = [name |-> "Advance", dev |-> "monitor-leak"]
  /\ UNCHANGED <<listed, cb, stopic, nstops, stepvars, closeCalled, closeRet, cwMode, cwRun, cwMsg>>

Pays(t) == IF Watcher /\ t = CfgTopic THEN {2 * now + 1, -2} ELSE {0}

NextCall ==
  \/ \E s \in Subs, t \in Topics : Subscribe(s, t)
  \/ \E t \in Topics : \E pay \in Pays(t) : Publish(t, pay)
  \/ \E s \in Subs : CloseSub(s)
  \/ \E how \in Hows : BusClose(how)
  \/ \E m \in Ids, s \in Subs : RunPlain(m, s)
  \/ \E m \in Ids : RunWatcher(m)
  \/ FileChange \/ CwStart \/ CwStop \/ CwStartStop \/ Advance

(***************************************************************************)
(* Per-critical-section actions (Step = TRUE; bus only)                    *)
(***************************************************************************)
Open(s, t) == stopic[s] = t /\ s \in Range(listed[t]) /\ ~closeCalled[s]

SSubscribe(s, t) ==
  /\ SubscribeEff(s, t)
  /\ UNCHANGED <<nstops, npub, msgs, pending, got, mRecv, stepvars, closeCalled, closeRet, elig, must, retd, cwvars>>
  /\ act' = [name |-> "Subscribe", s |-> s, t |-> t]

PubCall(p, t) ==
  /\ ppc[p] = "idle" /\ npub < MaxPub
  /\ npub' = npub + 1
  /\ msgs' = Append(msgs, [t |-> t, pay |-> 0])
  /\ pm' = [pm EXCEPT ![p] = npub + 1]
  /\ ppc' = [ppc EXCEPT ![p] = "called"]
  /\ elig' = Append(elig, {s \in Subs : Open(s, t)})
  /\ must' = Append(must, {})
  /\ forbid' = Append(forbid, {s \in Subs : closeRet[s] \/ stopic[s] \notin {"-", t}})
  /\ UNCHANGED <<listed, cb, stopic, nstops, pending, got, mRecv, psnap, cpc, closeCalled, closeRet, retd, cwvars>>
  /\ act' = [name |-> "PubCall", p |-> p, t |-> t]

PubSnap(p) ==
  /\ ppc[p] = "called"
  /\ LET t == msgs[pm[p]].t IN
       /\ psnap' = [psnap EXCEPT ![p] = listed[t]]
       /\ \E c \in RecvCounts(t) :
            /\ mRecv' = mRecv + c.cnt
            /\ act' = Lab([name |-> "PubSnap", p |-> p], c.dev)
  /\ ppc' = [ppc EXCEPT ![p] = "visit"]
  /\ UNCHANGED <<listed, cb, stopic, nstops, npub, msgs, pending, got, pm, cpc, ghostvars, cwvars>>

PubVisit(p) ==
  /\ ppc[p] = "visit" /\ psnap[p] # <<>>
  /\ LET s == Head(psnap[p]) IN
       pending' = IF cb[s] THEN pending \cup {P(pm[p], s)} ELSE pending
  /\ psnap' = [psnap EXCEPT ![p] = Tail(@)]
  /\ UNCHANGED <<listed, cb, stopic, nstops, npub, msgs, got, mRecv, ppc, pm, cpc, ghostvars, cwvars>>
  /\ act' = [name |-> "PubVisit", p |-> p]

PubRet(p) ==
  /\ ppc[p] = "visit" /\ psnap[p] = <<>>
  /\ ppc' = [ppc EXCEPT ![p] = "idle"]
  /\ retd' = retd \cup {pm[p]}
  /\ must' = [must EXCEPT ![pm[p]] = {s \in elig[pm[p]] : ~closeCalled[s]}]
  /\ UNCHANGED <<busvars, pm, psnap, cpc, closeCalled, closeRet, elig, forbid, cwvars>>
  /\ act' = [name |-> "PubRet", p |-> p]

\* the ideal Close drains: it does not get past this point while a delivery to s is in flight
Drained(S) == Faithful \/ \A x \in pending : x.s \notin S

CloseSnap(s) ==
  /\ stopic[s] # "-" /\ cpc[s] = "idle"
  /\ closeCalled' = [closeCalled EXCEPT ![s] = TRUE]
  /\ IF s \in Range(listed[stopic[s]])
       THEN cpc' = [cpc EXCEPT ![s] = "found"] /\ UNCHANGED closeRet
       ELSE UNCHANGED cpc /\ closeRet' = [closeRet EXCEPT ![s] = TRUE]
  /\ UNCHANGED <<busvars, ppc, pm, psnap, elig, must, forbid, retd, cwvars>>
  /\ act' = [name |-> "CloseSnap", s |-> s]

CloseNil(s) ==
  /\ cpc[s] = "found" /\ Drained({s})
  /\ cb' = [cb EXCEPT ![s] = FALSE]
  /\ cpc' = [cpc EXCEPT ![s] = "idle"]
  /\ closeRet' = [closeRet EXCEPT ![s] = TRUE]
  /\ UNCHANGED <<listed, stopic, nstops, npub, msgs, pending, got, mRecv, ppc, pm, psnap, closeCalled, elig, must, forbid, retd, cwvars>>
  /\ act' = [name |-> "CloseNil", s |-> s]

SBusClose ==
  /\ Drained({s \in Subs : stopic[s] # "-"})
  /\ BusCloseEff
  /\ UNCHANGED <<stopic, npub, msgs, pending, got, mRecv, stepvars, elig, must, forbid, retd, cwvars>>
  /\ act' = [name |-> "BusClose", how |-> "Close"]

\* the spawned goroutine enters the callback
SRun(m, s) ==
  /\ P(m, s) \in pending
  /\ pending' = pending \ {P(m, s)}
  /\ got' = [got EXCEPT ![s] = Append(@, m)]
  /\ UNCHANGED <<listed, cb, stopic, nstops, npub, msgs, mRecv, stepvars, ghostvars, cwvars>>
  /\ act' = Lab([name |-> "Run", m |-> m, s |-> s], IF closeRet[s] THEN "callback-after-close" ELSE "")

NextStep ==
  \/ \E s \in Subs, t \in Topics : SSubscribe(s, t)
  \/ \E p \in Pubs, t \in Topics : PubCall(p, t)
  \/ \E p \in Pubs : PubSnap(p) \/ PubVisit(p) \/ PubRet(p)
  \/ \E s \in Subs : CloseSnap(s) \/ CloseNil(s)
  \/ SBusClose
  \/ \E m \in Ids, s \in Subs : SRun(m, s)

Next == IF Step THEN NextStep ELSE NextCall
Spec == Init /\ [][Next]_vars
\* every in-flight call finishes and every spawned goroutine gets to run
FairSpec == Spec /\ WF_vars(\E p \in Pubs : PubSnap(p) \/ PubVisit(p) \/ PubRet(p))
                 /\ WF_vars(\E s \in Subs : CloseNil(s))
                 /\ WF_vars(\E m \in Ids, s \in Subs : SRun(m, s))

(***************************************************************************)
(* Properties                                                              *)
(***************************************************************************)
TypeOK ==
  /\ listed \in [Topics -> Seq(Subs)]
  /\ cb \in [Subs -> BOOLEAN]
  /\ stopic \in [Subs -> Topics \cup {"-"}]
  /\ nstops \in 0 .. MaxStops /\ npub \in 0 .. MaxPub /\ Len(msgs) = npub
  /\ pending \subseteq {P(m, s) : m \in Ids, s \in Subs}
  /\ \A s \in Subs : Range(got[s]) \subseteq Ids
  /\ Len(elig) = npub /\ Len(must) = npub /\ Len(forbid) = npub /\ retd \subseteq Ids
  /\ now \in 0 .. MaxNow /\ reloads >= 0 /\ mRecv >= 0
  /\ cwRun \in {"none", "new", "started", "stopped"}
  /\ monitor \in {"none", "run", "exit", "maybe", "leaked"}

Handed(m, s) == P(m, s) \in pending \/ m \in Range(got[s])

\* published between Subscribe and Close => handed to the subscriber
MustDeliver == \A m \in retd : \A s \in must[m] : Handed(m, s)
\* ... exactly once
AtMostOnce == \A m \in Ids, s \in Subs : Count(got[s], m) + (IF P(m, s) \in pending THEN 1 ELSE 0) <= 1
\* nothing for other topics, for subscriptions closed before the call or made after the return
NoForbidden == \A m \in Ids : \A s \in forbid[m] : ~Handed(m, s)
\* only subscribers of the message's own topic ever see it
OwnTopic == \A m \in Ids, s \in Subs : Handed(m, s) => stopic[s] = msgs[m].t
\* a callback is never entered after Close returned (ideal step model only)
NoCallbackAfterClose == [][\A s \in Subs : got'[s] # got[s] => ~closeRet[s]]_vars
\* the counter counts deliveries (ideal per-call model)
RecvCountsDeliveries ==
  LET RECURSIVE Sum(_)
      Sum(S) == IF S = {} THEN 0 ELSE LET s == CHOOSE x \in S : TRUE IN Len(got[s]) + Sum(S \ {s})
  IN Metrics => mRecv = Cardinality(pending) + Sum(Subs)
\* a closed bus has no subscriptions; a closed subscription's callback pointer is gone
ClosedIsClosed == \A s \in Subs : (closeRet[s] /\ cpc[s] = "idle") => ~cb[s]

\* watcher
\* the configuration is reloaded only while the watcher runs (a callback already entered may finish)
NoReloadAfterStop == [][(reloads' > reloads /\ cwRun = "stopped") => act'.name = "Run"]_vars
\* storm avoidance: the watcher announces nothing within one interval of a stamp it received
WatcherPublished == npub' = npub + 1 /\ act'.name \in {"Run", "Advance"}
StormAvoidance == [][(WatcherPublished /\ cwMode # "noint" /\ cwMsg' >= 0) => msgs'[npub'].pay - cwMsg' >= 2]_vars
\* a noticed change is announced unless suppressed by a recent stamp (or once more after the horizon's last Publish)
ChangeAnnounced == [][(fileChanged /\ ~fileChanged' /\ cwMsg' >= 0 /\ cwMode # "noint" /\ npub' = npub)
                       => (IF act'.name = "Run" THEN 2 * now + 1 ELSE 2 * now') - cwMsg' <= 2]_vars
\* OpAMP: the watcher neither subscribes nor reloads
OpAMPInert == cwMode = "opamp" => (stopic[W] = "-" /\ reloads = 0)

\* liveness (step model, fairness): every delivery that must happen does, and calls return
EventuallyDelivered == \A m \in 1 .. MaxPub, s \in Subs :
                         [](m \in retd /\ s \in must[m] => <>(m \in Range(got[s])))
Quiesces == <>[](pending = {} /\ \A p \in Pubs : ppc[p] = "idle")

(***************************************************************************)
(* plumbing                                                                *)
(***************************************************************************)
\* what of the message history still matters: the payloads of deliveries in flight
PendPay == {<<x.m, x.s, msgs[x.m].pay>> : x \in pending}
Hid == [listed |-> listed, cb |-> cb, stopic |-> stopic, nstops |-> nstops,
        cwMode |-> cwMode, cwRun |-> cwRun, monitor |-> monitor, cwMsg |-> cwMsg, fileChanged |-> fileChanged]
\* constants the harness needs (arrive in Reset as init["params"])
ASSUME PrintT(ToJson([params |-> [metrics |-> Metrics, parkPlain |-> ParkPlain, watcher |-> Watcher]]))
Dump == PrintT(ToJson([fabs |-> Abs, fhid |-> Hid, fa |-> act.name, act |-> act', tabs |-> Abs', thid |-> Hid']))
\* model checking: every variable but the label
View == <<busvars, stepvars, ghostvars, cwvars>>
\* edge dump for the walker: the real state only (ghosts and the delivered part of the message history do
\* not influence any later step of the per-call model); the properties are checked under View by the
\* MC_PubSub_*_mc cfgs, which do not dump
ViewReal == <<listed, cb, stopic, nstops, npub, PendPay, got, mRecv, cwvars>>
=============================================================================
