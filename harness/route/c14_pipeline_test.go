//go:build verif

package route

import (
	"bytes"
	"context"
	"encoding/json"
	"fmt"
	"net/http"
	"net/http/httptest"
	"os"
	"path/filepath"
	"sort"
	"strings"
	"sync"
	"testing"
	"time"

	"github.com/gorilla/mux"
	"github.com/jonboulle/clockwork"
	"github.com/tinylib/msgp/msgp"
	"go.opentelemetry.io/otel/trace/noop"

	"github.com/honeycombio/refinery/collect"
	"github.com/honeycombio/refinery/config"
	"github.com/honeycombio/refinery/internal/health"
	"github.com/honeycombio/refinery/internal/peer"
	"github.com/honeycombio/refinery/internal/verifkit"
	"github.com/honeycombio/refinery/logger"
	"github.com/honeycombio/refinery/metrics"
	"github.com/honeycombio/refinery/pubsub"
	"github.com/honeycombio/refinery/sample"
	"github.com/honeycombio/refinery/sharder"
	"github.com/honeycombio/refinery/types"
)

// ---------------------------------------------------------------------------
// Binding of spec/SamplerSelect.tla, Mode "pipeline" (property C14), to one
// real node:
//   - a configuration loaded by config.NewConfig from generated config.yaml
//     (DatasetPrefix, timers) and rules.yaml (one distinguishable sampler per
//     target), reloaded through its own Reload after the rules file changes;
//   - a real incoming Router whose /1/batch handler (Router.batch) receives
//     the request: environment lookup (the lookup function stands for
//     Honeycomb's /1/auth), batch unmarshalling with field extraction
//     (route/batched_event.go + types.CoreFieldsUnmarshaler), processEvent;
//   - a real InMemCollector with two workers on a fake clock and a real
//     SamplerFactory; the upstream transmission records what is sent.
// Observed: the fields every span has extracted when the router hands it to
// the collector (none handed over = the request was refused), and the reason /
// sample key the transmitted spans carry (AddRuleReasonToTrace). Barriers are
// the collector's verif hook events.
// ---------------------------------------------------------------------------

const (
	c14Default = "__default__"
	c14Timeout = 30 * time.Second
	c14Tick    = time.Second
	c14Workers = 2
)

// --- rules (the samplers of SamplerSelect!Def) --------------------------------

func c14SamplerYAML(target, dflt string) string {
	switch {
	case target == c14Default && dflt == "det":
		return "    DeterministicSampler:\n      SampleRate: 1\n"
	case target == c14Default:
		return "    DynamicSampler:\n      SampleRate: 1\n      ClearFrequency: 1000h\n      FieldList:\n        - k_default\n"
	case target == "prod":
		return "    EMADynamicSampler:\n      GoalSampleRate: 1\n      AdjustmentInterval: 1000h\n      FieldList:\n        - k_prod\n"
	case target == "web":
		return "    DynamicSampler:\n      SampleRate: 1\n      ClearFrequency: 1000h\n      FieldList:\n        - root.k_web\n        - j_web\n"
	}
	return fmt.Sprintf("    RulesBasedSampler:\n      Rules:\n        - Name: hit_%[1]s\n          Conditions:\n            - Field: c_%[1]s\n              Operator: exists\n"+
		"          Sampler:\n            DynamicSampler:\n              SampleRate: 1\n              ClearFrequency: 1000h\n              FieldList:\n                - k_%[1]s\n"+
		"        - Name: miss_%[1]s\n          SampleRate: 1\n", target)
}

func c14RulesYAML(rules []string, dflt string) string {
	var b strings.Builder
	b.WriteString("RulesVersion: 2\nSamplers:\n")
	for _, t := range append([]string{c14Default}, rules...) {
		fmt.Fprintf(&b, "  %s:\n%s", t, c14SamplerYAML(t, dflt))
	}
	return b.String()
}

func c14ConfigYAML(prefix string) string {
	s := "General:\n  ConfigurationVersion: 2\n"
	if prefix != "" {
		s += "  DatasetPrefix: " + prefix + "\n"
	}
	s += "Traces:\n  SendDelay: 100ms\n  SendTicker: 1s\n  TraceTimeout: 60s\n"
	s += fmt.Sprintf("Collection:\n  WorkerCount: %d\n  ShutdownDelay: 1ms\n  HealthCheckTimeout: 1000h\n", c14Workers)
	s += "RefineryTelemetry:\n  AddRuleReasonToTrace: true\n"
	return s
}

// every field any of the samplers reads; each span carries all of them
var c14AllFields = []string{"k_default", "k_prod", "k_web", "j_web", "c_cls.prod", "k_cls.prod", "c_cls.web", "k_cls.web"}

func c14Val(field string) string { return "val(" + field + ")" }

// --- key shapes -> concrete strings ---------------------------------------------

const c14Hex = "0123456789abcdef"

func c14Cycle(alphabet string, n, shift int) []byte {
	b := make([]byte, n)
	for i := range b {
		b[i] = alphabet[(i+shift)%len(alphabet)]
	}
	return b
}

// c14Family: see harness/config/c14_select_test.go. Here one member is used
// per request (they rotate); variant makes the strings of different
// environments different, because a key belongs to one environment.
func c14Family(shape map[string]any, variant int) ([]string, error) {
	prefix := verifkit.Str(shape, "lead") + verifkit.Str(shape, "region") + verifkit.Str(shape, "tail")
	n := verifkit.Int(shape, "len") - len(prefix)
	if n < 0 {
		return nil, fmt.Errorf("shape %v shorter than its prefix", shape)
	}
	if n == 0 {
		return []string{prefix}, nil
	}
	alpha := verifkit.Str(shape, "alpha")
	var marks string
	switch alpha {
	case "digits":
		return []string{prefix + string(c14Cycle("0123456789", n, variant)), prefix + string(c14Cycle("0123456789", n, variant+5))}, nil
	case "hexlower":
		marks = "af"
	case "hexupper":
		marks = "AF"
	case "alnumlower":
		marks = "gz"
	case "alnumupper":
		marks = "GZ"
	case "special":
		marks = "-/:@[`{!_"
	default:
		return nil, fmt.Errorf("unknown alphabet in %v", shape)
	}
	var out []string
	switch alpha {
	case "hexlower":
		out = append(out, prefix+string(c14Cycle("abcdef", n, variant)))
	case "hexupper":
		out = append(out, prefix+string(c14Cycle("0123456789ABCDEF", n, variant)))
	}
	for _, m := range []byte(marks) {
		for _, p := range []int{0, 1, n / 2, n - 2, n - 1} {
			base := c14Hex
			if alpha == "hexlower" {
				base = "0123456789"
			}
			b := c14Cycle(base, n, variant)
			b[p] = m
			out = append(out, prefix+string(b))
		}
	}
	return out, nil
}

// --- hook events -----------------------------------------------------------------

type c14Events struct {
	mu      sync.Mutex
	cond    *sync.Cond
	counts  map[string]int
	reasons map[string]string // trace id -> reason of its decision
}

func newC14Events() *c14Events {
	e := &c14Events{counts: map[string]int{}, reasons: map[string]string{}}
	e.cond = sync.NewCond(&e.mu)
	return e
}

func (e *c14Events) emit(event string, kv ...any) {
	e.mu.Lock()
	e.counts[event]++
	if event == "decision" {
		var t, r string
		for i := 0; i+1 < len(kv); i += 2 {
			switch kv[i] {
			case "t":
				t, _ = kv[i+1].(string)
			case "reason":
				r, _ = kv[i+1].(string)
			}
		}
		e.reasons[t] = r
	}
	e.cond.Broadcast()
	e.mu.Unlock()
}

func (e *c14Events) get(k string) int {
	e.mu.Lock()
	defer e.mu.Unlock()
	return e.counts[k]
}

// waitFor blocks until pred (evaluated under the mutex, on the counts) holds.
// The timer only turns a lost barrier into an error instead of a hang.
func (e *c14Events) waitFor(what string, pred func(c map[string]int) bool) error {
	deadline := time.Now().Add(c14Timeout)
	timer := time.AfterFunc(c14Timeout, func() { e.mu.Lock(); e.cond.Broadcast(); e.mu.Unlock() })
	defer timer.Stop()
	e.mu.Lock()
	defer e.mu.Unlock()
	for !pred(e.counts) {
		if time.Now().After(deadline) {
			return fmt.Errorf("barrier timeout waiting for %s (counts %v)", what, e.counts)
		}
		e.cond.Wait()
	}
	return nil
}

// --- stand-ins around the real router and collector ---------------------------

type c14Stress struct{}

func (c14Stress) Start() error      { return nil }
func (c14Stress) UpdateFromConfig() {}
func (c14Stress) Recalc() uint      { return 0 }
func (c14Stress) Stressed() bool    { return false }
func (c14Stress) GetSampleRate(traceID string) (uint, bool, string) {
	return 1, true, "stress_relief"
}

type c14Sent struct {
	trace, reason, key string
	hasReason          bool
}

// c14Tx records what the collector hands to the upstream transmission.
type c14Tx struct {
	mu    sync.Mutex
	spans []c14Sent
}

func (x *c14Tx) EnqueueEvent(ev *types.Event) {}
func (x *c14Tx) RegisterMetrics()            {}
func (x *c14Tx) EnqueueSpan(sp *types.Span) {
	s := c14Sent{trace: sp.TraceID}
	if sp.Data.Exists(types.MetaRefineryReason) {
		s.hasReason = true
		s.reason, _ = sp.Data.Get(types.MetaRefineryReason).(string)
	}
	s.key, _ = sp.Data.Get(types.MetaRefinerySampleKey).(string)
	x.mu.Lock()
	x.spans = append(x.spans, s)
	x.mu.Unlock()
}

// c14Collector is the real collector; it notes what each span has extracted at
// the moment the router hands it over.
type c14Collector struct {
	*collect.InMemCollector
	mu       sync.Mutex
	added    int
	memoized []map[string]any // per span handed over since the last Ingest
	meta     []string
}

func (c *c14Collector) AddSpan(sp *types.Span) error {
	m := sp.Data.GetMemoizedFields()
	c.mu.Lock()
	c.memoized = append(c.memoized, m)
	c.meta = append(c.meta, fmt.Sprintf("key=%q env=%q ds=%q", sp.APIKey, sp.Environment, sp.Dataset))
	c.mu.Unlock()
	err := c.InMemCollector.AddSpan(sp)
	if err == nil {
		c.mu.Lock()
		c.added++
		c.mu.Unlock()
	}
	return err
}

// --- harness -----------------------------------------------------------------

type c14PipeHarness struct {
	root   string
	nreset int

	dir    string
	prefix string
	dflt   string
	cfg    config.Config
	clock  *clockwork.FakeClock
	ev     *c14Events
	tx     *c14Tx
	coll   *c14Collector
	router *Router
	envOf  map[string]string
	stop   func()

	phase   string
	ntrace  int
	nreq    int
	ticks   int
	reloads int
	curT    string
	ing     map[string]any
	res     map[string]any

	lastAnswer string // of the last refused request (diagnostics)
}

func c14Strings(v any) []string {
	out := []string{}
	for _, e := range v.([]any) {
		out = append(out, e.(string))
	}
	sort.Strings(out)
	return out
}

func (h *c14PipeHarness) noIng() map[string]any {
	return map[string]any{"needSet": []string{}, "availSet": []string{}, "spans": 0}
}
func (h *c14PipeHarness) noRes() map[string]any {
	return map[string]any{"reason": "", "keySet": []string{}, "spans": 0}
}

func (h *c14PipeHarness) Reset(init map[string]any) error {
	if h.stop != nil {
		h.stop()
		h.stop = nil
	}
	c := init["cfg"].(map[string]any)
	h.prefix, h.dflt = verifkit.Str(c, "prefix"), verifkit.Str(c, "dflt")
	h.nreset++
	h.dir = filepath.Join(h.root, fmt.Sprintf("r%d", h.nreset))
	if err := os.MkdirAll(h.dir, 0o700); err != nil {
		return err
	}
	cpath, rpath := filepath.Join(h.dir, "config.yaml"), filepath.Join(h.dir, "rules.yaml")
	if err := os.WriteFile(cpath, []byte(c14ConfigYAML(h.prefix)), 0o600); err != nil {
		return err
	}
	rules := c14RulesYAML(c14Strings(c["rulesSet"]), h.dflt)
	if err := os.WriteFile(rpath, []byte(rules), 0o600); err != nil {
		return err
	}
	cfg, err := config.NewConfig(&config.CmdEnv{ConfigLocations: []string{cpath}, RulesLocations: []string{rpath}})
	if err != nil || cfg == nil {
		return fmt.Errorf("the loader refused the generated configuration (%v):\n%s\n%s", err, c14ConfigYAML(h.prefix), rules)
	}
	h.cfg = cfg
	if !cfg.GetAddRuleReasonToTrace() || cfg.GetCollectionConfig().GetWorkerCount() != c14Workers || cfg.GetTracesConfig().GetSendTickerValue() != c14Tick {
		return fmt.Errorf("stale harness: the generated config.yaml is not read as intended")
	}

	h.clock = clockwork.NewFakeClock()
	h.ev = newC14Events()
	collect.SetVerifHooks(&collect.VerifHooks{Emit: h.ev.emit})
	h.tx = &c14Tx{}
	met := &metrics.MockMetrics{}
	met.Start()
	hr := &health.Health{Clock: clockwork.NewFakeClock()} // its own clock: never ticks
	hr.Start()
	lps := &pubsub.LocalPubSub{Config: cfg, Metrics: met}
	lps.Start()
	sf := &sample.SamplerFactory{Config: cfg, Metrics: met, Logger: &logger.NullLogger{}}
	if err := sf.Start(); err != nil {
		return err
	}
	shard := &sharder.MockSharder{Self: &sharder.TestShard{Addr: "http://self.invalid"}}
	coll := &collect.InMemCollector{
		Config: cfg, Clock: h.clock, Logger: &logger.NullLogger{}, Tracer: noop.NewTracerProvider().Tracer("verif"),
		Health: hr, Sharder: shard, Transmission: h.tx, PeerTransmission: &c14Tx{}, PubSub: lps, Metrics: met,
		SamplerFactory: sf, StressRelief: c14Stress{}, Peers: peer.NewMockPeers([]string{"a"}, "a"),
	}
	if err := coll.Start(); err != nil {
		return err
	}
	ctx, cancel := context.WithTimeout(context.Background(), c14Timeout)
	defer cancel()
	if err := h.clock.BlockUntilContext(ctx, c14Workers+1); err != nil { // the workers' tickers and the monitor's
		return fmt.Errorf("collector did not start its tickers: %w", err)
	}
	h.coll = &c14Collector{InMemCollector: coll}
	h.router = &Router{Config: cfg, Logger: &logger.NullLogger{}, Metrics: met, UpstreamTransmission: h.tx, PeerTransmission: &c14Tx{},
		Collector: h.coll, Sharder: shard, routerType: types.RouterTypeIncoming,
		iopLogger: iopLogger{Logger: &logger.NullLogger{}, incomingOrPeer: types.RouterTypeIncoming.String()}}
	h.router.registerMetricNames()
	h.envOf = map[string]string{}
	envOf := h.envOf
	// stands for Honeycomb's /1/auth: the environment a key belongs to
	h.router.SetEnvironmentCache(time.Hour, func(key string) (string, error) {
		if env, ok := envOf[key]; ok && !strings.HasPrefix(env, "\x00") {
			return env, nil
		}
		return "", fmt.Errorf("unknown key %q", key)
	})
	h.stop = func() {
		coll.Stop()
		sf.Stop()
		hr.Stop()
		lps.Stop()
		collect.SetVerifHooks(nil)
	}
	h.phase, h.ntrace, h.nreq, h.ticks, h.reloads = "idle", 0, 0, 0, 0
	h.ing, h.res = h.noIng(), h.noRes()
	return nil
}

func c14Span(trace, parent, name string) map[string]string {
	m := map[string]string{"trace.trace_id": trace, "name": name}
	if parent != "" {
		m["trace.parent_id"] = parent
	}
	for _, f := range c14AllFields {
		m[f] = c14Val(f)
	}
	return m
}

func c14SortedKeys(m map[string]string) []string {
	ks := make([]string, 0, len(m))
	for k := range m {
		ks = append(ks, k)
	}
	sort.Strings(ks)
	return ks
}

// c14Body encodes the batch [{samplerate, data}, ...] with the fields of data
// in a fixed order.
func c14Body(enc string, spans []map[string]string) ([]byte, string, error) {
	switch enc {
	case "json":
		var b bytes.Buffer
		b.WriteString("[")
		for i, sp := range spans {
			if i > 0 {
				b.WriteString(",")
			}
			b.WriteString(`{"time":"2024-03-04T05:06:07Z","samplerate":1,"data":{`)
			for j, k := range c14SortedKeys(sp) {
				if j > 0 {
					b.WriteString(",")
				}
				kk, _ := json.Marshal(k)
				vv, _ := json.Marshal(sp[k])
				b.Write(kk)
				b.WriteString(":")
				b.Write(vv)
			}
			b.WriteString("}}")
		}
		b.WriteString("]")
		return b.Bytes(), "application/json", nil
	case "msgpack":
		var b []byte
		b = msgp.AppendArrayHeader(b, uint32(len(spans)))
		for _, sp := range spans {
			b = msgp.AppendMapHeader(b, 2)
			b = msgp.AppendString(b, "samplerate")
			b = msgp.AppendInt64(b, 1)
			b = msgp.AppendString(b, "data")
			b = msgp.AppendMapHeader(b, uint32(len(sp)))
			for _, k := range c14SortedKeys(sp) {
				b = msgp.AppendString(b, k)
				b = msgp.AppendString(b, sp[k])
			}
		}
		return b, "application/msgpack", nil
	}
	return nil, "", fmt.Errorf("unknown encoding %q", enc)
}

func (h *c14PipeHarness) ingest(a map[string]any) error {
	env, ds, enc, auth := verifkit.Str(a, "env"), verifkit.Str(a, "ds"), verifkit.Str(a, "enc"), verifkit.Str(a, "auth")
	// a key belongs to one environment, and a key whose lookup fails is not a
	// key whose lookup worked before (the router caches successful lookups)
	variant := 0
	if env == "web" {
		variant = 1
	}
	if auth == "fail" {
		variant += 2
	}
	fam, err := c14Family(a["key"].(map[string]any), variant)
	if err != nil {
		return err
	}
	key := fam[h.nreq%len(fam)]
	h.nreq++
	if key != "" {
		want := env
		if auth == "fail" {
			want = "\x00lookup fails"
		}
		if prev, ok := h.envOf[key]; ok && prev != want {
			return fmt.Errorf("harness: key %q used for two environments", key)
		}
		h.envOf[key] = want
	}
	h.curT = fmt.Sprintf("c14-trace-%d-%d", h.nreset, h.ntrace+1)
	h.coll.mu.Lock()
	h.coll.memoized, h.coll.meta = nil, nil
	h.coll.mu.Unlock()
	w := httptest.NewRecorder()
	newReq := func(path string, body []byte, ctype string) *http.Request {
		req := httptest.NewRequest("POST", path+ds, bytes.NewReader(body))
		req = mux.SetURLVars(req, map[string]string{"datasetName": ds})
		req.Header.Set("Content-Type", ctype)
		if key != "" {
			req.Header.Set(types.APIKeyHeader, key)
		}
		return req
	}
	var answer string
	if enc == "event" {
		// POST /1/events/<ds>: the root span alone, the body is its fields
		body, err := json.Marshal(c14Span(h.curT, "", "root"))
		if err != nil {
			return err
		}
		h.router.event(w, newReq("/1/events/", body, "application/json"))
	} else {
		body, ctype, err := c14Body(enc, []map[string]string{c14Span(h.curT, "c14-parent", "child"), c14Span(h.curT, "", "root")})
		if err != nil {
			return err
		}
		h.router.batch(w, newReq("/1/batch/", body, ctype))
	}
	answer = fmt.Sprintf("%d %s", w.Code, strings.TrimSpace(w.Body.String()))
	// whatever reached the collector has been processed by its worker
	h.coll.mu.Lock()
	added := h.coll.added
	mem := h.coll.memoized
	h.coll.mu.Unlock()
	if err := h.ev.waitFor("spans processed", func(c map[string]int) bool { return c["processed"] >= added }); err != nil {
		return err
	}
	if len(mem) == 0 {
		// refused: nothing of the request reached the collector; the node is as it was
		h.lastAnswer = answer
		if auth == "ok" {
			ing := map[string]any{"refused": answer}
			for k, v := range h.ing {
				ing[k] = v
			}
			h.ing = ing
		}
		return nil
	}
	h.ntrace++
	need := c14Strings(a["need"])
	avail := []string{}
	for _, f := range need {
		all := len(mem) > 0
		for _, m := range mem {
			if v, ok := m[f]; !ok || v != c14Val(f) {
				all = false
			}
		}
		if all {
			avail = append(avail, f)
		}
	}
	h.ing = map[string]any{"needSet": need, "availSet": avail, "spans": len(mem)}
	if w.Code != http.StatusOK && auth == "ok" {
		h.ing["answer"] = answer // accepted spans but answered an error
	}
	h.res = h.noRes()
	h.phase = "pending"
	return nil
}

func (h *c14PipeHarness) decide() error {
	h.ticks++
	n := h.ticks
	h.clock.Advance(c14Tick)
	if err := h.ev.waitFor("collector tick", func(c map[string]int) bool { return c["tick"] >= c14Workers*n }); err != nil {
		return err
	}
	want := h.ntrace
	if err := h.ev.waitFor("decision made and trace handed to the transmission", func(c map[string]int) bool {
		return c["decision"] >= want && c["trace_queued"]+c["trace_dropped"] >= want && c["trace_sent"] >= c["trace_queued"]
	}); err != nil {
		return err
	}
	h.tx.mu.Lock()
	var mine []c14Sent
	for _, s := range h.tx.spans {
		if s.trace == h.curT {
			mine = append(mine, s)
		}
	}
	h.tx.mu.Unlock()
	h.ev.mu.Lock()
	hookReason := h.ev.reasons[h.curT]
	h.ev.mu.Unlock()
	res := map[string]any{"reason": hookReason, "keySet": []string{}, "spans": len(mine)}
	var disagree []string
	for i, s := range mine {
		if !s.hasReason || s.reason != hookReason {
			disagree = append(disagree, fmt.Sprintf("span %d carries reason %q (present=%v), the decision was %q", i, s.reason, s.hasReason, hookReason))
		}
		if s.key != mine[0].key {
			disagree = append(disagree, fmt.Sprintf("span %d carries sample key %q, span 0 %q", i, s.key, mine[0].key))
		}
	}
	if len(mine) > 0 {
		ks := []string{}
		rest := mine[0].key
		for _, f := range c14AllFields {
			if strings.Contains(mine[0].key, c14Val(f)) {
				ks = append(ks, f)
				rest = strings.ReplaceAll(rest, c14Val(f), "")
			}
		}
		sort.Strings(ks)
		res["keySet"] = ks
		if strings.Trim(rest, "•,") != "" {
			disagree = append(disagree, fmt.Sprintf("sample key %q holds something that is no field value", mine[0].key))
		}
	}
	if len(disagree) > 0 {
		res["disagree"] = disagree
	}
	h.res = res
	h.ing = h.noIng()
	h.phase = "done"
	return nil
}

func (h *c14PipeHarness) reload(a map[string]any) error {
	rules := c14RulesYAML(c14Strings(a["rulesSet"]), h.dflt)
	if err := os.WriteFile(filepath.Join(h.dir, "rules.yaml"), []byte(rules), 0o600); err != nil {
		return err
	}
	h.reloads++
	n := h.reloads
	if err := h.cfg.Reload(); err != nil {
		return fmt.Errorf("Reload refused the generated rules: %v\n%s", err, rules)
	}
	if err := h.ev.waitFor("collector worker reloaded", func(c map[string]int) bool { return c["reloaded"] >= n && c["worker_reloaded"] >= c14Workers*n }); err != nil {
		return err
	}
	h.res = h.noRes()
	h.phase = "idle"
	return nil
}

func (h *c14PipeHarness) Apply(a map[string]any) (err error) {
	defer func() {
		if r := recover(); r != nil {
			h.res = map[string]any{"panic": fmt.Sprint(r)}
			err = nil
		}
	}()
	switch verifkit.Str(a, "name") {
	case "Ingest":
		return h.ingest(a)
	case "Decide":
		return h.decide()
	case "Reload":
		return h.reload(a)
	}
	return fmt.Errorf("unknown action %v", a)
}

func (h *c14PipeHarness) Project() (any, error) {
	return map[string]any{"phase": h.phase, "ing": h.ing, "res": h.res}, nil
}

func TestVerifC14Pipeline(t *testing.T) {
	h := &c14PipeHarness{root: t.TempDir()}
	err := verifkit.Main(h)
	if h.stop != nil {
		h.stop()
	}
	if err != nil {
		t.Fatal(err)
	}
}
