------------------------------- MODULE GenSet -------------------------------
(***************************************************************************)
(* generics/set.go Set[T] (coverage extension CX2): the plain set that     *)
(* RemoveTraces receives from memory ejection (C07) and that the rules     *)
(* configuration uses for `in` / `not-in` value lists (C08).               *)
(*                                                                         *)
(* Two sets s and b live side by side.  Mutators (Add, Remove, AddMembers) *)
(* change their receiver only; the binary operations (Intersect,           *)
(* Difference, Union) return a NEW set: neither operand changes, and the   *)
(* result shares no storage with them (the harness adds a marker element   *)
(* to the result afterwards and looks at the operands again; `aliased`     *)
(* reports what it saw).  Members() is "in indeterminate order": compared  *)
(* as a set, but it must list every element exactly once.                  *)
(***************************************************************************)
EXTENDS Integers, FiniteSets, TLC, Json

CONSTANTS Elems,    \* set of ints
          ArgSets   \* argument lists of Add/Remove/NewSet, given as sets of elements

VARIABLES s, b,   \* the two sets
          res,    \* result of the last binary operation ({} after other actions)
          act

vars == <<s, b, res, act>>

\* Contains(e) for every e, Members(), len() of both sets; result of the last binary operation
Abs == [ sSet      |-> s,
         bSet      |-> b,
         sContains |-> [e \in Elems |-> e \in s],   \* domain must be 1 .. n: rendered as an array
         bContains |-> [e \in Elems |-> e \in b],
         sLen      |-> Cardinality(s),
         bLen      |-> Cardinality(b),
         resSet    |-> res,
         aliased   |-> FALSE ]

\* NewSet(es...) for both
Init == /\ s \in ArgSets /\ b \in ArgSets
        /\ res = {}
        /\ act = [name |-> "Init"]

Add(x, E) == /\ s' = IF x = "s" THEN s \cup E ELSE s
             /\ b' = IF x = "b" THEN b \cup E ELSE b
             /\ res' = {}
             /\ act' = [name |-> "Add", x |-> x, argSet |-> E]

Remove(x, E) == /\ s' = IF x = "s" THEN s \ E ELSE s
                /\ b' = IF x = "b" THEN b \ E ELSE b
                /\ res' = {}
                /\ act' = [name |-> "Remove", x |-> x, argSet |-> E]

\* x.AddMembers(the other one)
AddMembers(x) == /\ s' = IF x = "s" THEN s \cup b ELSE s
                 /\ b' = IF x = "b" THEN b \cup s ELSE b
                 /\ res' = {}
                 /\ act' = [name |-> "AddMembers", x |-> x]

\* res := x.op(the other one); also x.op(x) when self = TRUE
Binary(op, x, self) ==
  LET l == IF x = "s" THEN s ELSE b
      r == IF self THEN l ELSE IF x = "s" THEN b ELSE s
  IN /\ res' = CASE op = "Intersect"  -> l \cap r
                 [] op = "Difference" -> l \ r
                 [] op = "Union"      -> l \cup r
     /\ UNCHANGED <<s, b>>
     /\ act' = [name |-> op, x |-> x, self |-> self]

Next == \/ \E x \in {"s", "b"}, E \in ArgSets : Add(x, E) \/ Remove(x, E)
        \/ \E x \in {"s", "b"} : AddMembers(x)
        \/ \E op \in {"Intersect", "Difference", "Union"}, x \in {"s", "b"}, self \in BOOLEAN : Binary(op, x, self)

Spec == Init /\ [][Next]_vars

TypeOK == s \subseteq Elems /\ b \subseteq Elems /\ res \subseteq Elems

\* algebra the callers rely on (checked on every reachable pair of sets)
Laws == /\ (s \cap b) \cup (s \ b) = s
        /\ (s \cap b) \cap (s \ b) = {}
        /\ Cardinality(s \cup b) = Cardinality(s) + Cardinality(b) - Cardinality(s \cap b)
\* a binary operation changes neither operand; a mutator changes its receiver only
OperandsUntouched ==
  [][/\ act'.name \in {"Intersect", "Difference", "Union"} => (s' = s /\ b' = b)
     /\ (act'.name \in {"Add", "Remove", "AddMembers"} /\ act'.x = "s") => b' = b
     /\ (act'.name \in {"Add", "Remove", "AddMembers"} /\ act'.x = "b") => s' = s]_vars
\* Add then Contains, Remove then not Contains
Membership ==
  [][/\ (act'.name = "Add" /\ act'.x = "s") => act'.argSet \subseteq s'
     /\ (act'.name = "Remove" /\ act'.x = "s") => act'.argSet \cap s' = {}]_vars

St == [s |-> s, b |-> b, res |-> res]
ASSUME PrintT(ToJson([params |-> [n |-> Cardinality(Elems)]]))
Dump == PrintT(ToJson([fs |-> St, fa |-> act.name, act |-> act', ts |-> St', fabs |-> Abs, tabs |-> Abs']))
View == <<s, b, res>>
=============================================================================
