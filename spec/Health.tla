------------------------------- MODULE Health -------------------------------
(***************************************************************************)
(* internal/health.Health (property C30).                                  *)
(*                                                                         *)
(* Code state, one variable per field of the struct (maps are total        *)
(* functions over Subs; presence is carried by `status`):                  *)
(*   status[s]   "never" : s in neither h.timeouts nor h.readies           *)
(*               "reg"   : s in h.timeouts (and h.timeLeft, h.readies)     *)
(*               "unreg" : s in h.readies only (Unregister was called)     *)
(*   timeout[s]  h.timeouts[s]            (0 when absent)                  *)
(*   timeLeft[s] h.timeLeft[s]: -1 = registered, no report yet;            *)
(*               0 = dead; > 0 = time left   (-1 when absent)              *)
(*   readyFlag[s] h.readies[s]            (FALSE when absent)              *)
(* h.alives only drives log lines and is not modelled.                     *)
(*                                                                         *)
(* Time is counted in units of UnitMs milliseconds; the health ticker has  *)
(* a period of Tick units. `phase` is the time since the last tick         *)
(* boundary. When the clock reaches a boundary the tick is delivered to    *)
(* the ticker goroutine (`pending`); the goroutine's critical section is   *)
(* the separate action TickProc, so every other call made at the same      *)
(* instant may come before or after it (the scheduling freedom the real    *)
(* goroutine has). Time does not pass while a tick is pending.             *)
(*                                                                         *)
(* Ghost variables (what the property statement talks about):              *)
(*   sil[s]  time since the last accepted report of s, or since its        *)
(*           registration when it has not reported yet (capped)            *)
(*   decl[s] what s declared in its last accepted report under its         *)
(*           current registration: "none" | "ready" | "notready"           *)
(*                                                                         *)
(* obsAlive / obsReady are the answers of IsAlive() / IsReady().           *)
(*   Exact = TRUE : they are what the code computes (checkAlive /          *)
(*                  checkReady over the code state); TLC checks that this  *)
(*                  satisfies the C30 invariants below.                    *)
(*   Exact = FALSE: they are any answers the C30 statement allows (the     *)
(*                  statement leaves a +-1 tick slack and says nothing     *)
(*                  about readiness of a system with a dead subsystem).    *)
(* The conformance walk accepts an implementation that follows either.     *)
(***************************************************************************)
EXTENDS Integers, FiniteSets, TLC, Json

CONSTANTS Subs1, Timeouts1,  \* subsystem names (strings) and the timeouts (positive integers, in units)
          Subs2, Timeouts2,  \*   Register may be called with for them; two groups so that a
                             \*   configuration can give different subsystems different timeouts
          Tick,      \* ticker period in units (500 ms / UnitMs)
          UnitMs,    \* milliseconds per unit (only passed through to the harness)
          Exact      \* see above

VARIABLES status, timeout, timeLeft, readyFlag,   \* code state
          phase, pending,                         \* clock / ticker channel
          sil, decl,                              \* ghosts
          obsAlive, obsReady,                     \* IsAlive() / IsReady()
          act

vars == <<status, timeout, timeLeft, readyFlag, phase, pending, sil, decl, obsAlive, obsReady, act>>

Max(a, b) == IF a >= b THEN a ELSE b
Min(a, b) == IF a <= b THEN a ELSE b
Subs == Subs1 \cup Subs2
TimeoutsOf(s) == IF s \in Subs1 THEN Timeouts1 ELSE Timeouts2
Timeouts == UNION {TimeoutsOf(s) : s \in Subs}
MaxTimeout == CHOOSE t \in Timeouts : \A u \in Timeouts : u <= t

Registered == {s \in Subs : status[s] = "reg"}

(***************************************************************************)
(* What the code computes.                                                 *)
(***************************************************************************)
\* checkAlive: "if any counter is 0, we're dead"
CodeAlive == \A s \in Registered : timeLeft[s] # 0

\* checkReady: someone registered once; no counter <= 0; every entry of readies true
CodeReady == /\ \E s \in Subs : status[s] # "never"
             /\ \A s \in Registered : timeLeft[s] > 0
             /\ \A s \in Subs : status[s] # "never" => readyFlag[s]

(***************************************************************************)
(* What the C30 statement says, over the ghosts only.                      *)
(***************************************************************************)
\* s has been heard from (report, or registration) less than timeout - tick ago
Punctual(s) == sil[s] < timeout[s] - Tick
\* s reported once and has been silent for more than timeout + tick
Overdue(s)  == decl[s] # "none" /\ sil[s] > timeout[s] + Tick

MustAlive == \A s \in Registered : Punctual(s)
MustDead  == \E s \in Registered : Overdue(s)

\* "ready only when at least one subsystem is registered, every registered
\* subsystem has reported and declared itself ready, and no subsystem has
\* unregistered" (a subsystem that registered again counts as registered)
ReadyNecessary == /\ Registered # {}
                  /\ \A s \in Registered : decl[s] = "ready"
                  /\ \A s \in Subs : status[s] # "unreg"
\* readiness must follow the reports when nothing is even close to its timeout
MustReady == ReadyNecessary /\ \A s \in Registered : Punctual(s)

AliveAnswers == IF Exact THEN {CodeAlive}
                ELSE {b \in BOOLEAN : (MustAlive => b) /\ (MustDead => ~b)}
ReadyAnswers == IF Exact THEN {CodeReady}
                ELSE {b \in BOOLEAN : (b => ReadyNecessary) /\ (MustReady => b)}

\* evaluated after the rest of the next state is fixed
Observe == /\ obsAlive' \in AliveAnswers'
           /\ obsReady' \in ReadyAnswers'

\* the ghost clock of s saturates where nothing the statement says can change any more
SilCap(s) == IF decl[s] = "none" THEN Max(timeout[s] - Tick, 0) ELSE timeout[s] + Tick + 1

Init == /\ status = [s \in Subs |-> "never"]
        /\ timeout = [s \in Subs |-> 0]
        /\ timeLeft = [s \in Subs |-> -1]
        /\ readyFlag = [s \in Subs |-> FALSE]
        /\ phase = 0
        /\ pending = FALSE
        /\ sil = [s \in Subs |-> 0]
        /\ decl = [s \in Subs |-> "none"]
        /\ obsAlive = TRUE
        /\ obsReady = FALSE
        /\ act = [name |-> "Init"]

\* Health.Register(s, to): also legal for a registered or unregistered s (starts over)
Register(s, to) ==
  /\ status' = [status EXCEPT ![s] = "reg"]
  /\ timeout' = [timeout EXCEPT ![s] = to]
  /\ timeLeft' = [timeLeft EXCEPT ![s] = -1]
  /\ readyFlag' = [readyFlag EXCEPT ![s] = FALSE]
  /\ sil' = [sil EXCEPT ![s] = 0]
  /\ decl' = [decl EXCEPT ![s] = "none"]
  /\ UNCHANGED <<phase, pending>>
  /\ act' = [name |-> "Register", s |-> s, to |-> to]
  /\ Observe

\* Health.Unregister(s): leaves a FALSE entry in readies, even for a name never registered
Unregister(s) ==
  /\ status' = [status EXCEPT ![s] = "unreg"]
  /\ timeout' = [timeout EXCEPT ![s] = 0]
  /\ timeLeft' = [timeLeft EXCEPT ![s] = -1]
  /\ readyFlag' = [readyFlag EXCEPT ![s] = FALSE]
  /\ sil' = [sil EXCEPT ![s] = 0]
  /\ decl' = [decl EXCEPT ![s] = "none"]
  /\ UNCHANGED <<phase, pending>>
  /\ act' = [name |-> "Unregister", s |-> s]
  /\ Observe

\* Health.Ready(s, r): ignored unless s is currently registered
Ready(s, r) ==
  /\ IF status[s] = "reg"
       THEN /\ readyFlag' = [readyFlag EXCEPT ![s] = r]
            /\ timeLeft' = [timeLeft EXCEPT ![s] = timeout[s]]
            /\ sil' = [sil EXCEPT ![s] = 0]
            /\ decl' = [decl EXCEPT ![s] = IF r THEN "ready" ELSE "notready"]
       ELSE UNCHANGED <<readyFlag, timeLeft, sil, decl>>
  /\ UNCHANGED <<status, timeout, phase, pending>>
  /\ act' = [name |-> "Ready", s |-> s, r |-> r]
  /\ Observe

\* the clock advances by d units, at most up to the next tick boundary
Advance(d) ==
  /\ ~pending
  /\ phase + d <= Tick
  /\ phase' = (phase + d) % Tick
  /\ pending' = (phase + d = Tick)
  /\ sil' = [s \in Subs |-> IF status[s] = "reg" THEN Min(sil[s] + d, SilCap(s)) ELSE 0]
  /\ UNCHANGED <<status, timeout, timeLeft, readyFlag, decl>>
  /\ act' = [name |-> "Advance", d |-> d]
  /\ Observe

\* the ticker goroutine's critical section
TickProc ==
  /\ pending
  /\ pending' = FALSE
  /\ timeLeft' = [s \in Subs |-> IF status[s] = "reg" /\ timeLeft[s] > 0
                                   THEN Max(timeLeft[s] - Tick, 0) ELSE timeLeft[s]]
  /\ UNCHANGED <<status, timeout, readyFlag, phase, sil, decl>>
  /\ act' = [name |-> "Tick"]
  /\ Observe

Next == \/ \E s \in Subs : \E to \in TimeoutsOf(s) : Register(s, to)
        \/ \E s \in Subs : Unregister(s)
        \/ \E s \in Subs, r \in BOOLEAN : Ready(s, r)
        \/ \E d \in 1 .. Tick : Advance(d)
        \/ TickProc

Spec == Init /\ [][Next]_vars

TypeOK == /\ status \in [Subs -> {"never", "reg", "unreg"}]
          /\ timeout \in [Subs -> Timeouts \cup {0}]
          /\ timeLeft \in [Subs -> -1 .. MaxTimeout]
          /\ readyFlag \in [Subs -> BOOLEAN]
          /\ phase \in 0 .. (Tick - 1)
          /\ pending \in BOOLEAN
          /\ pending => phase = 0
          /\ sil \in [Subs -> 0 .. (MaxTimeout + Tick + 1)]
          /\ decl \in [Subs -> {"none", "ready", "notready"}]
          /\ obsAlive \in BOOLEAN /\ obsReady \in BOOLEAN

(***************************************************************************)
(* C30                                                                     *)
(***************************************************************************)
\* a subsystem reporting at intervals shorter than timeout - tick is never reported dead;
\* one silent for longer than timeout + tick is reported dead
C30Alive == /\ MustAlive => obsAlive
            /\ MustDead => ~obsAlive

\* ready only when ...; and readiness does follow when everybody is punctual and ready
C30Ready == /\ obsReady => ReadyNecessary
            /\ MustReady => obsReady

\* "... is reported dead until it reports again": once overdue, the system stays dead
\* until that subsystem reports, re-registers or unregisters
DeadUntilReport ==
  [][\A s \in Subs : (s \in Registered /\ Overdue(s) /\ obsAlive')
        => (act'.name \in {"Ready", "Register", "Unregister"} /\ act'.s = s)]_vars

\* the code's counters encode the ghosts (only meaningful for the code model; holds in both)
CodeMatchesGhosts ==
  \A s \in Subs :
    /\ status[s] = "reg" => /\ (timeLeft[s] = -1) <=> (decl[s] = "none")
                            /\ readyFlag[s] <=> (decl[s] = "ready")
                            /\ Punctual(s) => timeLeft[s] # 0
                            /\ Overdue(s) => timeLeft[s] = 0
    /\ status[s] # "reg" => ~readyFlag[s] /\ decl[s] = "none"

\* the code's own answers lie within what the statement allows (checked in both modes,
\* so the loose graph always contains the exact one)
CodeWithinStatement ==
  /\ MustAlive => CodeAlive
  /\ MustDead => ~CodeAlive
  /\ CodeReady => ReadyNecessary
  /\ MustReady => CodeReady

\* projection compared with the real object, full state, edge dump
Abs == [alive |-> obsAlive, ready |-> obsReady]
St == [status |-> status, timeout |-> timeout, timeLeft |-> timeLeft, readyFlag |-> readyFlag,
       phase |-> phase, pending |-> pending, sil |-> sil, decl |-> decl,
       alive |-> obsAlive, ready |-> obsReady, unitMs |-> UnitMs]
Dump == PrintT(ToJson([fs |-> St, fa |-> act.name, act |-> act', ts |-> St', fabs |-> Abs, tabs |-> Abs']))
View == <<status, timeout, timeLeft, readyFlag, phase, pending, sil, decl, obsAlive, obsReady>>
=============================================================================
