SPECIFICATION Spec
CONSTANTS
  CContents = {"A", "B", "Bw", "X"}
  RContents = {"A", "B"}
  Procs = {"timer", "pubsub"}
  Listeners = {"l1", "l2"}
  InitListeners = {"l1"}
  MaxWrites = 2
  Atomic = FALSE
  Exclusive = FALSE
  Serialized = FALSE
  Faithful = TRUE
INVARIANTS TypeOK NotifiedOncePerChange
PROPERTY NoDoubleApply NoRegress
VIEW StepView
