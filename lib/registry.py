"""Per-property check definitions. MANIFEST.json is generated from this file by bin/mkmanifest."""

PROPS = {}

PROPS["C32"] = dict(
    level="model_checking",
    technique="TLA+ spec TTL.tla model-checked by TLC; every generated transition replayed into the real SetWithTTL/MapWithTTL and all observers compared (spec->code transition tour)",
    design_ref="DESIGN.md §5 C32",
    level_text="TLC explores every add/remove/query/clock-advance order for 2 items within the horizon, including the exact expiry instant, and checks PresentForTTL/ObserversAgree/NoResurrection on the model; each generated transition is then executed on the real generics.SetWithTTL and MapWithTTL under a fake clock and every query of both objects must agree with the model (either boundary convention is accepted as long as all queries agree).",
    level_note="Exhaustive only within the bound (2 items, TTL 2 ticks, horizon 5-8 ticks); concurrency of the two objects' own mutexes is not explored; the fake clock (clockwork) is trusted.",
    assumptions=["clockwork.FakeClock is faithful", "bounded: 2 items, TTL=2 ticks"],
    stages=[dict(kind="walk", module="TTL", pkg="generics", test="TestVerifTTL",
                 alternatives=[dict(name="closed", cfg={"quick": "MC_TTL_closed.cfg", "thorough": "MC_TTL_closed_big.cfg"}),
                               dict(name="open", cfg={"quick": "MC_TTL_open.cfg", "thorough": "MC_TTL_open_big.cfg"})],
                 budget={"quick": 30, "thorough": 240})],
)

HOOKS = dict(
    guard="verif",
    enable="go test -tags verif -overlay <generated overlay.json> (harness files are injected from /verif/harness; hook bodies compile only with -tags verif)",
    baseline_off_cmd="for m in . ./LICENSES/github.com/hashicorp/go-version ./LICENSES/github.com/hashicorp/golang-lru/v2; do (cd /repo/$m && GOFLAGS=-mod=mod GOPROXY=off go test -json -vet=off -count=1 -timeout 25m ./...); done",
    source_commits=[],
    add_only=True,
)

ENGINES = [
    dict(name="vcheck", path="bin/vcheck", serves_properties=sorted(PROPS),
         kind_free_text="TLC exhaustive model checking of spec/*.tla + replay of every generated transition into the real Go objects (harness/*, injected with go test -overlay) + TLC validation of traces recorded from the hooked code"),
]

_PLANNED = "check not built yet; the TLA+ module and binding planned for it are described in DESIGN.md section 5"
NOT_APPLICABLE = {f"C{i:02d}": _PLANNED for i in range(1, 39)}
NOT_APPLICABLE["C38"] = ("one-shot file-to-file translation with no state, schedule or history; the only oracle is the v1->v2 table the converter is generated from, "
                         "so a TLA+ transcription would restate the implementation (DESIGN.md section 6)")
