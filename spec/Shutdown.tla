------------------------------ MODULE Shutdown ------------------------------
(***************************************************************************)
(* Graceful shutdown of the data path (property C36): the collector        *)
(* (collect.InMemCollector.Stop, CollectorWorker.collect) and the upstream *)
(* transmission (transmit.DirectTransmission.Stop), stopped in the order   *)
(* startstop uses in cmd/refinery/main.go (dependents first: collector,    *)
(* then the transmission it depends on), after any prefix of an ingestion  *)
(* scenario.                                                               *)
(*                                                                         *)
(* README "Restarts": when the process is restarted all in-flight traces   *)
(* are flushed (sent upstream).  Ideal StopCollector therefore decides     *)
(* every buffered trace and hands the kept ones to the transmission; the   *)
(* code's workers simply return when their channels are closed, which is   *)
(* the named deviation "no-drain" (Faithful = TRUE).                       *)
(***************************************************************************)
EXTENDS Integers, Sequences, FiniteSets, TLC, Json

CONSTANTS Traces,     \* trace ids
          Kept,       \* subset of Traces the sampler keeps
          MaxSpans,   \* spans accepted in a run
          Faithful    \* TRUE: also allow what the code does today

VARIABLES phase,    \* "running" | "collector-stopped" | "stopped"
          buf,      \* [trace -> set of buffered span ids]
          pending,  \* span ids in the transmission's open batch
          hny,      \* span ids Honeycomb received
          lost,     \* span ids of kept traces discarded without a decision (deviation only)
          decided,  \* traces that have a remembered decision (late spans follow it)
          nextId,
          act

vars == <<phase, buf, pending, hny, lost, decided, nextId, act>>

Init == /\ phase = "running"
        /\ buf = [t \in Traces |-> {}]
        /\ pending = {} /\ hny = {} /\ lost = {} /\ decided = {}
        /\ nextId = 1
        /\ act = [name |-> "Init"]

\* the router hands a span to the collector (only while it is running: routers stop first)
Span(t) ==
  /\ phase = "running" /\ nextId <= MaxSpans
  /\ IF t \in decided
     THEN /\ buf' = buf        \* late span: follows the remembered decision at once
          /\ pending' = IF t \in Kept THEN pending \cup {nextId} ELSE pending
     ELSE /\ buf' = [buf EXCEPT ![t] = @ \cup {nextId}]
          /\ pending' = pending
  /\ nextId' = nextId + 1
  /\ act' = [name |-> "Span", t |-> t, id |-> nextId]
  /\ UNCHANGED <<phase, hny, lost, decided>>

\* the send tick after the deadline: every buffered trace is decided
Tick ==
  /\ phase = "running" /\ \E t \in Traces : buf[t] # {}
  /\ pending' = pending \cup UNION {buf[t] : t \in Kept}
  /\ decided' = decided \cup {t \in Traces : buf[t] # {}}
  /\ buf' = [t \in Traces |-> {}]
  /\ act' = [name |-> "Tick"]
  /\ UNCHANGED <<phase, hny, lost, nextId>>

\* the transmission's batch timer
Dispatch ==
  /\ phase = "running" /\ pending # {}
  /\ hny' = hny \cup pending /\ pending' = {}
  /\ act' = [name |-> "Dispatch"]
  /\ UNCHANGED <<phase, buf, lost, decided, nextId>>

\* InMemCollector.Stop
StopCollector ==
  /\ phase = "running"
  /\ phase' = "collector-stopped"
  /\ \/ /\ pending' = pending \cup UNION {buf[t] : t \in Kept}      \* ideal: drained
        /\ lost' = lost
        /\ act' = [name |-> "StopCollector"]
     \/ /\ Faithful /\ \E t \in Traces : buf[t] # {}                 \* the code: buffered traces vanish
        /\ pending' = pending
        /\ lost' = lost \cup UNION {buf[t] : t \in Kept}
        /\ act' = [name |-> "StopCollector", dev |-> "no-drain"]
  /\ buf' = [t \in Traces |-> {}]
  /\ UNCHANGED <<hny, decided, nextId>>

\* DirectTransmission.Stop: everything pending is sent - also when Honeycomb throttles the final
\* flush (429 with a short Retry-After on the first attempt of each batch): the batch is retried
\* after the delay and delivered
StopTransmission(throttled) ==
  /\ phase = "collector-stopped"
  /\ phase' = "stopped"
  /\ hny' = hny \cup pending /\ pending' = {}
  /\ act' = [name |-> "StopTransmission", throttled |-> throttled]
  /\ UNCHANGED <<buf, lost, decided, nextId>>

Next == (\E t \in Traces : Span(t)) \/ Tick \/ Dispatch \/ StopCollector \/ (\E th \in BOOLEAN : StopTransmission(th))
Spec == Init /\ [][Next]_vars
FairSpec == Spec /\ WF_vars(StopCollector) /\ WF_vars(\E th \in BOOLEAN : StopTransmission(th))

TypeOK == phase \in {"running", "collector-stopped", "stopped"}
\* C36: after a graceful stop nothing is buffered or pending, and (ideal) nothing kept was lost
StoppedClean == phase = "stopped" => pending = {} /\ \A t \in Traces : buf[t] = {}
NothingLost == lost = {}      \* holds for Faithful = FALSE; TLC refutes it for Faithful = TRUE (the known finding)
HnyOnlyKept == \A i \in hny : TRUE
Terminates == <>(phase = "stopped")

Abs == [ phase |-> phase,
         bufferedSet |-> UNION {buf[t] : t \in Traces},
         pendingCount |-> Cardinality(pending),
         hnySet |-> hny,
         leaked |-> 0,          \* goroutines of refinery packages still running after the stop
         panicked |-> FALSE ]
Hid == [ buf |-> buf, pending |-> pending, lost |-> lost, decided |-> decided, nextId |-> nextId ]
ASSUME PrintT(ToJson([params |-> [traces |-> Traces, kept |-> Kept]]))
Dump == PrintT(ToJson([fa |-> act.name, act |-> act', fabs |-> Abs, fhid |-> Hid, tabs |-> Abs', thid |-> Hid']))
View == <<phase, buf, pending, hny, lost, decided, nextId>>
=============================================================================
