SPECIFICATION Spec
CONSTANTS
  Faithful = TRUE
  UnlistedBlank = "reject"
  AllEncodings = TRUE
  UseKeysChoices = {TRUE, FALSE}
INVARIANTS TypeOK Uniform AcceptedOnlyIfAuthorized RefusedOnlyIfUnauthorizedOrBlank NeverBlank KeyPerTable SendKeyOnlyForListed TableSane DevShape
ACTION_CONSTRAINT Dump
VIEW View
CHECK_DEADLOCK FALSE
