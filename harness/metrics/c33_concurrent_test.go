//go:build verif

package metrics

import (
	"fmt"
	"math/rand"
	"os"
	"strconv"
	"sync"
	"testing"

	"github.com/honeycombio/refinery/internal/verifkit"
)

// TestVerifC33Concurrent runs the public calls of spec/Metrics.tla from several
// goroutines at once on one real MultiMetrics (built with -race). The oracle is
// what Metrics.tla's invariants say about states every schedule agrees on:
//   - ReadBack at quiescence: counter = sum of all increments, updown = ups -
//     downs (both commute, so the expected value does not depend on the
//     schedule), gauge = the last value written by one of the goroutines;
//   - CounterMonotone: a goroutine that keeps reading a counter never sees it
//     decrease, and never sees more than was recorded in total.
// Goroutines are released together by closing a channel and joined with a
// WaitGroup; nothing depends on time.
func TestVerifC33Concurrent(t *testing.T) {
	seed, _ := strconv.ParseInt(os.Getenv("VERIF_SEED"), 10, 64)
	rounds := 150
	if os.Getenv("VERIF_TIER") == "thorough" {
		rounds = 1500
	}
	rng := rand.New(rand.NewSource(seed))
	const workers, opsPer = 4, 12
	type op struct {
		kind string
		v    int
	}
	var violations []map[string]any
	var samples []any
	evals := 0
	md := map[string]Metadata{
		"c": {Name: "c", Type: Counter}, "g": {Name: "g", Type: Gauge}, "u": {Name: "u", Type: UpDown},
	}
	for r := 0; r < rounds && len(violations) < 3; r++ {
		m := NewMultiMetrics()
		progs := make([][]op, workers)
		wantC, wantU := 0, 0
		lastG := map[int]bool{0: true} // never written: reads 0
		anyG := false
		for w := range progs {
			gw := -1
			for k := 0; k < opsPer; k++ {
				var o op
				switch rng.Intn(9) {
				case 0:
					o = op{"Increment", 0}
					wantC++
				case 1:
					o = op{"Count", 2}
					wantC += 2
				case 2:
					o = op{"Up", 0}
					wantU++
				case 3:
					o = op{"Down", 0}
					wantU--
				case 4:
					o = op{"Gauge", 1 + rng.Intn(50)}
					gw = o.v
				case 5:
					o = op{"RegisterC", 0}
				case 6:
					o = op{"RegisterU", 0}
				case 7:
					o = op{"RegisterG", 0}
				case 8:
					o = op{"GetC", 0}
				}
				progs[w] = append(progs[w], o)
			}
			if gw >= 0 {
				if !anyG {
					lastG = map[int]bool{}
					anyG = true
				}
				lastG[gw] = true
			}
		}
		start := make(chan struct{})
		var wg sync.WaitGroup
		var mu sync.Mutex
		var during []string
		for w := range progs {
			wg.Add(1)
			go func(w int) {
				defer wg.Done()
				<-start
				prev := 0.0
				for _, o := range progs[w] {
					switch o.kind {
					case "Increment":
						m.Increment("c")
					case "Count":
						m.Count("c", int64(o.v))
					case "Up":
						m.Up("u")
					case "Down":
						m.Down("u")
					case "Gauge":
						m.Gauge("g", float64(o.v))
					case "RegisterC":
						m.Register(md["c"])
					case "RegisterU":
						m.Register(md["u"])
					case "RegisterG":
						m.Register(md["g"])
					case "GetC":
						v, _ := m.Get("c")
						if v < prev || v > float64(wantC) {
							mu.Lock()
							during = append(during, fmt.Sprintf("worker %d read counter %v after %v (total recorded %d)", w, v, prev, wantC))
							mu.Unlock()
						}
						prev = v
					}
				}
			}(w)
		}
		close(start)
		wg.Wait()
		evals++
		gotC, _ := m.Get("c")
		gotU, _ := m.Get("u")
		gotG, _ := m.Get("g")
		var bad []string
		if gotC != float64(wantC) {
			bad = append(bad, fmt.Sprintf("counter reads %v, %d recorded", gotC, wantC))
		}
		if gotU != float64(wantU) {
			bad = append(bad, fmt.Sprintf("updown reads %v, ups-downs = %d", gotU, wantU))
		}
		if !lastG[int(gotG)] || gotG != float64(int(gotG)) {
			bad = append(bad, fmt.Sprintf("gauge reads %v, which no goroutine wrote last (%v)", gotG, lastG))
		}
		bad = append(bad, during...)
		if len(bad) > 0 {
			violations = append(violations, map[string]any{"round": r, "programs": fmt.Sprint(progs), "observed": bad})
		}
		if r < 2 {
			samples = append(samples, map[string]any{"programs": fmt.Sprint(progs), "counter": gotC, "updown": gotU, "gauge": gotG})
		}
	}
	if err := verifkit.WriteJSON(os.Getenv("VERIF_OUT"), map[string]any{
		"evaluations": evals, "distinct": evals, "violations": violations, "samples": samples,
		"note": "4 goroutines x 12 public calls per round on one MultiMetrics under -race; oracle = Metrics.tla ReadBack at quiescence + CounterMonotone for concurrent readers",
	}); err != nil {
		t.Fatal(err)
	}
}
