----------------------------- MODULE HealthIndRef -----------------------------
(* TLC tie between spec/Health.tla and spec/ind/HealthInd.tla (method: see  *)
(* TTLIndRef.tla).  MaxTimeout of HealthInd is Health.tla's CHOOSE.         *)
EXTENDS Health

I == INSTANCE HealthInd

Union == Next \/ (I!Next /\ act' = [name |-> "Typed"])
SpecU == Init /\ [][Union]_vars

InitSame == Init => I!Init
Fwd == [][I!Next]_vars

Park == TLCSet(1, <<status', timeout', timeLeft', readyFlag', phase', pending', sil', decl', obsAlive', obsReady'>>)
Bwd == [][Park /\ ENABLED (Next /\ <<status', timeout', timeLeft', readyFlag', phase', pending', sil', decl', obsAlive', obsReady'>> = TLCGet(1))]_vars

SameInv == /\ TypeOK <=> I!TypeOK
           /\ C30Alive <=> I!C30Alive
           /\ C30Ready <=> I!C30Ready
           /\ CodeMatchesGhosts <=> I!CodeMatchesGhosts
           /\ CodeWithinStatement <=> I!CodeWithinStatement
           /\ I!IndInv /\ I!ConstOK

\* on the original steps the labelled property and the label-free one agree
SameAct ==
  [][act'.name # "Typed" =>
       ((\A s \in Subs : (s \in Registered /\ Overdue(s) /\ obsAlive')
            => (act'.name \in {"Ready", "Register", "Unregister"} /\ act'.s = s))
        <=> I!DeadUntilReportStep)]_vars
=============================================================================
