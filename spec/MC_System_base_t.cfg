SPECIFICATION Spec
CONSTANTS
  Nodes <- mc_Nodes2
  Traces <- mc_Traces3b
  Owner <- mc_Owner3b
  Keep <- mc_Keep3b
  SamplerRate = 2
  CRates = {3}
  Shapes = {"root-msgpack", "child-json"}
  MaxSpans = 3
  StressNodes = {}
  SKeep = {}
  StressRate = 5
  WithPlain = FALSE
  Epochs = TRUE
  Compress = FALSE
INVARIANTS TypeOK AtMostOnce InOnePlace VerdictRespected StressVerdict JustifiedAtNode ExactlyOnceAtRest AccountedAtRest RatesCompose OnlyOwnerCollects DecidedOnce HnyIntact PeerIntact OneHop NoSelfForward ArrivesAtOwner
PROPERTIES Remembered HnyGrows
ACTION_CONSTRAINT Dump
VIEW View
CHECK_DEADLOCK FALSE
