----------------------------- MODULE TraceTTL -----------------------------
(***************************************************************************)
(* Trace validation (binding B2) for TTL.tla: a randomized Go driver       *)
(* performs operations on the real SetWithTTL/MapWithTTL and logs one      *)
(* NDJSON line per operation with the observed answers; TLC checks that    *)
(* the log is a behaviour of TTL!Next and that every logged observation    *)
(* equals the specification's.  Several traces are concatenated, separated *)
(* by {"event":"reset"} lines.  This file is also the template for the     *)
(* other Trace*.tla modules.                                               *)
(***************************************************************************)
EXTENDS TTL, Sequences, SequencesExt

VARIABLE l   \* number of trace lines consumed so far

Trace == ndJsonDeserialize("trace.ndjson")

tvars == <<vars, l>>

\* high-water mark register (must be initialised in Init)
TraceInit == Init /\ l = 0 /\ TLCSet(1, 0)

Line == Trace[l + 1]
Consume == l < Len(Trace) /\ l' = l + 1
\* CONSTRAINT evaluated on every reached state: records the longest matched prefix
HWM == TLCSet(1, IF l > TLCGet(1) THEN l ELSE TLCGet(1))
IsEvent(e) == Consume /\ Line.event = e

\* the logged observation must equal the specification's post-state
AsSet(s) == {s[k] : k \in DOMAIN s}
Observed == /\ Abs'.presentSet = AsSet(Line.contains)
            /\ Abs'.presentSet = AsSet(Line.get)
            /\ Abs'.presentSet = AsSet(Line.members)
            /\ Abs'.presentSet = AsSet(Line.keys)
            /\ Abs'.length = Line.length
            /\ Abs'.length = Line.maplength
            /\ Abs'.now = Line.now

TraceReset == /\ IsEvent("reset")
              /\ exp' = [i \in Items |-> -1] /\ val' = [i \in Items |-> 0]
              /\ lastAdd' = [i \in Items |-> -1] /\ now' = 0 /\ act' = [name |-> "Init"]

TraceAdd == IsEvent("Add") /\ Add(Line.i, Line.v) /\ Observed
TraceRemove == IsEvent("Remove") /\ Remove(Line.i) /\ Observed
TraceAdvance == IsEvent("Advance") /\ Advance(Line.d) /\ Observed
TraceQuery == IsEvent("Query") /\ Query(Line.q) /\ Observed

TraceNext == TraceReset \/ TraceAdd \/ TraceRemove \/ TraceAdvance \/ TraceQuery

TraceSpec == TraceInit /\ [][TraceNext]_tvars

TraceAccepted ==
  LET hwm == TLCGet(1) IN
  IF hwm = Len(Trace) THEN PrintT(<<"TRACE-ACCEPTED", hwm>>)
  ELSE PrintT(<<"TRACE-HWM", hwm>>) /\ FALSE
=============================================================================
