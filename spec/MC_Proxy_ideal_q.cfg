SPECIFICATION Spec
CONSTANTS
  Faithful = FALSE
  CrossResps <- CoreResps
  Sides = {"req", "rsp", "fault"}
  FaultReqs <- FaultReqsQ
  FaultResps <- FaultRespsQ
INVARIANTS TypeOK RelayedUnchanged XffDeviationShape ReturnedUnchanged UpstreamHeaderWins OneCall FailureIsReported FaithfulPresentations OwnAnswerOnly DevsOnlyWhenFaithful NoDeviation
CHECK_DEADLOCK FALSE
