//go:build verif

package route

import (
	"context"
	"fmt"
	"math/rand"
	"os"
	"sort"
	"strconv"
	"sync"
	"testing"

	"github.com/honeycombio/refinery/collect"
	"github.com/honeycombio/refinery/config"
	"github.com/honeycombio/refinery/internal/peer"
	"github.com/honeycombio/refinery/internal/verifkit"
	"github.com/honeycombio/refinery/logger"
	"github.com/honeycombio/refinery/metrics"
	"github.com/honeycombio/refinery/sharder"
	"github.com/honeycombio/refinery/types"
)

// Binding of spec/Sharding.tla (C17): one real DeterministicSharder and two
// real Routers (incoming / peer listener) per node of the model's peer set,
// every node seeing the same addresses in its own order. Forwarded events are
// carried by the harness from the forwarding node's peer transmission to the
// peer listener of the node whose address they bear.

type c17Tx struct {
	mu  sync.Mutex
	evs []*types.Event
}

func (x *c17Tx) EnqueueEvent(ev *types.Event) { x.mu.Lock(); x.evs = append(x.evs, ev); x.mu.Unlock() }
func (x *c17Tx) EnqueueSpan(sp *types.Span)   { x.EnqueueEvent(sp.Event) }
func (x *c17Tx) RegisterMetrics()            {}
func (x *c17Tx) take() []*types.Event {
	x.mu.Lock()
	defer x.mu.Unlock()
	e := x.evs
	x.evs = nil
	return e
}

type c17Node struct {
	addr   string
	sh     *sharder.DeterministicSharder
	in, pr *Router
	coll   *collect.MockCollector
	peerTx *c17Tx
}

type c17Harness struct {
	nodes   map[string]*c17Node
	order   []string
	landed  map[string]map[string]bool
	count   map[string]int
	hops    int
	selfFwd int
	outside int
	agree   bool
	seed    int64
}

func c17URL(a string) string { return "http://" + a }

func slicesContains(l []string, x string) bool {
	for _, y := range l {
		if y == x {
			return true
		}
	}
	return false
}

func (h *c17Harness) Reset(init map[string]any) error {
	var set []string
	for _, a := range init["S"].([]any) {
		set = append(set, a.(string))
	}
	sort.Strings(set)
	view, _ := init["view"].(map[string]any)
	hist, _ := init["hist"].(map[string]any)
	universe := []string{"a:1", "b:1", "c:1", "d:1", "e:1", "f:1"}
	h.nodes, h.order = map[string]*c17Node{}, set
	h.landed, h.count = map[string]map[string]bool{}, map[string]int{}
	h.hops, h.selfFwd, h.outside, h.agree = 0, 0, 0, true
	conf := &config.MockConfig{TraceIdFieldNames: []string{"trace.trace_id"}, ParentIdFieldNames: []string{"trace.parent_id"}}
	for _, a := range set {
		list := make([]string, len(set))
		for i, x := range set {
			list[i] = c17URL(x)
		}
		switch view[a] {
		case "reversed":
			for i, j := 0, len(list)-1; i < j; i, j = i+1, j-1 {
				list[i], list[j] = list[j], list[i]
			}
		case "rotated":
			list = append(list[1:], list[0])
		}
		// the list this node saw BEFORE it learned the current one (membership history)
		first := list
		switch hist[a] {
		case "grew":
			first = []string{c17URL(a)}
		case "shrank":
			first = nil
			for _, x := range universe {
				first = append(first, c17URL(x))
			}
			if !slicesContains(first, c17URL(a)) {
				first = append(first, c17URL(a))
			}
		}
		mp := peer.NewMockPeers(first, c17URL(a))
		sh := &sharder.DeterministicSharder{Config: conf, Logger: &logger.NullLogger{}, Peers: mp}
		if err := sh.Start(); err != nil {
			return err
		}
		if hist[a] == "grew" || hist[a] == "shrank" {
			mp.UpdatePeers(list) // fires the sharder's reload callback synchronously
		}
		met := &metrics.MockMetrics{}
		met.Start()
		n := &c17Node{addr: c17URL(a), sh: sh, coll: collect.NewMockCollector(), peerTx: &c17Tx{}}
		mk := func(rt types.RouterType) *Router {
			r := &Router{Config: conf, Logger: &logger.NullLogger{}, Metrics: met, UpstreamTransmission: &c17Tx{}, PeerTransmission: n.peerTx,
				Collector: n.coll, Sharder: sh, routerType: rt, iopLogger: iopLogger{Logger: &logger.NullLogger{}, incomingOrPeer: rt.String()}}
			r.registerMetricNames()
			return r
		}
		n.in, n.pr = mk(types.RouterTypeIncoming), mk(types.RouterTypePeer)
		h.nodes[n.addr] = n
	}
	// ownership agreement on a seeded stream of trace ids: same owner from every node, owner in the set
	rng := rand.New(rand.NewSource(h.seed))
	for k := 0; k < 300; k++ {
		id := fmt.Sprintf("%016x%016x", rng.Uint64(), rng.Uint64())
		owner := ""
		for _, n := range h.nodes {
			o := n.sh.WhichShard(id).GetAddress()
			if _, ok := h.nodes[o]; !ok {
				h.agree = false
			}
			if owner == "" {
				owner = o
			} else if o != owner {
				h.agree = false
			}
		}
	}
	return nil
}

func (h *c17Harness) drain(n *c17Node, t string) {
	for c := n.coll; ; {
		select {
		case <-c.Spans:
			if h.landed[t] == nil {
				h.landed[t] = map[string]bool{}
			}
			h.landed[t][n.addr] = true
			h.count[t]++
			continue
		default:
		}
		break
	}
}

func (h *c17Harness) Apply(a map[string]any) error {
	if verifkit.Str(a, "name") != "Send" {
		return fmt.Errorf("unknown action %v", a)
	}
	t := verifkit.Str(a, "t")
	entry := h.nodes[c17URL(verifkit.Str(a, "n"))]
	ev := &types.Event{Context: context.Background(), APIHost: "http://honeycomb.invalid", APIKey: "k", Dataset: "d",
		Data: types.NewPayload(entry.in.Config, map[string]any{"trace.trace_id": "trace-" + t + "-" + strconv.FormatInt(h.seed, 10), "f": 1})}
	if err := entry.in.processEvent(ev, "req"); err != nil {
		return err
	}
	h.drain(entry, t)
	// carry forwarded events to the node they are addressed to (bounded: a ping-pong would show as hops > 1)
	cur := []*c17Node{entry}
	for hop := 1; hop <= 4 && len(cur) > 0; hop++ {
		var next []*c17Node
		for _, n := range cur {
			for _, fe := range n.peerTx.take() {
				if hop > h.hops {
					h.hops = hop
				}
				if fe.APIHost == n.addr {
					h.selfFwd++
				}
				dst, ok := h.nodes[fe.APIHost]
				if !ok {
					h.outside++
					continue
				}
				// the receiving node builds a fresh event from the wire form; the payload map is what travels
				rx := &types.Event{Context: context.Background(), APIHost: "http://honeycomb.invalid", APIKey: fe.APIKey, Dataset: fe.Dataset,
					SampleRate: fe.SampleRate, Timestamp: fe.Timestamp, Data: types.NewPayload(dst.pr.Config, map[string]any{"trace.trace_id": fe.Data.Get("trace.trace_id"), "f": 1})}
				if err := dst.pr.processEvent(rx, "req"); err != nil {
					return err
				}
				h.drain(dst, t)
				next = append(next, dst)
			}
		}
		cur = next
	}
	return nil
}

func (h *c17Harness) Project() (any, error) {
	lc, cnt := map[string]int{}, map[string]int{}
	for _, t := range []string{"t1", "t2"} {
		lc[t] = len(h.landed[t])
		cnt[t] = h.count[t]
	}
	return map[string]any{"landedCount": lc, "count": cnt, "hops": h.hops, "selfFwd": h.selfFwd, "outside": h.outside, "agree": h.agree}, nil
}

func TestVerifSharding(t *testing.T) {
	seed, _ := strconv.ParseInt(os.Getenv("VERIF_SEED"), 10, 64)
	if err := verifkit.Main(&c17Harness{seed: seed}); err != nil {
		t.Fatal(err)
	}
}
