--------------------------- MODULE TraceCollector ---------------------------
(***************************************************************************)
(* Binding B2 for the collector: traces recorded from a real               *)
(* InMemCollector running several workers, concurrent producers, a fake    *)
(* clock advanced concurrently, rules reloads and memory-pressure          *)
(* ejections (Go driver: harness/collect/collector_trace_test.go, run      *)
(* under the race detector).  One line per hook event (collect/verif_on.go)*)
(* plus the lines the harness's recording Transmission writes for every    *)
(* span handed upstream.                                                   *)
(*                                                                         *)
(* The specification is the collector at the grain of its hook events; TLC *)
(* checks that the recorded sequence is a behaviour of it, i.e. at every   *)
(* event the preconditions below hold:                                     *)
(*   C01  a trace is decided at most once, and only while buffered; late   *)
(*        spans are treated according to that decision;                    *)
(*   C02  a span is forwarded only after its trace was decided to be sent, *)
(*        exactly once, never after being dropped; at quiescence every     *)
(*        accepted span has been forwarded or dropped;                     *)
(*   C04/C05 forwarded rates compose / dry run forwards everything;        *)
(*   the decision taken is the verdict of some rules epoch in force.       *)
(***************************************************************************)
EXTENDS Integers, Sequences, FiniteSets, TLC, Json

VARIABLES l,        \* trace lines consumed
          cfgd,     \* dry run flag of the current run
          rates,    \* rates[e] = sampler rate of rules epoch e
          keeps,    \* keeps[e] = set of traces kept in epoch e
          epoch,    \* current epoch (number of rules reloads + 1)
          acc,      \* [trace -> set of accepted span records [id, crate]]
          buf,      \* [trace -> set of buffered ids]
          dec,      \* [trace -> <<>> or <<[keep, rate]>>]
          pend,     \* set of <<t, id>> that must be forwarded (queued for the sender / late kept)
          fwd,      \* set of <<t, id>> forwarded
          drp       \* set of <<t, id>> dropped

tvars == <<l, cfgd, rates, keeps, epoch, acc, buf, dec, pend, fwd, drp>>

Trace == ndJsonDeserialize("trace.ndjson")
Line == Trace[l + 1]
Consume == l < Len(Trace) /\ l' = l + 1
IsEvent(e) == Consume /\ Line.event = e
HWM == TLCSet(1, IF l > TLCGet(1) THEN l ELSE TLCGet(1))

Max(a, b) == IF a > b THEN a ELSE b
AsSet(s) == {s[k] : k \in DOMAIN s}
Get(f, t, d) == IF t \in DOMAIN f THEN f[t] ELSE d
Put(f, t, v) == [x \in DOMAIN f \cup {t} |-> IF x = t THEN v ELSE f[x]]
Ids(t) == {r.id : r \in Get(acc, t, {})}
CrateOf(t, id) == (CHOOSE r \in acc[t] : r.id = id).crate
Handled(t) == Get(buf, t, {}) \cup {p[2] : p \in {q \in pend \cup fwd \cup drp : q[1] = t}}

Fresh == /\ acc = <<>> /\ buf = <<>> /\ dec = <<>> /\ pend = {} /\ fwd = {} /\ drp = {}

TraceInit == /\ l = 0 /\ TLCSet(1, 0)
             /\ cfgd = FALSE /\ rates = <<1>> /\ keeps = <<{}>> /\ epoch = 1 /\ Fresh

\* a new run of the driver: fresh collector
TReset ==
  /\ IsEvent("reset")
  /\ cfgd' = Line.dry_run
  /\ rates' = Line.rates
  /\ keeps' = [e \in DOMAIN Line.keeps |-> AsSet(Line.keeps[e])]
  /\ epoch' = 1
  /\ acc' = <<>> /\ buf' = <<>> /\ dec' = <<>> /\ pend' = {} /\ fwd' = {} /\ drp' = {}

\* the driver is about to hand a span to AddSpan
TArrive ==
  /\ IsEvent("arrive")
  /\ Line.id \notin Ids(Line.t)
  /\ acc' = Put(acc, Line.t, Get(acc, Line.t, {}) \cup {[id |-> Line.id, crate |-> Line.crate]})
  /\ UNCHANGED <<cfgd, rates, keeps, epoch, buf, dec, pend, fwd, drp>>

\* processSpan added the span to a live trace
TBuffered ==
  /\ IsEvent("buffered")
  /\ Line.id \in Ids(Line.t) /\ Line.id \notin Handled(Line.t)
  /\ Get(dec, Line.t, <<>>) = <<>>              \* C01: a decided trace never buffers again
  /\ buf' = Put(buf, Line.t, Get(buf, Line.t, {}) \cup {Line.id})
  /\ Line.n = Cardinality(buf'[Line.t])
  /\ UNCHANGED <<cfgd, rates, keeps, epoch, acc, dec, pend, fwd, drp>>

\* makeDecision recorded the sampler's verdict
TDecision ==
  /\ IsEvent("decision")
  /\ Get(dec, Line.t, <<>>) = <<>>              \* C01: at most one decision
  /\ Get(buf, Line.t, {}) # {}
  /\ Line.n = Cardinality(buf[Line.t])
  /\ \E e \in 1 .. epoch : Line.rate = rates[e] /\ (Line.keep <=> Line.t \in keeps[e])
  /\ dec' = Put(dec, Line.t, <<[keep |-> Line.keep, rate |-> Line.rate]>>)
  /\ UNCHANGED <<cfgd, rates, keeps, epoch, acc, buf, pend, fwd, drp>>

\* send(): the decided trace is dropped ...
TDropped ==
  /\ IsEvent("trace_dropped")
  /\ Get(dec, Line.t, <<>>) # <<>> /\ ~dec[Line.t][1].keep /\ ~cfgd
  /\ Line.n = Cardinality(Get(buf, Line.t, {}))
  /\ drp' = drp \cup {<<Line.t, i>> : i \in Get(buf, Line.t, {})}
  /\ buf' = Put(buf, Line.t, {})
  /\ UNCHANGED <<cfgd, rates, keeps, epoch, acc, dec, pend, fwd>>

\* ... or queued for the sender goroutine
TQueued ==
  /\ IsEvent("trace_queued")
  /\ Get(dec, Line.t, <<>>) # <<>> /\ (dec[Line.t][1].keep \/ cfgd)
  /\ Line.n = Cardinality(Get(buf, Line.t, {}))
  /\ pend' = pend \cup {<<Line.t, i>> : i \in Get(buf, Line.t, {})}
  /\ buf' = Put(buf, Line.t, {})
  /\ UNCHANGED <<cfgd, rates, keeps, epoch, acc, dec, fwd, drp>>

\* dealWithSentTrace: a span arrived after the decision
TLate ==
  /\ IsEvent("late")
  /\ Line.id \in Ids(Line.t) /\ Line.id \notin Handled(Line.t)
  /\ Get(dec, Line.t, <<>>) # <<>> /\ Line.kept = dec[Line.t][1].keep      \* C01: obeys the decision
  /\ IF Line.kept \/ cfgd
     THEN pend' = pend \cup {<<Line.t, Line.id>>} /\ drp' = drp
     ELSE drp' = drp \cup {<<Line.t, Line.id>>} /\ pend' = pend
  /\ UNCHANGED <<cfgd, rates, keeps, epoch, acc, buf, dec, fwd>>

\* the upstream transmission received a span
TForward ==
  /\ IsEvent("forward")
  /\ <<Line.t, Line.id>> \in pend                 \* C02: decided to be sent, not yet sent, never dropped
  /\ LET d == dec[Line.t][1]
         cr == Max(CrateOf(Line.t, Line.id), 1)
     IN IF cfgd
        THEN /\ Line.rate = cr                                         \* C05
             /\ Line.dry = (IF d.keep THEN "true" ELSE "false")
        ELSE /\ Line.rate = cr * d.rate /\ Line.final = Line.rate      \* C04
             /\ Line.orig = CrateOf(Line.t, Line.id)
             /\ Line.dry = ""
  /\ pend' = pend \ {<<Line.t, Line.id>>}
  /\ fwd' = fwd \cup {<<Line.t, Line.id>>}
  /\ UNCHANGED <<cfgd, rates, keeps, epoch, acc, buf, dec, drp>>

\* the sender finished a trace: none of its queued spans is left behind
TSent ==
  /\ IsEvent("trace_sent")
  /\ UNCHANGED <<cfgd, rates, keeps, epoch, acc, buf, dec, pend, fwd, drp>>

\* the driver changed the rules (before firing the reload callbacks)
TRules ==
  /\ IsEvent("rules_changed")
  /\ epoch' = epoch + 1 /\ epoch' <= Len(rates)
  /\ UNCHANGED <<cfgd, rates, keeps, acc, buf, dec, pend, fwd, drp>>

\* events that carry no obligation here
TSilent ==
  /\ Consume /\ Line.event \in {"tick", "ejected", "reloaded", "worker_reloaded", "processed", "advance"}
  /\ UNCHANGED <<cfgd, rates, keeps, epoch, acc, buf, dec, pend, fwd, drp>>

\* the driver drained the collector (all deadlines passed, all barriers done):
\* C02 - every accepted span was forwarded or dropped, nothing is pending
TQuiesce ==
  /\ IsEvent("quiesce")
  /\ pend = {}
  /\ \A t \in DOMAIN acc : Get(buf, t, {}) = {} /\ \A i \in Ids(t) : <<t, i>> \in fwd \cup drp
  /\ UNCHANGED <<cfgd, rates, keeps, epoch, acc, buf, dec, pend, fwd, drp>>

TraceNext == TReset \/ TArrive \/ TBuffered \/ TDecision \/ TDropped \/ TQueued \/ TLate
             \/ TForward \/ TSent \/ TRules \/ TSilent \/ TQuiesce

TraceSpec == TraceInit /\ [][TraceNext]_tvars

\* state invariants evaluated at every consumed line
NoDoubleFate == fwd \cap drp = {} /\ pend \cap (fwd \cup drp) = {}
ForwardedOnlyIfDecided == \A p \in fwd \cup pend : Get(dec, p[1], <<>>) # <<>>

TraceAccepted ==
  LET hwm == TLCGet(1) IN
  IF hwm = Len(Trace) THEN PrintT(<<"TRACE-ACCEPTED", hwm>>)
  ELSE PrintT(<<"TRACE-HWM", hwm>>) /\ FALSE
=============================================================================
