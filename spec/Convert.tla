------------------------------ MODULE Convert ------------------------------
(***************************************************************************)
(* Property C38: converting a valid Refinery v1 config or rules file       *)
(* yields a v2 file that (1) passes v2 validation and in which (2) every   *)
(* non-default v1 setting that still exists in v2 has the same effective   *)
(* value.                                                                  *)
(*                                                                         *)
(* The converter is a function, so this is binding B3: Init enumerates     *)
(* classes of valid v1 documents, the actions are the two halves of what a *)
(* user does with the tool:                                                *)
(*   Convert : `convert config|rules --input v1 --output v2`  (tools/convert)*)
(*   Load    : Refinery reads the produced file (config.NewConfig with     *)
(*             validation) and the rest of the code asks the Config        *)
(*             getters.                                                    *)
(* The v2 document `out` produced by Convert is hidden; what is observable *)
(* is whether the tool produced a file, whether the loader accepts it and  *)
(* the effective values of the observation keys `watch`.                   *)
(*                                                                         *)
(* THE ORACLE.  What a v1 setting means is NOT taken from the converter's  *)
(* template (tools/convert/templates/configV2.tmpl) nor from the           *)
(* v1group/v1name columns it is generated from.  Each row of CfgAtoms      *)
(* below is a reading of the v1 reference files shipped in the repo,       *)
(* config_complete.1.x.toml and rules_complete.1.x.toml (name, section,    *)
(* type, unit, documented default), of RELEASE_NOTES.md (1.20, 1.21, 2.0,  *)
(* 2.0.1), and of the v2 documentation of the setting that does the same   *)
(* job today (config.md / rules.md).  `nd` says that the value differs     *)
(* from the default v1 documents, i.e. clause (2) applies to the row; rows *)
(* whose v1 default is not documented take part in clause (1) only.        *)
(* Settings that no longer exist (HoneycombMetrics.*, CacheCapacity,       *)
(* BufferSizes, RedisPrefix, ...) have no expectation.                     *)
(*                                                                         *)
(* Deviations (Faithful = TRUE) are what the real converter is known to do *)
(* instead; see known_findings.json.                                       *)
(***************************************************************************)
EXTENDS Integers, Sequences, FiniteSets, TLC, Json

CONSTANTS
  Faithful,   \* TRUE: the real converter's known deviations are successors too
  Files,      \* subset of {"config", "rules"}
  Formats,    \* v1 file formats for single-setting documents, subset of {"toml", "yaml", "json"}
  PairFormats,\* formats for documents with two or more settings
  MaxCombo,   \* config: settings per v1 document (1..3)
  PairScope,  \* "group": pairs within one v1 section; "all": every pair
  MaxOpt,     \* rules: optional sampler parameters combined per sampler (0..2)
  MaxRules    \* rules: rules per RulesBasedSampler (1..3)

VARIABLES phase, inp, out, conv, res, act
vars == <<phase, inp, out, conv, res, act>>

Range(s) == {s[i] : i \in DOMAIN s}
F(x) == [f |-> x]    \* a floating point literal (TLA+ has none); the harness renders 0.5, not "0.5"

-----------------------------------------------------------------------------
(* v1 CONFIG settings.  grp = v1 section ("" = top level), key = v1 name,  *)
(* val = a valid v1 value, exp = what v2 must effectively do for it        *)
(* (<<observation key, value>> pairs; durations in ms, sizes in bytes),    *)
(* nd = val differs from the documented v1 default.                        *)
(* dev = name of the deviation under which the real converter loses the    *)
(* setting ("" = none), kind of loss in devk: "drop" (the setting is not   *)
(* written, v2 default applies), "crash" (the tool fails), "dump" (the     *)
(* tool writes the v1 document back instead of a v2 file).                 *)

A(grp, key, val, exp, nd) == [grp |-> grp, key |-> key, val |-> val, exp |-> exp, nd |-> nd, dev |-> "", devk |-> ""]
Same(grp, key, val, k2, nd) == A(grp, key, val, <<[k |-> k2, v |-> val]>>, nd)
Dur(grp, key, txt, ms, k2, nd) == A(grp, key, txt, <<[k |-> k2, v |-> ms]>>, nd)
Gone(grp, key, val) == A(grp, key, val, <<>>, FALSE)
Dev(a, d, k) == [a EXCEPT !.dev = d, !.devk = k]

HexKey == "abcdef0123456789abcdef0123456789"

CfgAtoms == <<
  \* ---- top level ----------------------------------------------------
  Same("", "ListenAddr", "127.0.0.1:9080", "Network.ListenAddr", TRUE),
  A("", "GRPCListenAddr", "127.0.0.1:9090",
    <<[k |-> "GRPCServerParameters.ListenAddr", v |-> "127.0.0.1:9090"], [k |-> "GRPCServerParameters.Enabled", v |-> TRUE]>>, TRUE),
  Same("", "PeerListenAddr", "127.0.0.1:9081", "Network.PeerListenAddr", TRUE),
  Same("", "CompressPeerCommunication", FALSE, "Specialized.CompressPeerCommunication", TRUE),
  Same("", "CompressPeerCommunication", TRUE, "Specialized.CompressPeerCommunication", FALSE),
  \* "Adding keys here causes events arriving with API keys not in this list to be rejected ...
  \*  If an API key that is a literal '*' is in the list, all API keys are accepted."
  A("", "APIKeys", <<"*">>, <<[k |-> "AccessKeys.accepts:zzunlistedkey0123456789", v |-> TRUE]>>, FALSE),
  A("", "APIKeys", <<"abc123key0123456789ab", "def456key0123456789ab">>,
    <<[k |-> "AccessKeys.ReceiveKeys", v |-> <<"abc123key0123456789ab", "def456key0123456789ab">>],
      [k |-> "AccessKeys.accepts:abc123key0123456789ab", v |-> TRUE],
      [k |-> "AccessKeys.accepts:def456key0123456789ab", v |-> TRUE],
      [k |-> "AccessKeys.accepts:zzunlistedkey0123456789", v |-> FALSE]>>, TRUE),
  A("", "APIKeys", <<"abc123key0123456789ab", "*">>,
    <<[k |-> "AccessKeys.accepts:abc123key0123456789ab", v |-> TRUE],
      [k |-> "AccessKeys.accepts:zzunlistedkey0123456789", v |-> TRUE]>>, TRUE),
  Same("", "HoneycombAPI", "https://api.eu1.honeycomb.io", "Network.HoneycombAPI", TRUE),
  Same("", "HoneycombAPI", "http://hny-proxy.internal:8443/", "Network.HoneycombAPI", TRUE),
  Dur("", "SendDelay", "5s", 5000, "Traces.SendDelay", TRUE),
  Dur("", "SendDelay", "500ms", 500, "Traces.SendDelay", TRUE),
  Dur("", "BatchTimeout", "1s", 1000, "Traces.BatchTimeout", TRUE),
  Dur("", "BatchTimeout", "250ms", 250, "Traces.BatchTimeout", TRUE),
  Dur("", "TraceTimeout", "90s", 90000, "Traces.TraceTimeout", TRUE),
  Dur("", "TraceTimeout", "1m30s", 90000, "Traces.TraceTimeout", TRUE),
  Dur("", "TraceTimeout", "60s", 60000, "Traces.TraceTimeout", FALSE),
  Same("", "MaxBatchSize", 1000, "Traces.MaxBatchSize", TRUE),
  Same("", "MaxBatchSize", 250, "Traces.MaxBatchSize", TRUE),
  Same("", "MaxBatchSize", 500, "Traces.MaxBatchSize", FALSE),
  Dur("", "SendTicker", "200ms", 200, "Traces.SendTicker", TRUE),
  \* valid options "debug", "info", "error", "panic"; the v1 default is not documented
  Dev(Same("", "LoggingLevel", "error", "Logger.Level", TRUE), "logging-level-dropped", "drop"),
  Dev(Same("", "LoggingLevel", "debug", "Logger.Level", FALSE), "logging-level-dropped", "drop"),
  Dev(Same("", "LoggingLevel", "info", "Logger.Level", FALSE), "logging-level-dropped", "drop"),
  Gone("", "UpstreamBufferSize", 20000),
  Gone("", "PeerBufferSize", 20000),
  Same("", "DebugServiceAddr", "localhost:8085", "Debugging.DebugServiceAddr", TRUE),
  Same("", "AddHostMetadataToTrace", TRUE, "RefineryTelemetry.AddHostMetadataToTrace", FALSE),
  Same("", "AddHostMetadataToTrace", FALSE, "RefineryTelemetry.AddHostMetadataToTrace", FALSE),
  Dur("", "EnvironmentCacheTTL", "30m", 1800000, "Specialized.EnvironmentCacheTTL", TRUE),
  Same("", "QueryAuthToken", "s3cr3t-token", "Debugging.QueryAuthToken", TRUE),
  Same("", "AddRuleReasonToTrace", TRUE, "RefineryTelemetry.AddRuleReasonToTrace", TRUE),
  Same("", "AdditionalErrorFields", <<"trace.span_id", "service.name">>, "Debugging.AdditionalErrorFields", TRUE),
  Same("", "AdditionalErrorFields", <<"http.route">>, "Debugging.AdditionalErrorFields", TRUE),
  Same("", "AddSpanCountToRoot", TRUE, "RefineryTelemetry.AddSpanCountToRoot", TRUE),
  Same("", "AddSpanCountToRoot", FALSE, "RefineryTelemetry.AddSpanCountToRoot", FALSE),
  Gone("", "CacheOverrunStrategy", "impact"),
  \* RELEASE_NOTES 1.20 "Configurable Trace and Parent IDs"
  Dev(Same("", "TraceIdFieldNames", <<"trace.trace_id", "traceId", "tid">>, "IDFields.TraceNames", TRUE), "id-field-names-dropped", "drop"),
  Dev(Same("", "ParentIdFieldNames", <<"trace.parent_id", "pid">>, "IDFields.ParentNames", TRUE), "id-field-names-dropped", "drop"),
  Gone("", "Collector", "InMemCollector"),
  \* "logrus ... will write logs to STDOUT and the honeycomb option will send them to a Honeycomb dataset"
  Dev(Same("", "Logger", "honeycomb", "Logger.Type", TRUE), "logger-type-dropped", "drop"),
  A("", "Logger", "logrus", <<[k |-> "Logger.Type", v |-> "stdout"]>>, FALSE),
  A("", "Metrics", "prometheus", <<[k |-> "PrometheusMetrics.Enabled", v |-> TRUE]>>, TRUE),
  Gone("", "Metrics", "honeycomb"),
  \* "AdditionalAttributes is a map that can be used for injecting user-defined attributes"
  Dev(A("", "AdditionalAttributes", [ClusterName |-> "MyCluster", environment |-> "production"],
        <<[k |-> "Specialized.AdditionalAttributes", v |-> [ClusterName |-> "MyCluster", environment |-> "production"]]>>, TRUE),
      "additional-attributes-crash", "crash"),
  \* ---- [PeerManagement] ---------------------------------------------
  Same("PeerManagement", "Type", "redis", "PeerManagement.Type", TRUE),
  Same("PeerManagement", "Type", "file", "PeerManagement.Type", FALSE),
  Same("PeerManagement", "Peers", <<"http://127.0.0.1:8081", "http://10.1.2.3:8081">>, "PeerManagement.Peers", TRUE),
  Same("PeerManagement", "RedisHost", "redis.internal:6379", "RedisPeerManagement.Host", TRUE),
  Same("PeerManagement", "RedisUsername", "refinery-user", "RedisPeerManagement.Username", TRUE),
  Dev(Same("PeerManagement", "RedisPassword", "hunter2pass", "RedisPeerManagement.Password", TRUE), "redis-password-dropped", "drop"),
  Gone("PeerManagement", "RedisPrefix", "customPrefix"),
  Gone("PeerManagement", "RedisDatabase", 1),
  Same("PeerManagement", "UseTLS", TRUE, "RedisPeerManagement.UseTLS", TRUE),
  Same("PeerManagement", "UseTLSInsecure", TRUE, "RedisPeerManagement.UseTLSInsecure", TRUE),
  Same("PeerManagement", "IdentifierInterfaceName", "eth0", "PeerManagement.IdentifierInterfaceName", TRUE),
  Same("PeerManagement", "UseIPV6Identifier", TRUE, "PeerManagement.UseIPV6Identifier", TRUE),
  Same("PeerManagement", "RedisIdentifier", "192.168.1.1", "PeerManagement.Identifier", TRUE),
  Dur("PeerManagement", "Timeout", "10s", 10000, "RedisPeerManagement.Timeout", TRUE),
  Dev(Gone("PeerManagement", "Strategy", "hash"), "deprecated-v1-dump", "dump"),
  \* ---- [InMemCollector] ---------------------------------------------
  Dev(Gone("InMemCollector", "CacheCapacity", 1000), "deprecated-v1-dump", "dump"),
  Same("InMemCollector", "MaxAlloc", 1000000000, "Collection.MaxAlloc", TRUE),
  Same("InMemCollector", "MaxAlloc", 1073741824, "Collection.MaxAlloc", TRUE),
  Same("InMemCollector", "MaxAlloc", 1234567890, "Collection.MaxAlloc", TRUE),
  \* ---- [HoneycombLogger] --------------------------------------------
  Same("HoneycombLogger", "LoggerHoneycombAPI", "https://api.eu1.honeycomb.io", "HoneycombLogger.APIHost", TRUE),
  Same("HoneycombLogger", "LoggerAPIKey", HexKey, "HoneycombLogger.APIKey", TRUE),
  Same("HoneycombLogger", "LoggerDataset", "refinery-logs-prod", "HoneycombLogger.Dataset", TRUE),
  Same("HoneycombLogger", "LoggerDataset", "Refinery Logs EU", "HoneycombLogger.Dataset", TRUE),
  Same("HoneycombLogger", "LoggerSamplerEnabled", TRUE, "HoneycombLogger.SamplerEnabled", FALSE),
  Same("HoneycombLogger", "LoggerSamplerEnabled", FALSE, "HoneycombLogger.SamplerEnabled", FALSE),
  Dev(Same("HoneycombLogger", "LoggerSamplerThroughput", 25, "HoneycombLogger.SamplerThroughput", TRUE), "logger-throughput-dropped", "drop"),
  \* ---- [HoneycombMetrics]: legacy metrics no longer exist --------------
  Gone("HoneycombMetrics", "MetricsHoneycombAPI", "https://api.eu1.honeycomb.io"),
  Gone("HoneycombMetrics", "MetricsAPIKey", HexKey),
  Gone("HoneycombMetrics", "MetricsDataset", "Refinery Metrics EU"),
  Gone("HoneycombMetrics", "MetricsReportingInterval", 30),
  \* ---- [PrometheusMetrics] ------------------------------------------
  Same("PrometheusMetrics", "MetricsListenAddr", "0.0.0.0:9100", "PrometheusMetrics.ListenAddr", TRUE),
  \* ---- [GRPCServerParameters] ---------------------------------------
  Dur("GRPCServerParameters", "MaxConnectionIdle", "45s", 45000, "GRPCServerParameters.MaxConnectionIdle", TRUE),
  Dur("GRPCServerParameters", "MaxConnectionAge", "5m", 300000, "GRPCServerParameters.MaxConnectionAge", TRUE),
  Dur("GRPCServerParameters", "MaxConnectionAgeGrace", "30s", 30000, "GRPCServerParameters.MaxConnectionAgeGrace", TRUE),
  Dur("GRPCServerParameters", "Time", "15s", 15000, "GRPCServerParameters.KeepAlive", TRUE),
  Dur("GRPCServerParameters", "Timeout", "3s", 3000, "GRPCServerParameters.KeepAliveTimeout", TRUE),
  \* ---- [SampleCacheConfig] (the name the v1 reference documents) ------
  Dev(Gone("SampleCacheConfig", "Type", "cuckoo"), "deprecated-v1-dump", "dump"),
  Same("SampleCacheConfig", "KeptSize", 20000, "SampleCache.KeptSize", TRUE),
  Same("SampleCacheConfig", "DroppedSize", 2000000, "SampleCache.DroppedSize", TRUE),
  Dur("SampleCacheConfig", "SizeCheckInterval", "20s", 20000, "SampleCache.SizeCheckInterval", TRUE),
  \* ---- [StressRelief] -----------------------------------------------
  Same("StressRelief", "Mode", "monitor", "StressRelief.Mode", TRUE),
  Same("StressRelief", "Mode", "always", "StressRelief.Mode", TRUE),
  Same("StressRelief", "ActivationLevel", 85, "StressRelief.ActivationLevel", TRUE),
  Same("StressRelief", "ActivationLevel", 75, "StressRelief.ActivationLevel", FALSE),
  Same("StressRelief", "DeactivationLevel", 50, "StressRelief.DeactivationLevel", TRUE),
  Same("StressRelief", "StressSamplingRate", 250, "StressRelief.SamplingRate", TRUE),
  Dur("StressRelief", "MinimumActivationDuration", "30s", 30000, "StressRelief.MinimumActivationDuration", TRUE),
  Dev(Gone("StressRelief", "MinimumStartupDuration", "3s"), "deprecated-v1-dump", "dump")
>>

NC == Len(CfgAtoms)

\* what v2 does when a setting is absent from the v2 file (config.md "default:");
\* needed only for the keys a deviation leaves out
V2Default(k) ==
  CASE k = "Logger.Level" -> "warn"
    [] k = "Logger.Type" -> "stdout"
    [] k = "IDFields.TraceNames" -> <<"trace.trace_id", "traceId">>
    [] k = "IDFields.ParentNames" -> <<"trace.parent_id", "parentId">>
    [] k = "RedisPeerManagement.Password" -> ""
    [] k = "HoneycombLogger.SamplerThroughput" -> 10
    [] OTHER -> "<v2 default>"

\* two rows may be combined when they are different settings
Compatible(i, j) == i < j /\ ~(CfgAtoms[i].grp = CfgAtoms[j].grp /\ CfgAtoms[i].key = CfgAtoms[j].key)
                    /\ (PairScope = "all" \/ CfgAtoms[i].grp = CfgAtoms[j].grp)

CfgCombos ==
  {<<i>> : i \in 1..NC}
  \cup (IF MaxCombo >= 2 THEN {<<i, j>> : i \in 1..NC, j \in 1..NC} \cap {c \in Seq(1..NC) : Len(c) = 2 /\ Compatible(c[1], c[2])} ELSE {})

\* (the triples are restricted to one row per section, the first value of each setting)
FirstOf(i) == \A j \in 1..(i-1) : ~(CfgAtoms[j].grp = CfgAtoms[i].grp /\ CfgAtoms[j].key = CfgAtoms[i].key)
CfgTriples ==
  IF MaxCombo >= 3
  THEN {c \in {<<i, j, l>> : i \in 1..NC, j \in 1..NC, l \in 1..NC} :
          /\ c[1] < c[2] /\ c[2] < c[3]
          /\ \A x \in 1..3 : FirstOf(c[x]) /\ CfgAtoms[c[x]].nd
          /\ CfgAtoms[c[1]].grp # CfgAtoms[c[2]].grp /\ CfgAtoms[c[2]].grp # CfgAtoms[c[3]].grp /\ CfgAtoms[c[1]].grp # CfgAtoms[c[3]].grp
          /\ (c[1] + c[2] + c[3]) % 7 = 0}   \* a fixed 1-in-7 slice keeps the thorough tier inside its budget
  ELSE {}

\* the v1 document of a combination: top-level keys and one record per section
Grps(c) == {CfgAtoms[c[x]].grp : x \in DOMAIN c} \ {""}
SecOf(c, g) == [key \in {CfgAtoms[c[x]].key : x \in {y \in DOMAIN c : CfgAtoms[c[y]].grp = g}} |->
                  CfgAtoms[CHOOSE i \in Range(c) : CfgAtoms[i].grp = g /\ CfgAtoms[i].key = key].val]
CfgDoc(c) == SecOf(c, "") @@ [g \in Grps(c) |-> SecOf(c, g)]

Flat(ss) == IF Len(ss) = 0 THEN <<>> ELSE IF Len(ss) = 1 THEN ss[1]
            ELSE IF Len(ss) = 2 THEN ss[1] \o ss[2] ELSE ss[1] \o ss[2] \o ss[3]

CfgAll(c)  == Flat([x \in DOMAIN c |-> CfgAtoms[c[x]].exp])                                   \* every explicit setting that still exists
CfgWant(c) == Flat([x \in DOMAIN c |-> IF CfgAtoms[c[x]].nd THEN CfgAtoms[c[x]].exp ELSE <<>>]) \* clause (2): the non-default ones
CfgDevs(c, kind) == {CfgAtoms[c[x]].dev : x \in {y \in DOMAIN c : CfgAtoms[c[y]].devk = kind}}
CfgLost(c, D) == Flat([x \in DOMAIN c |-> IF CfgAtoms[c[x]].devk = "drop" /\ CfgAtoms[c[x]].dev \in D THEN CfgAtoms[c[x]].exp ELSE <<>>])

CfgInputs ==
  { [file |-> "config", fmt |-> f, doc |-> CfgDoc(c), all |-> CfgAll(c), want |-> CfgWant(c),
     drops |-> CfgDevs(c, "drop"), crash |-> CfgDevs(c, "crash"), dump |-> CfgDevs(c, "dump"),
     lost |-> [D \in SUBSET CfgDevs(c, "drop") |-> CfgLost(c, D)]]
    : c \in CfgCombos \cup CfgTriples, f \in Formats \cup PairFormats }
  \ { i \in [file : {"config"}, fmt : (Formats \cup PairFormats) \ Formats, doc : {CfgDoc(<<x>>) : x \in 1..NC}, all : {CfgAll(<<x>>) : x \in 1..NC}] : FALSE }

-----------------------------------------------------------------------------
(* v1 RULES files.  A sampler "case" is the v1 section of one destination  *)
(* (`sec`) and what v2 must effectively use for that destination (`exp`,   *)
(* paths inside the sampler configuration the Config interface returns).   *)

P(p, v) == [p |-> p, v |-> v]
FL1 == <<"request.method", "http.target", "response.status_code">>
FL2 == <<"request.method", "request.route">>

\* optional parameters of the dynamic samplers: v1 key, v1 value, expectation, non-default?
O(key, val, exp, nd) == [key |-> key, val |-> val, exp |-> exp, nd |-> nd]
DynOpts == <<
  O("UseTraceLength", TRUE, <<P("UseTraceLength", TRUE)>>, TRUE),
  O("ClearFrequencySec", 45, <<P("ClearFrequency", 45000)>>, TRUE),      \* v1.x name, seconds
  O("ClearFrequency", "45s", <<P("ClearFrequency", 45000)>>, TRUE),      \* the spelling of rules_complete.1.x.toml
  O("AddSampleRateKeyToTrace", TRUE, <<>>, FALSE),                          \* no longer exists
  O("AddSampleRateKeyToTraceField", "meta.refinery.dynsampler_key", <<>>, FALSE) >>
EMAOpts == <<
  O("UseTraceLength", TRUE, <<P("UseTraceLength", TRUE)>>, TRUE),
  O("AdjustmentInterval", 20, <<P("AdjustmentInterval", 20000)>>, TRUE),  \* "how often (in seconds)"
  O("Weight", F("0.3"), <<P("Weight", F("0.3"))>>, TRUE),
  O("MaxKeys", 1000, <<P("MaxKeys", 1000)>>, TRUE),
  O("AgeOutValue", F("0.2"), <<P("AgeOutValue", F("0.2"))>>, TRUE),
  O("BurstMultiple", F("3.5"), <<P("BurstMultiple", F("3.5"))>>, TRUE),
  O("BurstDetectionDelay", 5, <<P("BurstDetectionDelay", 5)>>, TRUE),
  O("AddSampleRateKeyToTrace", TRUE, <<>>, FALSE) >>
TTOpts == <<
  O("UseTraceLength", TRUE, <<P("UseTraceLength", TRUE)>>, TRUE),
  O("ClearFrequencySec", 45, <<P("ClearFrequency", 45000)>>, TRUE) >>

Base(kind) ==
  CASE kind = "Dyn" -> [sec |-> [Sampler |-> "DynamicSampler", SampleRate |-> 2, FieldList |-> FL1],
                        exp |-> <<P("@type", "DynamicSampler"), P("SampleRate", 2), P("FieldList", FL1)>>]
    [] kind = "EMA" -> [sec |-> [Sampler |-> "EMADynamicSampler", GoalSampleRate |-> 5, FieldList |-> FL1],
                        exp |-> <<P("@type", "EMADynamicSampler"), P("GoalSampleRate", 5), P("FieldList", FL1)>>]
    [] kind = "TT"  -> [sec |-> [Sampler |-> "TotalThroughputSampler", GoalThroughputPerSec |-> 100, FieldList |-> <<"request.method">>],
                        exp |-> <<P("@type", "TotalThroughputSampler"), P("GoalThroughputPerSec", 100), P("FieldList", <<"request.method">>)>>]
Opts(kind) == CASE kind = "Dyn" -> DynOpts [] kind = "EMA" -> EMAOpts [] kind = "TT" -> TTOpts

OptSets(kind) == {<<>>}
  \cup (IF MaxOpt >= 1 THEN {<<i>> : i \in DOMAIN Opts(kind)} ELSE {})
  \cup (IF MaxOpt >= 2 THEN {c \in {<<i, j>> : i \in DOMAIN Opts(kind), j \in DOMAIN Opts(kind)} :
                               c[1] < c[2] /\ ~(Opts(kind)[c[1]].exp # <<>> /\ Opts(kind)[c[1]].exp = Opts(kind)[c[2]].exp)} ELSE {})

WithOpts(kind, c) ==
  [sec |-> Base(kind).sec @@ [key \in {Opts(kind)[c[x]].key : x \in DOMAIN c} |-> Opts(kind)[CHOOSE i \in Range(c) : Opts(kind)[i].key = key].val],
   exp |-> Base(kind).exp \o Flat([x \in DOMAIN c |-> IF Opts(kind)[c[x]].nd THEN Opts(kind)[c[x]].exp ELSE <<>>])]

\* rules of a RulesBasedSampler, spelled as rules_complete.1.x.toml spells them
Cond(f, o, v) == [field |-> f, operator |-> o, value |-> v]
RuleTemplates == <<
  [r |-> [name |-> "drop healthchecks", drop |-> TRUE, condition |-> <<Cond("http.route", "=", "/health-check")>>],
   exp |-> <<P("Name", "drop healthchecks"), P("Drop", TRUE), P("Conditions/@len", 1), P("Conditions/0/Field", "http.route"),
             P("Conditions/0/Operator", "="), P("Conditions/0/Value", "/health-check")>>],
  [r |-> [name |-> "keep slow 500 errors", SampleRate |-> 1,
          condition |-> <<Cond("status_code", "=", 500), Cond("duration_ms", ">=", F("1000.789"))>>],
   exp |-> <<P("Name", "keep slow 500 errors"), P("SampleRate", 1), P("Drop", FALSE), P("Conditions/@len", 2),
             P("Conditions/0/Value", 500), P("Conditions/1/Field", "duration_ms"), P("Conditions/1/Operator", ">="),
             P("Conditions/1/Value", F("1000.789"))>>],
  [r |-> [name |-> "dynamically sample 200 responses", condition |-> <<Cond("status_code", "=", 200)>>,
          sampler |-> [EMADynamicSampler |-> [Sampler |-> "EMADynamicSampler", GoalSampleRate |-> 15, FieldList |-> FL2, AdjustmentInterval |-> 20]]],
   exp |-> <<P("Name", "dynamically sample 200 responses"), P("Conditions/0/Value", 200),
             P("Sampler/EMADynamicSampler/GoalSampleRate", 15), P("Sampler/EMADynamicSampler/FieldList", FL2),
             P("Sampler/EMADynamicSampler/AdjustmentInterval", 20000)>>],
  [r |-> [name |-> "string 200", SampleRate |-> 20,
          condition |-> <<[field |-> "status_code", operator |-> "=", value |-> "200", datatype |-> "int"]>>],
   exp |-> <<P("SampleRate", 20), P("Conditions/0/Value", "200"), P("Conditions/0/Datatype", "int")>>],
  [r |-> [name |-> "sample traces originating from a service", Scope |-> "span", SampleRate |-> 5,
          condition |-> <<Cond("service name", "=", "users"), Cond("trace.parent_id", "=", "root")>>],
   exp |-> <<P("Scope", "span"), P("SampleRate", 5), P("Conditions/@len", 2), P("Conditions/0/Field", "service name"),
             P("Conditions/1/Value", "root")>>],
  [r |-> [SampleRate |-> 10],
   exp |-> <<P("SampleRate", 10), P("Conditions/@len", 0)>>],
  [r |-> [name |-> "has error", SampleRate |-> 2, condition |-> <<[field |-> "error", operator |-> "exists"]>>],
   exp |-> <<P("SampleRate", 2), P("Conditions/0/Field", "error"), P("Conditions/0/Operator", "exists")>>],
  [r |-> [name |-> "dynamic downstream", condition |-> <<Cond("app.tenant", "!=", "internal")>>,
          sampler |-> [DynamicSampler |-> [Sampler |-> "DynamicSampler", SampleRate |-> 3, FieldList |-> FL2, ClearFrequencySec |-> 45]]],
   exp |-> <<P("Conditions/0/Operator", "!="), P("Sampler/DynamicSampler/SampleRate", 3), P("Sampler/DynamicSampler/FieldList", FL2),
             P("Sampler/DynamicSampler/ClearFrequency", 45000)>>],
  [r |-> [name |-> "throughput downstream", condition |-> <<Cond("http.route", "starts-with", "/api/")>>,
          sampler |-> [TotalThroughputSampler |-> [Sampler |-> "TotalThroughputSampler", GoalThroughputPerSec |-> 50, FieldList |-> <<"http.route">>]]],
   exp |-> <<P("Conditions/0/Operator", "starts-with"), P("Sampler/TotalThroughputSampler/GoalThroughputPerSec", 50),
             P("Sampler/TotalThroughputSampler/FieldList", <<"http.route">>)>>],
  [r |-> [name |-> "errors flag", SampleRate |-> 3, condition |-> <<Cond("error", "=", TRUE), Cond("retries", ">", 2)>>],
   exp |-> <<P("SampleRate", 3), P("Conditions/0/Value", TRUE), P("Conditions/1/Operator", ">"), P("Conditions/1/Value", 2)>>],
  \* v1 read its files case-insensitively
  [r |-> [Name |-> "lower case keys", samplerate |-> 7, scope |-> "span", Condition |-> <<[Field |-> "http.status", Operator |-> "<", Value |-> 400]>>],
   exp |-> <<P("Name", "lower case keys"), P("SampleRate", 7), P("Scope", "span"), P("Conditions/0/Field", "http.status"),
             P("Conditions/0/Operator", "<"), P("Conditions/0/Value", 400)>>]
>>
NT == Len(RuleTemplates)

RuleSeqs == {<<i>> : i \in 1..NT}
  \cup (IF MaxRules >= 2 THEN {<<i, j>> : i \in 1..NT, j \in 1..NT} ELSE {})
  \cup (IF MaxRules >= 3 THEN {c \in {<<i, j, l>> : i \in 1..NT, j \in 1..NT, l \in 1..NT} : (c[1] + 2 * c[2] + 3 * c[3]) % 5 = 0} ELSE {})

Prefixed(pre, exp) == [x \in DOMAIN exp |-> P(pre \o exp[x].p, exp[x].v)]

RBCase(c, nested) ==
  [sec |-> [Sampler |-> "RulesBasedSampler", rule |-> [x \in DOMAIN c |-> RuleTemplates[c[x]].r]]
           @@ (IF nested THEN [CheckNestedFields |-> TRUE] ELSE <<>>),
   exp |-> <<P("@type", "RulesBasedSampler"), P("Rules/@len", Len(c))>>
           \o (IF nested THEN <<P("CheckNestedFields", TRUE)>> ELSE <<>>)
           \o Flat([x \in DOMAIN c |-> Prefixed("Rules/" \o ToString(x - 1) \o "/", RuleTemplates[c[x]].exp)])]

DetCase(r) == [sec |-> [Sampler |-> "DeterministicSampler", SampleRate |-> r],
               exp |-> <<P("@type", "DeterministicSampler"), P("SampleRate", r)>>]

SamplerCases ==
  {DetCase(10), DetCase(100)}
  \cup {[sec |-> [SampleRate |-> 10], exp |-> <<P("SampleRate", 10)>>]}      \* a section that names no Sampler
  \cup {WithOpts(k, c) : k \in {"Dyn"}, c \in OptSets("Dyn")}
  \cup {WithOpts(k, c) : k \in {"EMA"}, c \in OptSets("EMA")}
  \cup {WithOpts(k, c) : k \in {"TT"}, c \in OptSets("TT")}
  \cup {RBCase(c, FALSE) : c \in RuleSeqs}
  \cup {RBCase(<<1, 6>>, TRUE)}

Datasets == {"dataset1", "dataset 1", "prod.us-east"}

\* the file: the default destination at top level, optionally one named destination;
\* DryRun/DryRunFieldName are v1 rules-file settings with no place in a v2 rules file
RuleFiles ==
  {[top |-> d, ds |-> "", sec |-> <<>>, flags |-> <<>>] : d \in SamplerCases}
  \cup {[top |-> DetCase(10), ds |-> n, sec |-> s, flags |-> <<>>] : n \in {"dataset1"}, s \in SamplerCases}
  \cup {[top |-> DetCase(10), ds |-> n, sec |-> WithOpts("Dyn", <<>>), flags |-> <<>>] : n \in Datasets}
  \cup {[top |-> DetCase(100), ds |-> "dataset1", sec |-> RBCase(<<1, 6>>, FALSE), flags |-> fl]
          : fl \in {[DryRun |-> TRUE], [DryRun |-> FALSE, DryRunFieldName |-> "refinery_kept"]}}

RulesDoc(rf) == rf.top.sec @@ rf.flags @@ (IF rf.ds = "" THEN <<>> ELSE (rf.ds :> rf.sec.sec))
RulesWant(rf) ==
  [x \in DOMAIN rf.top.exp |-> [k |-> "rules:zz-not-listed/" \o rf.top.exp[x].p, v |-> rf.top.exp[x].v]]
  \o (IF rf.ds = "" THEN <<>> ELSE [x \in DOMAIN rf.sec.exp |-> [k |-> "rules:" \o rf.ds \o "/" \o rf.sec.exp[x].p, v |-> rf.sec.exp[x].v]])

RulesInputs ==
  { [file |-> "rules", fmt |-> f, doc |-> RulesDoc(rf), all |-> RulesWant(rf), want |-> RulesWant(rf),
     drops |-> {}, crash |-> {}, dump |-> {}, lost |-> [D \in {{}} |-> <<>>]]
    : rf \in RuleFiles, f \in PairFormats }

-----------------------------------------------------------------------------
Inputs == (IF "config" \in Files THEN CfgInputs ELSE {}) \cup (IF "rules" \in Files THEN RulesInputs ELSE {})

Keys(want) == [x \in DOMAIN want |-> want[x].k]
NoRes == [stage |-> "none"]
NoOut == [kind |-> "none"]

Init == /\ inp \in Inputs
        /\ phase = "v1"
        /\ out = NoOut
        /\ conv = "none"
        /\ res = NoRes
        /\ act = [name |-> "Init"]

\* `convert config|rules`: every explicit setting that still exists is written to its v2 place with its v2 syntax
ConvertIdeal ==
  /\ phase = "v1"
  /\ phase' = "v2"
  /\ conv' = "ok"
  /\ out' = [kind |-> "v2", entries |-> inp.all, devs |-> {}]
  /\ UNCHANGED <<inp, res>>
  /\ act' = [name |-> "Convert"]

\* deviation: a deprecated v2 name is found in the v1 document and the tool writes the v1 document back
ConvertDump ==
  /\ Faithful /\ phase = "v1" /\ inp.dump # {}
  /\ phase' = "v2"
  /\ conv' = "ok"
  /\ out' = [kind |-> "v1dump", entries |-> <<>>, devs |-> inp.dump]
  /\ UNCHANGED <<inp, res>>
  /\ act' = [name |-> "Convert"]

\* deviation: the template panics on the setting, the tool exits with status 1
ConvertCrash ==
  /\ Faithful /\ phase = "v1" /\ inp.crash # {}
  /\ phase' = "v2"
  /\ conv' = "failed"
  /\ out' = NoOut
  /\ UNCHANGED <<inp, res>>
  /\ act' = [name |-> "Convert", dev |-> CHOOSE d \in inp.crash : TRUE]

\* deviation: the settings of D are not written (any subset, so that repairing one finding does not disturb the others)
ConvertDrop(D) ==
  /\ Faithful /\ phase = "v1" /\ D # {} /\ D \subseteq inp.drops
  /\ phase' = "v2"
  /\ conv' = "ok"
  /\ out' = [kind |-> "v2", entries |-> inp.all, devs |-> D]
  /\ UNCHANGED <<inp, res>>
  /\ act' = [name |-> "Convert"]

Lookup(entries, k) == entries[CHOOSE x \in DOMAIN entries : entries[x].k = k].v
IsLost(k) == \E x \in DOMAIN inp.lost[out.devs] : inp.lost[out.devs][x].k = k

\* Refinery loads the produced file: validation, defaults, getters
Load ==
  /\ phase = "v2"
  /\ phase' = "loaded"
  /\ res' = IF conv # "ok" \/ out.kind # "v2"
            THEN [stage |-> "rejected", valid |-> FALSE]
            ELSE [stage |-> "loaded", valid |-> TRUE,
                  eff |-> [k \in Range(Keys(inp.want)) |-> IF IsLost(k) THEN V2Default(k) ELSE Lookup(out.entries, k)]]
  /\ UNCHANGED <<inp, out, conv>>
  /\ act' = IF conv = "ok" /\ out.kind # "none" /\ out.devs # {}
            THEN [name |-> "Load", dev |-> CHOOSE d \in out.devs : \A e \in out.devs : d = e \/ TRUE]
            ELSE [name |-> "Load"]

Next == \/ ConvertIdeal \/ ConvertDump \/ ConvertCrash
        \/ \E D \in SUBSET inp.drops : ConvertDrop(D)
        \/ Load

Spec == Init /\ [][Next]_vars

-----------------------------------------------------------------------------
TypeOK == /\ phase \in {"v1", "v2", "loaded"}
          /\ conv \in {"none", "ok", "failed"}
          /\ res.stage \in {"none", "loaded", "rejected"}
          /\ inp.file \in {"config", "rules"}
          /\ (phase = "v1") <=> (conv = "none")
          /\ (phase = "loaded") <=> (res.stage # "none")

\* C38 clause (1): the produced file passes v2 validation
ValidOutput == phase = "loaded" => res.stage = "loaded" /\ res.valid

\* C38 clause (2): every non-default v1 setting that still exists has the same effective value
Preserved == (phase = "loaded" /\ res.stage = "loaded") =>
               \A x \in DOMAIN inp.want : res.eff[inp.want[x].k] = inp.want[x].v

\* with the deviations switched on: a run that breaks the property is one of the listed deviations, nothing else
OnlyListed == (phase = "loaded" /\ ~(res.stage = "loaded" /\ res.valid /\ \A x \in DOMAIN inp.want : res.eff[inp.want[x].k] = inp.want[x].v))
                => (conv = "failed" /\ inp.crash # {}) \/ (out.kind # "none" /\ out.devs # {})
\* ... and each listed deviation does break it (they are findings, not conventions)
DevsBreak == (phase = "loaded" /\ out.kind # "none" /\ out.devs # {} /\ res.stage = "loaded")
                => \E x \in DOMAIN inp.want : res.eff[inp.want[x].k] # inp.want[x].v \/ inp.want = <<>>

-----------------------------------------------------------------------------
Abs == [phase |-> phase, conv |-> conv, res |-> res]
Hid == [file |-> inp.file, fmt |-> inp.fmt, doc |-> inp.doc, watch |-> Keys(inp.want), out |-> out]
Dump == PrintT(ToJson([fabs |-> Abs, fhid |-> Hid, fa |-> act.name, act |-> act', tabs |-> Abs', thid |-> Hid']))
View == <<phase, inp, out, conv, res>>
=============================================================================
