SPECIFICATION Spec
CONSTANTS
  Addr <- AddrRestart
  Gaps <- GapsRestartF
  T = 10
  D = 0
  MaxEvents = 4
  MaxFails = 0
  Extra = "start"
  Backoff = TRUE
  Closed = TRUE
  ObserveCb = FALSE
  TrackQuiet = FALSE
  UnitMs = 1000
  Boot <- NoNodes
  CrashSet <- AllNodes
  StopSet <- AllNodes
  Sync = FALSE
  TrackAge = FALSE
INVARIANTS TypeOK Converged LearnsLive ForgetsDead PeerForgotten PeerLearnt SelfListed PeriodRestored NoDuplicateAddr ChannelSane
PROPERTIES CallbackIffChange NoResurrection
ACTION_CONSTRAINT Dump
VIEW View
