//go:build verif

package main

// Binding of spec/Convert.tla (property C38) to the real converter.
//
// The specification enumerates abstract v1 documents (a nested record, the
// file kind and the file format) together with the list of v2 observation
// keys ("watch") the property speaks about.  Reset renders the document with
// the TOML / YAML / JSON library the repo already depends on.  Convert runs the
// REAL converter: the test binary re-executes itself and the child calls the
// package's own main() with `convert config|rules --input … --output …`
// (main may call os.Exit, which is why it runs in a child).  Load hands the
// produced file to the REAL v2 loader (config.NewConfig, validation on) and
// reads the effective values through the public Config getters.

import (
	"bytes"
	"encoding/json"
	"fmt"
	"os"
	"os/exec"
	"path/filepath"
	"reflect"
	"sort"
	"strconv"
	"strings"
	"testing"
	"time"

	"github.com/honeycombio/refinery/config"
	"github.com/honeycombio/refinery/internal/verifkit"
	"github.com/pelletier/go-toml/v2"
	"gopkg.in/yaml.v3"
)

const c38ChildEnv = "C38_CHILD_ARGS"

// TestVerifC38Child is the re-executed child: it runs the converter's real main().
func TestVerifC38Child(t *testing.T) {
	raw := os.Getenv(c38ChildEnv)
	if raw == "" {
		t.Skip("only meaningful as a child of TestVerifConvert")
	}
	var args []string
	if err := json.Unmarshal([]byte(raw), &args); err != nil {
		fmt.Fprintln(os.Stderr, "c38 child: bad args:", err)
		os.Exit(97)
	}
	os.Args = append([]string{"convert"}, args...)
	main()
	os.Exit(0) // skip the testing package's own epilogue (PASS line on the converter's stdout)
}

type c38Harness struct {
	root   string
	n      int
	dir    string
	init   map[string]any
	file   string // "config" | "rules"
	format string // "toml" | "yaml" | "json"
	watch  []string
	phase  string
	conv   string
	res    map[string]any
	inPath string
	outP   string
	debug  bool
	last   string // diagnostics of the last step (never part of the projection)
}

// c38Generic turns the decoded-JSON document of the specification into Go values
// the marshalers render as a v1 author would have written them: integral
// numbers become integers, {"f": "0.5"} becomes the float 0.5.
func c38Generic(v any) any {
	switch x := v.(type) {
	case map[string]any:
		if len(x) == 1 {
			if s, ok := x["f"].(string); ok {
				f, err := strconv.ParseFloat(s, 64)
				if err == nil {
					return f
				}
			}
		}
		m := make(map[string]any, len(x))
		for k, e := range x {
			m[k] = c38Generic(e)
		}
		return m
	case []any:
		l := make([]any, len(x))
		for i, e := range x {
			l[i] = c38Generic(e)
		}
		return l
	case float64:
		if x == float64(int64(x)) {
			return int64(x)
		}
		return x
	default:
		return v
	}
}

func c38Render(doc any, format string) ([]byte, string, error) {
	g := c38Generic(doc)
	switch format {
	case "toml":
		b, err := toml.Marshal(g)
		return b, ".toml", err
	case "yaml":
		b, err := yaml.Marshal(g)
		return b, ".yaml", err
	case "json":
		b, err := json.MarshalIndent(g, "", "  ")
		return b, ".json", err
	}
	return nil, "", fmt.Errorf("unknown format %q", format)
}

func (h *c38Harness) Reset(init map[string]any) error {
	if h.root == "" {
		d, err := os.MkdirTemp("", "c38-")
		if err != nil {
			return err
		}
		h.root = d
		h.debug = os.Getenv("C38_DEBUG") != ""
	}
	if h.dir != "" && !h.debug {
		os.RemoveAll(h.dir)
	}
	h.n++
	h.dir = filepath.Join(h.root, strconv.Itoa(h.n))
	if err := os.MkdirAll(h.dir, 0o755); err != nil {
		return err
	}
	h.init = init
	h.file = verifkit.Str(init, "file")
	h.format = verifkit.Str(init, "fmt")
	h.watch = nil
	if w, ok := init["watch"].([]any); ok {
		for _, k := range w {
			h.watch = append(h.watch, k.(string))
		}
	}
	h.phase, h.conv = "v1", "none"
	h.res = map[string]any{"stage": "none"}
	b, ext, err := c38Render(init["doc"], h.format)
	if err != nil {
		return err
	}
	h.inPath = filepath.Join(h.dir, "v1"+ext)
	h.outP = filepath.Join(h.dir, "v2.yaml")
	return os.WriteFile(h.inPath, b, 0o644)
}

func (h *c38Harness) Project() (any, error) {
	return map[string]any{"phase": h.phase, "conv": h.conv, "res": h.res}, nil
}

func (h *c38Harness) Apply(a map[string]any) error {
	switch verifkit.Str(a, "name") {
	case "Convert":
		return h.convert()
	case "Load":
		return h.load()
	}
	return fmt.Errorf("unknown action %v", a)
}

func (h *c38Harness) convert() error {
	args, _ := json.Marshal([]string{h.file, "--input", h.inPath, "--output", h.outP})
	cmd := exec.Command(os.Args[0], "-test.run=^TestVerifC38Child$")
	cmd.Env = append(os.Environ(), c38ChildEnv+"="+string(args))
	var out bytes.Buffer
	cmd.Stdout, cmd.Stderr = &out, &out
	err := cmd.Run()
	h.phase = "v2"
	h.last = out.String()
	if err != nil {
		if _, ok := err.(*exec.ExitError); !ok {
			return fmt.Errorf("cannot run the converter child: %w", err)
		}
		if strings.Contains(out.String(), "c38 child: bad args") {
			return fmt.Errorf("child: %s", out.String())
		}
		h.conv = "failed"
		return nil
	}
	if st, err := os.Stat(h.outP); err != nil || st.Size() == 0 {
		h.conv = "failed"
		return nil
	}
	h.conv = "ok"
	return nil
}

const c38MinRules = "RulesVersion: 2\nSamplers:\n  __default__:\n    DeterministicSampler:\n      SampleRate: 1\n"
const c38MinConfig = "General:\n  ConfigurationVersion: 2\n"

func (h *c38Harness) load() (err error) {
	h.phase = "loaded"
	if h.conv != "ok" {
		h.res = map[string]any{"stage": "rejected", "valid": false}
		return nil
	}
	cfgPath, rulesPath := h.outP, h.outP
	if h.file == "config" {
		rulesPath = filepath.Join(h.dir, "minrules.yaml")
		if err := os.WriteFile(rulesPath, []byte(c38MinRules), 0o644); err != nil {
			return err
		}
	} else {
		cfgPath = filepath.Join(h.dir, "minconfig.yaml")
		if err := os.WriteFile(cfgPath, []byte(c38MinConfig), 0o644); err != nil {
			return err
		}
	}
	defer func() {
		if r := recover(); r != nil {
			h.res = map[string]any{"stage": "rejected", "valid": false, "panic": fmt.Sprint(r)}
			err = nil
		}
	}()
	c, lerr := config.NewConfig(&config.CmdEnv{ConfigLocations: []string{cfgPath}, RulesLocations: []string{rulesPath}})
	if c == nil {
		h.last = fmt.Sprint(lerr)
		h.res = map[string]any{"stage": "rejected", "valid": false}
		return nil
	}
	var eff any = []any{}
	if len(h.watch) > 0 {
		m := map[string]any{}
		for _, k := range h.watch {
			v, err := c38Observe(c, k)
			if err != nil {
				return err
			}
			m[k] = v
		}
		eff = m
	}
	h.res = map[string]any{"stage": "loaded", "valid": true, "eff": eff}
	return nil
}

func c38Ms(d time.Duration) int { return int(d / time.Millisecond) }

func c38Strs(l []string) []any {
	out := make([]any, len(l))
	for i, s := range l {
		out[i] = s
	}
	return out
}

func c38Map(m map[string]string) any {
	if len(m) == 0 {
		return []any{}
	}
	out := map[string]any{}
	for k, v := range m {
		out[k] = v
	}
	return out
}

// c38Observe answers one observation key through the public Config interface.
func c38Observe(c config.Config, key string) (any, error) {
	if strings.HasPrefix(key, "rules:") {
		return c38ObserveRules(c, strings.TrimPrefix(key, "rules:"))
	}
	if strings.HasPrefix(key, "AccessKeys.accepts:") {
		ak := c.GetAccessKeyConfig()
		return ak.IsAccepted(strings.TrimPrefix(key, "AccessKeys.accepts:"), "") == nil, nil
	}
	switch key {
	case "Network.ListenAddr":
		return c.GetListenAddr(), nil
	case "Network.PeerListenAddr":
		return c.GetPeerListenAddr(), nil
	case "Network.HoneycombAPI":
		return c.GetHoneycombAPI(), nil
	case "AccessKeys.ReceiveKeys":
		return c38Strs(c.GetAccessKeyConfig().ReceiveKeys), nil
	case "AccessKeys.AcceptOnlyListedKeys":
		return c.GetAccessKeyConfig().AcceptOnlyListedKeys, nil
	case "RefineryTelemetry.AddRuleReasonToTrace":
		return c.GetAddRuleReasonToTrace(), nil
	case "RefineryTelemetry.AddSpanCountToRoot":
		return c.GetAddSpanCountToRoot(), nil
	case "RefineryTelemetry.AddHostMetadataToTrace":
		return c.GetAddHostMetadataToTrace(), nil
	case "Traces.SendDelay":
		return c38Ms(c.GetTracesConfig().GetSendDelay()), nil
	case "Traces.BatchTimeout":
		return c38Ms(c.GetTracesConfig().GetBatchTimeout()), nil
	case "Traces.TraceTimeout":
		return c38Ms(c.GetTracesConfig().GetTraceTimeout()), nil
	case "Traces.MaxBatchSize":
		return int(c.GetTracesConfig().GetMaxBatchSize()), nil
	case "Traces.SendTicker":
		return c38Ms(c.GetTracesConfig().GetSendTickerValue()), nil
	case "Debugging.DebugServiceAddr":
		return c.GetDebugServiceAddr(), nil
	case "Debugging.QueryAuthToken":
		return c.GetQueryAuthToken(), nil
	case "Debugging.AdditionalErrorFields":
		return c38Strs(c.GetAdditionalErrorFields()), nil
	case "Debugging.DryRun":
		return c.GetIsDryRun(), nil
	case "Logger.Type":
		return c.GetLoggerType(), nil
	case "Logger.Level":
		return c.GetLoggerLevel().String(), nil
	case "HoneycombLogger.APIHost":
		return c.GetHoneycombLoggerConfig().APIHost, nil
	case "HoneycombLogger.APIKey":
		return c.GetHoneycombLoggerConfig().APIKey, nil
	case "HoneycombLogger.Dataset":
		return c.GetHoneycombLoggerConfig().Dataset, nil
	case "HoneycombLogger.SamplerEnabled":
		hl := c.GetHoneycombLoggerConfig()
		return hl.GetSamplerEnabled(), nil
	case "HoneycombLogger.SamplerThroughput":
		return c.GetHoneycombLoggerConfig().SamplerThroughput, nil
	case "PrometheusMetrics.Enabled":
		return c.GetPrometheusMetricsConfig().Enabled, nil
	case "PrometheusMetrics.ListenAddr":
		return c.GetPrometheusMetricsConfig().ListenAddr, nil
	case "PeerManagement.Type":
		return c.GetPeerManagementType(), nil
	case "PeerManagement.Identifier":
		return c.GetRedisIdentifier(), nil
	case "PeerManagement.IdentifierInterfaceName":
		return c.GetIdentifierInterfaceName(), nil
	case "PeerManagement.UseIPV6Identifier":
		return c.GetUseIPV6Identifier(), nil
	case "PeerManagement.Peers":
		return c38Strs(c.GetPeers()), nil
	case "RedisPeerManagement.Host":
		return c.GetRedisPeerManagement().Host, nil
	case "RedisPeerManagement.Username":
		return c.GetRedisPeerManagement().Username, nil
	case "RedisPeerManagement.Password":
		return c.GetRedisPeerManagement().Password, nil
	case "RedisPeerManagement.UseTLS":
		return c.GetRedisPeerManagement().UseTLS, nil
	case "RedisPeerManagement.UseTLSInsecure":
		return c.GetRedisPeerManagement().UseTLSInsecure, nil
	case "RedisPeerManagement.Timeout":
		return c38Ms(time.Duration(c.GetRedisPeerManagement().Timeout)), nil
	case "Collection.MaxAlloc":
		return int(c.GetCollectionConfig().GetMaxAlloc()), nil
	case "Specialized.EnvironmentCacheTTL":
		return c38Ms(c.GetEnvironmentCacheTTL()), nil
	case "Specialized.CompressPeerCommunication":
		return c.GetCompressPeerCommunication(), nil
	case "Specialized.AdditionalAttributes":
		return c38Map(c.GetAdditionalAttributes()), nil
	case "IDFields.TraceNames":
		return c38Strs(c.GetTraceIdFieldNames()), nil
	case "IDFields.ParentNames":
		return c38Strs(c.GetParentIdFieldNames()), nil
	case "GRPCServerParameters.ListenAddr":
		return c.GetGRPCListenAddr(), nil
	case "GRPCServerParameters.Enabled":
		return c.GetGRPCEnabled(), nil
	case "GRPCServerParameters.MaxConnectionIdle":
		return c38Ms(time.Duration(c.GetGRPCConfig().MaxConnectionIdle)), nil
	case "GRPCServerParameters.MaxConnectionAge":
		return c38Ms(time.Duration(c.GetGRPCConfig().MaxConnectionAge)), nil
	case "GRPCServerParameters.MaxConnectionAgeGrace":
		return c38Ms(time.Duration(c.GetGRPCConfig().MaxConnectionAgeGrace)), nil
	case "GRPCServerParameters.KeepAlive":
		return c38Ms(time.Duration(c.GetGRPCConfig().KeepAlive)), nil
	case "GRPCServerParameters.KeepAliveTimeout":
		return c38Ms(time.Duration(c.GetGRPCConfig().KeepAliveTimeout)), nil
	case "SampleCache.KeptSize":
		return int(c.GetSampleCacheConfig().KeptSize), nil
	case "SampleCache.DroppedSize":
		return int(c.GetSampleCacheConfig().DroppedSize), nil
	case "SampleCache.SizeCheckInterval":
		return c38Ms(time.Duration(c.GetSampleCacheConfig().SizeCheckInterval)), nil
	case "StressRelief.Mode":
		return c.GetStressReliefConfig().Mode, nil
	case "StressRelief.ActivationLevel":
		return int(c.GetStressReliefConfig().ActivationLevel), nil
	case "StressRelief.DeactivationLevel":
		return int(c.GetStressReliefConfig().DeactivationLevel), nil
	case "StressRelief.SamplingRate":
		return int(c.GetStressReliefConfig().SamplingRate), nil
	case "StressRelief.MinimumActivationDuration":
		return c38Ms(time.Duration(c.GetStressReliefConfig().MinimumActivationDuration)), nil
	}
	return nil, fmt.Errorf("harness has no observer for key %q", key)
}

// c38ObserveRules resolves "<dataset>/<Field>/<index>/…" inside the sampler
// configuration Refinery would use for that dataset.  "@type" is the sampler's
// type name, "@len" the length of a list.  A path that leaves the structure
// yields "<absent>".
func c38ObserveRules(c config.Config, path string) (any, error) {
	segs := strings.Split(path, "/")
	cfg, name := c.GetSamplerConfigForDestName(segs[0])
	if len(segs) == 2 && segs[1] == "@type" {
		return name, nil
	}
	v := reflect.ValueOf(cfg)
	for _, s := range segs[1:] {
		for v.IsValid() && (v.Kind() == reflect.Ptr || v.Kind() == reflect.Interface) {
			if v.IsNil() {
				return "<absent>", nil
			}
			v = v.Elem()
		}
		if !v.IsValid() {
			return "<absent>", nil
		}
		if s == "@len" {
			if v.Kind() != reflect.Slice {
				return "<absent>", nil
			}
			return v.Len(), nil
		}
		switch v.Kind() {
		case reflect.Struct:
			v = v.FieldByName(s)
		case reflect.Slice:
			i, err := strconv.Atoi(s)
			if err != nil || i < 0 || i >= v.Len() {
				return "<absent>", nil
			}
			v = v.Index(i)
		default:
			return "<absent>", nil
		}
	}
	return c38Canon(v), nil
}

func c38Canon(v reflect.Value) any {
	for v.IsValid() && (v.Kind() == reflect.Ptr || v.Kind() == reflect.Interface) {
		if v.IsNil() {
			return "<absent>"
		}
		v = v.Elem()
	}
	if !v.IsValid() {
		return "<absent>"
	}
	if d, ok := v.Interface().(config.Duration); ok {
		return c38Ms(time.Duration(d))
	}
	switch v.Kind() {
	case reflect.Bool:
		return v.Bool()
	case reflect.Int, reflect.Int8, reflect.Int16, reflect.Int32, reflect.Int64:
		return int(v.Int())
	case reflect.Uint, reflect.Uint8, reflect.Uint16, reflect.Uint32, reflect.Uint64:
		return int(v.Uint())
	case reflect.Float32, reflect.Float64:
		return map[string]any{"f": strconv.FormatFloat(v.Float(), 'g', -1, 64)}
	case reflect.String:
		return v.String()
	case reflect.Slice:
		out := make([]any, v.Len())
		for i := range out {
			out[i] = c38Canon(v.Index(i))
		}
		return out
	}
	return fmt.Sprintf("<%s>", v.Kind())
}

func TestVerifConvert(t *testing.T) {
	h := &c38Harness{}
	defer func() {
		if h.root != "" && !h.debug {
			os.RemoveAll(h.root)
		}
	}()
	if os.Getenv("C38_EXPLORE") != "" {
		c38Explore(t, h)
		return
	}
	if err := verifkit.Main(h); err != nil {
		t.Fatal(err)
	}
}

// c38Explore is a development aid (C38_EXPLORE=1): it replays EVERY initial state
// of the graph and prints each step whose projection no successor explains,
// grouped by the differing keys, instead of stopping at the fifth divergence.
func c38Explore(t *testing.T, h *c38Harness) {
	raw, err := os.ReadFile(os.Getenv("VERIF_GRAPH"))
	if err != nil {
		t.Fatal(err)
	}
	var g struct {
		States []map[string]any `json:"states"`
		Abs    []any            `json:"abs"`
		Init   []int            `json:"init"`
		Edges  []struct {
			F int            `json:"f"`
			T int            `json:"t"`
			A map[string]any `json:"a"`
		} `json:"edges"`
	}
	if err := json.Unmarshal(raw, &g); err != nil {
		t.Fatal(err)
	}
	out := map[int][]int{}
	for i, e := range g.Edges {
		out[e.F] = append(out[e.F], i)
	}
	kinds := map[string]int{}
	var order []string
	for _, s0 := range g.Init {
		if err := h.Reset(g.States[s0]); err != nil {
			t.Fatal(err)
		}
		cur := []int{s0}
		for _, name := range []string{"Convert", "Load"} {
			if err := h.Apply(map[string]any{"name": name}); err != nil {
				t.Fatal(err)
			}
			obs, _ := h.Project()
			oc := verifkit.Canon(obs)
			var next []int
			var devs []string
			var allowed []string
			for _, s := range cur {
				for _, ei := range out[s] {
					e := g.Edges[ei]
					if e.A["name"] != name {
						continue
					}
					ac := verifkit.Canon(g.Abs[e.T])
					allowed = append(allowed, ac)
					if ac == oc {
						next = append(next, e.T)
						d, _ := e.A["dev"].(string)
						devs = append(devs, d)
					}
				}
			}
			if len(next) == 0 {
				doc, _ := json.Marshal(g.States[s0]["doc"])
				k := fmt.Sprintf("%s %s %s doc=%s\n   observed=%s\n   allowed=%s\n   diag=%s", name, g.States[s0]["file"], g.States[s0]["fmt"], doc, oc, strings.Join(allowed, "\n           "), strings.TrimSpace(h.last))
				if len(k) > 3000 {
					k = k[:3000]
				}
				if kinds[k] == 0 {
					order = append(order, k)
				}
				kinds[k]++
				break
			}
			ideal := false
			for _, d := range devs {
				if d == "" {
					ideal = true
				}
			}
			if !ideal {
				sort.Strings(devs)
				kinds["DEV "+devs[0]]++
			}
			cur = next
		}
	}
	for _, k := range order {
		fmt.Printf("MISMATCH x%d: %s\n", kinds[k], k)
	}
	for k, n := range kinds {
		if strings.HasPrefix(k, "DEV ") {
			fmt.Printf("%s x%d\n", k, n)
		}
	}
	fmt.Printf("explored %d initial states, %d mismatching\n", len(g.Init), len(order))
}
