"""C35 Concurrent components never race on shared state."""

PROP = dict(
    level="exploration",
    technique="Go race detector as oracle over concurrent drivers whose activity alphabet and schedules come from the TLA+ specs (TraceCollector.tla validated traces, Cluster.tla / Reload.tla / Metrics.tla / PubSub.tla action alphabets); each distinct racing pair of functions is a finding",
    design_ref="DESIGN.md section 5 C35",
    level_text="A TLA+ model cannot see memory-level races; what it contributes here is the schedule shapes: the real collector (3 workers, concurrent producers, clock, rules reloads, ejections - the same runs TLC validates against TraceCollector.tla), one real node (routers on both listeners, stress toggling, collector ticks, dispatch of both transmissions, config reloads that clear samplers and resize decision caches), concurrent config reloads, concurrent metric registration/updates, and a real ConfigWatcher on a real LocalPubSub (Stop racing the monitor goroutine Start has just spawned, peer notices, reload callbacks - the schedules PubSub.tla's watcher model flags) are executed under -race. Every race report whose stacks are in refinery code is a violation, identified by the pair of innermost refinery functions.",
    level_note="The oracle is the Go race detector, not TLC; it decides nothing about interleavings the drivers do not produce. Peer membership is driven on one node (messages over a LocalPubSub, expiring entries, concurrent GetPeers readers and callbacks); shutdown is not driven concurrently here (C36 overlaps Stop with a tick). Distinct = number of independent concurrent runs; evaluations = events processed.",
    assumptions=["the race detector reports only real races"],
    stages=[dict(kind="trace", name="collector", module="TraceCollector", cfg="TraceCollector.cfg", pkg="collect", test="TestVerifCollectorTrace",
                 harness=["collect/collector_test.go", "collect/collector_trace_test.go"], race=True, race_oracle=True, budget={"quick": 12, "thorough": 120}),
            dict(kind="gotest", name="node", pkg="route", test="TestVerifClusterRace", harness=["route/cluster_test.go", "route/race_test.go"],
                 race=True, race_oracle=True, budget={"quick": 12, "thorough": 120}),
            dict(kind="gotest", name="stress", pkg="collect", test="TestVerifStressRace", harness=["collect/stress_race_test.go"],
                 race=True, race_oracle=True, budget={"quick": 8, "thorough": 60}),
            dict(kind="gotest", name="reload", pkg="config", test="TestVerifC27Concurrent", harness=["config/c27_reload_test.go", "config/c27_concurrent_test.go", "config/c27_trace_test.go"],
                 race=True, race_oracle=True, race_only=True, budget={"quick": 8, "thorough": 60}),
            dict(kind="gotest", name="metrics", pkg="metrics", test="TestVerifC33Concurrent", harness=["metrics/c33_concurrent_test.go"],
                 race=True, race_oracle=True, race_only=True, budget={"quick": 5, "thorough": 30}),
            dict(kind="gotest", name="peers", pkg="internal/peer", test="TestVerifC35PeersRace", harness=["internal/peer/c35_peers_race_test.go"],
                 race=True, race_oracle=True, race_only=True, budget={"quick": 10, "thorough": 60}),
            dict(kind="gotest", name="watcher", pkg="internal/configwatcher", test="TestVerifC35WatcherRace", harness=["internal/configwatcher/c35_watcher_race_test.go"],
                 race=True, race_oracle=True, race_only=True, budget={"quick": 5, "thorough": 30})],
)

import os, sys  # noqa: E402
sys.path.insert(0, os.path.dirname(os.path.dirname(os.path.abspath(__file__))))
import extstages  # noqa: E402
# CX1: logs of three goroutines on one real LocalPubSub (the bus the config watcher and, without Redis, peer management use), run under -race;
# TLC validates them against TracePubSub.tla, but here only the race detector decides
PROP["stages"] += extstages.pick("CX1", ["TracePubSub"], race_only=True, name="pubsub")
