---------------------------- MODULE SamplerSelect ----------------------------
(***************************************************************************)
(* Which sampler decides a trace, and which fields are extracted from its  *)
(* spans when they are received (property C14).                            *)
(*                                                                         *)
(* Code: config/config.go IsLegacyAPIKey, config/file_config.go            *)
(* DetermineSamplerKey / GetSamplerConfigForDestName /                     *)
(* GetSamplingKeyFieldsForDestName, route/route.go batch +                 *)
(* getEnvironmentName, route/batched_event.go, types/payload.go            *)
(* NewCoreFieldsUnmarshaler, collect/collector_worker.go makeDecision,     *)
(* sample/sample.go GetSamplerImplementationForKey.                        *)
(*                                                                         *)
(* Documentation the rules are taken from:                                 *)
(*   refinery_rules.md "Samplers": "Each target is a Honeycomb environment *)
(*   (or a dataset for Honeycomb Classic keys). [...] The target called    *)
(*   __default__ will be used for any target that is not explicitly        *)
(*   listed. The targets are determined by examining the API key used to   *)
(*   send the trace. If the API key is a Honeycomb Classic key with a      *)
(*   32-character hexadecimal value, then the specified dataset name is    *)
(*   used as the target. If the API key is a key with 20-23 alphanumeric   *)
(*   characters, then the key's environment name is used as the target."   *)
(*   config.md DatasetPrefix: "When Refinery receives telemetry using an   *)
(*   API key associated with a Honeycomb Classic dataset, it will then use *)
(*   the prefix in the form {prefix}.{dataset} when trying to resolve the  *)
(*   rules definition."                                                    *)
(*   Honeycomb's key formats as the code and its tests cite them:          *)
(*   classic configuration key ^[a-f0-9]{32}$, classic ingest key          *)
(*   ^hc[a-z]ic_[0-9a-z]{58}$ (64 characters in all); environment ingest   *)
(*   keys are hc[a-z]ik_ + 58.                                             *)
(*                                                                         *)
(* KEYS are not strings here (TLA+ cannot look into a string) but SHAPES:  *)
(*   [lead, region, tail, len, alpha]                                      *)
(* the key is  lead ++ region ++ tail ++ body,  len characters in all, and *)
(* alpha is the smallest alphabet that holds every body character:         *)
(*   digits < hexlower < alnumlower ;  hexupper (has A-F, may have a-f) ;  *)
(*   alnumupper (has G-Z) ; special (has a non-alphanumeric character).    *)
(* A key without prefix has lead = region = tail = "".  The harness turns  *)
(* a shape into a family of concrete strings (the character that makes the *)
(* alphabet at every position of the body) and all of them must behave     *)
(* alike.                                                                  *)
(*                                                                         *)
(* Two uses (constant Mode):                                               *)
(*  "pure"      function vectors (B3): Init enumerates configuration x     *)
(*              request, Eval is DetermineSamplerKey + the two lookups.    *)
(*  "pipeline"  one node: Ingest = the /1/batch handler (environment       *)
(*              lookup, batch unmarshalling with field extraction, hand    *)
(*              over to the collector), Decide = the collector worker's    *)
(*              decision and the transmission of the kept trace, Reload =  *)
(*              a rules reload.                                            *)
(*                                                                         *)
(* Open reading: "32-character hexadecimal value" does not say whether     *)
(* upper-case digits count; the published pattern is lower-case only.      *)
(* The constant UpperHexIsClassic carries both conventions (the check      *)
(* passes if the code follows either one consistently).                    *)
(***************************************************************************)
EXTENDS Integers, Sequences, FiniteSets, TLC, Json

CONSTANTS Mode,               \* "pure" | "pipeline"
          Shapes,             \* key shapes to enumerate
          Names,              \* environment / dataset names requests carry
          Prefixes,           \* DatasetPrefix values ("" = unset)
          RuleSets,           \* sets of targets (besides __default__) a rules file lists
          DefaultKinds,       \* "det": __default__ reads no field; "dyn": it reads k_default
          DetRuleSets,        \* the rule sets combined with DefaultKinds "det" (all of them with "dyn")
          Encs,               \* pipeline: how the spans are sent ("json", "msgpack": /1/batch; "event": /1/events)
          Auths,              \* pipeline: "ok": the environment lookup answers; "fail": it fails (401, 5xx)
          WithReload,         \* pipeline: rules reloads are explored
          Faithful,           \* FALSE: property / repaired code; TRUE: the code before its repair (see IngestDespiteFailedLookup)
          UpperHexIsClassic   \* the open reading

VARIABLES cfg,    \* [prefix, rules, dflt]: DatasetPrefix, targets in the rules file, kind of __default__
          phase,  \* pure: "in" | "out";  pipeline: "idle" | "pending" | "done"
          cur,    \* the request: [key, env, ds] (pipeline: plus enc); NoReq when none
          out,    \* pure: result of Eval; pipeline: what was extracted at ingestion
          res,    \* pipeline: result of the decision
          act

vars == <<cfg, phase, cur, out, res, act>>

Default == "__default__"

---------------------------------------------------------------------------
(* Key shapes and their classes *)

LowerLetters == {"a","b","c","d","e","f","g","h","i","j","k","l","m",
                 "n","o","p","q","r","s","t","u","v","w","x","y","z"}
Alphabets == {"digits", "hexlower", "hexupper", "alnumlower", "alnumupper", "special"}

Pfx(l, r, t) == [lead |-> l, region |-> r, tail |-> t]
NoPrefix == Pfx("", "", "")
\* region letters at both ends of [a-z], the characters just outside it, a
\* digit, an upper-case letter; wrong tails; wrong lead
IngestPrefixes ==
  {Pfx("hc", r, "ic_") : r \in {"a", "m", "z", "`", "{", "1", "A", "_"}}
  \cup {Pfx("hc", "x", "ik_"), Pfx("hc", "a", "icx"), Pfx("hc", "a", "ic-"), Pfx("hc", "a", "IC_"),
        Pfx("hb", "a", "ic_"), Pfx("HC", "A", "IC_")}

Shape(p, n, a) == [lead |-> p.lead, region |-> p.region, tail |-> p.tail, len |-> n, alpha |-> a]
EmptyKey == Shape(NoPrefix, 0, "digits")

\* every boundary the documentation's numbers draw
ShapesAll ==
  {EmptyKey}
  \cup {Shape(NoPrefix, n, a) : n \in {19, 20, 22, 23, 24, 31, 32, 33, 63, 64, 65}, a \in Alphabets}
  \cup {Shape(p, n, a) : p \in IngestPrefixes, n \in {32, 63, 64, 65}, a \in Alphabets}

ShapesQuick ==
  {EmptyKey}
  \cup {Shape(NoPrefix, n, a) : n \in {22, 31, 32, 33, 64}, a \in {"hexlower", "hexupper", "alnumlower", "special"}}
  \cup {Shape(p, n, a) : p \in {Pfx("hc", "a", "ic_"), Pfx("hc", "z", "ic_"), Pfx("hc", "{", "ic_"), Pfx("hc", "1", "ic_"),
                                Pfx("hc", "x", "ik_"), Pfx("hc", "a", "icx")},
                         n \in {63, 64, 65}, a \in {"hexlower", "alnumlower", "alnumupper"}}

\* the handful used where every request costs a real trace
ShapesPipe ==
  {EmptyKey,
   Shape(NoPrefix, 32, "hexlower"), Shape(NoPrefix, 32, "digits"), Shape(NoPrefix, 31, "hexlower"), Shape(NoPrefix, 33, "hexlower"),
   Shape(NoPrefix, 32, "hexupper"), Shape(NoPrefix, 32, "alnumlower"), Shape(NoPrefix, 22, "alnumupper"),
   Shape(Pfx("hc", "a", "ic_"), 64, "alnumlower"), Shape(Pfx("hc", "a", "ic_"), 63, "alnumlower"), Shape(Pfx("hc", "a", "ic_"), 65, "alnumlower"),
   Shape(Pfx("hc", "a", "ic_"), 64, "alnumupper"), Shape(Pfx("hc", "x", "ik_"), 64, "alnumlower"), Shape(Pfx("hc", "1", "ic_"), 64, "hexlower")}

ShapesPipeQuick ==
  {EmptyKey,
   Shape(NoPrefix, 32, "hexlower"), Shape(NoPrefix, 33, "hexlower"), Shape(NoPrefix, 32, "hexupper"), Shape(NoPrefix, 22, "alnumupper"),
   Shape(Pfx("hc", "a", "ic_"), 64, "alnumlower"), Shape(Pfx("hc", "x", "ik_"), 64, "alnumlower")}

HasNoPrefix(k) == k.lead = "" /\ k.region = "" /\ k.tail = ""
IsHex(a) == a \in {"digits", "hexlower"} \/ (UpperHexIsClassic /\ a = "hexupper")
IsLowerAlnum(a) == a \in {"digits", "hexlower", "alnumlower"}
IsAlnum(a) == a # "special"

\* "a Honeycomb Classic key with a 32-character hexadecimal value"
ClassicConfigKey(k) == HasNoPrefix(k) /\ k.len = 32 /\ IsHex(k.alpha)
\* ^hc[a-z]ic_[0-9a-z]*$ and 64 characters
ClassicIngestKey(k) == k.lead = "hc" /\ k.region \in LowerLetters /\ k.tail = "ic_" /\ k.len = 64 /\ IsLowerAlnum(k.alpha)
\* "a key with 20-23 alphanumeric characters"
EnvConfigKey(k) == HasNoPrefix(k) /\ k.len \in 20 .. 23 /\ IsAlnum(k.alpha)
EnvIngestKey(k) == k.lead = "hc" /\ k.region \in LowerLetters /\ k.tail = "ik_" /\ k.len = 64 /\ IsLowerAlnum(k.alpha)

Class(k) == IF ClassicConfigKey(k) THEN "classic"
            ELSE IF ClassicIngestKey(k) THEN "classicIngest"
            ELSE IF EnvConfigKey(k) \/ EnvIngestKey(k) THEN "env"
            ELSE "malformed"
IsClassic(k) == Class(k) \in {"classic", "classicIngest"}

---------------------------------------------------------------------------
(* Rules: the sampler each target configures.  Every target reads fields   *)
(* no other target reads and answers with a reason no other target gives,  *)
(* so the sampler that decided shows in the decision.                      *)
(*   raw: the field names as the rules file spells them                    *)
(*   ing: the names looked for in a span (a root. prefix removed)          *)
(*   key: the fields whose values make the sample key                      *)

PrefixedTargets == {p \o "." \o n : p \in Prefixes \ {""}, n \in Names}
Targets == Names \cup PrefixedTargets

Def(t, dflt) ==
  IF t = Default THEN
       IF dflt = "det" THEN [kind |-> "DeterministicSampler", raw |-> {}, ing |-> {}, key |-> {}, reason |-> "deterministic/always"]
       ELSE [kind |-> "DynamicSampler", raw |-> {"k_default"}, ing |-> {"k_default"}, key |-> {"k_default"}, reason |-> "dynamic"]
  ELSE IF t = "prod" THEN
       [kind |-> "EMADynamicSampler", raw |-> {"k_prod"}, ing |-> {"k_prod"}, key |-> {"k_prod"}, reason |-> "emadynamic"]
  ELSE IF t = "web" THEN
       [kind |-> "DynamicSampler", raw |-> {"root.k_web", "j_web"}, ing |-> {"k_web", "j_web"}, key |-> {"k_web", "j_web"}, reason |-> "dynamic"]
  ELSE \* dataset targets under a prefix: a rule on c_<t> with a downstream sampler keyed by k_<t>
       [kind |-> "RulesBasedSampler", raw |-> {"c_" \o t, "k_" \o t}, ing |-> {"c_" \o t, "k_" \o t}, key |-> {"k_" \o t},
        reason |-> "rules/trace/hit_" \o t \o ":dynamic"]

\* the function the property states
Selector(k, env, ds, prefix) ==
  IF IsClassic(k) THEN (IF prefix # "" THEN prefix \o "." \o ds ELSE ds) ELSE env
Lookup(sel, rules) == IF sel \in rules THEN sel ELSE Default

RuleSetsAll == SUBSET Targets
RuleSetsSome == {{}, {"prod"}, {"web"}, {"cls.prod"}, {"cls.web"}, {"prod", "cls.prod"}, {"web", "cls.web"},
                 {"prod", "web", "cls.prod", "cls.web"}}
RuleSetsQuick == {{}, {"prod", "cls.web"}, {"web", "cls.prod"}, {"prod", "web", "cls.prod", "cls.web"}}

Configs == {c \in [prefix : Prefixes, rules : RuleSets, dflt : DefaultKinds] : c.dflt = "dyn" \/ c.rules \in DetRuleSets}
NoReq == [key |-> EmptyKey, env |-> "", ds |-> "", enc |-> "", auth |-> ""]
NoOut == [selector |-> "", lookup |-> "", kind |-> "", fieldsSet |-> {}, legacy |-> FALSE]
NoIng == [needSet |-> {}, availSet |-> {}, spans |-> 0]
NoRes == [reason |-> "", keySet |-> {}, spans |-> 0]

---------------------------------------------------------------------------
(* Mode "pure" *)

PureRequests == [key : Shapes, env : Names, ds : Names, enc : {""}, auth : {""}]

InitPure == /\ cfg \in Configs
            /\ cur \in PureRequests
            /\ phase = "in"
            /\ out = NoOut
            /\ res = NoRes
            /\ act = [name |-> "Init"]

\* DetermineSamplerKey, GetSamplerConfigForDestName, GetSamplingKeyFieldsForDestName, IsLegacyAPIKey
Eval == /\ Mode = "pure"
        /\ phase = "in"
        /\ LET sel == Selector(cur.key, cur.env, cur.ds, cfg.prefix)
               lk  == Lookup(sel, cfg.rules)
               d   == Def(lk, cfg.dflt)
           IN out' = [selector |-> sel, lookup |-> lk, kind |-> d.kind, fieldsSet |-> d.raw, legacy |-> IsClassic(cur.key)]
        /\ phase' = "out"
        /\ UNCHANGED <<cfg, cur, res>>
        /\ act' = [name |-> "Eval"]

---------------------------------------------------------------------------
(* Mode "pipeline" *)

\* route.go getEnvironmentName: no lookup for a blank or a classic key
LookupDone(k) == k.len # 0 /\ ~IsClassic(k)

\* a failing lookup only where a lookup is made
PipeRequests == {r \in [key : Shapes, env : Names, ds : Names, enc : Encs, auth : Auths] : r.auth = "fail" => LookupDone(r.key)}

InitPipe == /\ cfg \in Configs
            /\ cur = NoReq
            /\ phase = "idle"
            /\ out = NoIng
            /\ res = NoRes
            /\ act = [name |-> "Init"]

SpansOf(enc) == IF enc = "event" THEN 1 ELSE 2

\* the environment name the router works with: empty without lookup (and
\* after a failed one, should the request be processed nevertheless)
EnvSeen(r) == IF LookupDone(r.key) /\ r.auth = "ok" THEN r.env ELSE ""

\* After a decision the next request is explored in one encoding only (what
\* the previous decision left behind does not depend on the next encoding);
\* from the idle state (start, after a reload) in all of them.
Explored(r) == phase = "idle" \/ (phase = "done" /\ r.enc = "msgpack" /\ r.auth = "ok")

\* POST /1/batch/<ds> with the key: two spans (a child, then the root), each
\* carrying every field any sampler reads (enc "json", "msgpack"); or POST
\* /1/events/<ds> with the root span alone (enc "event").  The unmarshaller extracts the
\* fields of the sampler selected for (key, environment, dataset); the spans
\* reach the collector with them.  The action label carries `need`, the
\* harness answers which of those every span has extracted.
Ingest(r) ==
  /\ Mode = "pipeline"
  /\ Explored(r)
  /\ r.auth = "ok"
  /\ LET sel  == Selector(r.key, EnvSeen(r), r.ds, cfg.prefix)
         need == Def(Lookup(sel, cfg.rules), cfg.dflt).ing
     IN /\ out' = [needSet |-> need, availSet |-> need, spans |-> SpansOf(r.enc)]
        /\ act' = [name |-> "Ingest", key |-> r.key, env |-> r.env, ds |-> r.ds, enc |-> r.enc, auth |-> r.auth, need |-> need]
  /\ cur' = r
  /\ phase' = "pending"
  /\ res' = NoRes
  /\ UNCHANGED cfg

\* The environment lookup fails: the environment of the key is not known, the
\* request is refused and nothing of it reaches the collector.
IngestRefused(r) ==
  /\ Mode = "pipeline"
  /\ Explored(r)
  /\ r.auth = "fail"
  /\ UNCHANGED <<cfg, phase, cur, out, res>>
  /\ act' = [name |-> "Ingest", key |-> r.key, env |-> r.env, ds |-> r.ds, enc |-> r.enc, auth |-> r.auth,
             need |-> Def(Default, cfg.dflt).ing]

\* DEVIATION lookup-failed-sampled-by-default, repaired in /repo (route.go batch
\* had no return after the error answer; finding and repair are C23's): the
\* spans were processed with an empty environment name, so the trace of an
\* environment key was decided by __default__ instead of its environment's
\* sampler.  Kept for MC_SamplerSelect_pipe_unpatched.cfg (not part of the
\* check), where TLC shows NoUnknownEnvironmentIngested / DecisionFollowsRules
\* failing; the checked configurations have Faithful = FALSE, so code that
\* behaves like this again is a VIOLATION.
IngestDespiteFailedLookup(r) ==
  /\ Faithful
  /\ Mode = "pipeline"
  /\ Explored(r)
  /\ r.auth = "fail"
  /\ LET need == Def(Default, cfg.dflt).ing
     IN /\ out' = [needSet |-> need, availSet |-> need, spans |-> SpansOf(r.enc)]
        /\ act' = [name |-> "Ingest", key |-> r.key, env |-> r.env, ds |-> r.ds, enc |-> r.enc, auth |-> r.auth, need |-> need,
                   dev |-> "lookup-failed-sampled-by-default"]
  /\ cur' = r
  /\ phase' = "pending"
  /\ res' = NoRes
  /\ UNCHANGED cfg

\* the collector's timer fires: the worker selects the sampler again from
\* the trace's key, environment and dataset, decides, and the kept trace is
\* transmitted carrying the reason and the sample key
Decide ==
  /\ Mode = "pipeline"
  /\ phase = "pending"
  /\ LET sel == Selector(cur.key, EnvSeen(cur), cur.ds, cfg.prefix)
         d   == Def(Lookup(sel, cfg.rules), cfg.dflt)
     IN res' = [reason |-> d.reason, keySet |-> d.key, spans |-> SpansOf(cur.enc)]
  /\ phase' = "done"
  /\ cur' = NoReq
  /\ out' = NoIng
  /\ UNCHANGED cfg
  /\ act' = [name |-> "Decide"]

\* the rules file is replaced and reloaded while no trace is waiting
Reload(rs) ==
  /\ Mode = "pipeline"
  /\ WithReload
  /\ phase \in {"idle", "done"}
  /\ rs # cfg.rules
  /\ [cfg EXCEPT !.rules = rs] \in Configs
  /\ cfg' = [cfg EXCEPT !.rules = rs]
  /\ phase' = "idle"
  /\ res' = NoRes
  /\ UNCHANGED <<cur, out>>
  /\ act' = [name |-> "Reload", rulesSet |-> rs]

---------------------------------------------------------------------------
Init == IF Mode = "pure" THEN InitPure ELSE InitPipe
Next == \/ Eval
        \/ \E r \in PipeRequests : Ingest(r) \/ IngestRefused(r) \/ IngestDespiteFailedLookup(r)
        \/ Decide
        \/ \E rs \in RuleSets : Reload(rs)
Spec == Init /\ [][Next]_vars

---------------------------------------------------------------------------
(* Properties *)

AllFields == UNION {Def(t, d).ing : t \in Targets \cup {Default}, d \in DefaultKinds}
AllReasons == {Def(t, d).reason : t \in Targets \cup {Default}, d \in DefaultKinds}

TypeOK ==
  /\ cfg \in Configs
  /\ Mode = "pure" =>
       /\ phase \in {"in", "out"} /\ cur \in PureRequests
       /\ phase = "in" => out = NoOut
       /\ phase = "out" => /\ out.lookup \in Targets \cup {Default}
                           /\ out.legacy \in BOOLEAN
  /\ Mode = "pipeline" =>
       /\ phase \in {"idle", "pending", "done"}
       /\ (phase = "pending") <=> (cur # NoReq)
       /\ out.needSet \subseteq AllFields /\ res.keySet \subseteq AllFields
       /\ phase = "done" => res.reason \in AllReasons

\* the shapes enumerated are classified without overlap
ASSUME \A k \in Shapes : ~(ClassicConfigKey(k) /\ ClassicIngestKey(k))
ASSUME \A k \in Shapes : ~(IsClassic(k) /\ (EnvConfigKey(k) \/ EnvIngestKey(k)))
\* the targets are told apart by what they read and by what they answer
ASSUME \A d \in DefaultKinds : \A s, t \in Targets \cup {Default} :
         s # t => /\ Def(s, d).ing \cap Def(t, d).ing = {}
                  /\ (Def(s, d).reason = Def(t, d).reason => Def(s, d).key # Def(t, d).key)

\* C14, first sentence -- stated on the request, not through Selector
EnvKeyUsesEnvironment ==
  (Mode = "pure" /\ phase = "out" /\ ~IsClassic(cur.key)) =>
     /\ out.selector = cur.env
     /\ out.lookup = IF cur.env \in cfg.rules THEN cur.env ELSE Default
ClassicKeyUsesDataset ==
  (Mode = "pure" /\ phase = "out" /\ IsClassic(cur.key)) =>
     /\ cfg.prefix = "" => out.selector = cur.ds
     /\ cfg.prefix # "" => out.selector = cfg.prefix \o "." \o cur.ds
     /\ out.lookup = IF out.selector \in cfg.rules THEN out.selector ELSE Default
\* documented shapes: 32 lower-case hex and hc[a-z]ic_ + 58 are classic; 20-23
\* alphanumerics and hc[a-z]ik_ + 58 are not
DocumentedShapes ==
  (Mode = "pure" /\ phase = "out") =>
     /\ (HasNoPrefix(cur.key) /\ cur.key.len = 32 /\ cur.key.alpha \in {"digits", "hexlower"}) => out.legacy
     /\ (HasNoPrefix(cur.key) /\ cur.key.len \in 20 .. 23 /\ cur.key.alpha # "special") => ~out.legacy
     /\ (cur.key.len \notin {32, 64}) => ~out.legacy
     /\ cur.key.alpha = "special" => ~out.legacy
\* a sampler is always found, and it is the listed one when there is one
NeverWithoutSampler ==
  (Mode = "pure" /\ phase = "out") =>
     /\ out.lookup \in cfg.rules \cup {Default}
     /\ out.kind = Def(out.lookup, cfg.dflt).kind
     /\ out.fieldsSet = Def(out.lookup, cfg.dflt).raw
\* DatasetPrefix keeps a classic dataset from resolving to an environment's sampler
PrefixSeparates ==
  (Mode = "pure" /\ phase = "out" /\ IsClassic(cur.key) /\ cfg.prefix # "") => out.selector \notin Names

\* C14, second sentence: what ingestion extracted is what the sampler that
\* later decides reads (no reload in between: Reload waits for pending traces)
ExtractedIsWhatDeciderReads ==
  (Mode = "pipeline" /\ phase = "pending") =>
     LET sel == Selector(cur.key, EnvSeen(cur), cur.ds, cfg.prefix)
         d   == Def(Lookup(sel, cfg.rules), cfg.dflt)
     IN /\ d.ing \subseteq out.availSet
        /\ d.key \subseteq out.availSet
\* the decision names the sampler of the destination: reason and key of one target
DecisionOfOneTarget ==
  (Mode = "pipeline" /\ phase = "done") =>
     \E t \in cfg.rules \cup {Default} : /\ res.reason = Def(t, cfg.dflt).reason
                                         /\ res.keySet = Def(t, cfg.dflt).key
\* C14 on the pipeline, stated on the request itself (not through Selector):
\* the decision is the one of the sampler listed for the environment of an
\* environment key / for the (prefixed) dataset of a classic key, else of
\* __default__, under the rules in force when it is made; and what ingestion
\* extracted from the spans is what that sampler reads
DecisionFollowsRules ==
  [][(act'.name = "Decide") =>
        LET dest == IF IsClassic(cur.key)
                    THEN (IF cfg.prefix = "" THEN cur.ds ELSE cfg.prefix \o "." \o cur.ds)
                    ELSE (IF cur.key.len = 0 THEN "" ELSE cur.env)
            t    == IF dest \in cfg.rules THEN dest ELSE Default
        IN /\ res'.reason = Def(t, cfg.dflt).reason
           /\ res'.keySet = Def(t, cfg.dflt).key
           /\ res'.spans = out.spans
           /\ Def(t, cfg.dflt).ing \subseteq out.availSet]_vars

\* a trace whose environment could not be determined is not taken in
NoUnknownEnvironmentIngested ==
  (Mode = "pipeline" /\ phase = "pending") => cur.auth # "fail"

---------------------------------------------------------------------------
Abs == IF Mode = "pure"
       THEN [phase |-> phase, out |-> out]
       ELSE [phase |-> phase, ing |-> out, res |-> res]
St == [cfg |-> [prefix |-> cfg.prefix, rulesSet |-> cfg.rules, dflt |-> cfg.dflt], phase |-> phase, cur |-> cur, out |-> out, res |-> res]
Dump == PrintT(ToJson([fs |-> St, fa |-> act.name, act |-> act', ts |-> St', fabs |-> Abs, tabs |-> Abs']))
View == <<cfg, phase, cur, out, res>>
=============================================================================
