--------------------------- MODULE TraceFanoutConc ---------------------------
(***************************************************************************)
(* Trace validation (binding B2) for FanoutConc.tla.  A Go driver calls    *)
(* the real generics.Fanout / FanoutToMap / FanoutChunksToMap with         *)
(* callbacks that log one NDJSON line per invocation:                      *)
(*   reset   {input, par, pred, chunk}   a new call starts                 *)
(*   work    {w, job}                    worker w's callback got `job`     *)
(*   cleanup {w}                         cleanup of worker w ran           *)
(*   return  {tomap, outs | pairs}       the call returned this result     *)
(* Channel operations, the collector and main's waits are not observable:  *)
(* they are the Internal steps, taken without consuming a line.  TLC       *)
(* accepts a log iff some interleaving of internal steps makes it a        *)
(* behaviour of FanoutConc!Next - so a worker that is called after its     *)
(* cleanup, a job nobody was sent, a call that returns before every        *)
(* cleanup ran or with a result that is not the collector's, all reject.   *)
(***************************************************************************)
EXTENDS FanoutConc, Json

VARIABLE l   \* number of trace lines consumed so far

Trace == ndJsonDeserialize("trace.ndjson")

tvars == <<vars, l>>

TraceInit == Start(<<>>, 1, FALSE, 0) /\ l = 0 /\ TLCSet(1, 0)

Line == Trace[l + 1]
Consume == l < Len(Trace) /\ l' = l + 1
HWM == TLCSet(1, IF l > TLCGet(1) THEN l ELSE TLCGet(1))
IsEvent(e) == Consume /\ Line.event = e

TraceReset ==
  /\ IsEvent("reset")
  /\ LET z == S0(Line.input, Line.par, Line.pred, Line.chunk) IN
       /\ input' = z.input /\ par' = z.par /\ usePred' = z.usePred /\ chunk' = z.chunk
       /\ nw' = z.nw /\ jobs' = z.jobs
       /\ fi' = 0 /\ fanout' = <<>> /\ fanoutClosed' = FALSE
       /\ wpc' = z.wpc /\ wjob' = z.wjob /\ wprod' = z.wprod
       /\ fanin' = <<>> /\ faninClosed' = FALSE
       /\ result' = <<>> /\ cpc' = "run" /\ mpc' = "waitWorkers"
       /\ worked' = <<>>
       /\ cleaned' = z.cleaned

TraceWork == /\ IsEvent("work")
             /\ Line.w \in W
             /\ wjob[Line.w] = Line.job
             /\ WWork(Line.w)

TraceCleanup == /\ IsEvent("cleanup")
                /\ Line.w \in W
                /\ WCleanup(Line.w)

TraceReturn ==
  /\ IsEvent("return")
  /\ MReturn
  /\ IF Line.tomap
     THEN {<<result[i][1], result[i][2]>> : i \in DOMAIN result} = {<<Line.pairs[i][1], Line.pairs[i][2]>> : i \in DOMAIN Line.pairs}
     ELSE BagOf([i \in DOMAIN result |-> result[i][2]]) = BagOf(Line.outs)

TraceInternal == Internal /\ UNCHANGED l

TraceNext == TraceReset \/ TraceWork \/ TraceCleanup \/ TraceReturn \/ TraceInternal

TraceSpec == TraceInit /\ [][TraceNext]_tvars

TraceAccepted ==
  LET hwm == TLCGet(1) IN
  IF hwm = Len(Trace) THEN PrintT(<<"TRACE-ACCEPTED", hwm>>)
  ELSE PrintT(<<"TRACE-HWM", hwm>>) /\ FALSE
=============================================================================
