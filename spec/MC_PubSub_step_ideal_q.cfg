SPECIFICATION Spec
CONSTANTS
  Topics = {"a"}
  Subs = {"s1"}
  Pubs = {"p1", "p2"}
  MaxPub = 2
  MaxStops = 1
  Hows = {"Close", "Stop"}
  Step = TRUE
  Faithful = FALSE
  Revive = TRUE
  Metrics = TRUE
  ParkPlain = TRUE
  Watcher = FALSE
  CwModes = {}
  MaxNow = 0
INVARIANTS TypeOK MustDeliver AtMostOnce NoForbidden OwnTopic ClosedIsClosed
PROPERTIES NoCallbackAfterClose
VIEW View
CHECK_DEADLOCK FALSE
