//go:build verif

package health

import (
	"fmt"
	"sync"
	"sync/atomic"
	"testing"
	"time"

	"github.com/honeycombio/refinery/internal/verifkit"
	"github.com/honeycombio/refinery/logger"
	"github.com/jonboulle/clockwork"
)

// c30Harness binds spec/Health.tla (property C30) to a real, started Health
// with its real ticker goroutine. Time is a clockwork fake clock; the only
// thing the harness interposes is the ticker's channel, so that a tick the
// fake clock has produced is handed to the goroutine exactly when the model
// takes its "Tick" step, and the harness knows when the goroutine has finished
// processing it (see c30Ticker). No wall-clock sleeps; wall-clock time is used
// only as a hang detector.

const c30HangTimeout = 20 * time.Second

// c30Ticker wraps the fake clock's ticker. Ticks produced by the fake clock
// stay in inner's (buffered, size 1) channel until the harness forwards one
// through the unbuffered channel `out`, which is what the code selects on.
// Health.ticker evaluates tick.Chan() every time it (re-)enters its select, so
// the call count of Chan() is a barrier: call n+1 happens after the critical
// section of tick n has been left.
type c30Ticker struct {
	inner  clockwork.Ticker
	period time.Duration
	out    chan time.Time
	calls  atomic.Int64
	called chan struct{}
}

func (t *c30Ticker) Chan() <-chan time.Time {
	t.calls.Add(1)
	select {
	case t.called <- struct{}{}:
	default:
	}
	return t.out
}
func (t *c30Ticker) Reset(d time.Duration) { t.period = d; t.inner.Reset(d) }
func (t *c30Ticker) Stop()                 { t.inner.Stop() }

// waitCalls blocks until Chan() has been called more than n times.
func (t *c30Ticker) waitCalls(n int64) error {
	deadline := time.After(c30HangTimeout)
	for t.calls.Load() <= n {
		select {
		case <-t.called:
		case <-deadline:
			return fmt.Errorf("tick barrier lost: the ticker goroutine did not come back to its select (Chan() calls: %d)", t.calls.Load())
		}
	}
	return nil
}

// c30Clock is the fake clock handed to Health; it only intercepts NewTicker.
type c30Clock struct {
	*clockwork.FakeClock
	mu      sync.Mutex
	tickers []*c30Ticker
	created chan struct{}
}

func (c *c30Clock) NewTicker(d time.Duration) clockwork.Ticker {
	t := &c30Ticker{inner: c.FakeClock.NewTicker(d), period: d, out: make(chan time.Time), called: make(chan struct{}, 1)}
	c.mu.Lock()
	c.tickers = append(c.tickers, t)
	c.mu.Unlock()
	select {
	case c.created <- struct{}{}:
	default:
	}
	return t
}

func (c *c30Clock) ticker() *c30Ticker {
	c.mu.Lock()
	defer c.mu.Unlock()
	if len(c.tickers) == 0 {
		return nil
	}
	return c.tickers[0]
}

// set once if an implementation turns out not to create a ticker at all, so
// that later Resets do not wait for one again
var c30NoTicker atomic.Bool

type c30Harness struct {
	clock    *c30Clock
	health   *Health
	recorder Recorder
	reporter Reporter
	unit     time.Duration
	panicked string
	logger   logger.Logger // optional collaborator stub (used by the concurrent driver)
}

func (h *c30Harness) Reset(init map[string]any) error {
	if h.health != nil {
		h.health.Stop()
		h.health = nil
	}
	u := verifkit.Int(init, "unitMs")
	if u <= 0 {
		return fmt.Errorf("initial state carries no unitMs: %v", init)
	}
	h.unit = time.Duration(u) * time.Millisecond
	h.panicked = ""
	h.clock = &c30Clock{FakeClock: clockwork.NewFakeClock(), created: make(chan struct{}, 1)}
	h.health = &Health{Clock: h.clock, Logger: h.logger}
	if err := h.health.Start(); err != nil {
		return err
	}
	h.recorder, h.reporter = h.health, h.health
	// wait until the ticker goroutine has created its ticker and sits in its select
	if !c30NoTicker.Load() {
		select {
		case <-h.clock.created:
		case <-time.After(c30HangTimeout):
			c30NoTicker.Store(true)
		}
	}
	if t := h.clock.ticker(); t != nil {
		if err := t.waitCalls(0); err != nil {
			return err
		}
	}
	return nil
}

// tick forwards the tick the fake clock has produced (if any) to the ticker
// goroutine and waits until the goroutine has processed it.
func (h *c30Harness) tick() error {
	t := h.clock.ticker()
	if t == nil {
		return nil
	}
	select {
	case now := <-t.inner.Chan():
		n := t.calls.Load()
		select {
		case t.out <- now:
		case <-time.After(c30HangTimeout):
			return fmt.Errorf("tick barrier lost: the ticker goroutine does not receive from its ticker")
		}
		return t.waitCalls(n)
	default:
		// the fake clock produced no tick at this instant (an implementation
		// with another ticker period): nothing to deliver
		return nil
	}
}

func (h *c30Harness) Apply(a map[string]any) (err error) {
	defer func() {
		if r := recover(); r != nil {
			h.panicked = fmt.Sprint(r)
		}
	}()
	s := verifkit.Str(a, "s")
	switch verifkit.Str(a, "name") {
	case "Register":
		h.recorder.Register(s, time.Duration(verifkit.Int(a, "to"))*h.unit)
	case "Unregister":
		h.recorder.Unregister(s)
	case "Ready":
		h.recorder.Ready(s, verifkit.Bool(a, "r"))
	case "Advance":
		h.clock.Advance(time.Duration(verifkit.Int(a, "d")) * h.unit)
	case "Tick":
		return h.tick()
	default:
		return fmt.Errorf("unknown action %v", a)
	}
	return nil
}

// Project asks the Reporter interface, the way the router does for /alive and
// /ready. Each question is asked twice: an answer that changes without any
// step in between matches no specification state.
func (h *c30Harness) Project() (out any, err error) {
	m := map[string]any{}
	defer func() {
		if r := recover(); r != nil {
			m["panic"] = fmt.Sprint(r)
			out, err = m, nil
		}
	}()
	alive := h.reporter.IsAlive()
	ready := h.reporter.IsReady()
	m["alive"], m["ready"] = alive, ready
	if a2, r2 := h.reporter.IsAlive(), h.reporter.IsReady(); a2 != alive || r2 != ready {
		m["disagree"] = fmt.Sprintf("IsAlive %v then %v, IsReady %v then %v without a step in between", alive, a2, ready, r2)
	}
	if h.panicked != "" {
		m["panic"] = h.panicked
	}
	return m, nil
}

func TestVerifC30Health(t *testing.T) {
	h := &c30Harness{}
	err := verifkit.Main(h)
	if h.health != nil {
		h.health.Stop()
	}
	if err != nil {
		t.Fatal(err)
	}
}
