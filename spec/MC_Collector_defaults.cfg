SPECIFICATION Spec
CONSTANTS
  Traces <- mc_Traces
  WorkerOf <- mc_WorkerOf
  Verdicts <- mc_Verdicts
  Reason <- mc_Reason
  SpanShapes <- mc_Shapes
  Cfgs <- mc_Cfgs
  InitCfg <- mc_Cfg0
  StressRates <- mc_Stress
  ReloadPairs <- mc_ReloadPairs
  EjectShares = {}
  DefTimeout = 60
  DefDelay = 2
  MaxSpans = 2
  MaxNow = 62
  TraceTimeout = 0
  SendDelay = 0
  SpanLimit = 0
  MaxExpired = 0
  ArriveUntil = 2
INVARIANTS TypeOK OneDecision ExactlyOnce DeadlineRule RatesCompose SendReasonRule DryRunForwardsAll
PROPERTIES DecidedOnTime DeadlineNeverLater BacklogOrder EjectDecides
ACTION_CONSTRAINT Dump
VIEW View
CHECK_DEADLOCK FALSE
