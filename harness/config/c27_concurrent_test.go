//go:build verif

package config

import (
	"fmt"
	"math/rand"
	"net/http"
	"net/http/httptest"
	"os"
	"runtime"
	"sort"
	"strconv"
	"sync"
	"sync/atomic"
	"testing"
	"time"

	"github.com/honeycombio/refinery/internal/verifkit"
)

// The concurrent half of C27 ("overlapping reload triggers neither apply a
// change twice nor lose one"). spec/Reload.tla explores every interleaving of
// the steps of two reloaders (MC_Reload_steps*.cfg, MC_Reload_live.cfg); this
// driver fires Reload from two goroutines on a real fileConfig while the files
// change and checks what those TLC properties mean for an outside observer:
//
//	NoDoubleApply / NotifiedOncePerChange
//	    no listener receives the same (configHash, rulesHash) twice - every
//	    content written is unique, so a repetition is one change applied twice -
//	    and all listeners receive the same notifications
//	AcceptedRunning
//	    nothing startup rejects is ever notified or visible through a getter
//	Converges / FreshAtReturn
//	    after a final quiescent Reload the getters answer from the last
//	    content on disk if startup accepts it (oracle: the real NewConfig on
//	    the same bytes), otherwise from something that was applied before;
//	    whatever is running has been notified to every listener; a further
//	    Reload of unchanged files notifies nobody.
//
// Nothing about the interleaving inside Reload is assumed or observed.

type c27Content struct {
	file   string // "c" | "r"
	class  string // ok | warn | removed | invalid | gone
	k      int    // unique number carried by the settings
	bytes  []byte
	hash   string
	accept bool // startup accepts a pair with this content (if the other file is acceptable too)
}

type c27Pair struct{ C, R string }

type c27Listener struct {
	mu   sync.Mutex
	seen []c27Pair
}

func (l *c27Listener) cb(c, r string) {
	l.mu.Lock()
	l.seen = append(l.seen, c27Pair{c, r})
	l.mu.Unlock()
}

type c27Issue struct {
	kind   string // deviation name or violation kind
	known  bool   // explained by a deviation of known_findings.json
	detail map[string]any
}

type c27Trial struct {
	rng      *rand.Rand
	next     int
	contents map[string]*c27Content // by hash
	byK      map[int]*c27Content
	log      []string
	reloads  int64
}

func (tr *c27Trial) makeContent(file, class string) *c27Content {
	tr.next++
	k := tr.next
	c := &c27Content{file: file, class: class, k: k}
	switch {
	case class == "gone":
		c.bytes = nil
	case file == "c":
		delay := fmt.Sprintf("%dms", 1000+k)
		switch class {
		case "ok":
			c.bytes, c.accept = c27ConfigYAML(delay, 1000+k, ""), true
		case "warn":
			c.bytes, c.accept = c27ConfigYAML(delay, 1000+k, "Collection:\n  CacheCapacity: 1000\n"), true
		case "removed":
			c.bytes = c27ConfigYAML(delay, 1000+k, "RedisPeerManagement:\n  Database: 1\n")
		case "invalid":
			c.bytes = [][]byte{
				c27ConfigYAML(delay, 1000+k, "NoSuchGroup:\n  Foo: 1\n"),
				c27ConfigYAML(delay, 7, fmt.Sprintf("# %d\n", k)),
				append(c27ConfigYAML(delay, 1000+k, ""), "  Broken: [1,\n"...),
			}[tr.rng.Intn(3)]
		}
	default:
		switch class {
		case "ok":
			c.bytes, c.accept = c27RulesYAML(10+k), true
		case "invalid":
			c.bytes = [][]byte{
				[]byte(fmt.Sprintf("RulesVersion: 2\nSamplers:\n  __default__:\n    InvalidSampler:\n      SampleRate: %d\n", 10+k)),
				[]byte(fmt.Sprintf("RulesVersion: 2\n# %d\nSamplers: [1,\n", k)),
			}[tr.rng.Intn(2)]
		}
	}
	if c.bytes != nil {
		c.hash = c27Hash(c.bytes)
		tr.contents[file+c.hash] = c
	}
	tr.byK[k] = c
	return c
}

// c27Store is where the config and the rules live during a trial.
type c27Store interface {
	putC(b []byte) error
	putR(b []byte) error
	opts() *CmdEnv
	cleanup()
}

type c27FileStore struct{ *c27Files }

func (s c27FileStore) putC(b []byte) error { return s.put(s.cpath, b) }
func (s c27FileStore) putR(b []byte) error { return s.put(s.rpath, b) }

// c27HTTPStore serves the two documents over loopback HTTP (getBytesFor
// supports http locations). It can hold ONE request for the rules document
// until released, which keeps the Reload that issued it between its two reads
// - from outside Reload.
type c27HTTPStore struct {
	mu       sync.Mutex
	c, r     []byte
	srv      *httptest.Server
	hold     bool          // hold the next rules request
	held     chan struct{} // closed when a rules request is being held
	release  chan struct{} // close to let it go
	cfgGets  atomic.Int32
	rulesGet atomic.Int32
}

func c27NewHTTPStore() *c27HTTPStore {
	s := &c27HTTPStore{held: make(chan struct{}), release: make(chan struct{})}
	mux := http.NewServeMux()
	mux.HandleFunc("/config.yaml", func(w http.ResponseWriter, _ *http.Request) {
		s.cfgGets.Add(1)
		s.mu.Lock()
		b := s.c
		s.mu.Unlock()
		w.Header().Set("Content-Type", "application/yaml")
		w.Write(b)
	})
	mux.HandleFunc("/rules.yaml", func(w http.ResponseWriter, _ *http.Request) {
		s.rulesGet.Add(1)
		s.mu.Lock()
		holdThis := s.hold
		s.hold = false
		s.mu.Unlock()
		if holdThis {
			close(s.held)
			<-s.release
		}
		s.mu.Lock()
		b := s.r
		s.mu.Unlock()
		w.Header().Set("Content-Type", "application/yaml")
		w.Write(b)
	})
	s.srv = httptest.NewServer(mux)
	return s
}

func (s *c27HTTPStore) putC(b []byte) error { s.mu.Lock(); s.c = b; s.mu.Unlock(); return nil }
func (s *c27HTTPStore) putR(b []byte) error { s.mu.Lock(); s.r = b; s.mu.Unlock(); return nil }
func (s *c27HTTPStore) opts() *CmdEnv {
	return &CmdEnv{ConfigLocations: []string{s.srv.URL + "/config.yaml"}, RulesLocations: []string{s.srv.URL + "/rules.yaml"}}
}
func (s *c27HTTPStore) cleanup() { s.srv.Close() }

// c27RunTrial runs one history on a fresh fileConfig and returns the issues found.
// mode "files": random overlap of two reloading goroutines and file writes.
// mode "staged": the documents are served over HTTP and the first Reload is
// held between its config read and its rules read while the config changes and
// a second Reload is given the chance to run to completion; then the first one
// continues with what it read before (the "stale read" interleaving of
// MC_Reload_code_cex.cfg). If Reload calls are serialized the second one
// cannot start reading; the driver notices that it did not (a bounded number
// of scheduler yields, never a verdict) and lets the first one go on.
func c27RunTrial(rng *rand.Rand, mixed bool, mode string) (issues []c27Issue, reloads int, desc map[string]any, err error) {
	tr := &c27Trial{rng: rng, contents: map[string]*c27Content{}, byK: map[int]*c27Content{}}
	var files c27Store
	var hs *c27HTTPStore
	if mode == "staged" {
		hs = c27NewHTTPStore()
		files = hs
	} else {
		f, ferr := c27NewFiles()
		if ferr != nil {
			return nil, 0, nil, ferr
		}
		files = c27FileStore{f}
	}
	defer files.cleanup()
	curC, curR := tr.makeContent("c", "ok"), tr.makeContent("r", "ok")
	initC, initR := curC, curR
	if err = files.putC(curC.bytes); err != nil {
		return
	}
	if err = files.putR(curR.bytes); err != nil {
		return
	}
	cfg, nerr := NewConfig(files.opts(), c27Version)
	if cfg == nil {
		return nil, 0, nil, fmt.Errorf("startup rejected the initial files: %v", nerr)
	}
	listeners := []*c27Listener{{}, {}}
	for _, l := range listeners {
		cfg.RegisterReloadCallback(l.cb)
	}

	cClasses := []string{"ok", "ok", "ok", "invalid", "gone"}
	if mixed {
		cClasses = []string{"ok", "ok", "warn", "warn", "removed", "invalid", "gone"}
	}
	rClasses := []string{"ok", "ok", "ok", "invalid", "gone"}
	write := func() error {
		if tr.rng.Intn(3) == 0 {
			curR = tr.makeContent("r", rClasses[tr.rng.Intn(len(rClasses))])
			tr.log = append(tr.log, fmt.Sprintf("writeR %s#%d", curR.class, curR.k))
			return files.putR(curR.bytes)
		}
		curC = tr.makeContent("c", cClasses[tr.rng.Intn(len(cClasses))])
		tr.log = append(tr.log, fmt.Sprintf("writeC %s#%d", curC.class, curC.k))
		return files.putC(curC.bytes)
	}

	// a reader of the getters, all the time
	var stop atomic.Bool
	type sample struct {
		delay time.Duration
		batch uint
	}
	sampled := map[sample]bool{}
	var swg sync.WaitGroup
	swg.Add(1)
	go func() {
		defer swg.Done()
		for !stop.Load() {
			tc := cfg.GetTracesConfig()
			sampled[sample{time.Duration(tc.SendDelay), tc.MaxBatchSize}] = true
			cfg.GetHashes()
			runtime.Gosched()
		}
	}()

	rounds := 2 + tr.rng.Intn(3)
	var werr error
	if mode == "staged" {
		rounds = 0
		writeC := func(class string) {
			curC = tr.makeContent("c", class)
			tr.log = append(tr.log, fmt.Sprintf("writeC %s#%d", curC.class, curC.k))
			files.putC(curC.bytes)
		}
		class := "ok"
		if mixed {
			class = "warn"
		}
		writeC("ok")
		hs.mu.Lock()
		hs.hold = true
		hs.mu.Unlock()
		p1done, p2done := make(chan struct{}), make(chan struct{})
		go func() { defer close(p1done); cfg.Reload() }()
		tr.log = append(tr.log, "Reload #1 starts, is held between its config read and its rules read")
		select {
		case <-hs.held:
		case <-p1done: // Reload no longer reads the rules after the config: nothing to stage
			hs.mu.Lock()
			hs.hold = false
			hs.mu.Unlock()
		}
		writeC(class)
		gets := hs.cfgGets.Load()
		go func() { defer close(p2done); cfg.Reload() }()
		tr.log = append(tr.log, "Reload #2 starts")
		// give #2 the chance to read; if it does, to finish (bounded, only shapes the schedule)
		reading := false
		for i := 0; i < 2000000 && !reading; i++ {
			select {
			case <-p2done:
				reading = true
			default:
				reading = hs.cfgGets.Load() > gets
				runtime.Gosched()
			}
		}
		if reading {
			for i := 0; i < 20000000; i++ {
				select {
				case <-p2done:
					i = 20000000
				default:
					runtime.Gosched()
				}
			}
		}
		select {
		case <-p2done:
			tr.log = append(tr.log, "Reload #2 returned; Reload #1 released")
		default:
			tr.log = append(tr.log, "Reload #2 has not read anything (serialized); Reload #1 released")
		}
		close(hs.release)
		<-p1done
		<-p2done
		tr.reloads += 2
	}
	for round := 0; round < rounds && werr == nil; round++ {
		if tr.rng.Intn(4) != 0 {
			werr = write()
		}
		var started, finished atomic.Int32
		var wg sync.WaitGroup
		gate := make(chan struct{})
		for p := 0; p < 2; p++ {
			n := 1 + tr.rng.Intn(2)
			wg.Add(1)
			go func() {
				defer wg.Done()
				defer finished.Add(1)
				<-gate
				for i := 0; i < n; i++ {
					started.Add(1)
					cfg.Reload()
					atomic.AddInt64(&tr.reloads, 1)
				}
			}()
		}
		close(gate)
		tr.log = append(tr.log, "2 x Reload (concurrent)")
		// writes that land while the reloads are in flight
		for w := tr.rng.Intn(3); w > 0 && werr == nil; w-- {
			for started.Load() == 0 && finished.Load() < 2 {
				runtime.Gosched()
			}
			for i := tr.rng.Intn(200); i > 0; i-- {
				runtime.Gosched()
			}
			werr = write()
		}
		wg.Wait()
	}
	if werr != nil {
		stop.Store(true)
		swg.Wait()
		return nil, 0, nil, werr
	}
	// quiescence: one more Reload with nothing else going on ...
	cfg.Reload()
	stop.Store(true)
	swg.Wait()
	counts := []int{len(listeners[0].seen), len(listeners[1].seen)}
	// ... and another one of the unchanged files
	cfg.Reload()
	tr.reloads += 2

	add := func(kind string, known bool, detail map[string]any) {
		detail["history"] = tr.log
		issues = append(issues, c27Issue{kind: kind, known: known, detail: detail})
	}
	describe := func(file, h string) string {
		if c, ok := tr.contents[file+h]; ok {
			return fmt.Sprintf("%s#%d", c.class, c.k)
		}
		return "unknown:" + h
	}
	pairStr := func(p c27Pair) string { return describe("c", p.C) + "+" + describe("r", p.R) }

	// a further Reload of unchanged files notifies nobody
	for i, l := range listeners {
		if len(l.seen) != counts[i] {
			add("unchanged-content-reapplied", false, map[string]any{"listener": i, "extra": pairStr(l.seen[len(l.seen)-1])})
		}
	}
	// every listener got the same notifications, none twice
	multiset := func(l *c27Listener) map[c27Pair]int {
		m := map[c27Pair]int{}
		for _, p := range l.seen {
			m[p]++
		}
		return m
	}
	m0, m1 := multiset(listeners[0]), multiset(listeners[1])
	for p, n := range m0 {
		if m1[p] != n {
			add("listeners-disagree", false, map[string]any{"pair": pairStr(p), "l1": n, "l2": m1[p]})
		}
	}
	for p, n := range m1 {
		if _, ok := m0[p]; !ok {
			add("listeners-disagree", false, map[string]any{"pair": pairStr(p), "l1": 0, "l2": n})
		}
	}
	for p, n := range m0 {
		if n > 1 {
			add("unserialized-reload", true, map[string]any{"pair": pairStr(p), "notifications_per_listener": n})
		}
	}
	// nothing startup rejects is ever applied
	judge := func(where string, p c27Pair) error {
		c, okc := tr.contents["c"+p.C]
		r, okr := tr.contents["r"+p.R]
		if !okc || !okr {
			return fmt.Errorf("%s: hashes (%s,%s) belong to no content that was ever on disk", where, p.C, p.R)
		}
		switch {
		case !r.accept || (!c.accept && c.class != "removed"):
			add("rejected-content-applied", false, map[string]any{"where": where, "pair": pairStr(p)})
		case !c.accept:
			add("reload-ignores-version", true, map[string]any{"where": where, "pair": pairStr(p)})
		}
		return nil
	}
	for p := range m0 {
		if e := judge("notified", p); e != nil {
			return nil, 0, nil, e
		}
	}
	for s := range sampled {
		k := int(s.delay/time.Millisecond) - 1000
		c := tr.byK[k]
		if s.delay%time.Millisecond != 0 || c == nil || c.file != "c" || int(s.batch) != 1000+k {
			add("getter-answers-from-nowhere", false, map[string]any{"SendDelay": s.delay.String(), "MaxBatchSize": s.batch})
			continue
		}
		if !c.accept {
			if c.class == "removed" {
				add("reload-ignores-version", true, map[string]any{"where": "GetTracesConfig", "content": describe("c", c.hash)})
			} else {
				add("rejected-content-applied", false, map[string]any{"where": "GetTracesConfig", "content": describe("c", c.hash)})
			}
		}
	}
	// what is running in the end
	var running c27Pair
	running.C, running.R = cfg.GetHashes()
	if e := judge("running", running); e != nil {
		return nil, 0, nil, e
	}
	tc := cfg.GetTracesConfig()
	if rc := tr.contents["c"+running.C]; rc != nil && (time.Duration(tc.SendDelay) != time.Duration(1000+rc.k)*time.Millisecond || int(tc.MaxBatchSize) != 1000+rc.k) {
		add("getters-disagree-with-hashes", false, map[string]any{"running": pairStr(running), "SendDelay": time.Duration(tc.SendDelay).String()})
	}
	initial := c27Pair{initC.hash, initR.hash}
	final := c27Pair{curC.hash, curR.hash}
	finalAccepted := false
	if curC.bytes != nil && curR.bytes != nil {
		// the acceptance oracle: the real startup path on the bytes that are on disk now
		acc, _, oerr := c27StartupAccepts(curC.bytes, curR.bytes)
		if oerr != nil {
			return nil, 0, nil, oerr
		}
		finalAccepted = acc
		if acc != (curC.accept && curR.accept) {
			return nil, 0, nil, fmt.Errorf("stale harness: startup says accepted=%v for %s", acc, pairStr(final))
		}
	}
	if finalAccepted && running != final {
		if curC.class == "warn" {
			add("warn-not-applied", true, map[string]any{"on_disk": pairStr(final), "running": pairStr(running)})
		} else {
			add("last-acceptable-content-not-running", false, map[string]any{"on_disk": pairStr(final), "running": pairStr(running)})
		}
	}
	if running != initial {
		for i, m := range []map[c27Pair]int{m0, m1} {
			if m[running] == 0 {
				add("applied-but-not-notified", false, map[string]any{"listener": i, "running": pairStr(running)})
			}
		}
	}
	if !finalAccepted && running != initial && m0[running] == 0 {
		add("running-content-never-applied", false, map[string]any{"running": pairStr(running)})
	}
	notes := make([]string, 0, len(listeners[0].seen))
	for _, p := range listeners[0].seen {
		notes = append(notes, pairStr(p))
	}
	desc = map[string]any{"history": tr.log, "notified_l1": notes, "on_disk": pairStr(final), "final_accepted_by_startup": finalAccepted, "running": pairStr(running)}
	return issues, int(tr.reloads), desc, nil
}

func TestVerifC27Concurrent(t *testing.T) {
	out := os.Getenv("VERIF_OUT")
	fail := func(err error) {
		verifkit.WriteJSON(out, map[string]any{"error": err.Error()})
		t.Fatal(err)
	}
	if err := c27CheckClasses(); err != nil {
		fail(err)
	}
	seed, _ := strconv.ParseInt(os.Getenv("VERIF_SEED"), 10, 64)
	budget, _ := strconv.ParseFloat(os.Getenv("VERIF_BUDGET_S"), 64)
	if budget == 0 {
		budget = 20
	}
	maxTrials := 40
	if os.Getenv("VERIF_TIER") == "thorough" {
		maxTrials = 600
	}
	rng := rand.New(rand.NewSource(seed))
	deadline := time.Now().Add(time.Duration(budget * float64(time.Second)))
	trials, reloads := 0, 0
	violations, samples := []any{}, []any{}
	knownHits := map[string]int{}
	knownExample := map[string]map[string]any{}
	for trials < maxTrials && (trials < 6 || time.Now().Before(deadline)) && len(violations) < 5 {
		mode := "files"
		if trials%4 == 1 {
			mode = "staged"
		}
		issues, n, desc, err := c27RunTrial(rng, trials%3 == 2, mode)
		if err != nil {
			fail(err)
		}
		trials++
		reloads += n
		if len(samples) < 2 && len(issues) == 0 {
			samples = append(samples, desc)
		}
		for _, is := range issues {
			is.detail["kind"] = is.kind
			if is.known {
				knownHits[is.kind]++
				if knownExample[is.kind] == nil {
					knownExample[is.kind] = is.detail
				}
			} else {
				violations = append(violations, is.detail)
			}
		}
	}
	known := []any{}
	names := make([]string, 0, len(knownHits))
	for k := range knownHits {
		names = append(names, k)
	}
	sort.Strings(names)
	for _, k := range names {
		known = append(known, map[string]any{"deviation": k, "hits": knownHits[k], "example": knownExample[k]})
	}
	if err := verifkit.WriteJSON(out, map[string]any{
		"evaluations": reloads, "distinct": trials, "traces": trials, "violations": violations, "known": known, "samples": samples,
		"note": fmt.Sprintf("%d histories, %d Reload calls from 2 goroutines over changing files, race detector on", trials, reloads),
	}); err != nil {
		t.Fatal(err)
	}
}
