//go:build verif

package agent

import (
	"context"
	"errors"
	"fmt"
	"testing"

	"github.com/honeycombio/refinery/config"
	"github.com/honeycombio/refinery/internal/health"
	"github.com/honeycombio/refinery/internal/verifkit"
	"github.com/honeycombio/refinery/logger"
	"github.com/honeycombio/refinery/metrics"
	"github.com/jonboulle/clockwork"
	"github.com/open-telemetry/opamp-go/client"
	"github.com/open-telemetry/opamp-go/client/types"
	"github.com/open-telemetry/opamp-go/protobufs"
	"go.opentelemetry.io/collector/pdata/pmetric"
)

// c34Client is a scripted OpAMP client: every SendCustomMessage call hands its
// payload to the harness and blocks until the harness tells it what to answer.
type c34Client struct {
	client.OpAMPClient
	calls   chan []byte
	answers chan c34Answer
}

type c34Answer struct {
	ch  chan struct{}
	err error
}

func (c *c34Client) SendCustomMessage(msg *protobufs.CustomMessage) (chan struct{}, error) {
	c.calls <- msg.Data
	a := <-c.answers
	return a.ch, a.err
}

// c34Harness binds spec/Usage.tla to the real usageTracker and
// Agent.sendUsageReport. sendUsageReport runs in its own goroutine (as under
// reportUsagePeriodically); the harness advances it one critical section at a
// time through the scripted client while Grow/Sample actions (the healthCheck
// goroutine's usageTracker.Add) are applied in between. All synchronisation
// is by channel hand-off; there is no clock.
type c34Harness struct {
	agent     *Agent
	cancel    context.CancelFunc
	cl        *c34Client
	signals   []usageSignal
	cum       map[usageSignal]int
	delivered map[usageSignal]int
	report    map[usageSignal]int // usage in the message being sent
	phase     string
	res       string
	done      chan error    // result of the running sendUsageReport
	isSent    chan struct{} // channel handed to the code by the last answer
	negative  []string
	extra     []string
}

func c34SignalOf(name, attr string) usageSignal {
	for sig, m := range signalToMetric {
		if m.metricName == name && m.signal == attr {
			return sig
		}
	}
	return usageSignal(name + "/" + attr)
}

// c34Parse sums the usage per signal carried by one report payload.
func (h *c34Harness) parse(data []byte) (map[usageSignal]int, error) {
	m, err := (&pmetric.JSONUnmarshaler{}).UnmarshalMetrics(data)
	if err != nil {
		return nil, err
	}
	out := map[usageSignal]int{}
	rms := m.ResourceMetrics()
	for i := 0; i < rms.Len(); i++ {
		sms := rms.At(i).ScopeMetrics()
		for j := 0; j < sms.Len(); j++ {
			ms := sms.At(j).Metrics()
			for k := 0; k < ms.Len(); k++ {
				met := ms.At(k)
				if met.Type() != pmetric.MetricTypeSum {
					continue
				}
				dps := met.Sum().DataPoints()
				for l := 0; l < dps.Len(); l++ {
					dp := dps.At(l)
					attr := ""
					if v, ok := dp.Attributes().Get("signal"); ok {
						attr = v.Str()
					}
					var val int
					switch dp.ValueType() {
					case pmetric.NumberDataPointValueTypeInt:
						val = int(dp.IntValue())
					case pmetric.NumberDataPointValueTypeDouble:
						val = int(dp.DoubleValue())
						if dp.DoubleValue() < 0 {
							val = -1
						}
					}
					sig := c34SignalOf(met.Name(), attr)
					if val < 0 {
						h.negative = append(h.negative, fmt.Sprintf("%s=%d", sig, val))
					}
					out[sig] += val
				}
			}
		}
	}
	return out, nil
}

func (h *c34Harness) shutdown() {
	if h.agent == nil {
		return
	}
	h.cancel()
	switch h.phase {
	case "offered", "offered2":
		h.cl.answers <- c34Answer{nil, errors.New("verif: harness reset")}
	}
	if h.phase != "idle" {
		<-h.done // ctx.Done() unblocks the waits on the isSent channels
	}
	h.agent = nil
}

func (h *c34Harness) Reset(init map[string]any) error {
	h.shutdown()
	cum, ok := init["cum"].(map[string]any)
	if !ok {
		return fmt.Errorf("initial state has no cum: %v", init)
	}
	h.signals = h.signals[:0]
	h.cum = map[usageSignal]int{}
	h.delivered = map[usageSignal]int{}
	h.report = map[usageSignal]int{}
	for s := range cum {
		sig := usageSignal(s)
		if _, known := signalToMetric[sig]; !known {
			return fmt.Errorf("specification signal %q is not a usage signal of the agent", s)
		}
		h.signals = append(h.signals, sig)
	}
	h.phase, h.res = "idle", "none"
	h.negative, h.extra = nil, nil
	h.cl = &c34Client{calls: make(chan []byte), answers: make(chan c34Answer)}
	ctx, cancel := context.WithCancel(context.Background())
	h.cancel = cancel
	h.agent = &Agent{
		ctx:             ctx,
		cancel:          cancel,
		logger:          Logger{&logger.NullLogger{}},
		agentType:       serviceName,
		agentVersion:    "1.0.0",
		opampClient:     h.cl,
		effectiveConfig: &config.MockConfig{},
		metrics:         &metrics.NullMetrics{},
		health:          &health.MockHealthReporter{},
		usageTracker:    newUsageTracker(),
		clock:           clockwork.NewFakeClock(),
		hostname:        "verif-host",
	}
	return nil
}

// offered waits until the running sendUsageReport either offers a message to
// the client or returns.
func (h *c34Harness) awaitOfferOrReturn(next string) error {
	select {
	case data := <-h.cl.calls:
		rep, err := h.parse(data)
		if err != nil {
			return fmt.Errorf("unparsable usage report: %w", err)
		}
		if next == "offered2" {
			// the retry must carry the same report
			for _, s := range h.signals {
				if rep[s] != h.report[s] {
					h.extra = append(h.extra, fmt.Sprintf("retry carries %v, first attempt carried %v", rep, h.report))
					break
				}
			}
		}
		h.report = rep
		h.phase = next
	case err := <-h.done:
		h.finish(err)
	}
	return nil
}

func (h *c34Harness) finish(err error) {
	h.phase = "idle"
	h.report = map[usageSignal]int{}
	switch {
	case err == nil:
		h.res = "ok"
	case errors.Is(err, errNoData):
		h.res = "nodata"
	default:
		h.res = "fail"
	}
}

func (h *c34Harness) Apply(a map[string]any) error {
	name := verifkit.Str(a, "name")
	sig := usageSignal(verifkit.Str(a, "s"))
	switch name {
	case "Grow":
		h.cum[sig] += verifkit.Int(a, "d")
	case "Sample":
		h.agent.usageTracker.Add(sig, float64(h.cum[sig]))
	case "NewReport":
		if h.phase != "idle" {
			return fmt.Errorf("NewReport in phase %s", h.phase)
		}
		h.done = make(chan error, 1)
		h.res = "none" // no outcome yet
		ag, done := h.agent, h.done
		go func() { done <- ag.sendUsageReport() }()
		return h.awaitOfferOrReturn("offered")
	case "RespondFail":
		h.cl.answers <- c34Answer{nil, errors.New("verif: connection refused")}
		h.finish(<-h.done)
	case "RespondPending":
		h.isSent = make(chan struct{})
		h.cl.answers <- c34Answer{h.isSent, types.ErrCustomMessagePending}
		if h.phase == "offered" {
			h.phase = "waitprev"
		} else {
			h.finish(<-h.done) // a second "pending" makes sendUsageReport give up
		}
	case "PrevSent":
		close(h.isSent)
		return h.awaitOfferOrReturn("offered2")
	case "Accept":
		h.isSent = make(chan struct{})
		h.cl.answers <- c34Answer{h.isSent, nil}
		h.phase = "accepted"
	case "Ack":
		sent := h.report
		close(h.isSent)
		err := <-h.done
		h.finish(err)
		if err == nil {
			for s, v := range sent {
				h.delivered[s] += v
			}
		}
	default:
		return fmt.Errorf("unknown action %v", a)
	}
	return nil
}

func (h *c34Harness) Project() (any, error) {
	rep, del := map[string]any{}, map[string]any{}
	for _, s := range h.signals {
		rep[string(s)] = h.report[s]
		del[string(s)] = h.delivered[s]
	}
	// usage reported under a signal the specification does not have
	for s, v := range h.report {
		if _, ok := rep[string(s)]; !ok && v != 0 {
			rep[string(s)] = v
		}
	}
	out := map[string]any{"phase": h.phase, "report": rep, "delivered": del, "res": h.res}
	if len(h.negative) > 0 {
		out["negative"] = h.negative
	}
	if len(h.extra) > 0 {
		out["inconsistent"] = h.extra
	}
	return out, nil
}

func TestVerifC34Usage(t *testing.T) {
	h := &c34Harness{}
	err := verifkit.Main(h)
	h.shutdown()
	if err != nil {
		t.Fatal(err)
	}
}
