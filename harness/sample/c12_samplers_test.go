//go:build verif

package sample

import (
	"fmt"
	"os"
	"testing"

	"github.com/honeycombio/refinery/config"
	"github.com/honeycombio/refinery/internal/verifkit"
	"github.com/honeycombio/refinery/logger"
	"github.com/honeycombio/refinery/metrics"
	"github.com/honeycombio/refinery/types"
)

// Binding of spec/Samplers.tla (properties C12 and C13) to the real
// sample.SamplerFactory (the observation is described in c12_export.go).
//
// Real: the rules files (written as YAML, loaded and validated by
// config.NewConfig, switched with Config.Reload, which fires the reload
// callbacks), SamplerFactory (GetSamplerImplementationForKey, the shared
// dynsampler registry, ClearDynsamplers, updatePeerCounts registered as the
// peers callback and started the way RedisPubsubPeers/FilePeers do: `go cb()`),
// every sampler type, the dynsampler-go instances.
// Emulated (three lines of collect each; the real ones are driven by the
// collect-level stage, harness/collect/c12_collect_test.go): the collector's
// reload channel, the reloadConfigs loop that signals the workers, the workers'
// datasetSamplers maps.

type c12Harness struct {
	params *C12Params
	dir    string
	loaded map[int]*C12Loaded
	onLoad func() // target of the reload callbacks of every loaded config

	sc        *C12Scenario
	ld        *C12Loaded
	factory   *SamplerFactory
	peers     *C12Peers
	namer     *C12Namer
	reloadSig bool
	toSignal  int
	pending   map[string]bool
	local     map[string]map[string]Sampler
	clears    int
	steps     int
	panicMsg  string
}

func (h *c12Harness) Reset(init map[string]any) error {
	if h.params == nil {
		p, err := C12ParseParams(init)
		if err != nil {
			return err
		}
		h.params = p
		h.loaded = map[int]*C12Loaded{}
		if h.dir, err = os.MkdirTemp("", "c12verif"); err != nil {
			return err
		}
	}
	if h.factory != nil {
		h.factory.Stop()
	}
	sci := verifkit.Int(init, "sci")
	if sci < 1 || sci > len(h.params.Scenarios) {
		return fmt.Errorf("scenario index %d out of range", sci)
	}
	h.sc = &h.params.Scenarios[sci-1]
	h.onLoad = nil
	ld, ok := h.loaded[sci]
	if !ok {
		var err error
		if ld, err = C12Load(h.dir, h.sc, h.params.Dests, "General:\n  ConfigurationVersion: 2\n"); err != nil {
			return err
		}
		ld.Cfg.RegisterReloadCallback(func(string, string) {
			if h.onLoad != nil {
				h.onLoad()
			}
		})
		h.loaded[sci] = ld
	}
	h.ld = ld
	if err := ld.SwitchTo("a"); err != nil {
		return err
	}
	// InMemCollector.sendReloadSignal: non-blocking send on a channel of capacity 1
	h.onLoad = func() { h.reloadSig = true }
	h.peers = &C12Peers{}
	h.peers.Set(1)
	h.factory = &SamplerFactory{Config: ld.Cfg, Logger: &logger.NullLogger{}, Metrics: &metrics.NullMetrics{}, Peers: h.peers}
	if err := h.factory.Start(); err != nil {
		return err
	}
	h.namer = NewC12Namer(h.sc, h.params.ShareIdentical)
	h.reloadSig, h.toSignal, h.clears, h.steps, h.panicMsg = false, 0, 0, 0, ""
	h.pending = map[string]bool{}
	h.local = map[string]map[string]Sampler{}
	for _, w := range h.params.Workers {
		h.local[w] = map[string]Sampler{}
	}
	return nil
}

func (h *c12Harness) trace() *types.Trace {
	h.steps++
	mockCfg := &config.MockConfig{}
	tr := &types.Trace{TraceID: fmt.Sprintf("t%d", h.steps)}
	sp := &types.Span{
		TraceID: tr.TraceID,
		IsRoot:  true,
		Event: &types.Event{Data: types.NewPayload(mockCfg, map[string]interface{}{
			"r": int64(h.steps%2 + 1), "svc": "s", "op": fmt.Sprintf("o%d", h.steps%3),
		})},
	}
	tr.RootSpan = sp
	tr.AddSpan(sp)
	return tr
}

func (h *c12Harness) Apply(a map[string]any) (err error) {
	defer func() {
		if r := recover(); r != nil {
			h.panicMsg = fmt.Sprintf("panic in %v: %v", a, r)
		}
	}()
	switch verifkit.Str(a, "name") {
	case "Decide":
		// CollectorWorker.makeDecision: look up the worker's cache, else ask the factory
		w, d := verifkit.Str(a, "w"), verifkit.Str(a, "d")
		key := h.sc.Names[d]
		s, found := h.local[w][key]
		if !found {
			s = h.factory.GetSamplerImplementationForKey(key)
			if s == nil {
				return fmt.Errorf("factory returned no sampler for %q", key)
			}
			h.local[w][key] = s
			h.namer.NameNew(d, s, h.clears)
		}
		if rate, _, _, _ := s.GetSampleRate(h.trace()); rate < 1 {
			h.panicMsg = fmt.Sprintf("sample rate %d < 1", rate)
		}
	case "ConfigChange":
		return h.ld.SwitchTo(h.ld.Other()) // the reload callback sets reloadSig
	case "MonitorClear":
		// InMemCollector.monitor: case <-i.reload: reloadConfigs(): ClearDynsamplers ...
		if !h.reloadSig {
			return fmt.Errorf("MonitorClear without a reload signal: config.Reload did not call the reload callbacks")
		}
		h.reloadSig = false
		h.factory.ClearDynsamplers()
		h.clears++
		h.toSignal = 1
	case "MonitorSignal":
		// ... then a non-blocking send to every worker's reload channel (capacity 1)
		h.pending[h.params.Workers[h.toSignal-1]] = true
		if h.toSignal == len(h.params.Workers) {
			h.toSignal = 0
		} else {
			h.toSignal++
		}
	case "WorkerReload":
		// CollectorWorker.collect: case <-cl.reload: clear(cl.datasetSamplers)
		w := verifkit.Str(a, "w")
		h.pending[w] = false
		clear(h.local[w])
	case "PeersChanged":
		h.peers.Set(verifkit.Int(a, "n"))
	case "PeerCallback":
		h.peers.Fire()
	default:
		return fmt.Errorf("unknown action %v", a)
	}
	return nil
}

func (h *c12Harness) Project() (any, error) {
	local := map[string]any{}
	var bad []string
	for _, w := range h.params.Workers {
		per := map[string]any{}
		for _, d := range h.params.Dests {
			s, ok := h.local[w][h.sc.Names[d]]
			views := []any{}
			if ok {
				views = h.namer.View(s, h.clears, &bad)
			}
			per[d] = map[string]any{"c": ok, "s": views}
		}
		local[w] = per
	}
	out := map[string]any{"local": local}
	if len(bad) > 0 {
		out["bad"] = bad
	}
	if h.panicMsg != "" {
		out["panic"] = h.panicMsg
	}
	return out, nil
}

func TestVerifSamplers(t *testing.T) {
	h := &c12Harness{}
	err := verifkit.Main(h)
	if h.factory != nil {
		h.factory.Stop()
	}
	if h.dir != "" {
		os.RemoveAll(h.dir)
	}
	if err != nil {
		t.Fatal(err)
	}
}
