SPECIFICATION Spec
CONSTANTS
  Addr <- Addr3
  Gaps <- GapsFixed3
  T = 10
  D = 0
  MaxEvents = 2
  MaxFails = 0
  Extra = "start"
  Backoff = TRUE
  Closed = TRUE
  ObserveCb = FALSE
  TrackQuiet = FALSE
  UnitMs = 1000
  Boot <- BootABC
  CrashSet <- AllNodes
  StopSet <- AllNodes
  Sync = TRUE
  TrackAge = FALSE
INVARIANTS TypeOK Converged LearnsLive ForgetsDead PeerForgotten PeerLearnt SelfListed PeriodRestored NoDuplicateAddr ChannelSane
PROPERTIES CallbackIffChange NoResurrection
ACTION_CONSTRAINT Dump
VIEW View
