SPECIFICATION Spec
CONSTANTS
  Kind = "stress"
  H = 15
  Rates = {0, 1, 2, 3, 8}
  Insts = {"A", "B"}
  Tables = {"small", "large", "extreme"}
  ExtremeFrom = 3
  Profiles = {"default", "inverted", "equalAlways"}
  Rejectable = {"inverted"}
INVARIANTS TypeOK BoundIsThreshold KeepIsThreshold RateLE1KeepsAll InstancesAgree NestedAnswers
PROPERTIES AskingIsPure ConfigureIsLocal ConfigureTakesEffect
ACTION_CONSTRAINT Dump
VIEW View
