"""C03 Trace decisions happen at the documented time."""

PROP = dict(
    level="model_checking",
    technique="TLA+ spec Collector.tla model-checked by TLC (exhaustive, small bounds); every generated transition replayed into a real InMemCollector under a fake clock with hook-event barriers (transition tour)",
    design_ref="DESIGN.md section 5 C03, Appendix A",
    level_text="Action properties DecidedOnTime (nothing leaves the buffer before its deadline except by ejection), DeadlineNeverLater, DeadlineRule, BacklogOrder (at most MaxExpiredTraces per tick, earliest deadline first) checked by TLC over SendDelay/TraceTimeout/SpanLimit/MaxExpiredTraces settings including all-zero (built-in 60 s / 2 s defaults) and SendDelay > TraceTimeout; replay on the real collector under a fake clock compares every trace's SendBy, the tick at which it is decided and the reported send reason.",
    level_note="Bounded (1-2 workers, 1-3 traces, <=3 spans, horizon of a few SendTicker ticks; one model tick = one SendTicker period). Worker steps are atomic in the transition-tour binding (hook-event barrier after each step; sender drained), so only sequential schedules are forced here; really concurrent schedules are covered by the recorded-trace stage where present. Decision memory is sized so nothing is evicted (eviction is C31's subject). Sampler = real DeterministicSampler with trace IDs chosen by hash to realise the model's verdicts. Trusted: clockwork fake clock, the harness's recording Transmission, the guarded hooks (collect/verif_on.go).",
    assumptions=["stable membership, no stress toggling while buffered (as the property states)", "decision memory large enough that nothing is evicted", "bounded model: see level_note"],
    stages=[dict(kind="walk", name="timing", module="MCCollectorTiming", pkg="collect", test="TestVerifCollector", harness=["collect/collector_test.go"], cfg={"quick": "MC_Collector_timing_q.cfg", "thorough": "MC_Collector_timing.cfg"}, budget={"quick": 30, "thorough": 600}, maxwalk=40),
            dict(kind="walk", name="defaults", module="MCCollectorDefaults", pkg="collect", test="TestVerifCollector", harness=["collect/collector_test.go"], cfg={"quick": "MC_Collector_defaults_q.cfg", "thorough": "MC_Collector_defaults.cfg"}, budget={"quick": 30, "thorough": 600}, maxwalk=40),
            dict(kind="walk", name="backlog", tiers=("thorough",), module="MCCollectorBacklog", pkg="collect", test="TestVerifCollector", harness=["collect/collector_test.go"], cfg={"quick": "MC_Collector_backlog_q.cfg", "thorough": "MC_Collector_backlog.cfg"}, budget={"quick": 30, "thorough": 600}, maxwalk=40)],
)

# coverage extension CX2 (lib/ext/CX2.py, DESIGN.md section 0.5): the trace buffer the decision timing rests on. TraceBuffer.tla models
# DefaultInMemCache.TakeExpiredTraces operationally and checks it against the declarative contract (exactly the expired traces, earliest
# SendBy first, at most max, removed exactly, none twice) - C03's "earliest deadline first, at most MaxExpiredTraces per tick" one level down.
import extstages  # noqa: E402
PROP["stages"] += extstages.pick("CX2", ["TraceBuffer", "TraceBuffer-4ids"])
