//go:build verif

package route

import (
	"bytes"
	"context"
	"encoding/json"
	"fmt"
	"io"
	"math"
	"math/rand"
	"net"
	"net/http"
	"net/http/httptest"
	"net/url"
	"os"
	"runtime/debug"
	"sort"
	"strconv"
	"strings"
	"sync"
	"testing"
	"time"

	"github.com/gorilla/mux"
	"github.com/jonboulle/clockwork"
	"github.com/klauspost/compress/zstd"
	"github.com/tinylib/msgp/msgp"
	"go.opentelemetry.io/contrib/instrumentation/net/http/otelhttp"
	"go.opentelemetry.io/otel/trace/noop"

	"github.com/honeycombio/refinery/collect"
	"github.com/honeycombio/refinery/config"
	"github.com/honeycombio/refinery/internal/health"
	"github.com/honeycombio/refinery/internal/peer"
	"github.com/honeycombio/refinery/internal/verifkit"
	"github.com/honeycombio/refinery/logger"
	"github.com/honeycombio/refinery/metrics"
	"github.com/honeycombio/refinery/pubsub"
	"github.com/honeycombio/refinery/sample"
	"github.com/honeycombio/refinery/sharder"
	"github.com/honeycombio/refinery/transmit"
	"github.com/honeycombio/refinery/types"
)

// ---------------------------------------------------------------------------
// Binding of spec/System.tla (coverage extension CX3) to a CLUSTER of real
// nodes in one process. Every node is: a real DeterministicSharder over the
// peer listeners' addresses, two real Routers (incoming / peer) whose real
// batch handlers are mounted behind the real middleware as Router.LnS mounts
// them, a real InMemCollector with the real DeterministicSampler at rate 2 on
// a fake clock, and two real DirectTransmissions on fake clocks. Clients post
// msgpack or JSON batches to a node's incoming handler chain (in-process); a
// node's peer transmission POSTs its (zstd-compressed) msgpack batches to the
// owner's peer listener on loopback, i.e. the hop is the real wire path;
// upstream transmissions POST to one fake Honeycomb that decodes the bytes it
// receives with their types.
// ---------------------------------------------------------------------------

const (
	cx3Key      = "c9945edf5d245834089a1bd6cc9ad01e" // a classic key: no environment lookup
	cx3Dataset  = "cx3 ds/client-ü"
	cx3UA       = "cx3-client/1.0"
	cx3Timeout  = 30 * time.Second
	cx3BatchT   = time.Second
	cx3CollTick = time.Minute
	cx3Workers  = 2
	cx3Big      = int64(9007199254740993) // 2^53+1: does not survive a detour through float64
)

var cx3Stamp = time.Date(2024, 3, 4, 5, 6, 7, 123456789, time.UTC)

type cx3NodeKey struct{}

// documented meta fields Refinery may add to what it forwards (types/payload.go, collect.go)
var cx3Meta = map[string]bool{
	"meta.signal_type": true, "meta.trace_id": true, "meta.annotation_type": true, "meta.refinery.probe": true,
	"meta.refinery.root": true, "meta.refinery.incoming_user_agent": true, "meta.refinery.local_hostname": true,
	"meta.stressed": true, "meta.refinery.reason": true, "meta.refinery.send_reason": true,
	"meta.span_event_count": true, "meta.span_link_count": true, "meta.span_count": true, "meta.event_count": true,
	"meta.refinery.original_sample_rate": true, "meta.refinery.final_sample_rate": true, "meta.refinery.sample_key": true,
}

func cx3Wait(what string, pred func() bool) error {
	deadline := time.Now().Add(cx3Timeout)
	for !pred() {
		if time.Now().After(deadline) {
			return fmt.Errorf("barrier timeout: %s", what)
		}
		time.Sleep(100 * time.Microsecond)
	}
	return nil
}

// --- what travels: the client's event and its two encodings -------------------

type cx3Field struct {
	k string
	v any
}

// cx3ClientFields is the event a client sends, in wire order.
func cx3ClientFields(id int, trace string, root bool, shape string) []cx3Field {
	f := []cx3Field{{"eid", int64(id)}, {"shape", shape}}
	if trace != "" {
		f = append(f, cx3Field{"trace.trace_id", trace})
		if !root {
			f = append(f, cx3Field{"trace.parent_id", "cx3-parent"})
		}
	}
	return append(f,
		cx3Field{"f_int", int64(-7)}, cx3Field{"f_big", cx3Big}, cx3Field{"f_float", 2.5}, cx3Field{"f_str", "client-value"},
		cx3Field{"f_bool", true}, cx3Field{"f_map", []cx3Field{{"k", "v"}, {"n", int64(1)}}}, cx3Field{"name", "span " + strconv.Itoa(id)})
}

func cx3AppendMsgp(b []byte, v any) []byte {
	switch x := v.(type) {
	case int64:
		return msgp.AppendInt64(b, x)
	case float64:
		return msgp.AppendFloat64(b, x)
	case string:
		return msgp.AppendString(b, x)
	case bool:
		return msgp.AppendBool(b, x)
	case []cx3Field:
		b = msgp.AppendMapHeader(b, uint32(len(x)))
		for _, f := range x {
			b = msgp.AppendString(b, f.k)
			b = cx3AppendMsgp(b, f.v)
		}
		return b
	}
	panic(fmt.Sprintf("cx3: cannot encode %T", v))
}

func cx3AppendJSON(b *bytes.Buffer, v any) {
	switch x := v.(type) {
	case []cx3Field:
		b.WriteByte('{')
		for i, f := range x {
			if i > 0 {
				b.WriteByte(',')
			}
			k, _ := json.Marshal(f.k)
			b.Write(k)
			b.WriteByte(':')
			cx3AppendJSON(b, f.v)
		}
		b.WriteByte('}')
	default:
		raw, _ := json.Marshal(x)
		b.Write(raw)
	}
}

// cx3Body is a one-event batch as a client library would post it.
func cx3Body(enc string, fields []cx3Field, crate int) ([]byte, string) {
	if enc == "json" {
		var b bytes.Buffer
		b.WriteString(`[{"time":"` + cx3Stamp.Format(time.RFC3339Nano) + `",`)
		if crate > 0 {
			b.WriteString(`"samplerate":` + strconv.Itoa(crate) + `,`)
		}
		b.WriteString(`"data":`)
		cx3AppendJSON(&b, fields)
		b.WriteString("}]")
		return b.Bytes(), "application/json"
	}
	b := msgp.AppendArrayHeader(nil, 1)
	n := uint32(2)
	if crate > 0 {
		n = 3
	}
	b = msgp.AppendMapHeader(b, n)
	b = msgp.AppendString(b, "time")
	b = msgp.AppendTimeExt(b, cx3Stamp)
	if crate > 0 {
		b = msgp.AppendString(b, "samplerate")
		b = msgp.AppendInt64(b, int64(crate))
	}
	b = msgp.AppendString(b, "data")
	b = cx3AppendMsgp(b, fields)
	return b, "application/msgpack"
}

// --- what arrives: decoded with its types -------------------------------------

type cx3Wire struct {
	time    time.Time
	hasTime bool
	rate    int64
	data    map[string]any
}

var cx3Zstd, _ = zstd.NewReader(nil)

func cx3ReadBody(r *http.Request) ([]byte, error) {
	raw, err := io.ReadAll(r.Body)
	if err != nil {
		return nil, err
	}
	if r.Header.Get("Content-Encoding") == "zstd" {
		return cx3Zstd.DecodeAll(raw, nil)
	}
	return raw, nil
}

// cx3Decode reads a /1/batch msgpack body as Honeycomb's API would.
func cx3Decode(b []byte) ([]cx3Wire, error) {
	n, b, err := msgp.ReadArrayHeaderBytes(b)
	if err != nil {
		return nil, err
	}
	out := make([]cx3Wire, 0, n)
	for i := uint32(0); i < n; i++ {
		var w cx3Wire
		var m uint32
		if m, b, err = msgp.ReadMapHeaderBytes(b); err != nil {
			return nil, err
		}
		for j := uint32(0); j < m; j++ {
			var key []byte
			if key, b, err = msgp.ReadMapKeyZC(b); err != nil {
				return nil, err
			}
			switch string(key) {
			case "time":
				if w.time, b, err = msgp.ReadTimeBytes(b); err != nil {
					return nil, err
				}
				w.hasTime = true
			case "samplerate":
				if w.rate, b, err = msgp.ReadInt64Bytes(b); err != nil {
					return nil, err
				}
			case "data":
				var v any
				if v, b, err = msgp.ReadIntfBytes(b); err != nil {
					return nil, err
				}
				w.data, _ = v.(map[string]any)
			default:
				if b, err = msgp.Skip(b); err != nil {
					return nil, err
				}
			}
		}
		if w.data == nil {
			w.data = map[string]any{}
		}
		out = append(out, w)
	}
	return out, nil
}

func cx3AsInt(v any) (int64, bool) {
	switch x := v.(type) {
	case int64:
		return x, true
	case uint64:
		return int64(x), x <= math.MaxInt64
	case int:
		return int64(x), true
	case int8:
		return int64(x), true
	case int16:
		return int64(x), true
	case int32:
		return int64(x), true
	case uint8:
		return int64(x), true
	case uint16:
		return int64(x), true
	case uint32:
		return int64(x), true
	}
	return 0, false
}

func cx3AsNum(v any) (float64, bool) {
	if i, ok := cx3AsInt(v); ok {
		return float64(i), true
	}
	switch x := v.(type) {
	case float64:
		return x, true
	case float32:
		return float64(x), true
	}
	return 0, false
}

// cx3Same: exact says the client used msgpack (types and all 64 bits must
// survive); a JSON number may come back as an integer or as the float64
// nearest to it.
func cx3Same(want, got any, exact bool) bool {
	switch w := want.(type) {
	case int64:
		if exact {
			g, ok := cx3AsInt(got)
			return ok && g == w
		}
		g, ok := cx3AsNum(got)
		return ok && g == float64(w)
	case float64:
		if exact {
			g, ok := got.(float64)
			return ok && math.Float64bits(g) == math.Float64bits(w)
		}
		g, ok := cx3AsNum(got)
		return ok && g == w
	case string:
		g, ok := got.(string)
		return ok && g == w
	case bool:
		g, ok := got.(bool)
		return ok && g == w
	case []cx3Field:
		g, ok := got.(map[string]any)
		if !ok || len(g) != len(w) {
			return false
		}
		for _, f := range w {
			gv, ok := g[f.k]
			if !ok || !cx3Same(f.v, gv, exact) {
				return false
			}
		}
		return true
	}
	return false
}

// cx3Intact: key, dataset, timestamp and every client field exactly the
// client's; nothing else but documented meta.* fields.
func (h *cx3Harness) cx3Intact(r *http.Request, w cx3Wire) string {
	var why []string
	if k := r.Header.Get("X-Honeycomb-Team"); k != cx3Key {
		why = append(why, fmt.Sprintf("key=%q", k))
	}
	ds, err := url.PathUnescape(strings.TrimPrefix(r.URL.EscapedPath(), "/1/batch/"))
	if err != nil || ds != cx3Dataset {
		why = append(why, fmt.Sprintf("dataset=%q", ds))
	}
	if !w.hasTime || !w.time.Equal(cx3Stamp) {
		why = append(why, fmt.Sprintf("time=%v", w.time.UTC().Format(time.RFC3339Nano)))
	}
	id64, _ := cx3AsNum(w.data["eid"])
	shape, _ := w.data["shape"].(string)
	trace, _ := w.data["trace.trace_id"].(string)
	_, hasParent := w.data["trace.parent_id"]
	want := cx3ClientFields(int(id64), trace, !hasParent, shape)
	exact := !strings.HasSuffix(shape, "json")
	seen := map[string]bool{}
	for _, f := range want {
		seen[f.k] = true
		got, ok := w.data[f.k]
		if !ok {
			why = append(why, "missing "+f.k)
		} else if !cx3Same(f.v, got, exact) {
			why = append(why, fmt.Sprintf("%s=%#v", f.k, got))
		}
	}
	for k := range w.data {
		if !seen[k] && !cx3Meta[k] {
			why = append(why, "extra "+k)
		}
	}
	if strings.HasPrefix(shape, "root") == hasParent && trace != "" {
		why = append(why, "parent id does not match shape "+shape)
	}
	sort.Strings(why)
	return strings.Join(why, "; ")
}

// cx3Rec is what a receiver sees of one event, in the shape of the spec's records.
func (h *cx3Harness) cx3Rec(r *http.Request, w cx3Wire, forHny bool) map[string]any {
	id, _ := cx3AsNum(w.data["eid"])
	probe, _ := w.data["meta.refinery.probe"].(bool)
	rate := w.rate
	if rate < 1 {
		rate = 1 // absent / zero reads as 1
	}
	trace, _ := w.data["trace.trace_id"].(string)
	rec := map[string]any{"id": int(id), "t": h.nameOf(trace), "probe": probe, "rate": int(rate)}
	why := h.cx3Intact(r, w)
	rec["intact"] = why == ""
	if why != "" {
		rec["why"] = why
	}
	if forHny {
		stressed, _ := w.data["meta.stressed"].(bool)
		rec["stressed"] = stressed
		// C04: the forwarded rate is also recorded as meta.refinery.final_sample_rate
		if fin, ok := cx3AsInt(w.data["meta.refinery.final_sample_rate"]); trace != "" && (!ok || fin != rate) {
			rec["intact"] = false
			rec["why"] = fmt.Sprintf("%v; final_sample_rate=%v", rec["why"], w.data["meta.refinery.final_sample_rate"])
		}
	}
	return rec
}

func cx3WithDups(recs []map[string]any) []any {
	out := make([]any, 0, len(recs))
	seen := map[int]int{}
	for _, r := range recs {
		c := map[string]any{}
		for k, v := range r {
			c[k] = v
		}
		id := r["id"].(int)
		seen[id]++
		if seen[id] > 1 {
			c["dup"] = seen[id]
		}
		out = append(out, c)
	}
	return out
}

func cx3Accept(w http.ResponseWriter, n int) {
	resp := make([]map[string]int, n)
	for i := range resp {
		resp[i] = map[string]int{"status": 202}
	}
	w.Header().Set("Content-Type", "application/json")
	json.NewEncoder(w).Encode(resp)
}

// --- per-node stubs and wrappers -----------------------------------------------

// cx3Stress stands for the StressRelief subsystem of one node: the level
// arithmetic is C15's subject, the hash rule C10's; here the verdict is a
// fixed function of the trace. A call of GetSampleRate IS a stress decision
// made on this node.
type cx3Stress struct {
	h     *cx3Harness
	node  *cx3Node
	mu    sync.Mutex
	on    bool
	skeep map[string]bool
	rate  uint
}

func (m *cx3Stress) Start() error      { return nil }
func (m *cx3Stress) UpdateFromConfig() {}
func (m *cx3Stress) Recalc() uint      { return 0 }
func (m *cx3Stress) Stressed() bool    { m.mu.Lock(); defer m.mu.Unlock(); return m.on }
func (m *cx3Stress) GetSampleRate(traceID string) (uint, bool, string) {
	m.mu.Lock()
	keep, rate := m.skeep[traceID], m.rate
	m.mu.Unlock()
	m.h.mu.Lock()
	rec := map[string]any{"t": m.h.nameOf(traceID), "keep": keep, "rate": 0, "by": "stress"}
	if keep {
		rec["rate"] = int(rate)
	}
	m.node.decs = append(m.node.decs, rec)
	m.h.mu.Unlock()
	return rate, keep, "stress_relief"
}

// cx3Collector counts what the routers of one node hand to its real collector.
type cx3Collector struct {
	*collect.InMemCollector
	h *cx3Harness
}

func (c *cx3Collector) AddSpan(sp *types.Span) error {
	err := c.InMemCollector.AddSpan(sp)
	if err == nil {
		c.h.mu.Lock()
		c.h.added++
		c.h.mu.Unlock()
	}
	return err
}
func (c *cx3Collector) AddSpanFromPeer(sp *types.Span) error {
	err := c.InMemCollector.AddSpanFromPeer(sp)
	if err == nil {
		c.h.mu.Lock()
		c.h.added++
		c.h.mu.Unlock()
	}
	return err
}

type cx3Node struct {
	name                          string
	conf                          *config.MockConfig
	met                           *metrics.MockMetrics
	upClock, peerClock, collClock *clockwork.FakeClock
	up, peerTx                    *transmit.DirectTransmission
	coll                          *collect.InMemCollector
	stress                        *cx3Stress
	sh                            *sharder.DeterministicSharder
	in, pr                        *Router
	inH                           http.Handler
	prSrv                         *httptest.Server
	// observations (guarded by the harness mutex)
	inbox []map[string]any
	decs  []map[string]any
	buf   map[string]map[int]bool // real trace id -> buffered event ids
}

func (n *cx3Node) pending(which string) int {
	v, _ := n.met.Get("libhoney_" + which + "_queued_items")
	return int(v)
}

type cx3Harness struct {
	mu         sync.Mutex
	nodes      map[string]*cx3Node
	order      []string
	hnySrv     *httptest.Server
	hny        []map[string]any
	ids        map[string]string // model trace -> real trace id (this epoch)
	names      map[string]string // real trace id -> model trace (this epoch)
	used       map[string]bool   // real trace ids of earlier epochs of this cluster
	owner      map[string]string // model trace -> owning node
	keep       map[string]bool
	skeepNames []string
	rate       int
	rng        *rand.Rand
	counts     map[string]int // hook events
	added      int
	ticking    string // node whose collector is ticking (decisions are attributed to it)
	anom       []string
	agree      bool
	zdec       *zstd.Decoder
	seed       int64
	nreset     int
	stop       func()
}

// nameOf maps a real trace id back to the model's trace (callers hold h.mu or
// run while no request is in flight).
func (h *cx3Harness) nameOf(id string) string {
	if id == "" {
		return ""
	}
	if n, ok := h.names[id]; ok {
		return n
	}
	return "?" + id
}

func (h *cx3Harness) anomaly(format string, a ...any) {
	h.mu.Lock()
	if len(h.anom) < 10 {
		h.anom = append(h.anom, fmt.Sprintf(format, a...))
	}
	h.mu.Unlock()
}

func cx3kv(kv []any, key string) any {
	for i := 0; i+1 < len(kv); i += 2 {
		if kv[i] == key {
			return kv[i+1]
		}
	}
	return nil
}

func cx3SpanID(sp *types.Span) int {
	if v, ok := cx3AsNum(sp.Data.Get("eid")); ok {
		return int(v)
	}
	return -1
}

// emit receives the collectors' linearization-point events (collect/verif_on.go).
// The hook is one for the process; a span is attributed to the node whose
// listener accepted it (the request context says which), a sampler decision to
// the node whose collector clock is being advanced.
func (h *cx3Harness) emit(event string, kv ...any) {
	h.mu.Lock()
	defer h.mu.Unlock()
	h.counts[event]++
	switch event {
	case "buffered":
		sp := cx3kv(kv, "span").(*types.Span)
		name, _ := sp.Event.Context.Value(cx3NodeKey{}).(string)
		n := h.nodes[name]
		if n == nil {
			if len(h.anom) < 10 {
				h.anom = append(h.anom, "span buffered by an unknown node")
			}
			return
		}
		if n.buf[sp.TraceID] == nil {
			n.buf[sp.TraceID] = map[int]bool{}
		}
		n.buf[sp.TraceID][cx3SpanID(sp)] = true
	case "decision":
		t, _ := cx3kv(kv, "t").(string)
		keep, _ := cx3kv(kv, "keep").(bool)
		rate, _ := cx3kv(kv, "rate").(uint)
		rec := map[string]any{"t": h.nameOf(t), "keep": keep, "rate": int(rate), "by": "sampler"}
		if n := h.nodes[h.ticking]; n != nil {
			n.decs = append(n.decs, rec)
		} else if len(h.anom) < 10 {
			h.anom = append(h.anom, fmt.Sprintf("decision outside a collector tick: %v", rec))
		}
	case "trace_queued", "trace_dropped":
		t, _ := cx3kv(kv, "t").(string)
		if n := h.nodes[h.ticking]; n != nil {
			delete(n.buf, t)
		}
	}
}

func (h *cx3Harness) get(k string) int { h.mu.Lock(); defer h.mu.Unlock(); return h.counts[k] }

// handleHny is the fake Honeycomb API.
func (h *cx3Harness) handleHny(w http.ResponseWriter, r *http.Request) {
	body, err := cx3ReadBody(r)
	var evs []cx3Wire
	if err == nil {
		evs, err = cx3Decode(body)
	}
	if err != nil {
		h.anomaly("honeycomb could not decode a request: %v", err)
	}
	h.mu.Lock()
	for _, e := range evs {
		h.hny = append(h.hny, h.cx3Rec(r, e, true))
	}
	h.mu.Unlock()
	cx3Accept(w, len(evs))
}

// listener mounts a Router's handlers the way Router.LnS does (route/route.go)
// and, for a peer listener, records what arrives before the real handler sees
// the same bytes.
func (h *cx3Harness) listener(n *cx3Node, r *Router, isPeer bool) (http.Handler, *httptest.Server) {
	muxxer := mux.NewRouter()
	muxxer.Use(r.setResponseHeaders)
	muxxer.Use(r.requestLogger)
	muxxer.Use(r.panicCatcher)
	authed := muxxer.PathPrefix("/1/").Methods("POST").Subrouter()
	authed.UseEncodedPath()
	authed.Use(r.apiKeyProcessor)
	authed.Handle("/events/{datasetName}", otelhttp.NewHandler(http.HandlerFunc(r.event), "handle_event")).Name("event")
	authed.Handle("/batch/{datasetName}", otelhttp.NewHandler(http.HandlerFunc(r.batch), "handle_batch")).Name("batch")
	muxxer.PathPrefix("/").HandlerFunc(func(w http.ResponseWriter, req *http.Request) {
		h.anomaly("node %s: request outside /1/: %s %s", n.name, req.Method, req.URL.Path)
		w.WriteHeader(http.StatusNotFound)
	}).Name("proxy")
	var handler http.Handler = muxxer
	if isPeer {
		handler = http.HandlerFunc(func(w http.ResponseWriter, req *http.Request) {
			raw, err := io.ReadAll(req.Body)
			req.Body.Close()
			if err == nil {
				peek := req.Clone(req.Context())
				peek.Body = io.NopCloser(bytes.NewReader(raw))
				var body []byte
				var evs []cx3Wire
				if body, err = cx3ReadBody(peek); err == nil {
					evs, err = cx3Decode(body)
				}
				h.mu.Lock()
				for _, e := range evs {
					n.inbox = append(n.inbox, h.cx3Rec(req, e, false))
				}
				h.mu.Unlock()
			}
			if err != nil {
				h.anomaly("node %s: undecodable peer request: %v", n.name, err)
			}
			req.Body = io.NopCloser(bytes.NewReader(raw))
			muxxer.ServeHTTP(w, req)
		})
	}
	if !isPeer {
		// clients are served in-process (same handler chain, no TCP): the hop between nodes is the subject
		return handler, nil
	}
	srv := httptest.NewUnstartedServer(handler)
	base := context.WithValue(context.Background(), cx3NodeKey{}, n.name)
	srv.Config.BaseContext = func(net.Listener) context.Context { return base }
	srv.Start()
	return handler, srv
}

func cx3Strings(v any) []string {
	var out []string
	for _, x := range v.([]any) {
		out = append(out, x.(string))
	}
	sort.Strings(out)
	return out
}

func (h *cx3Harness) keepAt(id string, rate int) bool {
	d := &sample.DeterministicSampler{Config: &config.DeterministicSamplerConfig{SampleRate: rate}, Logger: &logger.NullLogger{}}
	d.Start()
	_, keep, _, _ := d.GetSampleRate(&types.Trace{TraceID: id})
	return keep
}

func (h *cx3Harness) Reset(init map[string]any) error {
	if h.stop != nil {
		h.stop()
		h.stop = nil
	}
	h.nreset++
	p, _ := init["params"].(map[string]any)
	if p == nil {
		return fmt.Errorf("no params in the initial state")
	}
	names := cx3Strings(p["nodes"])
	owner, _ := p["owner"].(map[string]any)
	keep := map[string]bool{}
	for _, t := range cx3Strings(p["keep"]) {
		keep[t] = true
	}
	srate, rate := verifkit.Int(p, "srate"), verifkit.Int(p, "rate")
	compress := verifkit.Bool(p, "compress")

	h.mu.Lock()
	h.nodes, h.order = map[string]*cx3Node{}, names
	h.hny, h.counts, h.added, h.anom, h.agree, h.ticking = nil, map[string]int{}, 0, nil, true, ""
	h.ids, h.names, h.used = map[string]string{}, map[string]string{}, map[string]bool{}
	h.mu.Unlock()
	// shutdown order: peer transmissions (their final flush still finds live collectors), then the
	// collectors once they have processed what that flush delivered (their late spans still find live
	// upstream transmissions), upstream transmissions, listeners
	var stopPeerTx, stopUpTx, stopColl, stops []func()
	h.stop = func() {
		for _, f := range stopPeerTx {
			f()
		}
		h.settled()
		for _, l := range [][]func(){stopColl, stopUpTx, stops} {
			for _, f := range l {
				f()
			}
		}
		collect.SetVerifHooks(nil)
	}
	h.hnySrv = httptest.NewServer(http.HandlerFunc(h.handleHny))
	stops = append(stops, h.hnySrv.Close)
	collect.SetVerifHooks(&collect.VerifHooks{Emit: h.emit})

	// phase 1: listeners, so that the peer addresses exist before any sharder starts
	for _, name := range names {
		n := &cx3Node{name: name, buf: map[string]map[int]bool{}}
		n.conf = &config.MockConfig{
			GetHoneycombAPIVal: h.hnySrv.URL,
			GetTracesConfigVal: config.TracesConfig{SendTicker: config.Duration(cx3CollTick), SendDelay: config.Duration(cx3CollTick), TraceTimeout: config.Duration(cx3CollTick), MaxBatchSize: 500},
			SampleCache:        config.SampleCacheConfig{KeptSize: 1000, DroppedSize: 10000, SizeCheckInterval: config.Duration(time.Hour)},
			GetSamplerTypeVal:  &config.DeterministicSamplerConfig{SampleRate: rate},
			TraceIdFieldNames:  []string{"trace.trace_id"},
			ParentIdFieldNames: []string{"trace.parent_id"},
			GetCollectionConfigVal: config.CollectionConfig{WorkerCount: cx3Workers, IncomingQueueSize: 1000, PeerQueueSize: 1000,
				HealthCheckTimeout: config.Duration(time.Hour * 100000), ShutdownDelay: config.Duration(time.Millisecond)},
		}
		n.met = &metrics.MockMetrics{}
		n.met.Start()
		n.stress = &cx3Stress{h: h, node: n, skeep: map[string]bool{}, rate: uint(srate)}
		n.in = &Router{Config: n.conf, Logger: &logger.NullLogger{}, Metrics: n.met, routerType: types.RouterTypeIncoming,
			iopLogger: iopLogger{Logger: &logger.NullLogger{}, incomingOrPeer: types.RouterTypeIncoming.String()}}
		n.pr = &Router{Config: n.conf, Logger: &logger.NullLogger{}, Metrics: n.met, routerType: types.RouterTypePeer,
			iopLogger: iopLogger{Logger: &logger.NullLogger{}, incomingOrPeer: types.RouterTypePeer.String()}}
		if h.zdec == nil {
			dec, err := makeDecoders(0) // as Router.LnS does; shared by all routers of all resets
			if err != nil {
				return err
			}
			h.zdec = dec
		}
		for _, r := range []*Router{n.in, n.pr} {
			r.registerMetricNames()
			r.zstdDecoder = h.zdec
		}
		n.inH, _ = h.listener(n, n.in, false)
		_, n.prSrv = h.listener(n, n.pr, true)
		stops = append(stops, n.prSrv.Close)
		h.mu.Lock()
		h.nodes[name] = n
		h.mu.Unlock()
	}
	var peers []string
	for _, name := range names {
		peers = append(peers, h.nodes[name].prSrv.URL)
	}
	// phase 2: the rest of every node
	for i, name := range names {
		n := h.nodes[name]
		// every node sees the same peers, each in its own order
		view := append(append([]string(nil), peers[i:]...), peers[:i]...)
		n.sh = &sharder.DeterministicSharder{Config: n.conf, Logger: &logger.NullLogger{}, Peers: peer.NewMockPeers(view, n.prSrv.URL)}
		if err := n.sh.Start(); err != nil {
			return err
		}
		n.upClock, n.peerClock, n.collClock = clockwork.NewFakeClock(), clockwork.NewFakeClock(), clockwork.NewFakeClock()
		mk := func(tt types.TransmitType, clk *clockwork.FakeClock) (*transmit.DirectTransmission, error) {
			tr := http.DefaultTransport.(*http.Transport).Clone()
			d := transmit.NewDirectTransmission(tt, tr, 500, cx3BatchT, 10*time.Second, compress, nil)
			d.Config, d.Logger, d.Metrics, d.Version, d.Clock = n.conf, &logger.NullLogger{}, n.met, "verif", clk
			if err := d.Start(); err != nil {
				return nil, err
			}
			if tt == types.TransmitTypePeer {
				stopPeerTx = append(stopPeerTx, func() { d.Stop(); tr.CloseIdleConnections() })
			} else {
				stopUpTx = append(stopUpTx, func() { d.Stop(); tr.CloseIdleConnections() })
			}
			return d, nil
		}
		var err error
		if n.up, err = mk(types.TransmitTypeUpstream, n.upClock); err != nil {
			return err
		}
		if n.peerTx, err = mk(types.TransmitTypePeer, n.peerClock); err != nil {
			return err
		}
		hr := &health.Health{Clock: clockwork.NewFakeClock()}
		hr.Start()
		lps := &pubsub.LocalPubSub{Config: n.conf, Metrics: n.met}
		lps.Start()
		sf := &sample.SamplerFactory{Config: n.conf, Metrics: n.met, Logger: &logger.NullLogger{}}
		if err := sf.Start(); err != nil {
			return err
		}
		n.coll = &collect.InMemCollector{
			Config: n.conf, Clock: n.collClock, Logger: &logger.NullLogger{}, Tracer: noop.NewTracerProvider().Tracer("verif"),
			Health: hr, Sharder: n.sh, Transmission: n.up, PeerTransmission: n.peerTx, PubSub: lps, Metrics: n.met,
			SamplerFactory: sf, StressRelief: n.stress, Peers: peer.NewMockPeers(view, n.prSrv.URL),
		}
		if err := n.coll.Start(); err != nil {
			return err
		}
		coll := n.coll
		stopColl = append(stopColl, func() { coll.Stop(); sf.Stop(); hr.Stop(); lps.Stop() })
		ctx, cancel := context.WithTimeout(context.Background(), cx3Timeout)
		err = n.collClock.BlockUntilContext(ctx, cx3Workers+1) // the workers' tickers and the monitor's
		if err == nil {
			err = n.upClock.BlockUntilContext(ctx, 2) // batch ticker + metrics ticker
		}
		if err == nil {
			err = n.peerClock.BlockUntilContext(ctx, 2)
		}
		cancel()
		if err != nil {
			return fmt.Errorf("node %s did not start its tickers: %w", name, err)
		}
		cw := &cx3Collector{InMemCollector: n.coll, h: h}
		for _, r := range []*Router{n.in, n.pr} {
			r.UpstreamTransmission, r.PeerTransmission, r.Collector, r.Sharder = n.up, n.peerTx, cw, n.sh
		}
	}
	h.owner, h.keep, h.skeepNames, h.rate = map[string]string{}, keep, cx3Strings(p["skeep"]), rate
	for t, o := range owner {
		h.owner[t], _ = o.(string)
	}
	h.rng = rand.New(rand.NewSource(h.seed*1000003 + 7)) // the same id stream for every walk of a run, so that a replayed walk (same VERIF_SEED) meets the same ids
	return h.pickIDs()
}

// pickIDs chooses real trace ids, never used before in this cluster, that
// realise the model's ownership (real sharder) and sampler verdicts (real
// DeterministicSampler), and tells the stress stubs which of them the rule keeps.
func (h *cx3Harness) pickIDs() error {
	first := h.nodes[h.order[0]]
	tnames := make([]string, 0, len(h.owner))
	for t := range h.owner {
		tnames = append(tnames, t)
	}
	sort.Strings(tnames)
	ids, names := map[string]string{}, map[string]string{}
	for _, t := range tnames {
		want := h.nodes[h.owner[t]]
		if want == nil {
			return fmt.Errorf("trace %s owned by unknown node %v", t, h.owner[t])
		}
		found := ""
		for k := 0; k < 100000 && found == ""; k++ {
			id := fmt.Sprintf("%016x%016x", h.rng.Uint64(), h.rng.Uint64())
			if first.sh.WhichShard(id).GetAddress() == want.prSrv.URL && h.keepAt(id, h.rate) == h.keep[t] && names[id] == "" && !h.used[id] {
				found = id
			}
		}
		if found == "" {
			return fmt.Errorf("no trace id found for %s", t)
		}
		ids[t], names[found] = found, t
		h.used[found] = true
		// C17: every node names the same owner
		for _, n := range h.nodes {
			if n.sh.WhichShard(found).GetAddress() != want.prSrv.URL || n.sh.MyShard().GetAddress() != n.prSrv.URL {
				h.agree = false
			}
		}
	}
	h.mu.Lock()
	h.ids, h.names = ids, names
	h.mu.Unlock()
	for _, n := range h.nodes {
		n.stress.mu.Lock()
		n.stress.on = false
		n.stress.skeep = map[string]bool{}
		for _, t := range h.skeepNames {
			n.stress.skeep[ids[t]] = true
		}
		n.stress.mu.Unlock()
	}
	return nil
}

// newEpoch: the cluster is at rest (the model says so; if the real one is not,
// what is left over shows up in the next steps) and carries on with traces it
// has never seen; what was observed so far is forgotten.
func (h *cx3Harness) newEpoch() error {
	h.mu.Lock()
	h.hny = nil
	for _, n := range h.nodes {
		n.inbox, n.decs, n.buf = nil, nil, map[string]map[int]bool{}
	}
	h.mu.Unlock()
	return h.pickIDs()
}

// settled: whatever reached a collector has been processed by its worker
func (h *cx3Harness) settled() error {
	return cx3Wait("spans processed", func() bool {
		h.mu.Lock()
		defer h.mu.Unlock()
		return h.counts["processed"] >= h.added
	})
}

func (h *cx3Harness) post(n *cx3Node, a map[string]any, trace string) error {
	shape := verifkit.Str(a, "shape")
	if shape == "" {
		shape = "root-msgpack"
	}
	enc := "msgpack"
	if strings.HasSuffix(shape, "json") {
		enc = "json"
	}
	id := verifkit.Int(a, "id")
	body, ctype := cx3Body(enc, cx3ClientFields(id, trace, strings.HasPrefix(shape, "root"), shape), verifkit.Int(a, "crate"))
	req := httptest.NewRequest("POST", "http://"+n.name+".incoming.invalid/1/batch/"+url.PathEscape(cx3Dataset), bytes.NewReader(body))
	req = req.WithContext(context.WithValue(context.Background(), cx3NodeKey{}, n.name))
	req.Header.Set("Content-Type", ctype)
	req.Header.Set("X-Honeycomb-Team", cx3Key)
	req.Header.Set("User-Agent", cx3UA)
	resp := httptest.NewRecorder()
	n.inH.ServeHTTP(resp, req)
	raw := resp.Body.Bytes()
	var answers []struct {
		Status int `json:"status"`
	}
	json.Unmarshal(raw, &answers)
	if resp.Code != http.StatusOK || len(answers) != 1 || answers[0].Status != http.StatusAccepted {
		h.anomaly("node %s refused event %d: %d %s", n.name, id, resp.Code, strings.TrimSpace(string(raw)))
	}
	return h.settled()
}

func (h *cx3Harness) Apply(a map[string]any) error {
	if verifkit.Str(a, "name") == "NewEpoch" {
		return h.newEpoch()
	}
	n := h.nodes[verifkit.Str(a, "n")]
	if n == nil {
		return fmt.Errorf("unknown node in %v", a)
	}
	switch verifkit.Str(a, "name") {
	case "Send":
		return h.post(n, a, h.ids[verifkit.Str(a, "t")])
	case "SendPlain":
		return h.post(n, a, "")
	case "DispatchPeer":
		n.peerClock.Advance(cx3BatchT)
		n.peerClock.Advance(cx3BatchT / 4)
		if err := cx3Wait("peer dispatch of "+n.name, func() bool { return n.pending("peer") == 0 }); err != nil {
			return err
		}
		return h.settled()
	case "DispatchUp":
		n.upClock.Advance(cx3BatchT)
		n.upClock.Advance(cx3BatchT / 4)
		return cx3Wait("upstream dispatch of "+n.name, func() bool { return n.pending("upstream") == 0 })
	case "CollectTick":
		h.mu.Lock()
		h.ticking = n.name
		want := h.counts["tick"] + cx3Workers
		h.mu.Unlock()
		n.collClock.Advance(cx3CollTick)
		err := cx3Wait("collector tick of "+n.name, func() bool { return h.get("tick") >= want })
		if err == nil {
			err = cx3Wait("sender idle", func() bool { return h.get("trace_queued") == h.get("trace_sent") })
		}
		h.mu.Lock()
		h.ticking = ""
		h.mu.Unlock()
		return err
	case "SetStress":
		n.stress.mu.Lock()
		n.stress.on = verifkit.Bool(a, "on")
		n.stress.mu.Unlock()
		return nil
	}
	return fmt.Errorf("unknown action %v", a)
}

func (h *cx3Harness) Project() (any, error) {
	h.mu.Lock()
	defer h.mu.Unlock()
	nodes := map[string]any{}
	for name, n := range h.nodes {
		buf := []any{}
		for _, ids := range n.buf {
			for id := range ids {
				buf = append(buf, id)
			}
		}
		decs := make([]any, 0, len(n.decs))
		for _, d := range n.decs {
			decs = append(decs, d)
		}
		nodes[name] = map[string]any{
			"stressed": n.stress.Stressed(), "up": n.pending("upstream"), "peer": n.pending("peer"),
			"bufSet": buf, "inSet": cx3WithDups(n.inbox), "decSet": decs,
		}
	}
	out := map[string]any{"hnySet": cx3WithDups(h.hny), "agree": h.agree, "node": nodes}
	if len(h.anom) > 0 {
		out["anomalies"] = append([]string(nil), h.anom...)
	}
	return out, nil
}

func TestVerifSystem(t *testing.T) {
	// every reset allocates a few collectors' worth of queues; collect less often
	defer debug.SetGCPercent(debug.SetGCPercent(400))
	seed, _ := strconv.ParseInt(os.Getenv("VERIF_SEED"), 10, 64)
	h := &cx3Harness{seed: seed}
	err := verifkit.Main(h)
	if h.stop != nil {
		h.stop()
	}
	if err != nil {
		t.Fatal(err)
	}
}
