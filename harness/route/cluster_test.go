//go:build verif

package route

import (
	"bytes"
	"context"
	"encoding/json"
	"fmt"
	"io"
	"net/http"
	"os"
	"net/http/httptest"
	"strings"
	"sync"
	"testing"
	"time"

	"github.com/jonboulle/clockwork"
	"github.com/tinylib/msgp/msgp"
	"go.opentelemetry.io/otel/trace/noop"

	"github.com/honeycombio/refinery/collect"
	"github.com/honeycombio/refinery/config"
	"github.com/honeycombio/refinery/internal/health"
	"github.com/honeycombio/refinery/internal/peer"
	"github.com/honeycombio/refinery/internal/verifkit"
	"github.com/honeycombio/refinery/logger"
	"github.com/honeycombio/refinery/metrics"
	"github.com/honeycombio/refinery/pubsub"
	"github.com/honeycombio/refinery/sample"
	"github.com/honeycombio/refinery/sharder"
	"github.com/honeycombio/refinery/transmit"
	"github.com/honeycombio/refinery/types"
)

// ---------------------------------------------------------------------------
// Binding of spec/Cluster.tla (C16, C19) to one real node: two real Routers
// (incoming and peer listener, driven through processEvent), a real
// InMemCollector, two real DirectTransmissions on fake clocks, a sharder that
// assigns the "f*" traces to a peer, and loopback HTTP servers standing for
// Honeycomb and for the owning peer which decode the bytes they receive.
// ---------------------------------------------------------------------------

const (
	c16Key      = "c9945edf5d245834089a1bd6cc9ad01e"
	c16Dataset  = "ds-client"
	c16Timeout  = 20 * time.Second
	c16BatchT   = time.Second
	c16CollTick = time.Minute
)

var c16Stamp = time.Date(2024, 3, 4, 5, 6, 7, 0, time.UTC)

type c16Server struct {
	mu   sync.Mutex
	recs []map[string]any
	srv  *httptest.Server
	name string
}

func newC16Server(name string) *c16Server {
	s := &c16Server{name: name}
	s.srv = httptest.NewServer(http.HandlerFunc(s.handle))
	return s
}

func (s *c16Server) handle(w http.ResponseWriter, r *http.Request) {
	body, _ := io.ReadAll(r.Body)
	var js bytes.Buffer
	n := 0
	var evs []map[string]any
	if _, err := msgp.UnmarshalAsJSON(&js, body); err == nil {
		json.Unmarshal(js.Bytes(), &evs)
		n = len(evs)
	}
	key := r.Header.Get("X-Honeycomb-Team")
	dataset := strings.TrimPrefix(r.URL.Path, "/1/batch/")
	s.mu.Lock()
	for _, e := range evs {
		data, _ := e["data"].(map[string]any)
		if data == nil {
			data = map[string]any{}
		}
		id, _ := data["eid"].(float64)
		probe, _ := data["meta.refinery.probe"].(bool)
		stressed, _ := data["meta.stressed"].(bool)
		rate, _ := e["samplerate"].(float64)
		if rate < 1 {
			rate = 1
		}
		ts, _ := e["time"].(string)
		tm, _ := time.Parse(time.RFC3339Nano, ts)
		intact := key == c16Key && dataset == c16Dataset && tm.Equal(c16Stamp) && data["payload"] == "client-value"
		why := ""
		if !intact {
			why = fmt.Sprintf("key=%q dataset=%q time=%q payload=%v", key, dataset, ts, data["payload"])
		}
		rec := map[string]any{"id": int(id), "probe": probe, "stressed": stressed, "rate": int(rate), "intact": intact}
		if why != "" {
			rec["why"] = why
		}
		s.recs = append(s.recs, rec)
	}
	s.mu.Unlock()
	resp := make([]map[string]int, n)
	for i := range resp {
		resp[i] = map[string]int{"status": 202}
	}
	w.Header().Set("Content-Type", "application/json")
	json.NewEncoder(w).Encode(resp)
}

func (s *c16Server) snapshot() []any {
	s.mu.Lock()
	defer s.mu.Unlock()
	out := make([]any, 0, len(s.recs))
	seen := map[int]int{}
	for _, r := range s.recs {
		c := map[string]any{}
		for k, v := range r {
			c[k] = v
		}
		seen[r["id"].(int)]++
		if seen[r["id"].(int)] > 1 {
			c["dup"] = seen[r["id"].(int)]
		}
		out = append(out, c)
	}
	return out
}

type c16Stress struct {
	mu    sync.Mutex
	on    bool
	flip  bool // flip the flag right after the next read (stress relief switching mid-route)
	skeep map[string]bool
	rate  uint
}

func (m *c16Stress) Start() error      { return nil }
func (m *c16Stress) UpdateFromConfig() {}
func (m *c16Stress) Recalc() uint      { return 0 }
func (m *c16Stress) Stressed() bool {
	m.mu.Lock()
	defer m.mu.Unlock()
	v := m.on
	if m.flip {
		m.flip = false
		m.on = !m.on
	}
	return v
}
func (m *c16Stress) peek() bool { m.mu.Lock(); defer m.mu.Unlock(); return m.on }
func (m *c16Stress) GetSampleRate(traceID string) (uint, bool, string) {
	m.mu.Lock()
	defer m.mu.Unlock()
	return m.rate, m.skeep[traceID], "stress_relief"
}

type c16Events struct {
	mu     sync.Mutex
	counts map[string]int
	buf    map[string]map[int]bool // trace id -> buffered event ids
}

func c16kv(kv []any, key string) any {
	for i := 0; i+1 < len(kv); i += 2 {
		if kv[i] == key {
			return kv[i+1]
		}
	}
	return nil
}

func (e *c16Events) emit(event string, kv ...any) {
	e.mu.Lock()
	defer e.mu.Unlock()
	e.counts[event]++
	switch event {
	case "buffered":
		t := c16kv(kv, "t").(string)
		sp := c16kv(kv, "span").(*types.Span)
		id := -1
		switch v := sp.Data.Get("eid").(type) {
		case int:
			id = v
		case int64:
			id = int(v)
		case float64:
			id = int(v)
		}
		if e.buf[t] == nil {
			e.buf[t] = map[int]bool{}
		}
		e.buf[t][id] = true
	case "trace_queued", "trace_dropped":
		delete(e.buf, c16kv(kv, "t").(string))
	}
}
func (e *c16Events) get(k string) int { e.mu.Lock(); defer e.mu.Unlock(); return e.counts[k] }

// c16Collector counts what the routers hand to the real collector.
type c16Collector struct {
	*collect.InMemCollector
	mu    sync.Mutex
	added int
}

func (c *c16Collector) AddSpan(sp *types.Span) error {
	err := c.InMemCollector.AddSpan(sp)
	if err == nil {
		c.mu.Lock()
		c.added++
		c.mu.Unlock()
	}
	return err
}
func (c *c16Collector) AddSpanFromPeer(sp *types.Span) error {
	err := c.InMemCollector.AddSpanFromPeer(sp)
	if err == nil {
		c.mu.Lock()
		c.added++
		c.mu.Unlock()
	}
	return err
}

func c16Wait(what string, pred func() bool) error {
	deadline := time.Now().Add(c16Timeout)
	for !pred() {
		if time.Now().After(deadline) {
			return fmt.Errorf("barrier timeout: %s", what)
		}
		time.Sleep(200 * time.Microsecond)
	}
	return nil
}

type c16Harness struct {
	hny, peerSrv       *c16Server
	upClock, peerClock *clockwork.FakeClock
	collClock          *clockwork.FakeClock
	up, peerTx         *transmit.DirectTransmission
	coll               *collect.InMemCollector
	cw                 *c16Collector
	met                *metrics.MockMetrics
	stress             *c16Stress
	ev                 *c16Events
	in, pr             *Router
	conf               *config.MockConfig
	added              int
	ticks              int
	stop               func()
}

func (h *c16Harness) Reset(init map[string]any) error {
	if h.stop != nil {
		h.stop()
		h.stop = nil
	}
	p, _ := init["params"].(map[string]any)
	var foreign []string
	for _, f := range p["foreign"].([]any) {
		foreign = append(foreign, f.(string))
	}
	h.stress = &c16Stress{skeep: map[string]bool{}, rate: uint(verifkit.Int(p, "srate"))}
	for _, t := range p["skeep"].([]any) {
		h.stress.skeep[t.(string)] = true
	}
	h.hny, h.peerSrv = newC16Server("hny"), newC16Server("peer")
	h.conf = &config.MockConfig{
		GetHoneycombAPIVal: h.hny.srv.URL,
		GetTracesConfigVal: config.TracesConfig{SendTicker: config.Duration(c16CollTick), SendDelay: config.Duration(c16CollTick), TraceTimeout: config.Duration(c16CollTick), MaxBatchSize: 500},
		SampleCache:        config.SampleCacheConfig{KeptSize: 10000, DroppedSize: 100000, SizeCheckInterval: config.Duration(time.Hour)},
		GetSamplerTypeVal:  &config.DeterministicSamplerConfig{SampleRate: 1},
		TraceIdFieldNames:  []string{"trace.trace_id"},
		ParentIdFieldNames: []string{"trace.parent_id"},
		GetCollectionConfigVal: config.CollectionConfig{WorkerCount: 2, IncomingQueueSize: 1000, PeerQueueSize: 1000,
			HealthCheckTimeout: config.Duration(time.Hour * 100000), ShutdownDelay: config.Duration(time.Millisecond)},
	}
	h.met = &metrics.MockMetrics{}
	h.met.Start()
	h.upClock, h.peerClock, h.collClock = clockwork.NewFakeClock(), clockwork.NewFakeClock(), clockwork.NewFakeClock()
	mk := func(tt types.TransmitType, clk *clockwork.FakeClock) *transmit.DirectTransmission {
		d := transmit.NewDirectTransmission(tt, http.DefaultTransport.(*http.Transport).Clone(), 500, c16BatchT, 10*time.Second, false, nil)
		d.Config, d.Logger, d.Metrics, d.Version, d.Clock = h.conf, &logger.NullLogger{}, h.met, "verif", clk
		return d
	}
	h.up, h.peerTx = mk(types.TransmitTypeUpstream, h.upClock), mk(types.TransmitTypePeer, h.peerClock)
	if err := h.up.Start(); err != nil {
		return err
	}
	if err := h.peerTx.Start(); err != nil {
		return err
	}
	h.ev = &c16Events{counts: map[string]int{}, buf: map[string]map[int]bool{}}
	collect.SetVerifHooks(&collect.VerifHooks{Emit: h.ev.emit})
	hr := &health.Health{Clock: clockwork.NewFakeClock()}
	hr.Start()
	lps := &pubsub.LocalPubSub{Config: h.conf, Metrics: h.met}
	lps.Start()
	sf := &sample.SamplerFactory{Config: h.conf, Metrics: h.met, Logger: &logger.NullLogger{}}
	if err := sf.Start(); err != nil {
		return err
	}
	shard := &sharder.MockSharder{Self: &sharder.TestShard{Addr: "http://self.invalid"}, Other: &sharder.TestShard{Addr: h.peerSrv.srv.URL, TraceIDs: foreign}}
	h.coll = &collect.InMemCollector{
		Config: h.conf, Clock: h.collClock, Logger: &logger.NullLogger{}, Tracer: noop.NewTracerProvider().Tracer("verif"),
		Health: hr, Sharder: shard, Transmission: h.up, PeerTransmission: h.peerTx, PubSub: lps, Metrics: h.met,
		SamplerFactory: sf, StressRelief: h.stress, Peers: peer.NewMockPeers([]string{"a"}, "a"),
	}
	if err := h.coll.Start(); err != nil {
		return err
	}
	ctx, cancel := context.WithTimeout(context.Background(), c16Timeout)
	defer cancel()
	if err := h.collClock.BlockUntilContext(ctx, 3); err != nil { // 2 workers + monitor
		return err
	}
	if err := h.upClock.BlockUntilContext(ctx, 2); err != nil { // batch ticker + metrics ticker
		return err
	}
	if err := h.peerClock.BlockUntilContext(ctx, 2); err != nil {
		return err
	}
	h.cw = &c16Collector{InMemCollector: h.coll}
	mkRouter := func(rt types.RouterType) *Router {
		r := &Router{Config: h.conf, Logger: &logger.NullLogger{}, Metrics: h.met, UpstreamTransmission: h.up, PeerTransmission: h.peerTx,
			Collector: h.cw, Sharder: shard, routerType: rt, iopLogger: iopLogger{Logger: &logger.NullLogger{}, incomingOrPeer: rt.String()}}
		r.registerMetricNames()
		return r
	}
	h.in, h.pr = mkRouter(types.RouterTypeIncoming), mkRouter(types.RouterTypePeer)
	hny, ps, up, ptx, coll := h.hny, h.peerSrv, h.up, h.peerTx, h.coll
	h.stop = func() {
		coll.Stop()
		up.Stop()
		ptx.Stop()
		sf.Stop()
		hr.Stop()
		lps.Stop()
		hny.srv.Close()
		ps.srv.Close()
		collect.SetVerifHooks(nil)
	}
	h.added, h.ticks = 0, 0
	return nil
}

func (h *c16Harness) pending(which string) int {
	v, _ := h.met.Get("libhoney_" + which + "_queued_items")
	return int(v)
}

func (h *c16Harness) router(a map[string]any) *Router {
	if verifkit.Str(a, "listener") == "peer" {
		return h.pr
	}
	return h.in
}

// VERIF_BODYMETA=1: ordinary events carry explicit false probe / stressed markers in their body
var c16BodyMeta = os.Getenv("VERIF_BODYMETA") != ""

func (h *c16Harness) event(a map[string]any, trace string, probe bool) *types.Event {
	data := map[string]any{"eid": verifkit.Int(a, "id"), "payload": "client-value"}
	if trace != "" {
		data["trace.trace_id"] = trace
	}
	if probe {
		data["meta.refinery.probe"] = true
	} else if c16BodyMeta {
		// the client's body spells the markers out with their zero values (C16: what this node adds must still reach
		// the peer / Honeycomb as this node set it)
		data["meta.refinery.probe"] = false
		data["meta.stressed"] = false
	}
	return &types.Event{Context: context.Background(), APIHost: h.hny.srv.URL, APIKey: c16Key, Dataset: c16Dataset,
		SampleRate: uint(verifkit.Int(a, "crate")), Timestamp: c16Stamp, Data: types.NewPayload(h.conf, data)}
}

func (h *c16Harness) Apply(a map[string]any) error {
	switch verifkit.Str(a, "name") {
	case "RecvPlain":
		return h.router(a).processEvent(h.event(a, "", false), "req")
	case "RecvProbe":
		return h.router(a).processEvent(h.event(a, verifkit.Str(a, "t"), true), "req")
	case "RecvSpan", "RecvSpanFlip":
		if verifkit.Str(a, "name") == "RecvSpanFlip" {
			h.stress.mu.Lock()
			h.stress.flip = true
			h.stress.mu.Unlock()
		}
		if err := h.router(a).processEvent(h.event(a, verifkit.Str(a, "t"), false), "req"); err != nil {
			return err
		}
		// whatever reached the collector has been processed by its worker
		return c16Wait("span processed", func() bool {
			h.cw.mu.Lock()
			n := h.cw.added
			h.cw.mu.Unlock()
			return h.ev.get("processed") >= n
		})
	case "CollectTick":
		h.ticks++
		n := h.ticks
		h.collClock.Advance(c16CollTick)
		if err := c16Wait("collector ticks", func() bool { return h.ev.get("tick") >= 2*n }); err != nil {
			return err
		}
		return c16Wait("sender idle", func() bool { return h.ev.get("trace_queued") == h.ev.get("trace_sent") })
	case "Dispatch":
		which, clk := "upstream", h.upClock
		if verifkit.Str(a, "which") == "peer" {
			which, clk = "peer", h.peerClock
		}
		clk.Advance(c16BatchT)
		clk.Advance(c16BatchT / 4)
		return c16Wait("dispatch "+which, func() bool { return h.pending(which) == 0 })
	case "SetStress":
		h.stress.mu.Lock()
		h.stress.on = verifkit.Bool(a, "on")
		h.stress.mu.Unlock()
		return nil
	}
	return fmt.Errorf("unknown action %v", a)
}

func (h *c16Harness) Project() (any, error) {
	buf := []any{}
	h.ev.mu.Lock()
	for _, ids := range h.ev.buf {
		for id := range ids {
			buf = append(buf, id)
		}
	}
	h.ev.mu.Unlock()
	return map[string]any{
		"stressed": h.stress.peek(),
		"hnySet":   h.hny.snapshot(), "peerSet": h.peerSrv.snapshot(),
		"upPending": h.pending("upstream"), "peerPending": h.pending("peer"),
		"bufSet": buf,
	}, nil
}

func TestVerifCluster(t *testing.T) {
	h := &c16Harness{}
	err := verifkit.Main(h)
	if h.stop != nil {
		h.stop()
	}
	if err != nil {
		t.Fatal(err)
	}
}
