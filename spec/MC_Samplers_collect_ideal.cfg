SPECIFICATION Spec
CONSTANTS
  NW = 2
  Family = "collect-quick"
  PeerCounts = {1}
  MaxChanges = 1
  Faithful = FALSE
  ShareIdentical = TRUE
  CachedDecide = TRUE
  AtomicReload = TRUE
INVARIANTS TypeOK WorkersShare DestsIsolated DefsIsolated RegistryGoals WorkerGoals PeerCountCurrent
PROPERTIES CacheStable RegistryMonotone
CHECK_DEADLOCK FALSE
ACTION_CONSTRAINT Dump
VIEW View
