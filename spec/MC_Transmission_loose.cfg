SPECIFICATION Spec
CONSTANTS
  Dests = {"A"}
  Sizes = {200, 1000001}
  EventMax = 1000000
  BodyMax = 5000000
  MaxBatch = 2
  Sub = 1
  MaxEvents = 3
  MaxNow = 5
  MaxFaults = 1
  Behaviours = {"ok", "r429_1", "r429_0", "r429_60", "timeout"}
  Coarse = FALSE
  Loose = TRUE
INVARIANTS TypeOK OwnDestination ExactlyOneBatch OversizeCounted BodyWithinLimit CountWithinLimit AtMostTwice Timely StopFlushes GaugeExact Conservation
VIEW View
CHECK_DEADLOCK FALSE
