SPECIFICATION Spec
CONSTANTS
  DataFields = {"a", "b"}
  Vals = {"s:x", "i:7"}
  DelimVals = {}
  MaxSpans = 3
  CfgNames = {"ab", "a_rb", "ab_ra"}
  Samplers = {"dynamic", "emadynamic", "emathroughput", "windowedthroughput", "totalthroughput"}
  GhostFields = {"z"}
  ProvValSet = {"s:x", "i:7", "b:true"}
  ProvMaxSpans = 3
  ProvCfgNames = {"ab", "a_rb", "ab_ra"}
  ProvUTL = {FALSE}
  ProvMix = "uniform"
INVARIANTS TypeOK NFSound PermutationInvariant DuplicationInvariant IrrelevantCellsInvariant PairsDistinct PayloadSound ProvenanceInvariant AnyProvenanceInvariant OutConsistent
CHECK_DEADLOCK FALSE
ACTION_CONSTRAINT Dump
VIEW View
