//go:build verif

package peer

import (
	"context"
	"fmt"
	"math/rand"
	"os"
	"strconv"
	"sync"
	"sync/atomic"
	"testing"
	"time"

	"github.com/honeycombio/refinery/config"
	"github.com/honeycombio/refinery/internal/verifkit"
	"github.com/honeycombio/refinery/logger"
	"github.com/honeycombio/refinery/metrics"
	"github.com/honeycombio/refinery/pubsub"
	"github.com/jonboulle/clockwork"
)

// TestVerifC35PeersRace runs the action alphabet of spec/Peers.tla / PeerGoal.tla
// (register and heartbeat messages of other peers, unregister, entries passing
// their timeout because a peer crashed, GetPeers readers = the sharder's and
// the sampler factory's callbacks and the stress-relief report) from several
// goroutines at once on one real RedisPubsubPeers over a real LocalPubSub with
// a fake clock, built with -race. Membership messages are delivered through
// the bus (LocalPubSub starts one goroutine per delivery, as in production),
// never by calling listen twice at once by hand. The oracle is the race
// detector only (and the runtime's own "concurrent map" fatal errors).
func TestVerifC35PeersRace(t *testing.T) {
	seed, _ := strconv.ParseInt(os.Getenv("VERIF_SEED"), 10, 64)
	rounds := 40
	nPeers := 48
	if os.Getenv("VERIF_TIER") == "thorough" {
		rounds, nPeers = 300, 128
	}
	rng := rand.New(rand.NewSource(seed))
	cfg := &config.MockConfig{GetPeerListenAddrVal: "127.0.0.1:8081", RedisIdentifier: "me", PeerTimeout: time.Second}
	ps := &pubsub.LocalPubSub{Config: cfg, Metrics: &metrics.NullMetrics{}}
	if err := ps.Start(); err != nil {
		t.Fatal(err)
	}
	defer ps.Stop()
	fc := clockwork.NewFakeClock()
	p := &RedisPubsubPeers{Config: cfg, Metrics: &metrics.NullMetrics{}, Logger: &logger.NullLogger{}, PubSub: ps, Clock: fc, InstanceID: "self0000", Done: make(chan struct{})}
	if err := p.Start(); err != nil {
		t.Fatal(err)
	}
	p.peers.Clock = fc // the membership table's TTLs follow the fake clock
	var cbRunning atomic.Int64 // callbacks in flight (a WaitGroup would need its Add before the goroutine exists)
	p.RegisterUpdatedPeersCallback(func() { // what the sharder and the sampler factory do when membership changes
		cbRunning.Add(1)
		defer cbRunning.Add(-1)
		_, _ = p.GetPeers()
	})
	ctx := context.Background()
	topic := ps.FormatTopic("peers")
	reg := func(i int) string {
		return newPeerCommand(Register, fmt.Sprintf("http://peer%04d:8081", i), fmt.Sprintf("id%06d", i)).marshal()
	}
	unreg := func(i int) string {
		return newPeerCommand(Unregister, fmt.Sprintf("http://peer%04d:8081", i), fmt.Sprintf("id%06d", i)).marshal()
	}
	evals := 0
	for r := 0; r < rounds; r++ {
		// everybody registers; half of them keep refreshing, the others crash silently
		p.listen(ctx, newPeerCommand(Register, "http://me:8081", p.InstanceID).marshal())
		for i := 0; i < nPeers; i++ {
			p.listen(ctx, reg(i))
		}
		fc.Advance(PeerEntryTimeout/2 + time.Second)
		for i := 0; i < nPeers; i += 2 {
			p.listen(ctx, reg(i))
		}
		fc.Advance(PeerEntryTimeout/2 + time.Second) // the crashed peers' entries are now past their timeout, nobody has looked yet
		start := make(chan struct{})
		var wg sync.WaitGroup
		run := func(f func()) {
			wg.Add(1)
			go func() { defer wg.Done(); <-start; f() }()
		}
		for c := 0; c < 2+rng.Intn(3); c++ {
			run(func() { _, _ = p.GetPeers() })
		}
		for c := 0; c < 1+rng.Intn(3); c++ {
			i := rng.Intn(nPeers)
			if rng.Intn(3) == 0 {
				run(func() { _ = ps.Publish(ctx, topic, unreg(i)) })
			} else {
				run(func() { _ = ps.Publish(ctx, topic, reg(i)) })
			}
		}
		close(start)
		wg.Wait()
		// deliveries run on goroutines of their own: give them a moment, then wait for the callbacks they started
		time.Sleep(2 * time.Millisecond)
		for i := 0; cbRunning.Load() != 0 && i < 2000; i++ {
			time.Sleep(time.Millisecond)
		}
		fc.Advance(3 * PeerEntryTimeout)
		_, _ = p.GetPeers()
		evals++
	}
	close(p.Done)
	if err := verifkit.WriteJSON(os.Getenv("VERIF_OUT"), map[string]any{
		"evaluations": evals, "distinct": evals, "violations": []any{}, "samples": []any{},
		"note": "register / heartbeat / unregister messages over the bus, silently crashed peers passing their timeout, and 2-4 concurrent GetPeers readers plus the peers-changed callbacks on one real RedisPubsubPeers (real MapWithTTL, fake clock) under -race; oracle = race detector only",
	}); err != nil {
		t.Fatal(err)
	}
}
