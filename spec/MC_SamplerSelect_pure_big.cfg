SPECIFICATION Spec
CONSTANTS
  Mode = "pure"
  Shapes <- ShapesAll
  Names = {"prod", "web"}
  Prefixes = {"", "cls"}
  RuleSets <- RuleSetsSome
  DefaultKinds = {"det", "dyn"}
  DetRuleSets <- RuleSetsSome
  Encs = {"msgpack"}
  Auths = {"ok"}
  WithReload = FALSE
  Faithful = FALSE
  UpperHexIsClassic = FALSE
INVARIANTS TypeOK EnvKeyUsesEnvironment ClassicKeyUsesDataset DocumentedShapes NeverWithoutSampler PrefixSeparates ExtractedIsWhatDeciderReads DecisionOfOneTarget NoUnknownEnvironmentIngested
PROPERTY DecisionFollowsRules
ACTION_CONSTRAINT Dump
VIEW View
CHECK_DEADLOCK FALSE
