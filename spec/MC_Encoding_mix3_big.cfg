SPECIFICATION Spec
CONSTANTS
  Families = {"mix3"}
  Big = TRUE
  Faithful = TRUE
INVARIANTS TypeOK CarriesSame RefIsEncoding SlotSound NonScalarAgree DevOnlyWhereViewsDiffer DeviationsConfined DecoderFacts
CHECK_DEADLOCK FALSE
ACTION_CONSTRAINT Dump
VIEW View
