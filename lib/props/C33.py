"""C33 The metrics store reports what was recorded."""

PROP = dict(
    level="model_checking",
    technique="TLA+ spec Metrics.tla model-checked by TLC at two grains (one action per public call; shared-memory sub-steps of two interleaved threads); every transition of the per-call graph replayed into a real metrics.MultiMetrics (directly and through sample's lazy registration site) and read back through Get (spec->code transition tour); concurrent calls on the real object under the race detector against the spec's schedule-independent invariants",
    design_ref="DESIGN.md §5 C33",
    level_text="TLC explores every order of Register / RegisterAll / Increment / Count / Gauge / Up / Down / Store / Histogram on a counter (two in thorough), a gauge, an up-down counter, a histogram and a stored value within the value bounds, and checks ReadBack (Get = sum of increments / last value / ups minus downs), CounterMonotone and SingleCell; every generated transition is executed on a real metrics.MultiMetrics and all names are read back with Get after every step. The same graph is replayed a second time with registration done by sample.dynsamplerMetricsRecorder.RegisterMetrics/newSamplerMetricNames and increments by RecordMetrics (the lazy re-registration site). The fine-grain specification SpecFine splits every call into its sync.Map Load / LoadOrStore and atomic Add/Store/Load steps and TLC interleaves two threads (3 calls in quick, 6 in thorough) checking the same invariants plus GetLinearizable. Finally 4 goroutines issue random calls incl. Register on one real MultiMetrics under -race and the quiescent values must equal the schedule-independent totals.",
    level_note="Exhaustive only within the bound (values <= 3, up-down within -1..1, 2 gauge/store values; 2 threads and <= 6 calls for the interleavings). The interleaved sub-steps are model-checked on the specification only (the real sub-steps have no hooks); the real code is exercised concurrently by the gotest stage whose oracle is the quiescent total plus per-reader monotonicity, not a linearizability check. A metric name has one fixed type; a name that is both Store()d and registered, Count with a negative argument and the Prometheus/OTel children are outside the property. Get answering ok=false is read as 0.",
    assumptions=["a metric name is used with one metric type only", "bounded: counters <= 3, up-down in -1..1, 2 threads x <= 6 calls"],
    stages=[dict(kind="walk", module="Metrics", pkg="metrics", test="TestVerifC33Metrics", harness=["metrics/c33_metrics_test.go"],
                 cfg={"quick": "MC_Metrics.cfg", "thorough": "MC_Metrics_big.cfg"}, budget={"quick": 40, "thorough": 300}),
            dict(kind="walk", name="MetricsSampler", module="Metrics", pkg="sample", test="TestVerifC33Sampler", harness=["sample/c33_sampler_test.go"],
                 cfg={"quick": "MC_Metrics_sampler.cfg", "thorough": "MC_Metrics_sampler.cfg"}, budget={"quick": 20, "thorough": 60}),
            dict(kind="tlc", name="MetricsFine", module="Metrics", cfg={"quick": "MC_Metrics_fine.cfg", "thorough": "MC_Metrics_fine_big.cfg"}, workers=8),
            dict(kind="gotest", name="MetricsConcurrent", pkg="metrics", test="TestVerifC33Concurrent",
                 harness=["metrics/c33_concurrent_test.go"], race=True)],
)

import os, sys  # noqa: E402
sys.path.insert(0, os.path.dirname(os.path.dirname(os.path.abspath(__file__))))
import extstages  # noqa: E402
# coverage extension CX5 (lib/ext/CX5.py, spec/ind/): UNBOUNDED safety of Metrics.tla - an inductive invariant for a typed companion module, discharged
# by TLAPS (arbitrary constants) and Apalache (symbolic integers), with a TLC check on the bounded models that the companion's transition relation
# and properties are this module's. A proof obligation that fails or times out is a weak invariant or a tool limit, never an observation of the
# code: the stages are advisory (logged, kept in the evidence, never decide).
PROP["stages"] += extstages.pick("CX5", ["Metrics-ref", "Metrics-tlaps", "Metrics-apalache"], advisory=True, tiers=("thorough",))
