//go:build verif

package generics

import (
	"math/rand"
	"os"
	"strconv"
	"testing"
	"time"

	"github.com/honeycombio/refinery/internal/verifkit"
	"github.com/jonboulle/clockwork"
)

// TestVerifTTLTrace is the B2 driver for spec/TraceTTL.tla: seeded random
// operation sequences on the real objects, one logged line per operation.
func TestVerifTTLTrace(t *testing.T) {
	tw, err := verifkit.NewTraceWriter(os.Getenv("VERIF_TRACE_OUT"))
	if err != nil {
		t.Fatal(err)
	}
	seed, _ := strconv.ParseInt(os.Getenv("VERIF_SEED"), 10, 64)
	rng := rand.New(rand.NewSource(seed))
	ntraces := 40
	if os.Getenv("VERIF_TIER") == "thorough" {
		ntraces = 400
	}
	items := []string{"a", "b", "c"}
	for n := 0; n < ntraces; n++ {
		clock := clockwork.NewFakeClock()
		t0 := clock.Now()
		set := NewSetWithTTL[string](2 * time.Second)
		set.Clock = clock
		m := NewMapWithTTL[string, int](2*time.Second, nil)
		m.Clock = clock
		tw.Reset(nil)
		obs := func(f map[string]any) map[string]any {
			contains, get := []string{}, []string{}
			for _, i := range items {
				if set.Contains(i) {
					contains = append(contains, i)
				}
				if _, ok := m.Get(i); ok {
					get = append(get, i)
				}
			}
			f["contains"] = contains
			f["get"] = get
			f["members"] = set.Members()
			f["keys"] = m.SortedKeys()
			f["length"] = set.Length()
			f["maplength"] = m.Length()
			f["now"] = int(clock.Now().Sub(t0) / time.Second)
			return f
		}
		for k := 0; k < 30; k++ {
			i := items[rng.Intn(len(items))]
			switch rng.Intn(5) {
			case 0, 1:
				v := 1 + rng.Intn(3)
				set.Add(i)
				m.Set(i, v)
				tw.Emit("Add", obs(map[string]any{"i": i, "v": v}))
			case 2:
				set.Remove(i)
				m.Delete(i)
				tw.Emit("Remove", obs(map[string]any{"i": i}))
			case 3:
				d := 1 + rng.Intn(2)
				clock.Advance(time.Duration(d) * time.Second)
				tw.Emit("Advance", obs(map[string]any{"d": d}))
			case 4:
				q := []string{"Members", "Length", "Keys", "Values", "SortedValues"}[rng.Intn(5)]
				switch q {
				case "Members":
					set.Members()
				case "Length":
					m.Length()
				case "Keys":
					m.Keys()
				case "Values":
					m.Values()
				case "SortedValues":
					m.SortedValues()
				}
				tw.Emit("Query", obs(map[string]any{"q": q}))
			}
		}
	}
	if err := tw.Close(); err != nil {
		t.Fatal(err)
	}
	verifkit.WriteJSON(os.Getenv("VERIF_OUT"), map[string]any{"traces": tw.Traces, "events": tw.Events})
}
