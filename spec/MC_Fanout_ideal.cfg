SPECIFICATION Spec
CONSTANTS
  Vals = {1, 2, 3}
  MaxLen = 3
  Pars = {1, 2, 3}
  ChunkSizes = {1, 2, 3}
  Faithful = FALSE
INVARIANTS TypeOK Meaning NoIdleChunkWorkers
CHECK_DEADLOCK FALSE
