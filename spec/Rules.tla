------------------------------- MODULE Rules -------------------------------
(***************************************************************************)
(* The rules-based sampler (property C08): sample/rules.go and the typed   *)
(* matchers of config/sampler_config.go.                                   *)
(*                                                                         *)
(* This is a function-vector (B3) module: the DOCUMENTED semantics of a    *)
(* rules configuration (rules_conditions.md, rules.md) are transcribed as  *)
(* TLA+ operators over a small abstract typed value domain; Init           *)
(* enumerates (rule list, trace) vectors, the action Eval computes the     *)
(* documented outcome (matched rule, keep class, rate, who decided - the   *)
(* rule itself or ITS OWN downstream sampler - and the values in the       *)
(* sample key) into the state (EvalRev: the same for the trace with its    *)
(* spans in the opposite order).                                           *)
(* The Go harness builds every rule list as a real rules file, loads it    *)
(* through the real loader, builds the real trace and compares             *)
(* GetSampleRate with the outcome computed here.                           *)
(*                                                                         *)
(* The transcription is made from the documents, not from rules.go.  Where *)
(* the documents are silent or ambiguous about a combination the vector is *)
(* NOT enumerated (predicates WellFormed / PairDefined / VecDefined); the  *)
(* list of exclusions is in the comments of those predicates.              *)
(*                                                                         *)
(* Known deviation of the code (Faithful = TRUE adds a second successor):  *)
(* the string-coerced matchers ignore `exists`, an absent field is         *)
(* stringified to "<nil>" and can match.  Documents: "If the field is not  *)
(* present, then the condition will not match."                            *)
(***************************************************************************)
EXTENDS Integers, Sequences, FiniteSets, TLC, Json

CONSTANTS Mode,      \* "single" | "pair" | "list" | "mix" | "ds" | "all" : which families of vectors Init enumerates
          Big,       \* FALSE: quick bound, TRUE: thorough bound
          PairScopes,\* Mode "pair": the rule scopes enumerated (a subset of {"trace", "span"})
          Faithful   \* TRUE: the graph also contains the known deviation successors

VARIABLES vec,       \* the input vector [rules |-> Seq(rule), trace |-> trace]
          out,       \* the outcome; rule = -1 while not evaluated
          act

vars == <<vec, out, act>>

---------------------------------------------------------------------------
(* Abstract typed values.  One record shape for all kinds so that sets of  *)
(* values are homogeneous.  Numbers are kept in tenths (n = 10 * value) so *)
(* that 1.5 is representable: I(10) has n = 100, F(15) is the float 1.5.   *)

Absent == [k |-> "abs",  s |-> "", n |-> 0, b |-> FALSE]
NoVal  == [k |-> "none", s |-> "", n |-> 0, b |-> FALSE]  \* no Value key in the condition
ListV  == [k |-> "list", s |-> "", n |-> 0, b |-> FALSE]  \* Value is the list in c.list
S(x) == [k |-> "s", s |-> x,  n |-> 0,      b |-> FALSE]
I(x) == [k |-> "i", s |-> "", n |-> 10 * x, b |-> FALSE]
F(t) == [k |-> "f", s |-> "", n |-> t,      b |-> FALSE]  \* t in tenths
B(x) == [k |-> "b", s |-> "", n |-> 0,      b |-> x]

(* Strings are atomic in TLC: the character sequences and the byte order   *)
(* of the characters of the (small) string universe are tables.            *)
Chars == ("" :> <<>>) @@ ("a" :> <<"a">>) @@ ("ab" :> <<"a", "b">>) @@ ("b" :> <<"b">>)
      @@ ("10" :> <<"1", "0">>) @@ ("2" :> <<"2">>) @@ ("1" :> <<"1">>) @@ ("0" :> <<"0">>)
      @@ ("-1" :> <<"-", "1">>) @@ ("1.5" :> <<"1", ".", "5">>)
      @@ ("true" :> <<"t", "r", "u", "e">>) @@ ("false" :> <<"f", "a", "l", "s", "e">>)
      @@ ("<nil>" :> <<"<", "n", "i", "l", ">">>)
Ord == ("-" :> 45) @@ ("." :> 46) @@ ("0" :> 48) @@ ("1" :> 49) @@ ("2" :> 50) @@ ("5" :> 53)
    @@ ("<" :> 60) @@ (">" :> 62) @@ ("a" :> 97) @@ ("b" :> 98) @@ ("e" :> 101) @@ ("f" :> 102)
    @@ ("i" :> 105) @@ ("l" :> 108) @@ ("n" :> 110) @@ ("r" :> 114) @@ ("s" :> 115)
    @@ ("t" :> 116) @@ ("u" :> 117)
Digits == {"0", "1", "2", "5"}

RECURSIVE LexCmp(_, _)
LexCmp(a, b) ==   \* -1 / 0 / 1, byte-wise lexicographic ("2" > "10")
  IF a = <<>> THEN (IF b = <<>> THEN 0 ELSE -1)
  ELSE IF b = <<>> THEN 1
  ELSE IF Ord[Head(a)] < Ord[Head(b)] THEN -1
  ELSE IF Ord[Head(a)] > Ord[Head(b)] THEN 1
  ELSE LexCmp(Tail(a), Tail(b))

IsPrefix(p, s) == Len(p) <= Len(s) /\ SubSeq(s, 1, Len(p)) = p
HasSub(sub, s) == \E i \in 0 .. (Len(s) - Len(sub)) : SubSeq(s, i + 1, i + Len(sub)) = sub

(* The three regular expressions used with `matches` and their meaning.   *)
Regexes == {"^a", "^[0-9]+$", ".*"}
RegexMatch(re, s) ==
  CASE re = "^a" -> Len(s) > 0 /\ s[1] = "a"
    [] re = "^[0-9]+$" -> Len(s) > 0 /\ \A i \in 1 .. Len(s) : s[i] \in Digits
    [] re = ".*" -> TRUE

(* "Values are always coerced to strings": decimal integers, 1.5 -> "1.5", *)
(* true -> "true".  The documents do not say how an integral float (2.0)   *)
(* is written, so HasStr excludes it.                                      *)
IntStr == (-10 :> "-1") @@ (0 :> "0") @@ (10 :> "1") @@ (20 :> "2") @@ (100 :> "10")
HasStr(v) == \/ v.k \in {"s", "b"}
             \/ v.k = "i" /\ v.n \in DOMAIN IntStr
             \/ v.k = "f" /\ v.n = 15
Str(v) == CASE v.k = "s" -> v.s
            [] v.k = "i" -> IntStr[v.n]
            [] v.k = "f" -> "1.5"
            [] v.k = "b" -> IF v.b THEN "true" ELSE "false"

StrNum == ("10" :> 100) @@ ("2" :> 20) @@ ("1" :> 10) @@ ("0" :> 0) @@ ("-1" :> -10) @@ ("1.5" :> 15)
IntLooking == {"10", "2", "1", "0", "-1"}

(* Conversions "to the specified format".  st = "ok" (n is the result),    *)
(* "err" (documented: "Errors in conversion will result in the comparison  *)
(* evaluating to false") or "undoc" (the documents do not say).            *)
Conv(st, n) == [st |-> st, n |-> n]
ToInt(v) ==
  CASE v.k = "i" -> Conv("ok", v.n)
    [] v.k = "f" -> IF v.n >= 0 THEN Conv("ok", (v.n \div 10) * 10)   \* "1.5 gets converted to 1"
                    ELSE Conv("undoc", 0)                             \* truncation or floor?
    [] v.k = "s" -> IF v.s \in IntLooking THEN Conv("ok", StrNum[v.s])
                    ELSE IF v.s \in DOMAIN StrNum THEN Conv("undoc", 0)  \* "1.5" as an int?
                    ELSE Conv("err", 0)
    [] OTHER -> Conv("undoc", 0)                                      \* booleans as numbers
ToFloat(v) ==
  CASE v.k \in {"i", "f"} -> Conv("ok", v.n)
    [] v.k = "s" -> IF v.s \in DOMAIN StrNum THEN Conv("ok", StrNum[v.s]) ELSE Conv("err", 0)
    [] OTHER -> Conv("undoc", 0)
ToNum(dt, v) == IF dt = "int" THEN ToInt(v) ELSE ToFloat(v)
(* "Span values ... interpret true/false and 1/0 as boolean, and all other *)
(* values are considered to be false."                                     *)
SpanBool(v) ==
  CASE v.k = "b" -> v.b
    [] v.k = "i" -> v.n = 10
    [] v.k = "s" -> v.s \in {"true", "1"}
    [] OTHER -> FALSE

---------------------------------------------------------------------------
(* Conditions, rules, traces.                                              *)
(*   field : [r |-> BOOLEAN (root. prefix), n |-> name]                    *)
(*   cond  : [fields |-> Seq(field), fk |-> "Field"|"Fields"|"", op, dt,   *)
(*            val |-> value, list |-> Seq(value)]                          *)
(*   rule  : [scope |-> "trace"|"span"|"" , conds |-> Seq(cond),           *)
(*            drop |-> BOOLEAN, rate |-> Nat (0: no SampleRate key),       *)
(*            name |-> the rule's Name: "" = no Name key (Name is optional *)
(*                     and need not be unique), "#" = named by position    *)
(*                     ("r1", "r2", ...: unique), else the literal name,   *)
(*            down |-> the rule's own downstream sampler (Sampler key):    *)
(*                     [kind |-> "none" | "det" | "dyn" | "ema" | "total" |*)
(*                               "emat" | "win",                           *)
(*                      rate |-> SampleRate / GoalSampleRate /             *)
(*                               GoalThroughputPerSec of THAT sampler,     *)
(*                      fl   |-> its FieldList (key fields)]]              *)
(*   span  : [f |-> value, g |-> value]      (Absent: field not on span)   *)
(*   trace : [spans |-> Seq(span), root |-> index of the root span or 0,   *)
(*            hb |-> hash bucket of the trace ID: the position of          *)
(*                   hash(traceID) in 0 .. MaxUint32 cut into HK equal     *)
(*                   parts (what a deterministic sampler looks at)]        *)

CmpOps == {"=", "!=", "<", "<=", ">", ">="}
StrOps == {"starts-with", "contains", "does-not-contain"}
DTs    == {"none", "string", "int", "float", "bool"}
NumDesc == "?.NUM_DESCENDANTS"

Fld(n)  == [r |-> FALSE, n |-> n]
RFld(n) == [r |-> TRUE,  n |-> n]
Cond(fields, fk, op, dt, val, list) ==
  [fields |-> fields, fk |-> fk, op |-> op, dt |-> dt, val |-> val, list |-> list]
C1(fields, op, dt, val) == Cond(fields, IF Len(fields) = 1 THEN "Field" ELSE "Fields", op, dt, val, <<>>)
HasRoot(b) == Cond(<<>>, "", "has-root-span", "none", B(b), <<>>)
Down(kind, rate, fl) == [kind |-> kind, rate |-> rate, fl |-> fl]
NoDown     == Down("none", 0, <<>>)
Det(n)     == Down("det", n, <<>>)      \* DeterministicSampler {SampleRate n}
Dyn(n, fl) == Down("dyn", n, fl)        \* DynamicSampler {SampleRate n, FieldList fl}
Ema(n, fl) == Down("ema", n, fl)        \* EMADynamicSampler {GoalSampleRate n, FieldList fl}
Tot(n, fl) == Down("total", n, fl)      \* TotalThroughputSampler {GoalThroughputPerSec n, FieldList fl}
EmT(n, fl) == Down("emat", n, fl)       \* EMAThroughputSampler {GoalThroughputPerSec n, FieldList fl}
Win(n, fl) == Down("win", n, fl)        \* WindowedThroughputSampler {GoalThroughputPerSec n, FieldList fl}
KeyedKinds == {"dyn", "ema", "total", "emat", "win"}    \* the kinds that build a sample key
NRule(name, scope, conds, drop, rate, down) ==
  [scope |-> scope, conds |-> conds, drop |-> drop, rate |-> rate, name |-> name, down |-> down]
\* the rules of the older families: named by position; ds = a downstream DynamicSampler {SampleRate 1, FieldList [f]}
Rule(scope, conds, drop, rate, ds) ==
  NRule("#", scope, conds, drop, rate, IF ds THEN Dyn(1, <<"f">>) ELSE NoDown)

CmpRes(op, d) ==
  CASE op = "="  -> d = 0  [] op = "!=" -> d # 0
    [] op = "<"  -> d < 0  [] op = "<=" -> d <= 0
    [] op = ">"  -> d > 0  [] op = ">=" -> d >= 0
Sign(x) == IF x < 0 THEN -1 ELSE IF x > 0 THEN 1 ELSE 0

(* Is the condition itself something the documents give a meaning to?      *)
WellFormed(c) ==
  CASE c.op \in CmpOps ->
         (CASE c.dt = "string" -> HasStr(c.val)
            [] c.dt = "int"    -> c.val.k \in {"i", "f", "s"} /\ ToInt(c.val).st = "ok"
            [] c.dt = "float"  -> c.val.k \in {"i", "f", "s"} /\ ToFloat(c.val).st = "ok"
            [] c.dt = "bool"   -> c.val.k = "b" /\ c.op \in {"=", "!="}   \* no order on booleans documented
            [] c.dt = "none"   -> c.val.k \in {"s", "i", "f", "b"})
    [] c.op \in StrOps -> c.val.k \in {"s", "i", "f", "b"} /\ HasStr(c.val)
    [] c.op = "matches" -> c.val.k = "s" /\ c.val.s \in Regexes
    [] c.op \in {"in", "not-in"} ->      \* "The Value parameter should be a list of items"
         /\ c.val.k = "list" /\ Len(c.list) > 0
         /\ \A i \in 1 .. Len(c.list) : c.list[i].k = c.list[1].k
         /\ (CASE c.dt = "string" -> \A i \in 1 .. Len(c.list) : HasStr(c.list[i])
               [] c.dt \in {"int", "float"} -> \A i \in 1 .. Len(c.list) : ToNum(c.dt, c.list[i]).st = "ok"
               [] c.dt = "none" -> c.list[1].k \in {"s", "i", "f"}
               [] OTHER -> FALSE)           \* lists of booleans: not documented
    [] c.op \in {"exists", "not-exists"} -> TRUE   \* "Both the Value and the Datatype parameters are ignored"
    [] c.op = "has-root-span" -> c.val.k = "b" /\ c.fields = <<>>

(* Is the outcome of the well-formed condition on the PRESENT value v      *)
(* documented?  Exclusions:                                                *)
(*  - no Datatype and values of different kinds (string field against a    *)
(*    numeric Value, numeric field against a string Value, ...);           *)
(*  - no Datatype, integer field against a non-integral float Value ("it   *)
(*    attempts to convert the Value parameter to the same type": 1.5 -> 1  *)
(*    or a float comparison?);                                             *)
(*  - order comparisons of booleans;                                       *)
(*  - Datatype int/float against a boolean field, Datatype int against a   *)
(*    float-looking string or a negative non-integer;                      *)
(*  - string coercion of an integral float (2.0: "2" or "2.0"?);           *)
(*  - not-in with Datatype int/float on an unconvertible field (is "the    *)
(*    comparison evaluating to false" the membership or the condition?).   *)
PairDefined(c, v) ==
  CASE c.op \in CmpOps ->
         (CASE c.dt = "string" -> HasStr(v)
            [] c.dt \in {"int", "float"} -> ToNum(c.dt, v).st # "undoc"
            [] c.dt = "bool" -> ~(v.k = "f" /\ v.n \in {0, 10})
            [] c.dt = "none" ->
                 \/ v.k = "s" /\ c.val.k = "s"
                 \/ v.k = "b" /\ c.val.k = "b" /\ c.op \in {"=", "!="}
                 \/ /\ v.k \in {"i", "f"} /\ c.val.k \in {"i", "f"}
                    /\ ~(v.k = "i" /\ c.val.k = "f" /\ c.val.n % 10 # 0))
    [] c.op \in StrOps \cup {"matches"} -> HasStr(v)
    [] c.op \in {"in", "not-in"} ->
         (CASE c.dt = "string" -> HasStr(v)
            [] c.dt \in {"int", "float"} ->
                 IF c.op = "in" THEN ToNum(c.dt, v).st # "undoc" ELSE ToNum(c.dt, v).st = "ok"
            [] c.dt = "none" -> v.k = c.list[1].k)
    [] OTHER -> TRUE

(* Documented outcome of a condition on a present value.                   *)
MatchPresent(c, v) ==
  CASE c.op = "exists" -> TRUE
    [] c.op = "not-exists" -> FALSE
    [] c.op \in CmpOps ->
         (CASE c.dt = "string" -> CmpRes(c.op, LexCmp(Chars[Str(v)], Chars[Str(c.val)]))
            [] c.dt \in {"int", "float"} ->
                 (LET a == ToNum(c.dt, v) IN a.st = "ok" /\ CmpRes(c.op, Sign(a.n - ToNum(c.dt, c.val).n)))
            [] c.dt = "bool" -> CmpRes(c.op, IF SpanBool(v) = c.val.b THEN 0 ELSE 1)
            [] c.dt = "none" ->
                 (CASE v.k = "s" -> CmpRes(c.op, LexCmp(Chars[v.s], Chars[c.val.s]))
                    [] v.k = "b" -> CmpRes(c.op, IF v.b = c.val.b THEN 0 ELSE 1)
                    [] OTHER -> CmpRes(c.op, Sign(v.n - c.val.n))))
    [] c.op = "starts-with" -> IsPrefix(Chars[Str(c.val)], Chars[Str(v)])
    [] c.op = "contains" -> HasSub(Chars[Str(c.val)], Chars[Str(v)])
    [] c.op = "does-not-contain" -> ~HasSub(Chars[Str(c.val)], Chars[Str(v)])
    [] c.op = "matches" -> RegexMatch(c.val.s, Chars[Str(v)])
    [] c.op \in {"in", "not-in"} ->
         (LET member ==
                (CASE c.dt = "string" -> \E i \in 1 .. Len(c.list) : Str(c.list[i]) = Str(v)
                   [] c.dt \in {"int", "float"} ->
                        (LET a == ToNum(c.dt, v)
                         IN a.st = "ok" /\ \E i \in 1 .. Len(c.list) : ToNum(c.dt, c.list[i]).n = a.n)
                   [] c.dt = "none" -> \E i \in 1 .. Len(c.list) : c.list[i] = v)
          IN IF c.op = "in" THEN member ELSE ~member)

(* What the code does with an ABSENT field in the string-coerced matchers: *)
(* it compares the text "<nil>".  dev = TRUE selects this reading.         *)
DevProne(c) ==
  \/ c.op \in CmpOps /\ c.dt = "string"
  \/ c.op \in StrOps \cup {"matches"}
  \/ c.op \in {"in", "not-in"}
NilChars == Chars["<nil>"]
MatchAbsentDev(c) ==
  CASE c.op \in CmpOps -> CmpRes(c.op, LexCmp(NilChars, Chars[Str(c.val)]))
    [] c.op = "starts-with" -> IsPrefix(Chars[Str(c.val)], NilChars)
    [] c.op = "contains" -> HasSub(Chars[Str(c.val)], NilChars)
    [] c.op = "does-not-contain" -> ~HasSub(Chars[Str(c.val)], NilChars)
    [] c.op = "matches" -> RegexMatch(c.val.s, NilChars)
    [] c.op = "in" -> c.dt \in {"string", "none"} /\ \E i \in 1 .. Len(c.list) : HasStr(c.list[i]) /\ Str(c.list[i]) = "<nil>"
    [] c.op = "not-in" -> ~(c.dt \in {"string", "none"} /\ \E i \in 1 .. Len(c.list) : HasStr(c.list[i]) /\ Str(c.list[i]) = "<nil>")

(* "If the field is not present, then the condition will not match";       *)
(* not-exists is the one operator that matches an absent field.            *)
MatchV(c, v, dev) ==
  IF v.k = "abs"
  THEN IF dev /\ DevProne(c) THEN MatchAbsentDev(c) ELSE c.op = "not-exists"
  ELSE MatchPresent(c, v)

(* Field / Fields / root. / ?.NUM_DESCENDANTS *)
GetF(sp, n) == IF n = "f" THEN sp.f ELSE IF n = "g" THEN sp.g ELSE Absent
FieldVal(fld, sp, tr) ==
  IF fld.r THEN (IF tr.root = 0 THEN Absent      \* "that field will be skipped"
                 ELSE GetF(tr.spans[tr.root], fld.n))
  ELSE GetF(sp, fld.n)
RECURSIVE FirstPresent(_, _, _, _)
FirstPresent(fs, i, sp, tr) ==         \* "The first field that exists on any given span is used"
  IF i > Len(fs) THEN Absent
  ELSE LET v == FieldVal(fs[i], sp, tr)
       IN IF v.k # "abs" THEN v ELSE FirstPresent(fs, i + 1, sp, tr)
Extract(c, sp, tr) ==
  IF c.fields = <<>> THEN Absent
  ELSE IF c.fields[1].n = NumDesc THEN I(Len(tr.spans))   \* number of spans currently in the trace
  ELSE FirstPresent(c.fields, 1, sp, tr)

CondOnSpan(c, sp, tr, dev) == MatchV(c, Extract(c, sp, tr), dev)

(* Scope trace: each condition by some span, independently.  Scope span:   *)
(* all conditions on one span; has-root-span there makes the rule "fail    *)
(* evaluation and be skipped".  No conditions: always matches.             *)
RuleMatches(r, tr, dev) ==
  IF r.scope = "span"
  THEN \/ Len(r.conds) = 0
       \/ \E i \in 1 .. Len(tr.spans) : \A j \in 1 .. Len(r.conds) :
             /\ r.conds[j].op # "has-root-span"
             /\ CondOnSpan(r.conds[j], tr.spans[i], tr, dev)
  ELSE \A j \in 1 .. Len(r.conds) :
         IF r.conds[j].op = "has-root-span"
         THEN (tr.root # 0) = r.conds[j].val.b
         ELSE \E i \in 1 .. Len(tr.spans) : CondOnSpan(r.conds[j], tr.spans[i], tr, dev)

(* "Rules are evaluated in order, and the first rule that matches" decides;*)
(* a) downstream sampler, b) Drop, c) SampleRate; no match: kept at 1.     *)
(* rate = -1 means "not compared" (the documents give no rate to a drop).  *)
(*                                                                         *)
(* "A rule with a downstream sampler delegates to it": the decision, the   *)
(* rate, the reason and the sample key are those of the MATCHED rule's OWN *)
(* downstream sampler (the one configured under that rule's Sampler key),  *)
(* whatever the other rules of the list are called or delegate to:         *)
(*  - via    : who decided - "none" (no rule matched), "rule" (the rule's   *)
(*             Drop / SampleRate) or the kind of the rule's own sampler;   *)
(*  - a deterministic sampler with SampleRate N keeps exactly the traces   *)
(*    whose hash(traceID) <= MaxUint32 / N, at rate N; N <= 1 keeps all at *)
(*    rate 1.  With the hash range cut into HK equal buckets and N | HK    *)
(*    that is: bucket * N < HK;                                            *)
(*  - the keyed kinds report the sample key built from their OWN FieldList;*)
(*    keySet is the set of values that key is made of.  Their keep flag is *)
(*    random and their rate depends on traffic, except that a dynamic      *)
(*    sampler with SampleRate 1 keeps everything at rate 1 (assumption).   *)
HK == 6
DetRates == {n \in 1 .. HK : HK % n = 0}
DetKeep(n, hb) == n <= 1 \/ hb * n < HK
KeyVals(fl, tr) ==
  {Str(GetF(tr.spans[i], fl[k])) : <<i, k>> \in {p \in (1 .. Len(tr.spans)) \X (1 .. Len(fl)) :
                                                  GetF(tr.spans[p[1]], fl[p[2]]).k # "abs"}}
Outcome(rule, class, rate, via, ks) == [rule |-> rule, class |-> class, rate |-> rate, via |-> via, keySet |-> ks]
Unevaluated == Outcome(-1, "none", -1, "", {})
Decide(i, r, tr) ==
  CASE r.down.kind = "det" ->
         IF r.down.rate <= 1 THEN Outcome(i, "keep", 1, "det", {})
         ELSE Outcome(i, IF DetKeep(r.down.rate, tr.hb) THEN "keep" ELSE "drop", r.down.rate, "det", {})
    [] r.down.kind = "dyn" ->
         IF r.down.rate = 1 THEN Outcome(i, "keep", 1, "dyn", KeyVals(r.down.fl, tr))
         ELSE Outcome(i, "sampled", -1, "dyn", KeyVals(r.down.fl, tr))
    [] r.down.kind \in KeyedKinds \ {"dyn"} -> Outcome(i, "sampled", -1, r.down.kind, KeyVals(r.down.fl, tr))
    [] OTHER ->
         IF r.drop THEN Outcome(i, "drop", -1, "rule", {})
         ELSE IF r.rate = 1 THEN Outcome(i, "keep", 1, "rule", {})
         ELSE Outcome(i, "sampled", r.rate, "rule", {})
Matching(v, dev) == {i \in 1 .. Len(v.rules) : RuleMatches(v.rules[i], v.trace, dev)}
Min(s) == CHOOSE x \in s : \A y \in s : x <= y
EvalVec(v, dev) ==
  LET m == Matching(v, dev)
  IN IF m = {} THEN Outcome(0, "keep", 1, "none", {}) ELSE Decide(Min(m), v.rules[Min(m)], v.trace)

(* What a caller of GetSampleRate can tell about WHICH rule decided: the   *)
(* reason carries the scope word, the rule's Name and (after a colon) the  *)
(* downstream sampler's own reason.  Rules that agree on all three are not *)
(* told apart by the reason, so the projection names the first of them;    *)
(* with unique names that is the rule itself.                              *)
ScopeWord(r) == IF r.scope = "span" THEN "span" ELSE "trace"
\* (a rule named by position, "#", is called r<position>: no other rule has that name)
SameName(v, i, j) == IF v.rules[i].name = "#" \/ v.rules[j].name = "#" THEN i = j ELSE v.rules[i].name = v.rules[j].name
SameLook(v, i, j) == /\ SameName(v, i, j)
                     /\ ScopeWord(v.rules[i]) = ScopeWord(v.rules[j])
                     /\ v.rules[i].down.kind = v.rules[j].down.kind
ObsRule(v, i) == IF i <= 0 THEN i
                 ELSE IF v.rules[i].name = "#" THEN i
                 ELSE Min({j \in 1 .. Len(v.rules) : SameLook(v, i, j)})
(* How much of the answer of a rule is compared (see Decide): everything,  *)
(* not the rate (drop rule), not the keep flag, neither.                   *)
Compared(r) == CASE r.down.kind \in {"det", "dyn"} -> "exact"
                 [] r.down.kind # "none" -> "key"
                 [] r.drop -> "norate"
                 [] r.rate = 1 -> "exact"
                 [] OTHER -> "nokeep"

(* The vector is enumerated only if every condition is well formed and     *)
(* every (condition, extracted value) pair has a documented outcome.       *)
(* Also excluded: not-exists on a root.-prefixed field in a trace without  *)
(* root span (rules.md says it "will evaluate to false", while the Fields  *)
(* paragraph says the field "will be skipped").                            *)
(* Also excluded: a rule without downstream sampler, Drop and SampleRate;  *)
(* a deterministic downstream sampler whose rate does not divide HK (the   *)
(* bucket would not decide it); a dynamic one with SampleRate > 1 (its     *)
(* rate depends on traffic and wall-clock time); key fields whose values   *)
(* have no documented string form; rule lists in which two rules that the  *)
(* reason cannot tell apart (SameLook) are compared differently (the       *)
(* observer could not know which comparison applies).                      *)
VecDefined(v) ==
  /\ \A i, j \in 1 .. Len(v.rules) : (i < j /\ SameLook(v, i, j)) => Compared(v.rules[i]) = Compared(v.rules[j])
  /\ v.trace.hb \in 0 .. HK - 1
  /\ \A i \in 1 .. Len(v.rules) :
    LET r == v.rules[i] IN
    /\ r.down.kind # "none" \/ r.drop \/ r.rate >= 1
    /\ r.down.kind = "det" => r.down.rate \in DetRates
    /\ r.down.kind = "dyn" => r.down.rate = 1
    /\ r.down.kind \in KeyedKinds =>
         \A k \in 1 .. Len(r.down.fl) : \A sp \in 1 .. Len(v.trace.spans) :
            LET x == GetF(v.trace.spans[sp], r.down.fl[k]) IN x.k = "abs" \/ (HasStr(x) /\ Str(x) # "")
    /\ \A j \in 1 .. Len(r.conds) :
         LET c == r.conds[j] IN
         /\ WellFormed(c)
         /\ c.op = "has-root-span" \/
            \A k \in 1 .. Len(v.trace.spans) :
              LET x == Extract(c, v.trace.spans[k], v.trace) IN x.k = "abs" \/ PairDefined(c, x)
         /\ ~(c.op = "not-exists" /\ v.trace.root = 0 /\ \E k \in 1 .. Len(c.fields) : c.fields[k].r)

(* Name of the deviation a vector exercises: the first condition (rule     *)
(* order, condition order) that matches an absent field under the code's   *)
(* reading.  Datatype is part of the name only where the code looks at it. *)
DevKey(c) == "absent:" \o c.op \o "/" \o (IF c.op \in CmpOps \cup {"in", "not-in"} THEN c.dt ELSE "any")
DevHits(v) ==
  {<<i, j>> \in (1 .. Len(v.rules)) \X (1 .. 4) :
     /\ j <= Len(v.rules[i].conds)
     /\ LET c == v.rules[i].conds[j] IN
        /\ c.op # "has-root-span" /\ DevProne(c) /\ MatchAbsentDev(c)
        /\ \E k \in 1 .. Len(v.trace.spans) : Extract(c, v.trace.spans[k], v.trace).k = "abs"}
DevName(v) ==
  LET h == DevHits(v)
      p == CHOOSE x \in h : \A y \in h : x[1] < y[1] \/ (x[1] = y[1] /\ x[2] <= y[2])
  IN DevKey(v.rules[p[1]].conds[p[2]])

---------------------------------------------------------------------------
(* The enumerated families.                                                *)

SVsmall == {Absent, S(""), S("a"), S("ab"), S("b"), S("10"), S("2"), S("1.5"), S("true"), S("false"),
            S("1"), S("0"), I(-1), I(0), I(1), I(2), I(10), F(15), F(20), B(TRUE), B(FALSE)}
CVall == {S(""), S("a"), S("ab"), S("10"), S("2"), S("1.5"), S("true"),
          I(0), I(1), I(2), I(10), F(15), F(20), B(TRUE), B(FALSE)}
CVstr == {S(""), S("a"), S("ab"), S("b"), S("1"), S("10"), S("true"), I(1)}
Lists == {<<S("a"), S("10")>>, <<I(1), I(10)>>, <<F(15), F(20)>>}

FF == <<Fld("f")>>
\* (op, dt, val, list) of every single condition
SingleShapes ==
       {<<op, dt, cv, <<>> >> : op \in CmpOps, dt \in DTs, cv \in CVall}
  \cup {<<op, dt, cv, <<>> >> : op \in StrOps, dt \in DTs, cv \in CVstr}
  \cup {<<"matches", dt, S(re), <<>> >> : dt \in DTs, re \in Regexes}
  \cup {<<op, dt, ListV, l>> : op \in {"in", "not-in"}, dt \in DTs, l \in Lists}
  \cup {<<op, dt, cv, <<>> >> : op \in {"exists", "not-exists"}, dt \in DTs, cv \in {NoVal, S("a")}}

OneSpan(sv, root) == [spans |-> << [f |-> sv, g |-> Absent] >>, root |-> root, hb |-> 0]
SingleVecs ==
  LET scopes == IF Big THEN {"", "span"} ELSE {""}
      fks    == IF Big THEN {"Field", "Fields"} ELSE {"Field"}
  IN   {[rules |-> << Rule(sc, << Cond(FF, fk, sh[1], sh[2], sh[3], sh[4]) >>, TRUE, 0, FALSE) >>,
         trace |-> OneSpan(sv, 1)] : sc \in scopes, fk \in fks, sh \in SingleShapes, sv \in SVsmall}
  \cup {[rules |-> << Rule(sc, << HasRoot(b) >>, TRUE, 0, FALSE) >>, trace |-> OneSpan(S("a"), root)]
         : sc \in {"", "trace", "span"}, b \in BOOLEAN, root \in {0, 1}}
  \cup {[rules |-> << Rule(sc, << C1(<<Fld(NumDesc)>>, op, dt, I(n)) >>, TRUE, 0, FALSE) >>,
         trace |-> [spans |-> sps, root |-> 0, hb |-> 0]]
         : sc \in {"", "span"}, op \in CmpOps, dt \in {"int", "none"}, n \in {1, 2},
           sps \in {<< [f |-> S("a"), g |-> Absent] >>,
                    << [f |-> S("a"), g |-> Absent], [f |-> Absent, g |-> Absent] >>,
                    << [f |-> S("a"), g |-> Absent], [f |-> Absent, g |-> Absent], [f |-> S("b"), g |-> Absent] >>}}

\* two-condition rules over two-span traces
PairTemplates ==
  IF Big THEN {<<"=", "none", S("a")>>, <<"not-exists", "none", NoVal>>, <<"!=", "string", S("a")>>,
               <<"does-not-contain", "none", S("a")>>}
  ELSE {<<"=", "none", S("a")>>, <<"not-exists", "none", NoVal>>, <<"!=", "string", S("a")>>}
PairFields ==
  IF Big THEN {<<Fld("f")>>, <<RFld("f")>>, <<Fld("f"), Fld("g")>>, <<RFld("f"), Fld("g")>>, <<Fld("g"), RFld("f")>>}
  ELSE {<<Fld("f")>>, <<RFld("f")>>, <<Fld("f"), Fld("g")>>, <<RFld("f"), Fld("g")>>}
PairExtra == {HasRoot(TRUE), HasRoot(FALSE), C1(<<Fld(NumDesc)>>, "=", "int", I(2))}
PairConds == {C1(fs, t[1], t[2], t[3]) : fs \in PairFields, t \in PairTemplates} \cup PairExtra
\* the quick bound takes the second condition from a subset
PairConds2 ==
  IF Big THEN {C1(fs, t[1], t[2], t[3]) : fs \in {<<Fld("f")>>, <<RFld("f"), Fld("g")>>, <<Fld("g"), RFld("f")>>}, t \in PairTemplates}
              \cup PairExtra
  ELSE {C1(<<Fld("f")>>, t[1], t[2], t[3]) : t \in PairTemplates}
       \cup {HasRoot(TRUE), C1(<<Fld(NumDesc)>>, "=", "int", I(2))}
PairSpans == {[f |-> a, g |-> b] : a \in {Absent, S("a"), S("b")}, b \in {Absent, S("a")}}
PairSpans2 == IF Big THEN PairSpans ELSE {sp \in PairSpans : sp.g = Absent}
PairVecs ==
  {[rules |-> << Rule(sc, <<c1, c2>>, TRUE, 0, FALSE) >>,
    trace |-> [spans |-> <<s1, s2>>, root |-> root, hb |-> 0]]
     : sc \in PairScopes, c1 \in PairConds, c2 \in PairConds2,
       s1 \in PairSpans, s2 \in PairSpans2, root \in (IF Big THEN {0, 1, 2} ELSE {0, 1})}

\* rule lists: order, drop / SampleRate / downstream, default
ListConds ==
  {<<>>, << C1(FF, "=", "none", S("a")) >>, << C1(FF, "!=", "string", S("a")) >>}
  \cup (IF Big THEN {<< C1(FF, "exists", "none", NoVal) >>, << C1(FF, "not-exists", "none", NoVal) >>,
                     << C1(FF, "=", "none", S("b")), HasRoot(TRUE) >>} ELSE {})
\* <<drop, rate, ds>>
ListActions == {<<TRUE, 0, FALSE>>, <<TRUE, 5, FALSE>>, <<FALSE, 1, FALSE>>, <<FALSE, 3, FALSE>>,
                <<FALSE, 0, TRUE>>, <<TRUE, 5, TRUE>>}
ListRules == {Rule(sc, cs, a[1], a[2], a[3]) : sc \in {"", "span"},
                                               cs \in ListConds, a \in ListActions}
ListTraces == {OneSpan(sv, root) : sv \in {Absent, S("a"), S("b")}, root \in (IF Big THEN {0, 1} ELSE {1})}
ListVecs ==
  {[rules |-> rs, trace |-> tr] : rs \in {<<>>} \cup {<<r>> : r \in ListRules} \cup {<<r1, r2>> : r1 \in ListRules, r2 \in ListRules},
                                  tr \in ListTraces}

(* Fields lists that mix a plain and a root.-prefixed name, in both orders,  *)
(* over traces of three spans (the root and two children, the root arriving *)
(* first, second or - through EvalRev - last) in which the field is absent, *)
(* matching ("a") or non-matching ("b") on every span independently; the    *)
(* root may also carry g.  Both scopes; alone or followed by a second       *)
(* condition.  "The first field that exists on any given span is used": a   *)
(* span without the plain field falls back to the root's value, a span that *)
(* has it uses its own.                                                     *)
MixFields == {<<Fld("f"), RFld("f")>>, <<RFld("f"), Fld("f")>>, <<Fld("f"), RFld("g")>>, <<RFld("g"), Fld("f")>>}
MixTemplates ==
  {<<"=", "none", S("a")>>, <<"not-exists", "none", NoVal>>, <<"!=", "string", S("a")>>}
  \cup (IF Big THEN {<<"exists", "none", NoVal>>, <<"does-not-contain", "none", S("a")>>} ELSE {})
MixConds == {C1(fs, t[1], t[2], t[3]) : fs \in MixFields, t \in MixTemplates}
MixCondSeqs == {<<c>> : c \in MixConds}
               \cup (IF Big THEN {<<c, C1(<<Fld("f")>>, "exists", "none", NoVal)>> : c \in MixConds} ELSE {})
MixVals == {Absent, S("a"), S("b")}
MixVecs ==
  {[rules |-> << Rule(sc, cs, TRUE, 0, FALSE) >>,
    trace |-> [spans |-> [i \in 1 .. 3 |-> [f |-> fv[i], g |-> IF i = root THEN rg ELSE Absent]], root |-> root, hb |-> 0]]
     : sc \in {"trace", "span"}, cs \in MixCondSeqs, fv \in [1 .. 3 -> MixVals],
       rg \in (IF Big THEN MixVals ELSE {Absent, S("a")}), root \in (IF Big THEN {1, 2, 3} ELSE {1, 2})}

(* Rules that delegate to their OWN downstream sampler, several of them in *)
(* one rule list, independently: without Name or with the same Name (Name  *)
(* is optional and not checked for uniqueness), the same scope, the same   *)
(* number of conditions, the same or different kinds of downstream sampler *)
(* whose parameters (SampleRate, FieldList) differ or not; mixed with      *)
(* plain Drop / SampleRate rules (also ones that carry a SampleRate next   *)
(* to the Sampler: the Sampler wins).  The conditions select which rule    *)
(* matches (f = "a" / f = "b" / f exists); g carries a value no f has, so  *)
(* the sample keys of FieldList [f] and [g] differ; the hash bucket of the *)
(* trace ID ranges over the buckets that tell the deterministic rates      *)
(* apart.                                                                  *)
DsConds == {<< C1(FF, "=", "none", S("a")) >>, << C1(FF, "=", "none", S("b")) >>}
DsNames == {"", "n"}
DsDowns ==
  IF Big THEN {Det(1), Det(2), Det(3), Det(6), Dyn(1, <<"f">>), Dyn(1, <<"g">>), Ema(2, <<"f">>), Ema(2, <<"g">>),
               Tot(5, <<"f">>), Tot(5, <<"g">>), EmT(5, <<"f">>), EmT(5, <<"g">>), Win(5, <<"f">>), Win(5, <<"g">>)}
  ELSE {Det(1), Det(3), Dyn(1, <<"f">>), Dyn(1, <<"g">>)}
\* <<drop, rate, down>>
DsActions == {<<FALSE, 1, NoDown>>, <<TRUE, 0, NoDown>>} \cup {<<FALSE, 0, d>> : d \in DsDowns}
             \cup (IF Big THEN {<<FALSE, 3, NoDown>>, <<FALSE, 5, Det(2)>>, <<TRUE, 0, Det(3)>>} ELSE {})
\* Scope span is enumerated for unnamed rules only
DsActions3 == {a \in DsActions : a[3].kind \notin {"emat", "win"} /\ ~(a[3].kind # "none" /\ (a[1] \/ a[2] > 0))}
DsRules(sc) == {NRule(nm, sc, cs, a[1], a[2], a[3]) : nm \in (IF sc = "span" THEN {""} ELSE DsNames), cs \in DsConds, a \in DsActions}
\* bucket 0: every rate keeps; 2: rates 1, 2 keep, rates 3, 6 drop; 5: only rate 1 keeps
DsBuckets == IF Big THEN {2, 5} ELSE {0, 5}
DsTraces == {[spans |-> << [f |-> fv, g |-> S("ab")] >>, root |-> 1, hb |-> h] : fv \in {S("a"), S("b")}, h \in DsBuckets}
\* three rules, f = "a" / f = "b" / f exists, one Name for all; the third catches f = "ab"
DsTriples ==
  {<<NRule(nm, sc, << C1(FF, "=", "none", S("a")) >>, a1[1], a1[2], a1[3]),
     NRule(nm, sc, << C1(FF, "=", "none", S("b")) >>, a2[1], a2[2], a2[3]),
     NRule(nm, sc, << C1(FF, "exists", "none", NoVal) >>, a3[1], a3[2], a3[3])>>
     : nm \in DsNames, sc \in {""},
       a1 \in DsActions3, a2 \in DsActions3, a3 \in {a \in DsActions3 : a[3].kind \in {"none", "det", "dyn"} /\ a[3].rate <= 2 /\ a[2] <= 1}}
DsTripleTraces == {[spans |-> << [f |-> fv, g |-> S("ab")] >>, root |-> 1, hb |-> h]
                      : fv \in {S("a"), S("b"), S("ab")}, h \in (IF Big THEN {2} ELSE {5})}
DsPairVecs ==
  UNION {{[rules |-> <<r1, r2>>, trace |-> tr] : r1 \in DsRules(sc), r2 \in DsRules(sc), tr \in DsTraces}
         : sc \in (IF Big THEN {"", "span"} ELSE {""})}
DsTripleVecs == {[rules |-> rs, trace |-> tr] : rs \in DsTriples, tr \in DsTripleTraces}

Vecs == CASE Mode = "single" -> SingleVecs
          [] Mode = "pair"   -> PairVecs
          [] Mode = "list"   -> ListVecs
          [] Mode = "mix"    -> MixVecs
          [] Mode = "ds"     -> DsPairVecs \cup DsTripleVecs
          [] Mode = "all"    -> SingleVecs \cup PairVecs \cup ListVecs \cup MixVecs \cup DsPairVecs \cup DsTripleVecs

---------------------------------------------------------------------------
Init == /\ vec \in {v \in Vecs : VecDefined(v)}
        /\ out = Unevaluated
        /\ act = [name |-> "Init"]

\* RulesBasedSampler.GetSampleRate(trace), documented outcome
Eval(ideal) ==
        /\ out = Unevaluated
        /\ out' = ideal
        /\ UNCHANGED vec
        /\ act' = [name |-> "Eval"]

\* the same call as the code is known to answer it (absent field read as "<nil>")
EvalDev(ideal, coded) ==
           /\ Faithful
           /\ out = Unevaluated
           /\ coded # ideal
           /\ out' = coded
           /\ UNCHANGED vec
           /\ act' = [name |-> "Eval", dev |-> DevName(vec)]

(* The same call on the same trace whose spans arrived in the opposite      *)
(* order.  The documented semantics ("any span", "a single span") do not    *)
(* depend on the order of the spans, so the outcome is the same.            *)
EvalRev(ideal) ==
        /\ out = Unevaluated
        /\ Len(vec.trace.spans) > 1
        /\ out' = ideal
        /\ UNCHANGED vec
        /\ act' = [name |-> "EvalRev"]

EvalRevDev(ideal, coded) ==
           /\ Faithful
           /\ out = Unevaluated
           /\ Len(vec.trace.spans) > 1
           /\ coded # ideal
           /\ out' = coded
           /\ UNCHANGED vec
           /\ act' = [name |-> "EvalRev", dev |-> DevName(vec)]

Next == LET ideal == EvalVec(vec, FALSE)
            coded == EvalVec(vec, TRUE)
        IN \/ Eval(ideal) \/ EvalDev(ideal, coded)
           \/ EvalRev(ideal) \/ EvalRevDev(ideal, coded)

Spec == Init /\ [][Next]_vars

---------------------------------------------------------------------------
Ideal == "dev" \notin DOMAIN act
Evaluated == out.rule >= 0

TypeOK == /\ out.rule \in -1 .. Len(vec.rules)
          /\ out.class \in {"none", "keep", "drop", "sampled"}
          /\ out.rate \in {-1} \cup 1 .. HK
          /\ out.via \in {"", "none", "rule", "det"} \cup KeyedKinds
          /\ out.keySet \subseteq {"a", "b", "ab"}

\* C08: the first rule, in configuration order, whose conditions all match decides
FirstMatch ==
  (Evaluated /\ Ideal) =>
     /\ out.rule > 0 => RuleMatches(vec.rules[out.rule], vec.trace, FALSE)
     /\ \A i \in 1 .. Len(vec.rules) : RuleMatches(vec.rules[i], vec.trace, FALSE) => out.rule \in 1 .. i
     /\ out.rule = 0 => out.class = "keep" /\ out.rate = 1 /\ out.via = "none"

\* C08: drop / downstream / SampleRate
Decision ==
  (Evaluated /\ Ideal /\ out.rule > 0) =>
     LET r == vec.rules[out.rule]
         ds == r.down.kind # "none" IN
     /\ (r.down = Dyn(1, <<"f">>)) => out.class = "keep" /\ out.rate = 1
     /\ (~ds /\ r.drop) => out.class = "drop"
     /\ (~ds /\ ~r.drop) => out.rate = r.rate /\ (out.class = "keep" <=> r.rate = 1)
     /\ ds <=> out.via # "rule"

\* C08: "a rule with a downstream sampler delegates to it" - to ITS OWN: who decided, the deterministic
\* threshold and rate, and the fields of the sample key are those configured under the matched rule
Delegation ==
  (Evaluated /\ Ideal /\ out.rule > 0 /\ vec.rules[out.rule].down.kind # "none") =>
     LET d == vec.rules[out.rule].down IN
     /\ out.via = d.kind
     /\ d.kind = "det" => /\ out.rate = (IF d.rate <= 1 THEN 1 ELSE d.rate)
                          /\ out.class \in {"keep", "drop"}
                          /\ (out.class = "keep") <=> (d.rate <= 1 \/ vec.trace.hb * d.rate < HK)
     /\ d.kind \in KeyedKinds =>
          /\ \A x \in out.keySet : \E i \in 1 .. Len(vec.trace.spans), k \in 1 .. Len(d.fl) :
                 LET y == GetF(vec.trace.spans[i], d.fl[k]) IN y.k # "abs" /\ Str(y) = x
          /\ \A i \in 1 .. Len(vec.trace.spans), k \in 1 .. Len(d.fl) :
                 LET y == GetF(vec.trace.spans[i], d.fl[k]) IN y.k = "abs" \/ Str(y) \in out.keySet
     /\ d.kind \notin KeyedKinds => out.keySet = {}

\* C08, the same as non-interference: the answer for a trace depends only on the rule that matched -
\* not on what the OTHER rules of the list delegate to, nor on how any rule is called
\* (vacuous for a single rule; checked on the rule lists)
ProbeDowns == {NoDown, Det(2), Dyn(1, <<"g">>)}
OwnSampler ==
  (~Evaluated /\ Len(vec.rules) > 1) =>
     LET o == EvalVec(vec, FALSE) IN
     \A j \in 1 .. Len(vec.rules) :
        /\ \A nm \in {"", "#"} \ {vec.rules[j].name} : EvalVec([vec EXCEPT !.rules[j].name = nm], FALSE) = o
        /\ \A d \in ProbeDowns :
             LET v2 == [vec EXCEPT !.rules[j].down = d]
                 o2 == EvalVec(v2, FALSE)
             IN o2.rule = o.rule /\ (j # o.rule => o2 = o)

\* a deterministic sampler: what is kept at rate N * k is kept at rate N; rate 1 keeps everything
ASSUME \A hb \in 0 .. HK - 1 : \A n \in DetRates, m \in DetRates :
          /\ DetKeep(1, hb)
          /\ (m % n = 0 /\ DetKeep(m, hb)) => DetKeep(n, hb)
\* and exactly HK / N of the HK buckets are kept at rate N
ASSUME \A n \in DetRates : Cardinality({hb \in 0 .. HK - 1 : DetKeep(n, hb)}) * n = HK

\* C08: "a condition on a field absent from every span does not match unless its operator is not-exists"
FieldOf(c, sp, tr) == \E k \in 1 .. Len(c.fields) : c.fields[k].n = NumDesc \/ FieldVal(c.fields[k], sp, tr).k # "abs"
AbsentNeverMatches ==
  (Evaluated /\ Ideal /\ out.rule > 0) =>
     \A j \in 1 .. Len(vec.rules[out.rule].conds) :
        LET c == vec.rules[out.rule].conds[j] IN
        c.op \in {"not-exists", "has-root-span"} \/ \E k \in 1 .. Len(vec.trace.spans) : FieldOf(c, vec.trace.spans[k], vec.trace)

\* sanity of the transcription: a rule that matches with Scope span also matches with Scope trace
SpanImpliesTrace ==
  ~Evaluated =>
  \A i \in 1 .. Len(vec.rules) :
     LET r == vec.rules[i] IN
     (r.scope = "span" /\ RuleMatches(r, vec.trace, FALSE)) => RuleMatches([r EXCEPT !.scope = "trace"], vec.trace, FALSE)

\* the deviation successor only ever differs because of an absent field read by a string-coerced matcher
DevOnlyOnAbsent == (Evaluated /\ ~Ideal) => DevHits(vec) # {}

(* Duality of the negative operators on present values where the documents *)
(* define both (checked once, over the whole single-condition domain).     *)
Dual(opp, opn) ==
  \A sh \in SingleShapes : \A v \in SVsmall \ {Absent} :
     LET cp == Cond(FF, "Field", opp, sh[2], sh[3], sh[4])
         cn == Cond(FF, "Field", opn, sh[2], sh[3], sh[4])
     IN (sh[1] = opp /\ WellFormed(cp) /\ WellFormed(cn) /\ PairDefined(cp, v) /\ PairDefined(cn, v))
          => (MatchPresent(cp, v) = ~MatchPresent(cn, v))
ASSUME Dual("contains", "does-not-contain")
ASSUME Dual("in", "not-in")

---------------------------------------------------------------------------
(* What is dumped for the harness: the vector with every value written as  *)
(* a short label ("abs", "s:ab", "i:100", "f:15" (tenths), "b:true") and   *)
(* every field as its name in the rules file ("root.f").                   *)
Lab(v) == CASE v.k \in {"abs", "none", "list"} -> v.k
            [] v.k = "s" -> "s:" \o v.s
            [] v.k \in {"i", "f"} -> v.k \o ":" \o ToString(v.n)
            [] v.k = "b" -> IF v.b THEN "b:true" ELSE "b:false"
JCond(c) == [fields |-> [i \in 1 .. Len(c.fields) |-> (IF c.fields[i].r THEN "root." ELSE "") \o c.fields[i].n],
             fk |-> c.fk, op |-> c.op, dt |-> c.dt, val |-> Lab(c.val),
             list |-> [i \in 1 .. Len(c.list) |-> Lab(c.list[i])]]
JRule(r) == [scope |-> r.scope, conds |-> [j \in 1 .. Len(r.conds) |-> JCond(r.conds[j])],
             drop |-> r.drop, rate |-> r.rate, name |-> r.name, down |-> r.down]
JVec(v) == [rules |-> [i \in 1 .. Len(v.rules) |-> JRule(v.rules[i])],
            trace |-> [spans |-> [i \in 1 .. Len(v.trace.spans) |-> [f |-> Lab(v.trace.spans[i].f), g |-> Lab(v.trace.spans[i].g)]],
                       root |-> v.trace.root, hb |-> v.trace.hb]]

(* The observable projection: the rule is named as far as the reason tells *)
(* (ObsRule); everything else is the outcome.                              *)
Abs == [out |-> [out EXCEPT !.rule = ObsRule(vec, out.rule)]]
St == [vec |-> JVec(vec), out |-> out]
Dump == PrintT(ToJson([fs |-> St, fa |-> act.name, act |-> act', ts |-> St', fabs |-> Abs, tabs |-> Abs']))
View == <<vec, out>>
=============================================================================
