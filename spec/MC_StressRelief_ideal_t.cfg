\* C15 pure model checking of the ideal specification (Faithful = FALSE: no deviation edge; both hold variants), thorough bound
SPECIFICATION Spec
CONSTANTS
  Peers = {"p1", "p2"}
  LocalLevels = {0, 40, 75, 100}
  PeerLevels = {0, 40, 100}
  Sources = {"incoming"}
  ModeNames = {"never", "monitor", "always"}
  Thresholds <- ThTwo
  MinDurs = {0, 2}
  Timeout = 2
  AdvSteps = {1, 3}
  HoldStrict = TRUE
  ExpiryClosed = TRUE
  HoldBy = "either"
  Faithful = FALSE
INVARIANTS TypeOK LevelBounded
PROPERTIES LevelFormula OnlyRecalcSwitches OnOnlyIfReached OnWhenReached OffOnlyAfterHold ModePins
VIEW View
