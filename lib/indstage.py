"""Stage kind "ind": unbounded safety by inductive invariants (coverage extension CX5).

A stage names a module of spec/ind/ and a tool:

  dict(kind="ind", name="TTL-apalache", tool="apalache", module="TTLIndApa", cinit="ConstInit",
       obligations=[dict(name="init", init="Init", inv="IndInv", length=0),
                    dict(name="step", init="IndInit", inv="IndInv", length=1), ...],
       timeout=600, jobs=3)
      every obligation is one `apalache-mc check --cinit=.. --init=.. --inv=.. --length=..` run; an obligation with
      length 1 from IndInit is the induction step (or a one-step action property), length 0 from IndInit is
      "IndInv => P", length 0 from Init is the base case.  An obligation with expect="Error" is a non-vacuity probe: Apalache
      MUST find a counterexample (e.g. to "Kind # \"stress\"" from IndInit), which shows that the hypotheses are satisfiable for
      that convention (a --cinit predicate that mentions `C = v` anywhere silently binds the constant C in Apalache 0.58).
  dict(kind="ind", name="TTL-tlaps", tool="tlaps", module="TTLIndProofs", timeout=600, threads=16)
      `tlapm` must report "All N obligations proved".
  dict(kind="ind", name="TTL-ref", tool="tlc", module="TTLIndRef", cfg=["MC_TTLIndRef_closed.cfg", ...], workers=4)
      the TLC tie between the typed companion and the original module (spec/ and spec/ind/ are both staged;
      lib/stages.py stage_tlc only stages spec/).

Verdict rules: nothing here observes the real code, so a stage of this kind never appends to ctx.violations.
A tool failure, a time-out, an unproved obligation and also a counterexample to induction are CannotDecide: a CTI
is a state Apalache made up that satisfies the candidate invariant; unless it is reachable it only says the
invariant is too weak (our bug), and if it is reachable the bounded TLC stages of the host property report it.
"""
import concurrent.futures
import os
import re
import shutil
import subprocess
import time

import vlib
from vlib import CannotDecide, log

IND = os.path.join(vlib.SPEC, "ind")


def _tier_val(v, tier):
    if isinstance(v, dict) and ("quick" in v or "thorough" in v):
        return v.get(tier, v.get("quick"))
    return v


def _stage(wd):
    vlib.stage_specs(wd)
    for f in os.listdir(IND):
        if f.endswith((".tla", ".cfg")):
            shutil.copy(os.path.join(IND, f), wd)


def _run(cmd, wd, timeout, env=None):
    t0 = time.time()
    e = dict(os.environ)
    e.update(env or {})
    try:
        p = subprocess.run(["timeout", "-k", "10", str(timeout)] + cmd, cwd=wd, stdout=subprocess.PIPE, stderr=subprocess.STDOUT,
                           text=True, errors="replace", env=e)
    except OSError as x:
        raise CannotDecide(f"cannot run {cmd[0]}: {x}")
    return p.returncode, p.stdout, time.time() - t0


def _apalache_one(st, ob, wd, timeout):
    out = os.path.join(wd, "apa-" + ob["name"])
    cmd = ["apalache-mc", "check", f"--init={ob['init']}", f"--inv={ob['inv']}", f"--length={ob['length']}",
           "--no-deadlock", f"--out-dir={out}"]
    cinit = ob.get("cinit", st.get("cinit"))
    if cinit:
        cmd.append(f"--cinit={cinit}")
    if ob.get("next", st.get("next")):
        cmd.append(f"--next={ob.get('next', st.get('next'))}")
    cmd.append(st["module"] + ".tla")
    rc, txt, wall = _run(cmd, wd, timeout, env={"JVM_ARGS": st.get("jvm", "-Xmx4g")})
    outcome = None
    m = re.search(r"The outcome is: (\w+)", txt)
    if m:
        outcome = m.group(1)
    cti = None
    if outcome == "Error" or rc == 12:
        for root, _, files in os.walk(out):
            if "violation1.tla" in files or "violation.tla" in files:
                with open(os.path.join(root, "violation1.tla" if "violation1.tla" in files else "violation.tla"), errors="replace") as fh:
                    cti = fh.read()[-3000:]
                break
    return dict(name=ob["name"], init=ob["init"], inv=ob["inv"], length=ob["length"], rc=rc, outcome=outcome, wall_s=round(wall, 1),
                expect=ob.get("expect", "NoError"), cti=cti, tail="\n".join(txt.splitlines()[-25:]))


def _apalache(ctx, st, name, wd, timeout):
    obs = st["obligations"]
    with concurrent.futures.ThreadPoolExecutor(max_workers=st.get("jobs", 3)) as ex:
        res = list(ex.map(lambda ob: _apalache_one(st, ob, wd, timeout), obs))
    for r in res:
        log(f"[{ctx.prop}] apalache {st['module']} {r['name']}: --init={r['init']} --inv={r['inv']} --length={r['length']}: {r['outcome']} "
            f"(expected {r['expect']}) rc={r['rc']} {r['wall_s']}s")
    ctx.extra.setdefault("ind_runs", []).append(dict(stage=name, tool="apalache", module=st["module"],
                                                     obligations=[{k: r[k] for k in ("name", "init", "inv", "length", "outcome", "expect", "wall_s")} for r in res]))
    for r in res:
        if r["rc"] == 124 or r["rc"] == 137:
            raise CannotDecide(f"apalache stalled on {st['module']} obligation {r['name']} (time-out {timeout}s)")
        if r["expect"] == "Error":
            if r["outcome"] == "Error" and r["rc"] == 12:
                continue
            raise CannotDecide(f"apalache: non-vacuity probe {r['name']} of {st['module']} found no witness (outcome {r['outcome']}, rc={r['rc']}): "
                               f"the hypotheses of the induction are unsatisfiable for that case, the other obligations prove nothing about it\n{r['tail']}")
        if r["outcome"] == "Error" or r["rc"] == 12:
            raise CannotDecide(f"apalache: counterexample to {st['module']} obligation {r['name']} (--init={r['init']} --inv={r['inv']} --length={r['length']}); "
                               f"a CTI is not a verdict about the code: the candidate invariant is too weak or the companion module is wrong\n{r['cti'] or r['tail']}")
        if r["outcome"] != "NoError" or r["rc"] != 0:
            raise CannotDecide(f"apalache failed on {st['module']} obligation {r['name']}: rc={r['rc']}\n{r['tail']}")


def _tlaps(ctx, st, name, wd, timeout):
    """tlapm from a clean fingerprint cache; backend time-outs are per obligation (5-30 s) and the machine is shared, so they are
    stretched, and obligations that still fail are retried once (the cache keeps what was proved) with doubled time-outs."""
    stretch = st.get("stretch", 3)
    t0 = time.time()
    rc, txt, m = None, "", None
    for attempt in range(1 + st.get("retries", 1)):
        cmd = ["tlapm", "--threads", str(st.get("threads", 16)), "--stretch", str(stretch * (attempt + 1))]
        if attempt == 0:
            cmd.append("--cleanfp")
        cmd.append(st["module"] + ".tla")
        left = timeout - (time.time() - t0)
        if left < 30:
            break
        rc, txt, _ = _run(cmd, wd, int(left))
        m = re.search(r"All (\d+) obligations? proved", txt)
        if (rc == 0 and m) or rc in (124, 137):
            break
        log(f"[{ctx.prop}] tlapm {st['module']}: attempt {attempt + 1} left obligations unproved (rc={rc}), retrying those with longer backend time-outs")
    wall = time.time() - t0
    n = int(m.group(1)) if m else 0
    log(f"[{ctx.prop}] tlapm {st['module']}: rc={rc} obligations proved={n if m else 'NOT ALL'} {wall:.1f}s")
    ctx.extra.setdefault("ind_runs", []).append(dict(stage=name, tool="tlaps", module=st["module"], proved=n, all_proved=bool(m), wall_s=round(wall, 1)))
    if rc in (124, 137):
        raise CannotDecide(f"tlapm stalled on {st['module']} (time-out {timeout}s)")
    if rc != 0 or not m:
        bad = [ln for ln in txt.splitlines() if ln.startswith("File ") or "obligations failed" in ln]
        raise CannotDecide(f"tlapm did not prove every obligation of {st['module']}: rc={rc}\n" + "\n".join(bad[:20] or txt.splitlines()[-20:]))


def _tlc(ctx, st, name, wd, timeout):
    cfgs = _tier_val(st["cfg"], ctx.tier)
    if not cfgs:
        return
    for cfg in ([cfgs] if isinstance(cfgs, str) else cfgs):
        r = vlib.run_tlc(st["module"], cfg, wd, workers=st.get("workers", 4), timeout=timeout, extra=st.get("extra"))
        if not r["ok"]:
            raise CannotDecide(f"TLC did not accept {st['module']}/{cfg} (tie between the typed companion and the original module): rc={r['rc']}\n" + "\n".join(r["tail"][-40:]))
        log(f"[{ctx.prop}] TLC {st['module']}/{cfg}: {r['generated']} generated, {r['distinct']} distinct, {r['wall_s']:.1f}s")
        ctx.states += r["distinct"] or 0
        ctx.tlc_generated += r["generated"] or 0
        ctx.transitions += r["generated"] or 0
        ctx.extra.setdefault("tlc_runs", []).append(dict(module=st["module"], cfg=cfg, generated=r["generated"], distinct=r["distinct"], wall_s=round(r["wall_s"], 2)))


def stage_ind(ctx, st):
    name = st.get("name", st["module"])
    tool = st.get("tool", "apalache")
    timeout = _tier_val(st.get("timeout", 600), ctx.tier)
    wd = vlib.scratch(f"{ctx.prop}-{name}-ind")
    try:
        _stage(wd)
        if tool == "apalache":
            _apalache(ctx, st, name, wd, timeout)
        elif tool == "tlaps":
            _tlaps(ctx, st, name, wd, timeout)
        elif tool == "tlc":
            _tlc(ctx, st, name, wd, timeout)
        else:
            raise CannotDecide(f"unknown tool {tool} in stage {name}")
    finally:
        shutil.rmtree(wd, ignore_errors=True)
