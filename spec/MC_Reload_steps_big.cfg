SPECIFICATION Spec
CONSTANTS
  CContents = {"A", "B", "Bw", "Br", "X", "U"}
  RContents = {"A", "B", "X"}
  Procs = {"timer", "pubsub"}
  Listeners = {"l1", "l2"}
  InitListeners = {"l1"}
  MaxWrites = 3
  Atomic = FALSE
  Exclusive = FALSE
  Serialized = TRUE
  Faithful = FALSE
INVARIANTS TypeOK AcceptedRunning NotifiedOncePerChange LockOK
PROPERTY NoDoubleApply NoRegress FreshAtReturn OnlyReloadApplies
VIEW StepView
