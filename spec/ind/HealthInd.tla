------------------------------ MODULE HealthInd ------------------------------
(***************************************************************************)
(* Typed companion of spec/Health.tla (property C30) for unbounded proofs: *)
(* ANY ticker period Tick >= 1, ANY positive timeouts (TLC: Tick 2 | 5,    *)
(* timeouts 3..17), any number of subsystems, both values of Exact.        *)
(*                                                                         *)
(* Same variables, constants and actions as Health.tla (bodies copied;     *)
(* `act`, UnitMs and the St/Abs/Dump plumbing are gone; Observe is written *)
(* as a predicate on the new answers instead of membership in a set of     *)
(* answers, MaxTimeout is a constant characterised in ConstOK instead of a *)
(* CHOOSE).  spec/ind/HealthIndRef.tla has TLC check on the bounded models *)
(* of MC_Health_{exact,loose,mc}.cfg that Health!Next and Next are the     *)
(* same relation on the reachable states and that the restated properties  *)
(* are the original ones.                                                  *)
(*                                                                         *)
(* The C30 invariants of Health.tla are NOT inductive: they relate the     *)
(* code's countdown timeLeft to the ghost silence clock sil only through   *)
(* the two threshold predicates.  IndInv adds the exact real-time relation *)
(* (see Window below).                                                     *)
(***************************************************************************)
EXTENDS Integers, FiniteSets

CONSTANTS
  \* @type: Set(SUB);
  Subs1,
  \* @type: Set(Int);
  Timeouts1,
  \* @type: Set(SUB);
  Subs2,
  \* @type: Set(Int);
  Timeouts2,
  \* @type: Int;
  Tick,
  \* @type: Bool;
  Exact,
  \* @type: Int;
  MaxTimeout     \* Health.tla: CHOOSE t \in Timeouts : \A u \in Timeouts : u <= t

VARIABLES
  \* @type: SUB -> Str;
  status,
  \* @type: SUB -> Int;
  timeout,
  \* @type: SUB -> Int;
  timeLeft,
  \* @type: SUB -> Bool;
  readyFlag,
  \* @type: Int;
  phase,
  \* @type: Bool;
  pending,
  \* @type: SUB -> Int;
  sil,
  \* @type: SUB -> Str;
  decl,
  \* @type: Bool;
  obsAlive,
  \* @type: Bool;
  obsReady

vars == <<status, timeout, timeLeft, readyFlag, phase, pending, sil, decl, obsAlive, obsReady>>

Max(a, b) == IF a >= b THEN a ELSE b
Min(a, b) == IF a <= b THEN a ELSE b
Subs == Subs1 \cup Subs2
TimeoutsOf(s) == IF s \in Subs1 THEN Timeouts1 ELSE Timeouts2
Timeouts == UNION {TimeoutsOf(s) : s \in Subs}

ConstOK == /\ Tick \in Int /\ Tick >= 1
           /\ Exact \in BOOLEAN
           /\ \A t \in Timeouts1 \cup Timeouts2 : t \in Int /\ t >= 1
           /\ MaxTimeout \in Int /\ MaxTimeout >= 0
           /\ \A u \in Timeouts : u <= MaxTimeout

Registered == {s \in Subs : status[s] = "reg"}

CodeAlive == \A s \in Registered : timeLeft[s] # 0

CodeReady == /\ \E s \in Subs : status[s] # "never"
             /\ \A s \in Registered : timeLeft[s] > 0
             /\ \A s \in Subs : status[s] # "never" => readyFlag[s]

Punctual(s) == sil[s] < timeout[s] - Tick
Overdue(s)  == decl[s] # "none" /\ sil[s] > timeout[s] + Tick

MustAlive == \A s \in Registered : Punctual(s)
MustDead  == \E s \in Registered : Overdue(s)

ReadyNecessary == /\ Registered # {}
                  /\ \A s \in Registered : decl[s] = "ready"
                  /\ \A s \in Subs : status[s] # "unreg"
MustReady == ReadyNecessary /\ \A s \in Registered : Punctual(s)

\* b \in AliveAnswers / b \in ReadyAnswers of Health.tla
AliveAnswerOK(b) == IF Exact THEN b = CodeAlive
                    ELSE (MustAlive => b) /\ (MustDead => ~b)
ReadyAnswerOK(b) == IF Exact THEN b = CodeReady
                    ELSE (b => ReadyNecessary) /\ (MustReady => b)

ObsOK == AliveAnswerOK(obsAlive) /\ ReadyAnswerOK(obsReady)

\* obsAlive' \in AliveAnswers' /\ obsReady' \in ReadyAnswers' of Health.tla
Observe == /\ obsAlive' \in BOOLEAN /\ obsReady' \in BOOLEAN
           /\ ObsOK'

SilCap(s) == IF decl[s] = "none" THEN Max(timeout[s] - Tick, 0) ELSE timeout[s] + Tick + 1

Init == /\ status = [s \in Subs |-> "never"]
        /\ timeout = [s \in Subs |-> 0]
        /\ timeLeft = [s \in Subs |-> -1]
        /\ readyFlag = [s \in Subs |-> FALSE]
        /\ phase = 0
        /\ pending = FALSE
        /\ sil = [s \in Subs |-> 0]
        /\ decl = [s \in Subs |-> "none"]
        /\ obsAlive = TRUE
        /\ obsReady = FALSE

Register(s, to) ==
  /\ status' = [status EXCEPT ![s] = "reg"]
  /\ timeout' = [timeout EXCEPT ![s] = to]
  /\ timeLeft' = [timeLeft EXCEPT ![s] = -1]
  /\ readyFlag' = [readyFlag EXCEPT ![s] = FALSE]
  /\ sil' = [sil EXCEPT ![s] = 0]
  /\ decl' = [decl EXCEPT ![s] = "none"]
  /\ UNCHANGED <<phase, pending>>
  /\ Observe

Unregister(s) ==
  /\ status' = [status EXCEPT ![s] = "unreg"]
  /\ timeout' = [timeout EXCEPT ![s] = 0]
  /\ timeLeft' = [timeLeft EXCEPT ![s] = -1]
  /\ readyFlag' = [readyFlag EXCEPT ![s] = FALSE]
  /\ sil' = [sil EXCEPT ![s] = 0]
  /\ decl' = [decl EXCEPT ![s] = "none"]
  /\ UNCHANGED <<phase, pending>>
  /\ Observe

Ready(s, r) ==
  /\ IF status[s] = "reg"
       THEN /\ readyFlag' = [readyFlag EXCEPT ![s] = r]
            /\ timeLeft' = [timeLeft EXCEPT ![s] = timeout[s]]
            /\ sil' = [sil EXCEPT ![s] = 0]
            /\ decl' = [decl EXCEPT ![s] = IF r THEN "ready" ELSE "notready"]
       ELSE UNCHANGED <<readyFlag, timeLeft, sil, decl>>
  /\ UNCHANGED <<status, timeout, phase, pending>>
  /\ Observe

Advance(d) ==
  /\ ~pending
  /\ phase + d <= Tick
  /\ phase' = (phase + d) % Tick
  /\ pending' = (phase + d = Tick)
  /\ sil' = [s \in Subs |-> IF status[s] = "reg" THEN Min(sil[s] + d, SilCap(s)) ELSE 0]
  /\ UNCHANGED <<status, timeout, timeLeft, readyFlag, decl>>
  /\ Observe

TickProc ==
  /\ pending
  /\ pending' = FALSE
  /\ timeLeft' = [s \in Subs |-> IF status[s] = "reg" /\ timeLeft[s] > 0
                                   THEN Max(timeLeft[s] - Tick, 0) ELSE timeLeft[s]]
  /\ UNCHANGED <<status, timeout, readyFlag, phase, sil, decl>>
  /\ Observe

Next == \/ \E s \in Subs : \E to \in TimeoutsOf(s) : Register(s, to)
        \/ \E s \in Subs : Unregister(s)
        \/ \E s \in Subs, r \in BOOLEAN : Ready(s, r)
        \/ \E d \in 1 .. Tick : Advance(d)
        \/ TickProc

Spec == Init /\ [][Next]_vars

----------------------------------------------------------------------------
(* the invariants of MC_Health_*.cfg, verbatim *)
TypeOK == /\ status \in [Subs -> {"never", "reg", "unreg"}]
          /\ timeout \in [Subs -> Timeouts \cup {0}]
          /\ timeLeft \in [Subs -> -1 .. MaxTimeout]
          /\ readyFlag \in [Subs -> BOOLEAN]
          /\ phase \in 0 .. (Tick - 1)
          /\ pending \in BOOLEAN
          /\ pending => phase = 0
          /\ sil \in [Subs -> 0 .. (MaxTimeout + Tick + 1)]
          /\ decl \in [Subs -> {"none", "ready", "notready"}]
          /\ obsAlive \in BOOLEAN /\ obsReady \in BOOLEAN

C30Alive == /\ MustAlive => obsAlive
            /\ MustDead => ~obsAlive

C30Ready == /\ obsReady => ReadyNecessary
            /\ MustReady => obsReady

CodeMatchesGhosts ==
  \A s \in Subs :
    /\ status[s] = "reg" => /\ (timeLeft[s] = -1) <=> (decl[s] = "none")
                            /\ readyFlag[s] <=> (decl[s] = "ready")
                            /\ Punctual(s) => timeLeft[s] # 0
                            /\ Overdue(s) => timeLeft[s] = 0
    /\ status[s] # "reg" => ~readyFlag[s] /\ decl[s] = "none"

CodeWithinStatement ==
  /\ MustAlive => CodeAlive
  /\ MustDead => ~CodeAlive
  /\ CodeReady => ReadyNecessary
  /\ MustReady => CodeReady

C30 == C30Alive /\ C30Ready /\ CodeMatchesGhosts /\ CodeWithinStatement
Safety == TypeOK /\ C30

\* Health!DeadUntilReport: `act'.name \in {"Ready","Register","Unregister"} /\ act'.s = s`
\* reads "the step is a Ready, Register or Unregister step of s"
DeadUntilReportStep ==
  \A s \in Subs : (s \in Registered /\ Overdue(s) /\ obsAlive')
        => \/ \E to \in TimeoutsOf(s) : Register(s, to)
           \/ Unregister(s)
           \/ \E r \in BOOLEAN : Ready(s, r)

----------------------------------------------------------------------------
(* The inductive invariant.                                                *)
(*                                                                         *)
(* Window(s): for a registered subsystem that has reported, with           *)
(* c = timeout - timeLeft the part of the countdown the ticker has already *)
(* taken away (a whole number of ticks), the ghost clock sil lies in a     *)
(* window of one tick around c that slides with the clock:                 *)
(*   tick pending:      c        <= sil <= c + Tick                        *)
(*   otherwise:    c - Tick + phase <= sil <= c + phase                    *)
(* and once the countdown has hit 0 only the lower ends remain (with       *)
(* c >= timeout).  sil saturates at SilCap, but every lower end is below   *)
(* the cap, so the cap never hides a violation.  The two thresholds of the *)
(* C30 statement (timeout -+ Tick) are exactly the ends of this window at  *)
(* timeLeft = 0 resp. timeLeft > 0.                                        *)
(***************************************************************************)
Window(s) ==
  IF timeLeft[s] > 0
    THEN LET c == timeout[s] - timeLeft[s] IN
         IF pending THEN c <= sil[s] /\ sil[s] <= c + Tick
                    ELSE c - Tick + phase <= sil[s] /\ sil[s] <= c + phase
    ELSE IF pending THEN timeout[s] <= sil[s]
                    ELSE timeout[s] - Tick + phase <= sil[s]

SubInv(s) ==
  /\ status[s] \in {"never", "reg", "unreg"}
  /\ decl[s] \in {"none", "ready", "notready"}
  /\ status[s] # "reg" =>
        /\ timeout[s] = 0 /\ timeLeft[s] = -1 /\ ~readyFlag[s] /\ sil[s] = 0 /\ decl[s] = "none"
  /\ status[s] = "reg" =>
        /\ timeout[s] \in TimeoutsOf(s)
        /\ decl[s] = "none" =>
              /\ timeLeft[s] = -1 /\ ~readyFlag[s]
              /\ 0 <= sil[s] /\ sil[s] <= Max(timeout[s] - Tick, 0)
        /\ decl[s] # "none" =>
              /\ readyFlag[s] <=> (decl[s] = "ready")
              /\ 0 <= timeLeft[s] /\ timeLeft[s] <= timeout[s]
              /\ 0 <= sil[s] /\ sil[s] <= timeout[s] + Tick + 1
              /\ Window(s)

IndInv ==
  /\ status \in [Subs -> {"never", "reg", "unreg"}] /\ timeout \in [Subs -> Int] /\ timeLeft \in [Subs -> Int]
  /\ readyFlag \in [Subs -> BOOLEAN] /\ sil \in [Subs -> Int] /\ decl \in [Subs -> {"none", "ready", "notready"}]
  /\ phase \in Int /\ 0 <= phase /\ phase < Tick
  /\ pending \in BOOLEAN /\ (pending => phase = 0)
  /\ obsAlive \in BOOLEAN /\ obsReady \in BOOLEAN
  /\ \A s \in Subs : SubInv(s)
  /\ ObsOK
=============================================================================
