"""C17 All nodes agree on which peer owns each trace."""

PROP = dict(
    level="model_checking",
    technique="TLA+ spec Sharding.tla (ownership as an uninterpreted function of the peer SET; routing with at most one hop) model-checked by TLC; every generated transition replayed into real DeterministicSharders and Routers, one per node, each seeing the peer list in its own order",
    design_ref="DESIGN.md section 5 C17",
    level_text="TLC enumerates every non-empty peer set over 3-4 addresses, every assignment of list orders (sorted/reversed/rotated) to the nodes and every sequence of spans entering any node, and checks OneOwner, AtMostOneHop and NoSelfForward on the model. Each transition is replayed on a real cluster-in-a-process (one real DeterministicSharder + incoming and peer Router per node; forwarded events are carried to the addressed node's peer listener): the number of distinct collectors holding each trace, the hop count, self-forwards and deliveries outside the set must equal the model's, and for a seeded stream of 300 trace IDs every node's sharder must name the same owner, which must be in the set.",
    level_note="The hash is not modelled: the spec fixes only that ownership is a function of the set and lies in it; the binding checks the real function has that shape on the enumerated peer sets (size 1..4, three list orders per node) and a seeded sample of trace IDs - not on all IDs. Membership is static within a run (the property's 'stably configured cluster').",
    assumptions=["every node sees the same set of peer addresses", "forwarded events reach the addressed node (no loss)"],
    stages=[dict(kind="walk", name="sharding", module="Sharding", pkg="route", test="TestVerifSharding", harness=["route/sharding_test.go"],
                 cfg={"quick": "MC_Sharding_q.cfg", "thorough": "MC_Sharding_big.cfg"}, budget={"quick": 30, "thorough": 300})],
)
