//go:build verif

package main

// Binding of spec/Convert.tla (property C38) to the real converter.
//
// The specification enumerates abstract v1 documents (a nested record, the
// file kind and the file format) together with the list of v2 observation
// keys ("watch") the property speaks about.  Reset renders the document with
// the TOML / YAML / JSON library the repo already depends on.  Convert runs the
// REAL converter: the test binary re-executes itself and the child calls the
// package's own main() with `convert config|rules|helm --input … --output …`
// (main calls os.Exit on every failure, which is why it runs in a child).  Load
// hands the produced file to the REAL v2 loader (config.NewConfig, validation
// on) and reads the effective values through the public Config getters.
//
// The outcome of a document depends on the document only, so a small pool of
// child processes computes the documents of the graph ahead of the walker, in
// the walker's own order (a conversion costs ~0.2 s of CPU, most of it process
// start-up and metadata parsing; a child therefore handles a few documents in a
// row and is replaced when the converter exits).  Apply(Convert) / Apply(Load)
// reveal the stored outcome one step at a time.

import (
	"bufio"
	"encoding/json"
	"fmt"
	"math/rand"
	"os"
	"os/exec"
	"path/filepath"
	"reflect"
	"runtime"
	"sort"
	"strconv"
	"strings"
	"sync"
	"sync/atomic"
	"testing"
	"time"

	"github.com/honeycombio/refinery/config"
	"github.com/honeycombio/refinery/internal/verifkit"
	"github.com/pelletier/go-toml/v2"
	"gopkg.in/yaml.v3"
)

const c38BatchEnv = "C38_CHILD_BATCH"
const c38Begin = "C38-BEGIN "
const c38Converted = "C38-CONVERTED"
const c38Marker = "C38-RESULT "
const c38BatchSize = 6

type c38LoadReq struct {
	File  string   `json:"file"`
	Out   string   `json:"out"`
	Dir   string   `json:"dir"`
	Watch []string `json:"watch"`
}

type c38LoadRes struct {
	Res  map[string]any `json:"res"`
	Diag string         `json:"diag"`
	Err  string         `json:"err"`
}

type c38ChildJob struct {
	ID   int        `json:"id"`
	Args []string   `json:"args"`
	Load c38LoadReq `json:"load"`
}

// TestVerifC38Child is the re-executed child.  For every document handed to it
// it runs the converter's real main() and, when main comes back (it calls
// os.Exit on every failure), lets Refinery's loader read the produced file.
func TestVerifC38Child(t *testing.T) {
	raw := os.Getenv(c38BatchEnv)
	if raw == "" {
		t.Skip("only meaningful as a child of TestVerifConvert")
	}
	var batch []c38ChildJob
	if err := json.Unmarshal([]byte(raw), &batch); err != nil {
		fmt.Fprintln(os.Stderr, "c38 child: bad args:", err)
		os.Exit(97)
	}
	for _, b := range batch {
		fmt.Printf("\n%s%d\n", c38Begin, b.ID)
		os.Args = append([]string{"convert"}, b.Args...)
		main()
		fmt.Printf("\n%s\n", c38Converted)
		lr := c38LoadRes{Res: map[string]any{"stage": "nofile"}}
		if st, err := os.Stat(b.Load.Out); err == nil && st.Size() > 0 {
			lr = c38Load(b.Load)
		}
		out, _ := json.Marshal(lr)
		fmt.Printf("\n%s%s\n", c38Marker, out)
	}
	os.Exit(0) // skip the testing package's own epilogue
}

// One job = one v1 document.
type c38Job struct {
	id      int
	init    map[string]any
	dir     string
	started bool
	done    chan struct{}
	conv    string
	res     map[string]any
	diagC   string
	diagL   string
	err     error
}

type c38Harness struct {
	root  string
	debug bool
	stop  atomic.Bool    // the walk is over: workers start no further child
	wg    sync.WaitGroup // running workers
	mu    sync.Mutex
	jobs  map[string]*c38Job
	n     int
	cur   *c38Job
	phase string
	conv  string
	res   map[string]any
	last  string // diagnostics of the last step (never part of the projection)
}

func c38JobKey(init map[string]any) string {
	return verifkit.Canon(map[string]any{"file": init["file"], "fmt": init["fmt"], "doc": init["doc"], "watch": init["watch"]})
}

func (h *c38Harness) job(init map[string]any) *c38Job {
	k := c38JobKey(init)
	h.mu.Lock()
	defer h.mu.Unlock()
	j := h.jobs[k]
	if j == nil {
		h.n++
		j = &c38Job{id: h.n, init: init, dir: filepath.Join(h.root, strconv.Itoa(h.n)), done: make(chan struct{})}
		h.jobs[k] = j
	}
	return j
}

// claim marks the not yet started jobs among js as started and returns them.
func (h *c38Harness) claim(js []*c38Job) []*c38Job {
	h.mu.Lock()
	defer h.mu.Unlock()
	var mine []*c38Job
	for _, j := range js {
		if !j.started {
			j.started = true
			mine = append(mine, j)
		}
	}
	return mine
}

// start reads the graph the walker is about to replay and computes its initial
// states ahead of it, in the order the walker will ask for them.
func (h *c38Harness) start() error {
	d, err := os.MkdirTemp("", "c38-")
	if err != nil {
		return err
	}
	h.root = d
	h.debug = os.Getenv("C38_DEBUG") != ""
	h.jobs = map[string]*c38Job{}
	if os.Getenv("VERIF_REPLAY") != "" {
		return nil // a single recorded walk: its document is computed on demand
	}
	raw, err := os.ReadFile(os.Getenv("VERIF_GRAPH"))
	if err != nil {
		return nil // nothing to look ahead in: jobs are computed on demand
	}
	var g struct {
		States []map[string]any `json:"states"`
		Init   []int            `json:"init"`
	}
	if err := json.Unmarshal(raw, &g); err != nil {
		return nil
	}
	var todo []*c38Job
	for _, i := range g.Init {
		todo = append(todo, h.job(g.States[i]))
	}
	// the walker's first use of its generator is this very shuffle of the initial states
	seed, _ := strconv.ParseInt(os.Getenv("VERIF_SEED"), 10, 64)
	rand.New(rand.NewSource(seed)).Shuffle(len(todo), func(i, j int) { todo[i], todo[j] = todo[j], todo[i] })
	workers := runtime.NumCPU() / 2
	if workers > 8 {
		workers = 8
	}
	if workers < 1 {
		workers = 1
	}
	ch := make(chan []*c38Job, len(todo)/c38BatchSize+1)
	for i := 0; i < len(todo); i += c38BatchSize {
		ch <- todo[i:min(i+c38BatchSize, len(todo))]
	}
	close(ch)
	for w := 0; w < workers; w++ {
		h.wg.Add(1)
		go func() {
			defer h.wg.Done()
			for b := range ch {
				if h.stop.Load() {
					return
				}
				c38RunBatch(h.claim(b))
			}
		}()
	}
	return nil
}

// c38Generic turns the decoded-JSON document of the specification into Go values
// the marshalers render as a v1 author would have written them: integral
// numbers become integers, {"f": "0.5"} becomes the float 0.5.
func c38Generic(v any) any {
	switch x := v.(type) {
	case map[string]any:
		if len(x) == 1 {
			if s, ok := x["f"].(string); ok {
				f, err := strconv.ParseFloat(s, 64)
				if err == nil {
					return f
				}
			}
		}
		m := make(map[string]any, len(x))
		for k, e := range x {
			m[k] = c38Generic(e)
		}
		return m
	case []any:
		l := make([]any, len(x))
		for i, e := range x {
			l[i] = c38Generic(e)
		}
		return l
	case float64:
		if x == float64(int64(x)) {
			return int64(x)
		}
		return x
	default:
		return v
	}
}

func c38Render(doc any, format string) ([]byte, string, error) {
	g := c38Generic(doc)
	switch format {
	case "toml":
		b, err := toml.Marshal(g)
		return b, ".toml", err
	case "yaml":
		b, err := yaml.Marshal(g)
		return b, ".yaml", err
	case "json":
		b, err := json.MarshalIndent(g, "", "  ")
		return b, ".json", err
	}
	return nil, "", fmt.Errorf("unknown format %q", format)
}

func (h *c38Harness) Reset(init map[string]any) error {
	if h.root == "" {
		if err := h.start(); err != nil {
			return err
		}
	}
	h.cur = h.job(init)
	h.phase, h.conv = "v1", "none"
	h.res = map[string]any{"stage": "none"}
	h.last = ""
	return nil
}

func (h *c38Harness) Project() (any, error) {
	return map[string]any{"phase": h.phase, "conv": h.conv, "res": h.res}, nil
}

func (h *c38Harness) Apply(a map[string]any) error {
	j := h.cur
	c38RunBatch(h.claim([]*c38Job{j})) // nobody has started it yet: do it now
	<-j.done
	if j.err != nil {
		return j.err
	}
	switch verifkit.Str(a, "name") {
	case "Convert":
		h.phase, h.conv, h.last = "v2", j.conv, j.diagC
		return nil
	case "Load":
		h.phase, h.res, h.last = "loaded", j.res, j.diagL
		return nil
	}
	return fmt.Errorf("unknown action %v", a)
}

func (j *c38Job) finish(err error) {
	j.err = err
	close(j.done)
}

// c38RunBatch does the real work for a few v1 documents in one child process.
func c38RunBatch(js []*c38Job) {
	for len(js) > 0 {
		js = c38RunChild(js)
	}
}

// c38RunChild starts one child for js and returns the jobs the child did not
// get to (the converter took the process down while it worked on an earlier one).
func c38RunChild(js []*c38Job) []*c38Job {
	var batch []c38ChildJob
	var live []*c38Job
	for _, j := range js {
		init := j.init
		file, format := verifkit.Str(init, "file"), verifkit.Str(init, "fmt")
		var watch []string
		if w, ok := init["watch"].([]any); ok {
			for _, k := range w {
				watch = append(watch, k.(string))
			}
		}
		if err := os.MkdirAll(j.dir, 0o755); err != nil {
			j.finish(err)
			continue
		}
		b, ext, err := c38Render(init["doc"], format)
		if err != nil {
			j.finish(err)
			continue
		}
		in, outP := filepath.Join(j.dir, "v1"+ext), filepath.Join(j.dir, "v2.yaml")
		if err := os.WriteFile(in, b, 0o644); err != nil {
			j.finish(err)
			continue
		}
		batch = append(batch, c38ChildJob{ID: j.id, Args: []string{file, "--input", in, "--output", outP},
			Load: c38LoadReq{File: file, Out: outP, Dir: j.dir, Watch: watch}})
		live = append(live, j)
	}
	if len(live) == 0 {
		return nil
	}
	arg, _ := json.Marshal(batch)
	cmd := exec.Command(os.Args[0], "-test.run=^TestVerifC38Child$")
	cmd.Env = append(os.Environ(), c38BatchEnv+"="+string(arg))
	pipe, err := cmd.StdoutPipe()
	if err == nil {
		cmd.Stderr = cmd.Stdout
		err = cmd.Start()
	}
	if err != nil {
		for _, j := range live {
			j.finish(fmt.Errorf("cannot run the child: %w", err))
		}
		return nil
	}
	byID := map[int]*c38Job{}
	for _, j := range live {
		byID[j.id] = j
	}
	var cur *c38Job
	converted := false
	var diag strings.Builder
	finished := map[int]bool{}
	sc := bufio.NewScanner(pipe)
	sc.Buffer(make([]byte, 1<<20), 1<<26)
	for sc.Scan() {
		line := sc.Text()
		switch {
		case strings.HasPrefix(line, c38Begin):
			id, _ := strconv.Atoi(strings.TrimPrefix(line, c38Begin))
			cur, converted = byID[id], false
			diag.Reset()
		case line == c38Converted && cur != nil:
			converted = true
			cur.diagC = diag.String()
			diag.Reset()
		case strings.HasPrefix(line, c38Marker) && cur != nil && converted:
			var lr c38LoadRes
			j := cur
			cur = nil
			finished[j.id] = true
			if err := json.Unmarshal([]byte(strings.TrimPrefix(line, c38Marker)), &lr); err != nil {
				j.finish(fmt.Errorf("load child: %v in %q", err, line))
				continue
			}
			if lr.Err != "" {
				j.finish(fmt.Errorf("load child: %s", lr.Err))
				continue
			}
			j.conv, j.res, j.diagL = "ok", lr.Res, lr.Diag+diag.String()
			if lr.Res["stage"] == "nofile" { // main() came back but left no file
				j.conv, j.res = "failed", map[string]any{"stage": "rejected", "valid": false}
			}
			j.finish(nil)
		default:
			if strings.Contains(line, "c38 child: bad args") {
				for _, j := range live {
					if !finished[j.id] {
						finished[j.id] = true
						j.finish(fmt.Errorf("child: %s", line))
					}
				}
			}
			diag.WriteString(line)
			diag.WriteByte('\n')
		}
	}
	cmd.Wait()
	if cur != nil && !finished[cur.id] {
		// the process ended while it worked on cur
		finished[cur.id] = true
		if !converted {
			// ... inside the converter: `convert` failed (os.Exit(1), panic)
			cur.conv, cur.diagC = "failed", diag.String()
			cur.res = map[string]any{"stage": "rejected", "valid": false}
		} else {
			// ... inside the loader: that is not "accepted"
			cur.conv, cur.diagL = "ok", diag.String()
			cur.res = map[string]any{"stage": "rejected", "valid": false, "died": true}
		}
		cur.finish(nil)
	}
	var rest []*c38Job
	for _, j := range live {
		if !finished[j.id] {
			rest = append(rest, j)
		}
	}
	if len(rest) == len(live) {
		// the child did not even begin: do not loop for ever
		for _, j := range rest {
			j.finish(fmt.Errorf("child produced nothing: %s", diag.String()))
		}
		return nil
	}
	return rest
}

const c38MinRules = "RulesVersion: 2\nSamplers:\n  __default__:\n    DeterministicSampler:\n      SampleRate: 1\n"
const c38MinConfig = "General:\n  ConfigurationVersion: 2\n"

// c38Load runs in the child: Refinery's loader reads the converter's output.
func c38Load(req c38LoadReq) (lr c38LoadRes) {
	cfgPath, rulesPath := req.Out, req.Out
	if req.File == "helm" {
		// the values file carries both documents: hand each section to the loader as a file of its own
		raw, err := os.ReadFile(req.Out)
		if err != nil {
			return c38LoadRes{Err: err.Error()}
		}
		var vals map[string]any
		if err := yaml.Unmarshal(raw, &vals); err != nil || vals["config"] == nil || vals["rules"] == nil {
			return c38LoadRes{Res: map[string]any{"stage": "rejected", "valid": false}, Diag: fmt.Sprint("helm output: ", err, " sections: ", len(vals))}
		}
		cb, _ := yaml.Marshal(vals["config"])
		rb, _ := yaml.Marshal(vals["rules"])
		cfgPath, rulesPath = filepath.Join(req.Dir, "helmconfig.yaml"), filepath.Join(req.Dir, "helmrules.yaml")
		if err := os.WriteFile(cfgPath, cb, 0o644); err != nil {
			return c38LoadRes{Err: err.Error()}
		}
		if err := os.WriteFile(rulesPath, rb, 0o644); err != nil {
			return c38LoadRes{Err: err.Error()}
		}
	} else if req.File == "config" {
		rulesPath = filepath.Join(req.Dir, "minrules.yaml")
		if err := os.WriteFile(rulesPath, []byte(c38MinRules), 0o644); err != nil {
			return c38LoadRes{Err: err.Error()}
		}
	} else {
		cfgPath = filepath.Join(req.Dir, "minconfig.yaml")
		if err := os.WriteFile(cfgPath, []byte(c38MinConfig), 0o644); err != nil {
			return c38LoadRes{Err: err.Error()}
		}
	}
	defer func() {
		if r := recover(); r != nil {
			lr = c38LoadRes{Res: map[string]any{"stage": "rejected", "valid": false, "panic": fmt.Sprint(r)}}
		}
	}()
	c, lerr := config.NewConfig(&config.CmdEnv{ConfigLocations: []string{cfgPath}, RulesLocations: []string{rulesPath}})
	if c == nil {
		return c38LoadRes{Res: map[string]any{"stage": "rejected", "valid": false}, Diag: fmt.Sprint(lerr)}
	}
	var eff any = []any{}
	if len(req.Watch) > 0 {
		m := map[string]any{}
		for _, k := range req.Watch {
			v, err := c38Observe(c, k)
			if err != nil {
				return c38LoadRes{Err: err.Error()}
			}
			m[k] = v
		}
		eff = m
	}
	return c38LoadRes{Res: map[string]any{"stage": "loaded", "valid": true, "eff": eff}}
}

func c38Ms(d time.Duration) int { return int(d / time.Millisecond) }

func c38Strs(l []string) []any {
	out := make([]any, len(l))
	for i, s := range l {
		out[i] = s
	}
	return out
}

func c38Map(m map[string]string) any {
	if len(m) == 0 {
		return []any{}
	}
	out := map[string]any{}
	for k, v := range m {
		out[k] = v
	}
	return out
}

// c38Observe answers one observation key through the public Config interface.
func c38Observe(c config.Config, key string) (any, error) {
	if strings.HasPrefix(key, "rules:") {
		return c38ObserveRules(c, strings.TrimPrefix(key, "rules:"))
	}
	if strings.HasPrefix(key, "AccessKeys.accepts:") {
		ak := c.GetAccessKeyConfig()
		return ak.IsAccepted(strings.TrimPrefix(key, "AccessKeys.accepts:"), "") == nil, nil
	}
	switch key {
	case "Network.ListenAddr":
		return c.GetListenAddr(), nil
	case "Network.PeerListenAddr":
		return c.GetPeerListenAddr(), nil
	case "Network.HoneycombAPI":
		return c.GetHoneycombAPI(), nil
	case "AccessKeys.ReceiveKeys":
		return c38Strs(c.GetAccessKeyConfig().ReceiveKeys), nil
	case "AccessKeys.AcceptOnlyListedKeys":
		return c.GetAccessKeyConfig().AcceptOnlyListedKeys, nil
	case "RefineryTelemetry.AddRuleReasonToTrace":
		return c.GetAddRuleReasonToTrace(), nil
	case "RefineryTelemetry.AddSpanCountToRoot":
		return c.GetAddSpanCountToRoot(), nil
	case "RefineryTelemetry.AddHostMetadataToTrace":
		return c.GetAddHostMetadataToTrace(), nil
	case "Traces.SendDelay":
		return c38Ms(c.GetTracesConfig().GetSendDelay()), nil
	case "Traces.BatchTimeout":
		return c38Ms(c.GetTracesConfig().GetBatchTimeout()), nil
	case "Traces.TraceTimeout":
		return c38Ms(c.GetTracesConfig().GetTraceTimeout()), nil
	case "Traces.MaxBatchSize":
		return int(c.GetTracesConfig().GetMaxBatchSize()), nil
	case "Traces.SendTicker":
		return c38Ms(c.GetTracesConfig().GetSendTickerValue()), nil
	case "Debugging.DebugServiceAddr":
		return c.GetDebugServiceAddr(), nil
	case "Debugging.QueryAuthToken":
		return c.GetQueryAuthToken(), nil
	case "Debugging.AdditionalErrorFields":
		return c38Strs(c.GetAdditionalErrorFields()), nil
	case "Debugging.DryRun":
		return c.GetIsDryRun(), nil
	case "Logger.Type":
		return c.GetLoggerType(), nil
	case "Logger.Level":
		return c.GetLoggerLevel().String(), nil
	case "HoneycombLogger.APIHost":
		return c.GetHoneycombLoggerConfig().APIHost, nil
	case "HoneycombLogger.APIKey":
		return c.GetHoneycombLoggerConfig().APIKey, nil
	case "HoneycombLogger.Dataset":
		return c.GetHoneycombLoggerConfig().Dataset, nil
	case "HoneycombLogger.SamplerEnabled":
		hl := c.GetHoneycombLoggerConfig()
		return hl.GetSamplerEnabled(), nil
	case "HoneycombLogger.SamplerThroughput":
		return c.GetHoneycombLoggerConfig().SamplerThroughput, nil
	case "PrometheusMetrics.Enabled":
		return c.GetPrometheusMetricsConfig().Enabled, nil
	case "PrometheusMetrics.ListenAddr":
		return c.GetPrometheusMetricsConfig().ListenAddr, nil
	case "PeerManagement.Type":
		return c.GetPeerManagementType(), nil
	case "PeerManagement.Identifier":
		return c.GetRedisIdentifier(), nil
	case "PeerManagement.IdentifierInterfaceName":
		return c.GetIdentifierInterfaceName(), nil
	case "PeerManagement.UseIPV6Identifier":
		return c.GetUseIPV6Identifier(), nil
	case "PeerManagement.Peers":
		return c38Strs(c.GetPeers()), nil
	case "RedisPeerManagement.Host":
		return c.GetRedisPeerManagement().Host, nil
	case "RedisPeerManagement.Username":
		return c.GetRedisPeerManagement().Username, nil
	case "RedisPeerManagement.Password":
		return c.GetRedisPeerManagement().Password, nil
	case "RedisPeerManagement.UseTLS":
		return c.GetRedisPeerManagement().UseTLS, nil
	case "RedisPeerManagement.UseTLSInsecure":
		return c.GetRedisPeerManagement().UseTLSInsecure, nil
	case "RedisPeerManagement.Timeout":
		return c38Ms(time.Duration(c.GetRedisPeerManagement().Timeout)), nil
	case "Collection.MaxAlloc":
		return int(c.GetCollectionConfig().GetMaxAlloc()), nil
	case "Specialized.EnvironmentCacheTTL":
		return c38Ms(c.GetEnvironmentCacheTTL()), nil
	case "Specialized.CompressPeerCommunication":
		return c.GetCompressPeerCommunication(), nil
	case "Specialized.AdditionalAttributes":
		return c38Map(c.GetAdditionalAttributes()), nil
	case "IDFields.TraceNames":
		return c38Strs(c.GetTraceIdFieldNames()), nil
	case "IDFields.ParentNames":
		return c38Strs(c.GetParentIdFieldNames()), nil
	case "GRPCServerParameters.ListenAddr":
		return c.GetGRPCListenAddr(), nil
	case "GRPCServerParameters.Enabled":
		return c.GetGRPCEnabled(), nil
	case "GRPCServerParameters.MaxConnectionIdle":
		return c38Ms(time.Duration(c.GetGRPCConfig().MaxConnectionIdle)), nil
	case "GRPCServerParameters.MaxConnectionAge":
		return c38Ms(time.Duration(c.GetGRPCConfig().MaxConnectionAge)), nil
	case "GRPCServerParameters.MaxConnectionAgeGrace":
		return c38Ms(time.Duration(c.GetGRPCConfig().MaxConnectionAgeGrace)), nil
	case "GRPCServerParameters.KeepAlive":
		return c38Ms(time.Duration(c.GetGRPCConfig().KeepAlive)), nil
	case "GRPCServerParameters.KeepAliveTimeout":
		return c38Ms(time.Duration(c.GetGRPCConfig().KeepAliveTimeout)), nil
	case "SampleCache.KeptSize":
		return int(c.GetSampleCacheConfig().KeptSize), nil
	case "SampleCache.DroppedSize":
		return int(c.GetSampleCacheConfig().DroppedSize), nil
	case "SampleCache.SizeCheckInterval":
		return c38Ms(time.Duration(c.GetSampleCacheConfig().SizeCheckInterval)), nil
	case "StressRelief.Mode":
		return c.GetStressReliefConfig().Mode, nil
	case "StressRelief.ActivationLevel":
		return int(c.GetStressReliefConfig().ActivationLevel), nil
	case "StressRelief.DeactivationLevel":
		return int(c.GetStressReliefConfig().DeactivationLevel), nil
	case "StressRelief.SamplingRate":
		return int(c.GetStressReliefConfig().SamplingRate), nil
	case "StressRelief.MinimumActivationDuration":
		return c38Ms(time.Duration(c.GetStressReliefConfig().MinimumActivationDuration)), nil
	}
	return nil, fmt.Errorf("harness has no observer for key %q", key)
}

// c38ObserveRules resolves "<dataset>/<Field>/<index>/…" inside the sampler
// configuration Refinery would use for that dataset.  "@type" is the sampler's
// type name, "@len" the length of a list.  A path that leaves the structure
// yields "<absent>".
func c38ObserveRules(c config.Config, path string) (any, error) {
	segs := strings.Split(path, "/")
	cfg, name := c.GetSamplerConfigForDestName(segs[0])
	if len(segs) == 2 && segs[1] == "@type" {
		return name, nil
	}
	v := reflect.ValueOf(cfg)
	for _, s := range segs[1:] {
		for v.IsValid() && (v.Kind() == reflect.Ptr || v.Kind() == reflect.Interface) {
			if v.IsNil() {
				return "<absent>", nil
			}
			v = v.Elem()
		}
		if !v.IsValid() {
			return "<absent>", nil
		}
		if s == "@len" {
			if v.Kind() != reflect.Slice {
				return "<absent>", nil
			}
			return v.Len(), nil
		}
		switch v.Kind() {
		case reflect.Struct:
			v = v.FieldByName(s)
		case reflect.Slice:
			i, err := strconv.Atoi(s)
			if err != nil || i < 0 || i >= v.Len() {
				return "<absent>", nil
			}
			v = v.Index(i)
		default:
			return "<absent>", nil
		}
	}
	return c38Canon(v), nil
}

func c38Canon(v reflect.Value) any {
	for v.IsValid() && (v.Kind() == reflect.Ptr || v.Kind() == reflect.Interface) {
		if v.IsNil() {
			return "<absent>"
		}
		v = v.Elem()
	}
	if !v.IsValid() {
		return "<absent>"
	}
	if d, ok := v.Interface().(config.Duration); ok {
		return c38Ms(time.Duration(d))
	}
	switch v.Kind() {
	case reflect.Bool:
		return v.Bool()
	case reflect.Int, reflect.Int8, reflect.Int16, reflect.Int32, reflect.Int64:
		return int(v.Int())
	case reflect.Uint, reflect.Uint8, reflect.Uint16, reflect.Uint32, reflect.Uint64:
		return int(v.Uint())
	case reflect.Float32, reflect.Float64:
		return map[string]any{"f": strconv.FormatFloat(v.Float(), 'g', -1, 64)}
	case reflect.String:
		return v.String()
	case reflect.Slice:
		out := make([]any, v.Len())
		for i := range out {
			out[i] = c38Canon(v.Index(i))
		}
		return out
	}
	return fmt.Sprintf("<%s>", v.Kind())
}

func TestVerifConvert(t *testing.T) {
	h := &c38Harness{}
	defer func() {
		h.stop.Store(true)
		h.wg.Wait() // at most one batch per worker is still under way
		if h.root != "" && !h.debug {
			os.RemoveAll(h.root)
		}
	}()
	if os.Getenv("C38_EXPLORE") != "" {
		c38Explore(t, h)
		return
	}
	if err := verifkit.Main(h); err != nil {
		t.Fatal(err)
	}
}

// c38Explore is a development aid (C38_EXPLORE=1): it replays EVERY initial state
// of the graph and prints each step whose projection no successor explains,
// grouped by the differing keys, instead of stopping at the fifth divergence.
func c38Explore(t *testing.T, h *c38Harness) {
	raw, err := os.ReadFile(os.Getenv("VERIF_GRAPH"))
	if err != nil {
		t.Fatal(err)
	}
	var g struct {
		States []map[string]any `json:"states"`
		Abs    []any            `json:"abs"`
		Init   []int            `json:"init"`
		Edges  []struct {
			F int            `json:"f"`
			T int            `json:"t"`
			A map[string]any `json:"a"`
		} `json:"edges"`
	}
	if err := json.Unmarshal(raw, &g); err != nil {
		t.Fatal(err)
	}
	out := map[int][]int{}
	for i, e := range g.Edges {
		out[e.F] = append(out[e.F], i)
	}
	kinds := map[string]int{}
	var order []string
	for _, s0 := range g.Init {
		if err := h.Reset(g.States[s0]); err != nil {
			t.Fatal(err)
		}
		cur := []int{s0}
		for _, name := range []string{"Convert", "Load"} {
			if err := h.Apply(map[string]any{"name": name}); err != nil {
				t.Fatal(err)
			}
			obs, _ := h.Project()
			oc := verifkit.Canon(obs)
			var next []int
			var devs []string
			var allowed []string
			for _, s := range cur {
				for _, ei := range out[s] {
					e := g.Edges[ei]
					if e.A["name"] != name {
						continue
					}
					ac := verifkit.Canon(g.Abs[e.T])
					allowed = append(allowed, ac)
					if ac == oc {
						next = append(next, e.T)
						d, _ := e.A["dev"].(string)
						devs = append(devs, d)
					}
				}
			}
			if len(next) == 0 {
				doc, _ := json.Marshal(g.States[s0]["doc"])
				k := fmt.Sprintf("%s %s %s doc=%s\n   observed=%s\n   allowed=%s\n   diag=%s", name, g.States[s0]["file"], g.States[s0]["fmt"], doc, oc, strings.Join(allowed, "\n           "), strings.TrimSpace(h.last))
				if len(k) > 3000 {
					k = k[:3000]
				}
				if kinds[k] == 0 {
					order = append(order, k)
				}
				kinds[k]++
				break
			}
			ideal := false
			for _, d := range devs {
				if d == "" {
					ideal = true
				}
			}
			if !ideal {
				sort.Strings(devs)
				kinds["DEV "+devs[0]]++
			}
			cur = next
		}
	}
	for _, k := range order {
		fmt.Printf("MISMATCH x%d: %s\n", kinds[k], k)
	}
	for k, n := range kinds {
		if strings.HasPrefix(k, "DEV ") {
			fmt.Printf("%s x%d\n", k, n)
		}
	}
	fmt.Printf("explored %d initial states, %d mismatching\n", len(g.Init), len(order))
}
