------------------------------ MODULE Settings ------------------------------
(***************************************************************************)
(* How Refinery resolves one setting of its main configuration             *)
(* (property C29): config/cmdenv.go, config/configLoadHelpers.go,          *)
(* config/file_config.go.                                                  *)
(*                                                                         *)
(* A setting can be given by four sources and has a documented default:    *)
(*                                                                         *)
(*      flag  >  env  >  file2  >  file1  >  default                       *)
(*                                                                         *)
(* (file2 is the config file named later on the command line).  The        *)
(* effective value is the value of the first source that defines the       *)
(* setting; in a string-valued setting every ${VAR} whose variable is set  *)
(* is then replaced by the variable's value, once (the replacement text is *)
(* not looked at again), and a ${VAR} whose variable is unset stays as it  *)
(* is.  Validation judges exactly this value.                              *)
(*                                                                         *)
(* This is a function, so the module is a function-vector specification    *)
(* (binding B3): Init enumerates the inputs, the single action Eval is the *)
(* whole load (NewCmdEnvOptions + NewConfig) and puts the result into the  *)
(* state.                                                                  *)
(*                                                                         *)
(* VALUES.  A value is a sequence of elements (exactly one for a scalar    *)
(* setting, the list elements / the map values in key order otherwise);    *)
(* an element is a sequence of tokens; a token is a piece of text:         *)
(*    "F" "E" "Y" "X"          the complete literal flag/env/file2/file1   *)
(*                             give (all different, so the winner shows)   *)
(*    "Fa" "Fb", "Ea" "Eb" ..  a prefix and a suffix literal per source    *)
(*    "${V1}" "${V2}" "${HP}" "${CC}" "${U}"    references                 *)
(*    "P" "Q" "C"              the texts the variables V1, HP, CC hold;    *)
(*                             V2 holds the text ${V1}; U is unset         *)
(*    "$NS" "$NU" "$$" "$5" "$" "${" "${}" "$(X)"   text with a dollar     *)
(*                             that is NOT a reference (NS is a variable   *)
(*                             that is set, NU one that is not): only      *)
(*                             "${" name "}" with a non-empty name is one  *)
(*    "."                      a separator between such pieces             *)
(*    "D"                      the setting's documented default            *)
(*    "Z"                      the zero value (empty string, 0, 0s, ..)    *)
(*    "true" "false"           booleans                                    *)
(* The harness turns tokens into concrete text per setting (a host:port    *)
(* for a listen address, a URL for an API host, digits for a number ..)    *)
(* and turns the value it reads back from the loaded configuration into    *)
(* tokens again.                                                           *)
(*                                                                         *)
(* CLASSES of settings (value kinds); the harness finds the members of a   *)
(* class by reflection over the yaml/cmdenv/default struct tags:           *)
(*    string, stringlist, stringmap   string-valued: ${VAR} is expanded    *)
(*    int, duration, memsize, bool    other kinds: no expansion            *)
(*    hostport                        the string settings that validation  *)
(*                                    requires to be host:port; loaded one *)
(*                                    at a time and the validation verdict *)
(*                                    is observed as well                  *)
(* `cmdenv` says whether the members have a flag and an environment        *)
(* variable (a cmdenv tag) or can only be given in files; `dflt` whether   *)
(* they have a documented default.                                         *)
(*                                                                         *)
(* OPEN in the statement, so accepted either way: a map given by both      *)
(* files may be replaced by the later file or merged per key.              *)
(*                                                                         *)
(* DEVIATIONS of the code from this function that are known (Faithful):    *)
(*   cmdenv-slice-first-only     a list given by flag/env keeps only its   *)
(*                               first element                             *)
(*   explicit-zero-gets-default  a file that sets the zero value (0s, 0,   *)
(*                               "") is overruled by the default           *)
(***************************************************************************)
EXTENDS Integers, Sequences, FiniteSets, TLC, Json

CONSTANTS Classes,    \* classes to enumerate
          Uniform,    \* TRUE: in class "string" all sources that are present use the same placement (quick bound)
          Faithful    \* TRUE: the graph also has the known deviations of the code

VARIABLES class, cmdenv, dflt, src,      \* the input vector
          done, eff, accepted,           \* the result of the load
          act

vars == <<class, cmdenv, dflt, src, done, eff, accepted, act>>

----------------------------------------------------------------------------
\* sources in decreasing precedence
Sources == <<"flag", "env", "file2", "file1">>
SourceSet == {Sources[i] : i \in 1..4}
Files == {"file2", "file1"}
RankOf == [flag |-> 1, env |-> 2, file2 |-> 3, file1 |-> 4]
Rank(s) == RankOf[s]

Lit == [flag |-> "F",  env |-> "E",  file2 |-> "Y",  file1 |-> "X"]
Pre == [flag |-> "Fa", env |-> "Ea", file2 |-> "Ya", file1 |-> "Xa"]
Suf == [flag |-> "Fb", env |-> "Eb", file2 |-> "Yb", file1 |-> "Xb"]
OwnToks(s) == {Lit[s], Pre[s], Suf[s]}

\* the process environment of every load: set variables and their text
EnvVal == [v \in {"${V1}", "${V2}", "${HP}", "${CC}"} |->
             CASE v = "${V1}" -> <<"P">>
               [] v = "${V2}" -> <<"${V1}">>      \* a value that itself looks like a reference
               [] v = "${HP}" -> <<"Q">>          \* a complete host:port
               [] v = "${CC}" -> <<"C">>]         \* text with a colon in it
Refs == DOMAIN EnvVal \cup {"${U}"}               \* ${U}: the variable is not set

\* Text with a dollar in it that is not of the form ${NAME}: a bare $NAME
\* (NS: a variable that is set, NU: one that is not), the shell's special
\* parameters, a dollar at the end, an unterminated and an empty ${, $(..).
\* None of it is a reference; it belongs to the value (passwords, tokens,
\* header values contain such text) and must come through verbatim.
DollarLits == {"$NS", "$NU", "$$", "$5", "$", "${", "${}", "$(X)"}

\* the combinations (class, has flag+env, kind of default) that exist in the
\* configuration struct; the harness reports an error (not a violation) if
\* one of them has no member any more
StringClasses == {"string", "hostport", "stringlist", "stringmap"}
ScalarClasses == {"string", "hostport", "int", "duration", "memsize", "bool"}
Combos ==
  {<<"string", c, d>>     : c \in BOOLEAN, d \in {"none", "D"}} \cup
  {<<"hostport", c, d>>   : c \in BOOLEAN, d \in {"none", "D"}} \cup
  {<<"stringlist", TRUE, "none">>, <<"stringlist", FALSE, "none">>, <<"stringlist", FALSE, "D">>} \cup
  {<<"stringmap", TRUE, "none">>, <<"stringmap", FALSE, "none">>} \cup
  {<<"int", FALSE, "none">>, <<"int", FALSE, "D">>} \cup
  {<<"duration", FALSE, "none">>, <<"duration", FALSE, "D">>} \cup
  {<<"memsize", TRUE, "none">>, <<"memsize", FALSE, "none">>, <<"memsize", FALSE, "D">>} \cup
  {<<"bool", FALSE, "false">>, <<"bool", FALSE, "true">>}

\* placements of the literal and of ${VAR} a source can use
Placements(c, s) ==
  (CASE c = "string"     -> {"plain", "whole", "infix", "unset", "infixunset", "nested", "dollarA", "dollarB"}
     [] c = "hostport"   -> {"plain", "whole", "infix", "unset", "infixunset", "nested", "wholehp", "infixcc"}
     [] c \in {"stringlist", "stringmap"} -> {"one", "two", "twounset", "twodollar"}
     [] c \in {"int", "duration", "memsize"} -> {"plain"}
     [] c = "bool"       -> {"true", "false"})
  \cup (IF s \in Files /\ c \in {"string", "int", "duration", "memsize"} THEN {"zero"} ELSE {})

AllPlacements == {"plain", "whole", "infix", "unset", "infixunset", "nested", "wholehp", "infixcc",
                  "one", "two", "twounset", "true", "false", "zero",
                  "dollarA", "dollarB", "twodollar"}
DollarPlacements == {"dollarA", "dollarB", "twodollar"}

\* the value source s gives when it uses placement p
Value(p, s) ==
  CASE p = "plain"      -> << <<Lit[s]>> >>
    [] p = "whole"      -> << <<"${V1}">> >>
    [] p = "infix"      -> << <<Pre[s], "${V1}", Suf[s]>> >>
    [] p = "unset"      -> << <<"${U}">> >>
    [] p = "infixunset" -> << <<Pre[s], "${U}", Suf[s]>> >>
    [] p = "nested"     -> << <<"${V2}">> >>
    [] p = "wholehp"    -> << <<"${HP}">> >>                    \* host:port only after expansion
    [] p = "infixcc"    -> << <<Pre[s], "${CC}", Suf[s]>> >>    \* host:port only before expansion
    [] p = "one"        -> << <<Lit[s]>> >>
    [] p = "two"        -> << <<Lit[s]>>, <<Pre[s], "${V1}", Suf[s]>> >>
    [] p = "twounset"   -> << <<Pre[s], "${U}", Suf[s]>>, <<"${V2}">> >>
    \* literal dollars next to well-formed references (an unterminated ${ can only
    \* stand at the end: followed by a } it would be the start of a reference)
    [] p = "dollarA"    -> << <<Pre[s], "${V1}", ".", "$NS", ".", "$NU", ".", "$$", ".", "$5", ".", Suf[s], "${">> >>
    [] p = "dollarB"    -> << <<"$(X)", ".", "${}", ".", Pre[s], "${U}", "$NS", ".", "${V1}", Suf[s], "$">> >>
    [] p = "twodollar"  -> << <<Lit[s], "$$", ".", "$NS">>, <<"$5", ".", Pre[s], "${V1}", Suf[s], "${">> >>
    [] p = "true"       -> << <<"true">> >>
    [] p = "false"      -> << <<"false">> >>
    [] p = "zero"       -> << <<"Z">> >>

----------------------------------------------------------------------------
\* Expand: one pass, set variables only
RECURSIVE ExpandElem(_)
ExpandElem(e) ==
  IF e = <<>> THEN <<>>
  ELSE (IF Head(e) \in DOMAIN EnvVal THEN EnvVal[Head(e)] ELSE <<Head(e)>>) \o ExpandElem(Tail(e))

Expand(v) == [i \in DOMAIN v |-> ExpandElem(v[i])]

Present == {s \in SourceSet : src[s] # "none"}
Winner == IF src["flag"] # "none" THEN "flag"
          ELSE IF src["env"] # "none" THEN "env"
          ELSE IF src["file2"] # "none" THEN "file2"
          ELSE IF src["file1"] # "none" THEN "file1"
          ELSE "default"
DefaultValue == << <<IF dflt = "none" THEN "Z" ELSE dflt>> >>

\* Effective = first defined of <flag, env, file2, file1, default>
Raw == IF Winner = "default" THEN DefaultValue ELSE Value(src[Winner], Winner)
Ideal == IF class \in StringClasses THEN Expand(Raw) ELSE Raw

\* A map given by both files: the statement says the later file overrides the
\* earlier one but not whether that is per map or per key.  Both are accepted;
\* map entries are positional here (k1, k2, ..), so per key means per position.
FileVal(x) == IF src[x] = "none" THEN <<>> ELSE Value(src[x], x)
MergedRaw == LET a == FileVal("file2")
                 b == FileVal("file1")
                 n == IF Len(a) > Len(b) THEN Len(a) ELSE Len(b)
             IN  [i \in 1..n |-> IF i <= Len(a) THEN a[i] ELSE b[i]]
Accepted == {Ideal} \cup (IF class = "stringmap" /\ Winner \in Files THEN {Expand(MergedRaw)} ELSE {})

Toks(v) == UNION {{v[i][j] : j \in DOMAIN v[i]} : i \in DOMAIN v}

\* what validation demands of a listen address: exactly one colon (empty is allowed)
Colons(tok) == IF tok \in {"F", "E", "Y", "X", "Fb", "Eb", "Yb", "Xb", "Q", "C", "D"} THEN 1 ELSE 0
RECURSIVE ColonsIn(_)
ColonsIn(e) == IF e = <<>> THEN 0 ELSE Colons(Head(e)) + ColonsIn(Tail(e))
ValidHostPort(v) == v = << <<"Z">> >> \/ ColonsIn(v[1]) = 1

Verdict(v) == IF class # "hostport" THEN "na" ELSE IF ValidHostPort(v) THEN "yes" ELSE "no"

----------------------------------------------------------------------------
\* what source x can do for a member of class c: be silent, or use a placement
Opts(c, ce, x) == IF ~ce /\ x \notin Files THEN {"none"} ELSE {"none"} \cup Placements(c, x)

SrcOK(c, ce, s) ==
  /\ \A x \in SourceSet : s[x] \in Opts(c, ce, x)
  \* a source with literal dollars meets only the same placement or plain text (bound)
  /\ \A x, y \in SourceSet : s[x] \in DollarPlacements /\ s[y] \notin {"none", "zero", "plain", "one"} => s[y] = s[x]
  /\ Uniform /\ c = "string" => Cardinality({s[x] : x \in SourceSet} \ {"none", "zero"}) <= 1
  \* hostport: the value under test is the winner's; sources below it are absent
  \* or plainly valid (validation also looks at file values that are overridden)
  /\ c = "hostport" =>
       \A x, y \in SourceSet : s[x] # "none" /\ s[y] # "none" /\ Rank(x) < Rank(y) => s[y] = "plain"

Init ==
  /\ \E cb \in Combos :
        /\ cb[1] \in Classes
        /\ class = cb[1] /\ cmdenv = cb[2] /\ dflt = cb[3]
  /\ \E f \in Opts(class, cmdenv, "flag"), e \in Opts(class, cmdenv, "env"),
        y \in Opts(class, cmdenv, "file2"), x \in Opts(class, cmdenv, "file1") :
        src = [flag |-> f, env |-> e, file2 |-> y, file1 |-> x]
  /\ SrcOK(class, cmdenv, src)
  /\ done = FALSE
  /\ eff = << <<"?">> >>
  /\ accepted = "?"
  /\ act = [name |-> "Init"]

\* known deviations of the code
SliceDev == class = "stringlist" /\ Winner \in {"flag", "env"} /\ Len(Raw) > 1
ZeroDev  == Winner \in Files /\ src[Winner] = "zero" /\ dflt = "D"

\* NewCmdEnvOptions(args) ; NewConfig(opts) ; read the setting back
Eval ==
  /\ ~done
  /\ done' = TRUE
  /\ UNCHANGED <<class, cmdenv, dflt, src>>
  /\ \/ /\ eff' \in Accepted
        /\ act' = [name |-> "Eval"]
     \/ /\ Faithful /\ SliceDev
        /\ eff' = Expand(<<Raw[1]>>)
        /\ act' = [name |-> "Eval", dev |-> "cmdenv-slice-first-only"]
     \/ /\ Faithful /\ ZeroDev
        /\ eff' = << <<"D">> >>
        /\ act' = [name |-> "Eval", dev |-> "explicit-zero-gets-default"]
  /\ accepted' = Verdict(eff')

Next == Eval

Spec == Init /\ [][Next]_vars

----------------------------------------------------------------------------
TypeOK ==
  /\ <<class, cmdenv, dflt>> \in Combos
  /\ src \in [SourceSet -> AllPlacements \cup {"none"}]
  /\ done \in BOOLEAN
  /\ accepted \in {"?", "na", "yes", "no"}
  /\ \A i \in DOMAIN eff : \A j \in DOMAIN eff[i] :
        eff[i][j] \in {"?", "D", "Z", "P", "Q", "C", "true", "false", "."} \cup Refs \cup DollarLits
                      \cup UNION {OwnToks(s) : s \in SourceSet}

IdealStep == done /\ eff = Ideal

Below(s) == IF s = "default" THEN {} ELSE {t \in SourceSet : Rank(t) > Rank(s)}

\* C29 precedence: nothing of a source that lost shows in the value; the
\* default shows only if no source defines the setting
LosersDoNotShow ==
  IdealStep => /\ \A t \in SourceSet \ {Winner} : OwnToks(t) \cap Toks(eff) = {}
               /\ "D" \in Toks(eff) => Winner = "default"

\* ... and the winner's own literals all show, in a value of the winner's shape
WinnerShows ==
  IdealStep /\ Winner # "default" =>
     /\ OwnToks(Winner) \cap Toks(Raw) \subseteq Toks(eff)
     /\ Len(eff) = Len(Raw)

\* no source at all: the documented default, or the zero value without one
DefaultWhenUndefined ==
  done /\ Winner = "default" => eff = << <<IF dflt = "none" THEN "Z" ELSE dflt>> >>

\* C29 expansion: a set variable's reference is replaced by its text, once
SetVarsExpanded ==
  IdealStep /\ class \in StringClasses =>
     /\ Toks(eff) \cap {"${V2}", "${HP}", "${CC}"} = {}
     /\ "${V1}" \in Toks(eff) <=> "${V2}" \in Toks(Raw)      \* single pass
     /\ "${V1}" \in Toks(Raw) => "P" \in Toks(eff)
     /\ "${HP}" \in Toks(Raw) => "Q" \in Toks(eff)
     /\ "${CC}" \in Toks(Raw) => "C" \in Toks(eff)

\* ... and the reference of an unset variable is left unchanged
UnsetLeftAlone ==
  IdealStep => ("${U}" \in Toks(Raw) <=> "${U}" \in Toks(eff))

\* C29 expansion touches nothing but ${NAME}: every other piece of text with a
\* dollar in it is in the result exactly where the winner wrote it
DollarsOf(e) == SelectSeq(e, LAMBDA t : t \in DollarLits)
DollarLiteralsVerbatim ==
  IdealStep /\ class \in StringClasses =>
     \A i \in DOMAIN eff : DollarsOf(eff[i]) = DollarsOf(Raw[i])

\* other kinds are taken as they are
OtherKindsVerbatim ==
  IdealStep /\ class \notin StringClasses => eff = Raw

\* C29: the value validation judged is the value Refinery uses
ValidatedIsApplied ==
  done /\ class = "hostport" => (accepted = "yes" <=> ValidHostPort(eff))

\* the deviations really are deviations (they break the function above)
DeviationsDiffer ==
  done /\ "dev" \in DOMAIN act => eff \notin Accepted

\* the only other accepted result: a map merged per key from the two files
MapMergePerKey ==
  done /\ "dev" \notin DOMAIN act /\ eff # Ideal =>
     /\ class = "stringmap" /\ Winner \in Files
     /\ \A i \in DOMAIN eff :
           eff[i] = ExpandElem(IF i <= Len(FileVal("file2")) THEN FileVal("file2")[i] ELSE FileVal("file1")[i])

\* the load is a function of the vector: nothing but the result changes
InputsUntouched == [][UNCHANGED <<class, cmdenv, dflt, src>>]_vars

----------------------------------------------------------------------------
\* conformance plumbing
\* `val` hands the harness the token text of every source (<<>>: the source is silent)
Abs == [class |-> class, cmdenv |-> cmdenv, dflt |-> dflt, src |-> src,
        val |-> [x \in SourceSet |-> IF src[x] = "none" THEN <<>> ELSE Value(src[x], x)],
        done |-> done, eff |-> eff, accepted |-> accepted,
        disagreeSet |-> {}]     \* members of the class whose value / getter / documented default differs
St == Abs
Dump == PrintT(ToJson([fs |-> St, fa |-> act.name, act |-> act', ts |-> St', fabs |-> Abs, tabs |-> Abs']))
View == <<class, cmdenv, dflt, src, done, eff, accepted>>
=============================================================================
