SPECIFICATION Spec
CONSTANTS
  Families = {"frac", "ns"}
  Big = TRUE
  Faithful = FALSE
INVARIANTS TypeOK CarriesSame RefIsEncoding SlotSound NonScalarAgree EncodingIndependent ViewDiffLocal DevOnlyWhereViewsDiffer DecoderFacts
CHECK_DEADLOCK FALSE
VIEW View
