SPECIFICATION FairSpec
CONSTANTS
  Addr <- Addr1
  Gaps <- GapsJitter1
  T = 10
  D = 1
  MaxEvents = 2
  MaxFails = 3
  Extra = "none"
  Backoff = FALSE
  Closed = TRUE
  ObserveCb = TRUE
  TrackQuiet = FALSE
  UnitMs = 1000
  Boot <- NoNodes
  CrashSet <- AllNodes
  StopSet <- AllNodes
  Sync = FALSE
  TrackAge = FALSE
INVARIANTS TypeOK
PROPERTIES EventuallyAgreed HashCatchesUp
