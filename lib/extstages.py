"""Coverage-extension stages (lib/ext/CXn.py, written as stand-alone checks) spliced into host properties.
pick(ext, names, **overrides) returns copies of the named stages of lib/ext/<ext>.py."""
import copy
import importlib.util
import os

_D = os.path.join(os.path.dirname(os.path.abspath(__file__)), "ext")


def pick(ext, names, **over):
    spec = importlib.util.spec_from_file_location("ext_" + ext, os.path.join(_D, ext + ".py"))
    m = importlib.util.module_from_spec(spec)
    spec.loader.exec_module(m)
    by = {s.get("name", s["module"]): s for s in m.PROP["stages"]}
    out = []
    for n in names:
        s = copy.deepcopy(by[n])
        s.update(over)
        out.append(s)
    return out
