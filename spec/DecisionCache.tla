--------------------------- MODULE DecisionCache ---------------------------
(***************************************************************************)
(* One worker's trace decision cache (property C31):                       *)
(*   collect/cache/cuckooSentCache.go   Record / CheckSpan / CheckTrace /  *)
(*                                      Resize                             *)
(*   collect/cache/cuckoo.go            Add / drain / Maintain /           *)
(*                                      SetNextCapacity                    *)
(*   collect/cache/kept_reasons_cache.go  reason interning (round trip)    *)
(*                                                                         *)
(* Kept side: an LRU of capacity keptCap, modelled as a sequence in        *)
(* recency order (oldest first, as lru.Keys() lists it).  lru.Add and a    *)
(* successful lru.Get move an entry to the newest end.  In the code        *)
(* CheckSpan and CheckTrace reach lru.Get only when the dropped side did   *)
(* not answer first, so a lookup answered "dropped" does NOT refresh the   *)
(* kept entry.                                                             *)
(*                                                                         *)
(* Dropped side: RecordDropped puts the id into the short-lived recent set *)
(* (consulted by CheckSpan only) and on the asynchronous add queue; a      *)
(* drain moves the whole queue, under one lock, into the current filter    *)
(* and, if it exists, into the future filter.  Maintain drains, creates    *)
(* the future filter once the current one is more than half full, and      *)
(* rotates (current := future, future := new empty filter sized by the     *)
(* capacity set by the last Resize) when the current one is more than 99%  *)
(* full.                                                                   *)
(*                                                                         *)
(* A filter is modelled as a bag of ids over a fixed number of slots       *)
(* (panmari/cuckoofilter: 4-slot buckets, 1 bucket for capacity <= 3,      *)
(* 2 buckets for capacity 4..7).  The filter does not deduplicate: every   *)
(* insert takes a slot.  An insert into a full filter fails after random   *)
(* kick-outs and loses one fingerprint: any of the stored ones or the new  *)
(* one (nondeterministic victim).  False positives are excluded by the     *)
(* harness choosing ids with pairwise distinct fingerprints (and, for the  *)
(* 2-bucket filter, ids that may live in either bucket), so the bag is     *)
(* exact for the ids used.                                                 *)
(*                                                                         *)
(* Readings adopted (DESIGN.md section 9): "until the filter has been      *)
(* filled to capacity since the record" = until the first rotation after   *)
(* the record; additionally the obligation ends when an insert hits a      *)
(* completely full current filter (that is the filter being filled to      *)
(* capacity, literally).  "Barring add-queue overflow": the queue is       *)
(* bounded by MaxQueue in Next and never overflows here; an id still on    *)
(* the add queue is guaranteed only through the recent set (CheckSpan).    *)
(***************************************************************************)
EXTENDS Integers, Sequences, FiniteSets, TLC, Json

CONSTANTS Traces,      \* set of strings: trace ids
          KeepTraces,  \* subset of Traces that may be recorded as kept
          DropTraces,  \* subset of Traces that may be recorded as dropped
          Rates,       \* set of positive integers (tokens for sample rates)
          Reasons,     \* set of strings
          Coupled,     \* TRUE: each rate comes with one fixed reason (smaller model)
          KeptSizes,   \* initial per-worker kept capacities (>= 1)
          ResizeKept,  \* kept capacities a Resize may ask for (0 = rejected by lru.New)
          DropSizes,   \* dropped-filter capacities (0..7), initial and by Resize
          MaxQueue,    \* bound on the add queue explored (real depth: 1000)
          MaxCount,    \* span counts are observed saturated at this value
          MaxTotal,    \* (SpecP) dropped records explored per walk
          TrackPromise \* TRUE: the implementation-shaped Spec also maintains the promise ghosts
                       \*       (pSince, pCapMin, pNeedMaint, pRegular) so that TLC can check
                       \*       PromiseHeldByModel; FALSE: they stay constant (no extra states)

VARIABLES kept,      \* sequence of [t, rate, reason, count], oldest first
          keptCap,   \* capacity of the kept LRU
          cur,       \* current filter: bag  Traces -> Nat
          curSlots,  \* number of slots of the current filter
          futOn,     \* future filter exists
          fut,       \* future filter (all 0 when ~futOn)
          futSlots,  \* slots of the future filter (0 when ~futOn)
          nextCap,   \* CuckooTraceChecker.capacity: used for the next NewFilter
          queue,     \* add queue (sequence of ids)
          recent,    \* recentDroppedIDs (unexpired members)
          gh,        \* ghost: kept decisions most recently recorded or consulted,
                     \*        [t, rate, reason], oldest first, trimmed to capacity
          obl,       \* ghost: Traces -> 0..2, number of rotations the dropped record
                     \*        of t is still guaranteed to survive (0 = no obligation)
          act,
          \* --- variables of the promise-only specification SpecP (see the end of the module);
          \*     SpecP also uses keptCap, nextCap (the configuration), queue and gh
          pEver,      \* Traces -> <<rate, reason>> last recorded as kept, or <<>>
          pEverDrop,  \* traces ever recorded as dropped
          pSince,     \* Traces -> -1 .. SinceMax: dropped records settled after t's latest
                      \*           settled dropped record (saturating), -1 = none
          pFresh,     \* recorded as dropped and no ExpireRecent since
          pNeedMaint, \* a record was settled and no maintenance cycle ran since
          pCapMin,    \* smallest dropped capacity configured so far
          pRegular,   \* (Spec with TrackPromise only) maintenance has been regular so far
          pLast,      \* answer of the last lookup
          pTotal,     \* (SpecP) dropped records settled so far; history only: it makes the
          pResizedAt  \* (SpecP) walk visit every lookup at every fill level before and after a
                      \*         capacity change (pTotal at the last one, -1 = none)

ivars == <<kept, keptCap, cur, curSlots, futOn, fut, futSlots, nextCap, queue, recent, gh, obl>>
pvars == <<pEver, pEverDrop, pSince, pFresh, pNeedMaint, pCapMin, pRegular, pLast, pTotal, pResizedAt>>
vars == <<ivars, pvars, act>>

Min(a, b) == IF a < b THEN a ELSE b
Max(a, b) == IF a > b THEN a ELSE b

\* cuckoo.NewFilter(n): buckets = nextPow2(n / 4), doubled when n / (4*buckets) > 0.96, at least 1
Slots(cap) == IF cap <= 3 THEN 4 ELSE 8

EmptyBag == [t \in Traces |-> 0]

RECURSIVE SumOver(_, _)
SumOver(b, S) == IF S = {} THEN 0
                 ELSE LET x == CHOOSE x \in S : TRUE IN b[x] + SumOver(b, S \ {x})
Total(b) == SumOver(b, Traces)

Permille(n, slots) == (n * 1000) \div slots

\* --- the promise in numbers -------------------------------------------------
\* A drained dropped record is promised to be answered dropped while fewer than
\* Retain(capacity) further dropped records have been settled, given regular
\* maintenance.  Retain(c) = Slots(c) / 2 - 1 is what a two-generation filter whose
\* shadow generation starts at half load can guarantee; for production sizes
\* (slots = 1.04 .. 2.08 x DroppedSize) that is 0.5 .. 1.0 x DroppedSize.
Retain(cap) == IF cap < 0 THEN 0 ELSE Slots(cap) \div 2 - 1
\* A Resize that lowers the promised retention leaves filters of two sizes in use for
\* two rotations (the larger current one outlives its smaller shadow's capacity), and
\* no count of records describes that; the numeric obligation is void from then on
\* (capacity in force = -1).  Growing or keeping the size keeps the obligation.
CapInForce(capMin, oldCap, newCap) ==
  IF capMin < 0 \/ Retain(newCap) < Retain(oldCap) THEN -1 ELSE Min(capMin, newCap)
SinceMax == 3
NoLast == [op |-> "-", t |-> "-", ans |-> "-", rate |-> 0, reason |-> ""]

\* settle the add queue q into the since-counters s
RECURSIVE SettleSince(_, _)
SettleSince(q, s) ==
  IF q = <<>> THEN s
  ELSE SettleSince(Tail(q), [u \in Traces |-> IF u = Head(q) THEN 0
                                              ELSE IF s[u] >= 0 THEN Min(s[u] + 1, SinceMax) ELSE -1])

MetaPairs == IF Coupled
             THEN LET f == CHOOSE f \in [Rates -> Reasons] : \A a, b \in Rates : a # b => f[a] # f[b]
                  IN {<<r, f[r]>> : r \in Rates}
             ELSE Rates \X Reasons

---------------------------------------------------------------------------
\* kept LRU helpers
Without(s, t) == SelectSeq(s, LAMBDA e : e.t # t)
Newest(s, n) == IF Len(s) <= n THEN s ELSE SubSeq(s, Len(s) - n + 1, Len(s))
HasKept(t) == \E i \in DOMAIN kept : kept[i].t = t
KeptEntry(t) == kept[CHOOSE i \in DOMAIN kept : kept[i].t = t]
GhEntry(t) == gh[CHOOSE i \in DOMAIN gh : gh[i].t = t]
Touch(s, e) == Append(Without(s, e.t), e)

NoAnswer == [ans |-> "none", rate |-> 0, reason |-> "", count |-> 0]
Dropped  == [ans |-> "dropped", rate |-> 0, reason |-> "", count |-> 0]
KeptAnswer(e) == [ans |-> "kept", rate |-> e.rate, reason |-> e.reason, count |-> e.count]

\* what CheckTrace(t) / CheckSpan(t) would answer in the current state
TraceAns(t) == IF cur[t] > 0 THEN Dropped
               ELSE IF HasKept(t) THEN KeptAnswer(KeptEntry(t)) ELSE NoAnswer
SpanAns(t) == IF t \in recent \/ cur[t] > 0 THEN Dropped
              ELSE IF HasKept(t)
                   THEN KeptAnswer([KeptEntry(t) EXCEPT !.count = Min(@ + 1, MaxCount)])
                   ELSE NoAnswer

---------------------------------------------------------------------------
\* the projection the Go harness observes on the real cuckooSentCache
Abs == [ kept       |-> kept,
         droppedSet |-> {t \in Traces : cur[t] > 0},
         recentSet  |-> recent,
         queueLen   |-> Len(queue),
         curCount   |-> Total(cur),
         curSlots   |-> curSlots,
         futCount   |-> IF futOn THEN Total(fut) ELSE -1,
         futSlots   |-> futSlots,
         nextCap    |-> nextCap ]

St == [ kept |-> kept, keptCap |-> keptCap, cur |-> cur, curSlots |-> curSlots, futOn |-> futOn,
        fut |-> fut, futSlots |-> futSlots, nextCap |-> nextCap, queue |-> queue,
        recentSet |-> recent, gh |-> gh, obl |-> obl, maxCount |-> MaxCount ]

Init == /\ kept = <<>>
        /\ keptCap \in KeptSizes
        /\ cur = EmptyBag
        /\ nextCap \in DropSizes
        /\ curSlots = Slots(nextCap)
        /\ futOn = FALSE
        /\ fut = EmptyBag
        /\ futSlots = 0
        /\ queue = <<>>
        /\ recent = {}
        /\ gh = <<>>
        /\ obl = [t \in Traces |-> 0]
        /\ act = [name |-> "Init"]
        /\ pEver = [t \in Traces |-> <<>>]
        /\ pEverDrop = {}
        /\ pSince = [t \in Traces |-> -1]
        /\ pFresh = {}
        /\ pNeedMaint = FALSE
        /\ pCapMin = nextCap
        /\ pRegular = TRUE
        /\ pLast = NoLast
        /\ pTotal = 0
        /\ pResizedAt = -1

---------------------------------------------------------------------------
\* Record(trace, keep = true, reason): keptReasons.Set + lru.Add
RecordKept(t, r, w) ==
  /\ kept' = Newest(Touch(kept, [t |-> t, rate |-> r, reason |-> w, count |-> 0]), keptCap)
  /\ gh' = Newest(Touch(gh, [t |-> t, rate |-> r, reason |-> w]), keptCap)
  /\ UNCHANGED <<keptCap, cur, curSlots, futOn, fut, futSlots, nextCap, queue, recent, obl>>
  /\ act' = [name |-> "RecordKept", t |-> t, rate |-> r, reason |-> w]

\* Record(trace, keep = false, _): recentDroppedIDs.Add + CuckooTraceChecker.Add (enqueue)
RecordDropped(t) ==
  /\ Len(queue) < MaxQueue
  /\ recent' = recent \cup {t}
  /\ queue' = Append(queue, t)
  /\ UNCHANGED <<kept, keptCap, cur, curSlots, futOn, fut, futSlots, nextCap, gh, obl>>
  /\ act' = [name |-> "RecordDropped", t |-> t]

\* cuckoo.Filter.Insert: all possible outcomes
Ins(b, slots, x) ==
  IF Total(b) < slots
  THEN {[bag |-> [b EXCEPT ![x] = @ + 1], ovf |-> FALSE]}
  ELSE {[bag |-> [[b EXCEPT ![x] = @ + 1] EXCEPT ![v] = @ - 1], ovf |-> TRUE] :
          v \in {u \in Traces : b[u] > 0} \cup {x}}

\* ghost bookkeeping for one drained id
OblAfter(o, x, covf, fovf) ==
  IF covf THEN [t \in Traces |-> 0]       \* current filter filled to capacity: all bets are off
  ELSE LET base == IF fovf THEN [t \in Traces |-> Min(o[t], 1)] ELSE o
           lvl  == IF futOn /\ ~fovf THEN 2 ELSE 1
       IN [base EXCEPT ![x] = Max(@, lvl)]

DrainOne(D, x) ==
  LET cs == Ins(D.cur, curSlots, x)
      fs == IF futOn THEN Ins(D.fut, futSlots, x) ELSE {[bag |-> D.fut, ovf |-> FALSE]}
  IN {[cur |-> c.bag, fut |-> f.bag, obl |-> OblAfter(D.obl, x, c.ovf, f.ovf)] : c \in cs, f \in fs}

RECURSIVE DrainSet(_, _)
DrainSet(q, DS) == IF q = <<>> THEN DS
                   ELSE DrainSet(Tail(q), UNION {DrainOne(D, Head(q)) : D \in DS})
Drained == DrainSet(queue, {[cur |-> cur, fut |-> fut, obl |-> obl]})

\* the add-queue goroutine: `for len(addch) > 0 { drain() }`, one lock
Drain ==
  /\ queue # <<>>
  /\ \E D \in Drained : /\ cur' = D.cur
                        /\ fut' = D.fut
                        /\ obl' = D.obl
  /\ queue' = <<>>
  /\ UNCHANGED <<kept, keptCap, curSlots, futOn, futSlots, nextCap, recent, gh>>
  /\ act' = [name |-> "Drain"]

\* CuckooTraceChecker.Maintain (the monitor goroutine's tick)
Maintain ==
  \E D \in Drained :
    LET tot   == Total(D.cur)
        mkFut == ~futOn /\ 2 * tot > curSlots           \* load factor > 0.5
        rot   == 100 * tot > 99 * curSlots              \* load factor > 0.99
        fut1  == IF mkFut THEN EmptyBag ELSE D.fut
        fSl1  == IF mkFut THEN Slots(nextCap) ELSE futSlots
    IN /\ queue' = <<>>
       /\ IF rot
          THEN /\ cur' = fut1
               /\ curSlots' = fSl1
               /\ fut' = EmptyBag
               /\ futSlots' = Slots(nextCap)
               /\ futOn' = TRUE
               /\ obl' = [t \in Traces |-> Max(D.obl[t] - 1, 0)]
          ELSE /\ cur' = D.cur
               /\ curSlots' = curSlots
               /\ fut' = fut1
               /\ futSlots' = fSl1
               /\ futOn' = (futOn \/ mkFut)
               /\ obl' = D.obl
       /\ UNCHANGED <<kept, keptCap, nextCap, recent, gh>>
       /\ act' = [name |-> "Maintain",
                  g |-> [cur |-> Permille(tot, curSlots),
                         fut |-> IF futOn THEN Permille(Total(D.fut), futSlots) ELSE -1,
                         cap |-> nextCap]]

\* CheckSpan(span of trace t)
CheckSpan(t) ==
  /\ act' = [name |-> "CheckSpan", t |-> t, ans |-> SpanAns(t)]
  /\ IF t \in recent
     THEN UNCHANGED <<kept, recent, gh>>                 \* TTL refreshed
     ELSE IF cur[t] > 0
          THEN /\ recent' = recent \cup {t}
               /\ UNCHANGED <<kept, gh>>
          ELSE IF HasKept(t)
               THEN /\ kept' = Touch(kept, [KeptEntry(t) EXCEPT !.count = Min(@ + 1, MaxCount)])
                    /\ gh' = Touch(gh, GhEntry(t))
                    /\ UNCHANGED recent
               ELSE UNCHANGED <<kept, recent, gh>>
  /\ UNCHANGED <<keptCap, cur, curSlots, futOn, fut, futSlots, nextCap, queue, obl>>

\* CheckTrace(t): consults the filter only, never the recent set; does not count
CheckTrace(t) ==
  /\ act' = [name |-> "CheckTrace", t |-> t, ans |-> TraceAns(t)]
  /\ IF cur[t] = 0 /\ HasKept(t)
     THEN /\ kept' = Touch(kept, KeptEntry(t))
          /\ gh' = Touch(gh, GhEntry(t))
     ELSE UNCHANGED <<kept, gh>>
  /\ UNCHANGED <<keptCap, cur, curSlots, futOn, fut, futSlots, nextCap, queue, recent, obl>>

\* more than the recent set's TTL passes without a lookup
ExpireRecent ==
  /\ recent # {}
  /\ recent' = {}
  /\ UNCHANGED <<kept, keptCap, cur, curSlots, futOn, fut, futSlots, nextCap, queue, gh, obl>>
  /\ act' = [name |-> "ExpireRecent"]

\* Resize(cfg): new LRU with the newest entries; dropped capacity for the next filter
Resize(n, d) ==
  /\ IF n < 1
     THEN UNCHANGED <<kept, keptCap, nextCap, gh>>       \* lru.New fails, nothing changed
     ELSE /\ kept' = Newest(kept, n)
          /\ gh' = Newest(gh, n)
          /\ keptCap' = n
          /\ nextCap' = d
  /\ UNCHANGED <<cur, curSlots, futOn, fut, futSlots, queue, recent, obl>>
  /\ act' = [name |-> "Resize", kept |-> n, dropped |-> d, err |-> (n < 1)]

\* promise ghosts maintained next to the implementation-shaped model (TrackPromise)
pTracked == <<pSince, pNeedMaint, pCapMin, pRegular>>
pUntracked == <<pEver, pEverDrop, pFresh, pLast, pTotal, pResizedAt>>
TrackRecord ==
  IF TrackPromise
  THEN /\ pRegular' = (pRegular /\ queue = <<>> /\ ~pNeedMaint)
       /\ UNCHANGED <<pSince, pNeedMaint, pCapMin, pUntracked>>
  ELSE UNCHANGED pvars
TrackSettle(needMaint) ==
  IF TrackPromise
  THEN /\ pSince' = SettleSince(queue, pSince)
       /\ pNeedMaint' = IF needMaint THEN TRUE ELSE FALSE
       /\ UNCHANGED <<pCapMin, pRegular, pUntracked>>
  ELSE UNCHANGED pvars
TrackResize(n, d) ==
  IF TrackPromise /\ n >= 1
  THEN /\ pCapMin' = CapInForce(pCapMin, nextCap, d)
       /\ UNCHANGED <<pSince, pNeedMaint, pRegular, pUntracked>>
  ELSE UNCHANGED pvars

Next == \/ /\ \E t \in KeepTraces, m \in MetaPairs : RecordKept(t, m[1], m[2])
           /\ UNCHANGED pvars
        \/ /\ \E t \in DropTraces : RecordDropped(t)
           /\ TrackRecord
        \/ Drain /\ TrackSettle(TRUE)
        \/ Maintain /\ TrackSettle(FALSE)
        \/ /\ \E t \in Traces : CheckSpan(t)
           /\ UNCHANGED pvars
        \/ /\ \E t \in Traces : CheckTrace(t)
           /\ UNCHANGED pvars
        \/ ExpireRecent /\ UNCHANGED pvars
        \/ \E n \in ResizeKept, d \in DropSizes : Resize(n, d) /\ TrackResize(n, d)

Spec == Init /\ [][Next]_vars

---------------------------------------------------------------------------
Entry == [t : Traces, rate : Rates, reason : Reasons, count : 0 .. MaxCount]

TypeOK ==
  /\ kept \in Seq(Entry) /\ Len(kept) <= keptCap
  /\ \A i, j \in DOMAIN kept : i # j => kept[i].t # kept[j].t
  /\ keptCap \in (KeptSizes \cup ResizeKept) \ {0}
  /\ cur \in [Traces -> 0 .. 8] /\ Total(cur) <= curSlots
  /\ fut \in [Traces -> 0 .. 8] /\ Total(fut) <= futSlots
  /\ curSlots \in {4, 8} /\ futSlots \in {0, 4, 8}
  /\ futOn \in BOOLEAN /\ (futOn <=> futSlots # 0)
  /\ nextCap \in DropSizes
  /\ queue \in Seq(Traces) /\ Len(queue) <= MaxQueue
  /\ recent \subseteq Traces
  /\ obl \in [Traces -> 0 .. 2]

\* C31, kept side: every kept decision among the keptCap most recently recorded or
\* consulted ones is answered kept with the recorded rate and reason -- unless the
\* trace is (also) answered dropped, which wins.
KeptRemembered ==
  \A i \in DOMAIN gh :
    LET e == gh[i] IN
      /\ TraceAns(e.t).ans \in {"kept", "dropped"}
      /\ TraceAns(e.t).ans = "kept" => TraceAns(e.t).rate = e.rate /\ TraceAns(e.t).reason = e.reason
      /\ SpanAns(e.t).ans \in {"kept", "dropped"}
      /\ SpanAns(e.t).ans = "kept" => SpanAns(e.t).rate = e.rate /\ SpanAns(e.t).reason = e.reason

\* the LRU holds exactly the ghost's decisions, in the same recency order
RecencyOrder ==
  /\ Len(kept) = Len(gh)
  /\ \A i \in DOMAIN gh : kept[i].t = gh[i].t

\* C31, resize: the newest min(n, size) decisions survive, in order, nothing else changes
ResizeKeepsNewest ==
  [][act'.name = "Resize" /\ ~act'.err =>
        /\ Len(kept') = Min(act'.kept, Len(kept))
        /\ \A k \in 1 .. Len(kept') : kept'[k] = kept[Len(kept) - Len(kept') + k]]_vars

\* the LRU loses an entry only by a resize or by recording a new trace into a full LRU,
\* and then it is the least recently recorded-or-consulted one
EvictOnlyOldest ==
  [][\A i \in DOMAIN kept :
        (~\E j \in DOMAIN kept' : kept'[j].t = kept[i].t) =>
           \/ act'.name = "Resize"
           \/ /\ act'.name = "RecordKept" /\ i = 1 /\ Len(kept) = keptCap
              /\ ~\E j \in DOMAIN kept : kept[j].t = act'.t]_vars

\* C31, dropped side: a drained dropped record is answered dropped by both lookups, even
\* if the trace was also recorded as kept, until the first rotation after it (records
\* made while the future filter exists survive that rotation too)
DroppedRemembered ==
  \A t \in Traces : obl[t] >= 1 => /\ TraceAns(t) = Dropped
                                   /\ SpanAns(t) = Dropped

\* C31, dropped side through CheckSpan: a dropped record is answered dropped at once and
\* for as long as the recent set keeps it, drained or not
RecentRemembered == \A t \in recent : SpanAns(t) = Dropped
RecordDroppedAnswered ==
  [][\A t \in Traces : (act'.name = "RecordDropped" /\ act'.t = t) => SpanAns(t)' = Dropped]_vars
RecentSticks ==
  [][\A t \in recent : act'.name # "ExpireRecent" => SpanAns(t)' = Dropped]_vars

\* obligations end only by a rotation or a filter filled to capacity
ObligationEndsOnlyWhenFull ==
  [][\A t \in Traces : (obl[t] >= 1 /\ obl'[t] = 0) =>
        /\ act'.name \in {"Drain", "Maintain"}
        /\ Total(cur) + Len(queue) >= curSlots]_vars

\* an answer never appears from nowhere (exact filter: no false positives for the ids used)
NoSpontaneousAnswer ==
  [][\A t \in Traces : (TraceAns(t) = NoAnswer /\ TraceAns(t)' # NoAnswer) =>
        \/ act'.name = "RecordKept" /\ act'.t = t
        \/ act'.name \in {"Drain", "Maintain"}]_vars


\* Bridge: the implementation-shaped model honours the numeric promise whenever
\* maintenance has been regular (checked by TLC with TrackPromise = TRUE)
PromiseHeldByModel ==
  pRegular => \A t \in Traces :
                 (pSince[t] >= 0 /\ pSince[t] < Retain(pCapMin)) => /\ TraceAns(t) = Dropped
                                                                   /\ SpanAns(t) = Dropped
ViewAll == <<kept, keptCap, cur, curSlots, futOn, fut, futSlots, nextCap, queue, recent, gh, obl,
             pSince, pNeedMaint, pCapMin, pRegular>>

---------------------------------------------------------------------------
(***************************************************************************)
(* SpecP: the PROMISE-ONLY specification (second alternative of the walk). *)
(* It knows nothing of filters, generations, loads, slots, the recent set  *)
(* or the LRU's representation.  Its state is the history the property     *)
(* statement talks about:                                                  *)
(*   gh         the keptCap kept decisions most recently recorded or       *)
(*              consulted (a lookup counts only if it answered kept)       *)
(*   pEver      what else an implementation may still remember as kept     *)
(*   pSince     per trace, how many dropped records were settled since its *)
(*              own dropped record was settled                             *)
(*   pFresh     dropped records not older than the short-term memory       *)
(* and its only observable is the answer of a lookup (pLast).  A lookup    *)
(* may answer anything the statement does not forbid:                      *)
(*   - owed dropped (pSince < Retain(pCapMin), or fresh for CheckSpan):    *)
(*     must answer dropped, even if the trace is also owed as kept;        *)
(*   - otherwise dropped is allowed for any trace ever recorded dropped    *)
(*     ("at least until": remembering longer is fine),                     *)
(*     kept with the last recorded rate and reason for any trace ever      *)
(*     recorded kept (mandatory, if not answered dropped, for owed ones),  *)
(*     none only for traces not owed as kept.                              *)
(* Dropped records are explored under regular maintenance only (a cycle    *)
(* runs between two dropped records), which is the regime in which a count *)
(* of records can stand for "the filter has been filled to capacity".      *)
(* The capacity in force is the smallest DroppedSize configured so far     *)
(* (void after a Resize that lowers the retention), so the obligation      *)
(* never depends on when an implementation creates, sizes or rotates its   *)
(* filters.                                                                *)
(***************************************************************************)
Owed(t) == \E i \in DOMAIN gh : gh[i].t = t
OblTrace == {t \in Traces : pSince[t] >= 0 /\ pSince[t] < Retain(pCapMin)}
OblSpan == OblTrace \cup pFresh

Allowed(t, obliged) ==
  IF t \in obliged THEN {[ans |-> "dropped", rate |-> 0, reason |-> ""]}
  ELSE (IF t \in pEverDrop THEN {[ans |-> "dropped", rate |-> 0, reason |-> ""]} ELSE {})
       \cup (IF pEver[t] # <<>> THEN {[ans |-> "kept", rate |-> pEver[t][1], reason |-> pEver[t][2]]} ELSE {})
       \cup (IF ~Owed(t) THEN {[ans |-> "none", rate |-> 0, reason |-> ""]} ELSE {})

iUnused == <<kept, cur, curSlots, futOn, fut, futSlots, recent, obl>>

InitP == /\ kept = <<>> /\ cur = EmptyBag /\ curSlots = 0 /\ futOn = FALSE /\ fut = EmptyBag
         /\ futSlots = 0 /\ recent = {} /\ obl = [t \in Traces |-> 0]
         /\ keptCap \in KeptSizes
         /\ nextCap \in DropSizes
         /\ queue = <<>>
         /\ gh = <<>>
         /\ pEver = [t \in Traces |-> <<>>]
         /\ pEverDrop = {}
         /\ pSince = [t \in Traces |-> -1]
         /\ pFresh = {}
         /\ pNeedMaint = FALSE
         /\ pCapMin = nextCap
         /\ pRegular = TRUE
         /\ pLast = NoLast
         /\ pTotal = 0
         /\ pResizedAt = -1
         /\ act = [name |-> "Init"]

PRecordKept(t, r, w) ==
  /\ gh' = Newest(Touch(gh, [t |-> t, rate |-> r, reason |-> w]), keptCap)
  /\ pEver' = [pEver EXCEPT ![t] = <<r, w>>]
  /\ pLast' = NoLast
  /\ UNCHANGED <<keptCap, nextCap, queue, pEverDrop, pSince, pFresh, pNeedMaint, pCapMin, pTotal, pResizedAt>>
  /\ act' = [name |-> "RecordKept", t |-> t, rate |-> r, reason |-> w]

PRecordDropped(t) ==
  /\ queue = <<>> /\ ~pNeedMaint                    \* regular maintenance
  /\ pTotal < MaxTotal
  /\ queue' = <<t>>
  /\ pFresh' = pFresh \cup {t}
  /\ pEverDrop' = pEverDrop \cup {t}
  /\ pLast' = NoLast
  /\ UNCHANGED <<keptCap, nextCap, gh, pEver, pSince, pNeedMaint, pCapMin, pTotal, pResizedAt>>
  /\ act' = [name |-> "RecordDropped", t |-> t]

PSettle(name, needMaint) ==
  /\ pSince' = SettleSince(queue, pSince)
  /\ queue' = <<>>
  /\ pNeedMaint' = needMaint
  /\ pTotal' = pTotal + Len(queue)
  /\ pLast' = NoLast
  /\ UNCHANGED <<keptCap, nextCap, gh, pEver, pEverDrop, pFresh, pCapMin, pResizedAt>>
  /\ act' = [name |-> name]

PDrain == queue # <<>> /\ PSettle("Drain", TRUE)
PMaintain == PSettle("Maintain", FALSE)

PLookup(name, t, obliged) ==
  \E a \in Allowed(t, obliged) :
    /\ pLast' = [op |-> name, t |-> t, ans |-> a.ans, rate |-> a.rate, reason |-> a.reason]
    /\ gh' = IF a.ans = "kept"
             THEN Newest(Touch(gh, [t |-> t, rate |-> a.rate, reason |-> a.reason]), keptCap)
             ELSE gh
    /\ UNCHANGED <<keptCap, nextCap, queue, pEver, pEverDrop, pSince, pFresh, pNeedMaint, pCapMin, pTotal, pResizedAt>>
    /\ act' = [name |-> name, t |-> t]

PExpireRecent ==
  /\ pFresh # {}
  /\ pFresh' = {}
  /\ pLast' = NoLast
  /\ UNCHANGED <<keptCap, nextCap, queue, gh, pEver, pEverDrop, pSince, pNeedMaint, pCapMin, pTotal, pResizedAt>>
  /\ act' = [name |-> "ExpireRecent"]

PResize(n, d) ==
  /\ n >= 1
  /\ gh' = Newest(gh, n)
  /\ keptCap' = n
  /\ nextCap' = d
  /\ pCapMin' = CapInForce(pCapMin, nextCap, d)
  /\ pResizedAt' = IF d # nextCap THEN pTotal ELSE pResizedAt
  /\ pLast' = NoLast
  /\ UNCHANGED <<queue, pEver, pEverDrop, pSince, pFresh, pNeedMaint, pTotal>>
  /\ act' = [name |-> "Resize", kept |-> n, dropped |-> d]

NextP == /\ \/ \E t \in KeepTraces, m \in MetaPairs : PRecordKept(t, m[1], m[2])
            \/ \E t \in DropTraces : PRecordDropped(t)
            \/ PDrain
            \/ PMaintain
            \/ \E t \in Traces : PLookup("CheckSpan", t, OblSpan)
            \/ \E t \in Traces : PLookup("CheckTrace", t, OblTrace)
            \/ PExpireRecent
            \/ \E n \in ResizeKept, d \in DropSizes : PResize(n, d)
         /\ UNCHANGED <<iUnused, pRegular>>

SpecP == InitP /\ [][NextP]_vars

TypeOKP ==
  /\ gh \in Seq([t : Traces, rate : Rates, reason : Reasons]) /\ Len(gh) <= keptCap
  /\ \A i, j \in DOMAIN gh : i # j => gh[i].t # gh[j].t
  /\ \A i \in DOMAIN gh : pEver[gh[i].t] = <<gh[i].rate, gh[i].reason>>
  /\ pSince \in [Traces -> -1 .. SinceMax]
  /\ pFresh \subseteq pEverDrop /\ pEverDrop \subseteq Traces
  /\ Len(queue) <= 1
  /\ pCapMin \in DropSizes \cup {-1} /\ pCapMin <= nextCap
  /\ pTotal \in 0 .. MaxTotal /\ pResizedAt \in -1 .. MaxTotal
\* what SpecP promises, restated on its own answers: an owed dropped record has exactly one
\* allowed answer, and an owed kept decision never answers none or other values
PromiseShape ==
  /\ \A t \in OblTrace : Allowed(t, OblTrace) = {[ans |-> "dropped", rate |-> 0, reason |-> ""]}
  /\ \A t \in OblSpan : Allowed(t, OblSpan) = {[ans |-> "dropped", rate |-> 0, reason |-> ""]}
  /\ \A i \in DOMAIN gh : \A a \in Allowed(gh[i].t, OblTrace) \cup Allowed(gh[i].t, OblSpan) :
        \/ a.ans = "dropped" /\ gh[i].t \in pEverDrop
        \/ a.ans = "kept" /\ a.rate = gh[i].rate /\ a.reason = gh[i].reason

AbsP == [last |-> pLast]
StP == [keptCap |-> keptCap, nextCap |-> nextCap, queue |-> queue, gh |-> gh, pEver |-> pEver,
        pEverDropSet |-> pEverDrop, pSince |-> pSince, pFreshSet |-> pFresh, pNeedMaint |-> pNeedMaint,
        pCapMin |-> pCapMin, last |-> pLast, pTotal |-> pTotal, pResizedAt |-> pResizedAt]
DumpP == PrintT(ToJson([fs |-> StP, fa |-> act.name, act |-> act', ts |-> StP', fabs |-> AbsP, tabs |-> AbsP']))
ViewP == <<keptCap, nextCap, queue, gh, pEver, pEverDrop, pSince, pFresh, pNeedMaint, pCapMin, pLast, pTotal, pResizedAt>>

\* edge dump used by the conformance replay (enabled from the .cfg)
Dump == PrintT(ToJson([fs |-> St, fa |-> act.name, act |-> act', ts |-> St', fabs |-> Abs, tabs |-> Abs']))
View == <<kept, keptCap, cur, curSlots, futOn, fut, futSlots, nextCap, queue, recent, gh, obl>>
=============================================================================
