//go:build verif

package types

import (
	"encoding/json"
	"fmt"
	"os"
	"sort"
	"strconv"
	"testing"

	"github.com/honeycombio/refinery/config"
	"github.com/honeycombio/refinery/internal/verifkit"
	"github.com/tinylib/msgp/msgp"
	"github.com/valyala/fastjson"
)

// c21Harness binds spec/Identity.tla (B3 function vectors) to the real
// metadata extraction of types.Payload. One specification input is
//
//	inp = {path, tn, pn, ev: [{n, ty}, ...]}
//
// and the single action Eval builds the event through the ingestion path
// `path` with TraceIdFieldNames = tn, ParentIdFieldNames = pn and the fields of
// ev in exactly that order, extracts the metadata the way route.processEvent
// does, and reports what the collector is handed: Payload.MetaTraceID and
// Payload.MetaRefineryRoot.Value (route.go: `IsRoot: ev.Data.MetaRefineryRoot.Value`).
//
// Paths that go through a Go map (map, json) are evaluated c21MapReps times on
// fresh maps/payloads, because the map iteration order is Go's, not the
// client's; the set of all answers is reported (a single answer everywhere is
// the only thing the ideal specification accepts).
type c21Harness struct {
	path string
	tn   []string
	pn   []string
	ev   []c21Field
	kf   []string
	cfg  *config.MockConfig
	done bool
	res  map[string]c21Res
}

type c21Field struct {
	N  string `json:"n"`
	Ty string `json:"ty"`
}

type c21Res struct {
	Tid  string `json:"tid"`
	Root string `json:"root"`
}

const c21MapReps = 48
const c21SeqReps = 2

func c21Strings(v any) []string {
	var out []string
	if l, ok := v.([]any); ok {
		for _, x := range l {
			s, _ := x.(string)
			out = append(out, s)
		}
	}
	return out
}

func (h *c21Harness) Reset(init map[string]any) error {
	inp, ok := init["inp"].(map[string]any)
	if !ok {
		return fmt.Errorf("c21: initial state without inp: %v", init)
	}
	h.path = verifkit.Str(inp, "path")
	h.tn = c21Strings(inp["tn"])
	h.pn = c21Strings(inp["pn"])
	h.ev = h.ev[:0]
	if l, ok := inp["ev"].([]any); ok {
		for _, x := range l {
			m, _ := x.(map[string]any)
			h.ev = append(h.ev, c21Field{N: verifkit.Str(m, "n"), Ty: verifkit.Str(m, "ty")})
		}
	}
	// the sampler of the event's destination: its key fields always include an
	// ordinary field and, per inp.kf, some of the ID fields themselves
	h.kf = append([]string{"c21.svc"}, c21Strings(inp["kf"])...)
	h.cfg = &config.MockConfig{TraceIdFieldNames: h.tn, ParentIdFieldNames: h.pn,
		Samplers: map[string]*config.V2SamplerChoice{"__default__": {DynamicSampler: &config.DynamicSamplerConfig{SampleRate: 1, FieldList: h.kf}}}}
	h.done = false
	h.res = map[string]c21Res{}
	return nil
}

// c21Value is the concrete value of a typed field: (string value, isString).
func c21Value(f c21Field) (string, bool) {
	switch f.Ty {
	case "str":
		return "id-" + f.N, true
	case "empty":
		return "", true
	case "log":
		return "log", true
	case "trace":
		return "trace", true
	}
	return "", false // nonstr: the number 7
}

func (h *c21Harness) msgpack() []byte {
	b := msgp.AppendMapHeader(nil, uint32(len(h.ev)))
	for _, f := range h.ev {
		b = msgp.AppendString(b, f.N)
		if s, isStr := c21Value(f); isStr {
			b = msgp.AppendString(b, s)
		} else {
			b = msgp.AppendInt64(b, 7)
		}
	}
	return b
}

func (h *c21Harness) jsonText() []byte {
	b := []byte{'{'}
	for i, f := range h.ev {
		if i > 0 {
			b = append(b, ',')
		}
		b = strconv.AppendQuote(b, f.N)
		b = append(b, ':')
		if s, isStr := c21Value(f); isStr {
			b = strconv.AppendQuote(b, s)
		} else {
			b = append(b, '7')
		}
	}
	return append(b, '}')
}

func (h *c21Harness) unmarshaler() CoreFieldsUnmarshaler {
	return NewCoreFieldsUnmarshaler(CoreFieldsUnmarshalerOptions{Config: h.cfg, APIKey: "c21key", Env: "c21env", Dataset: "c21ds"})
}

// evalOnce constructs one payload through h.path and extracts its metadata.
func (h *c21Harness) evalOnce() (res c21Res, err error) {
	defer func() {
		if r := recover(); r != nil {
			res = c21Res{Tid: fmt.Sprintf("panic: %v", r), Root: "n/a"}
		}
	}()
	var p Payload
	switch h.path {
	case "map": // route.requestToEvent / OTLP: NewPayload(cfg, map) ; processEvent: ExtractMetadata
		m := make(map[string]any, len(h.ev))
		for _, f := range h.ev {
			if s, isStr := c21Value(f); isStr {
				m[f.N] = s
			} else {
				m[f.N] = float64(7)
			}
		}
		p = NewPayload(h.cfg, m)
	case "json": // Payload.UnmarshalJSON (jsoniter -> map -> ExtractMetadata)
		p = NewPayload(h.cfg, nil)
		if err := p.UnmarshalJSON(h.jsonText()); err != nil {
			return res, err
		}
	case "msgp": // msgpack batch / peer traffic: batchedEvent.UnmarshalMsg -> UnmarshalMsgpFirstEvent
		p = NewPayload(h.cfg, nil)
		rest, err := h.unmarshaler().UnmarshalMsgpFirstEvent(append(h.msgpack(), 0xc0), &p)
		if err != nil {
			return res, err
		}
		if len(rest) != 1 || rest[0] != 0xc0 {
			return res, fmt.Errorf("c21: UnmarshalMsgpFirstEvent consumed the wrong number of bytes")
		}
	case "jsonbatch": // JSON batch: fastjson -> AppendJSONValue -> UnmarshalMsgpFirstEvent
		var parser fastjson.Parser
		v, err := parser.ParseBytes(h.jsonText())
		if err != nil {
			return res, err
		}
		buf, err := AppendJSONValue(nil, v)
		if err != nil {
			return res, err
		}
		p = NewPayload(h.cfg, nil)
		if _, err := h.unmarshaler().UnmarshalMsgpFirstEvent(buf, &p); err != nil {
			return res, err
		}
	case "umsg": // Payload.UnmarshalMsg (msgp.Unmarshaler)
		p = NewPayload(h.cfg, nil)
		if _, err := p.UnmarshalMsg(h.msgpack()); err != nil {
			return res, err
		}
	case "metaonly": // OTLP msgp: UnmarshalMsgpEventMetadataOnly
		p = NewPayload(h.cfg, nil)
		if err := h.unmarshaler().UnmarshalMsgpEventMetadataOnly(h.msgpack(), &p); err != nil {
			return res, err
		}
	default:
		return res, fmt.Errorf("c21: unknown path %q", h.path)
	}
	// route.processEvent always calls ExtractMetadata before looking at the IDs
	if err := p.ExtractMetadata(); err != nil {
		return res, err
	}
	res.Tid = p.MetaTraceID
	switch {
	case res.Tid == "":
		res.Root = "n/a" // not part of a trace: forwarded unsampled, the flag is never read
	case p.MetaRefineryRoot.Value:
		res.Root = "yes"
	default:
		res.Root = "no"
	}
	return res, nil
}

func (h *c21Harness) Apply(a map[string]any) error {
	if verifkit.Str(a, "name") != "Eval" {
		return fmt.Errorf("c21: unknown action %v", a)
	}
	reps := c21SeqReps
	if h.path == "map" || h.path == "json" {
		reps = c21MapReps
	}
	for i := 0; i < reps; i++ {
		r, err := h.evalOnce()
		if err != nil {
			return err
		}
		h.res[r.Tid+"\x00"+r.Root] = r
	}
	h.done = true
	return nil
}

func (h *c21Harness) Project() (any, error) {
	keys := make([]string, 0, len(h.res))
	for k := range h.res {
		keys = append(keys, k)
	}
	sort.Strings(keys)
	set := []any{}
	for _, k := range keys {
		set = append(set, h.res[k])
	}
	return map[string]any{"out": map[string]any{"done": h.done, "resSet": set}}, nil
}

func TestVerifC21Identity(t *testing.T) {
	if err := verifkit.Main(&c21Harness{}); err != nil {
		t.Fatal(err)
	}
}

// TestVerifC21Probe prints the answers for one hand-written vector (used while
// developing the check; not part of any stage).
func TestVerifC21Probe(t *testing.T) {
	raw := os.Getenv("C21_PROBE")
	if raw == "" {
		t.Skip("C21_PROBE not set")
	}
	var init map[string]any
	if err := json.Unmarshal([]byte(raw), &init); err != nil {
		t.Fatal(err)
	}
	h := &c21Harness{}
	if err := h.Reset(init); err != nil {
		t.Fatal(err)
	}
	if err := h.Apply(map[string]any{"name": "Eval"}); err != nil {
		t.Fatal(err)
	}
	out, _ := h.Project()
	b, _ := json.Marshal(out)
	t.Logf("%s", b)
}
