SPECIFICATION Spec
CONSTANTS
  Nodes <- mc_Nodes2
  Traces <- mc_Traces4
  Owner <- mc_Owner4
  Keep <- mc_Keep4
  SamplerRate = 2
  CRates = {0, 3}
  Shapes = {"root-msgpack", "child-json"}
  MaxSpans = 2
  StressNodes = {}
  SKeep = {}
  StressRate = 5
  WithPlain = FALSE
  Epochs = TRUE
  Compress = TRUE
INVARIANTS TypeOK AtMostOnce InOnePlace VerdictRespected StressVerdict JustifiedAtNode ExactlyOnceAtRest AccountedAtRest RatesCompose OnlyOwnerCollects DecidedOnce HnyIntact PeerIntact OneHop NoSelfForward ArrivesAtOwner
PROPERTIES Remembered HnyGrows
ACTION_CONSTRAINT Dump
VIEW View
CHECK_DEADLOCK FALSE
