//go:build verif

package cache

import (
	"fmt"
	"testing"

	"github.com/honeycombio/refinery/internal/verifkit"
	"github.com/honeycombio/refinery/metrics"
)

// Coverage extension CX2: spec/KeptReasons.tla bound to a real KeptReasonsCache.
// After every Set the harness asks Get for every key 0 .. MaxProbe (one more than
// the number of reasons of the model), so a key that moved, vanished or started
// to answer is seen at once.

type cx2ReasonsHarness struct {
	c      *KeptReasonsCache
	met    *metrics.MockMetrics
	ret    uint
	probes int
	panicv string
}

func (h *cx2ReasonsHarness) Reset(init map[string]any) error {
	h.met = &metrics.MockMetrics{}
	h.met.Start()
	h.c = NewKeptReasonsCache(h.met)
	h.ret = 0
	h.panicv = ""
	// the constant MaxProbe of the run arrives as init["params"]
	if p, ok := init["params"].(map[string]any); ok {
		h.probes = verifkit.Int(p, "maxProbe") + 1
	}
	if h.probes == 0 {
		return fmt.Errorf("params.maxProbe missing from the initial state")
	}
	return nil
}

func (h *cx2ReasonsHarness) Apply(a map[string]any) error {
	defer func() {
		if r := recover(); r != nil {
			h.panicv = fmt.Sprint(r)
		}
	}()
	switch verifkit.Str(a, "name") {
	case "Set":
		h.ret = h.c.Set(verifkit.Str(a, "s"))
	default:
		return fmt.Errorf("unknown action %v", a)
	}
	return nil
}

func (h *cx2ReasonsHarness) Project() (any, error) {
	get := []map[string]any{}
	for k := 0; k < h.probes; k++ {
		s, ok := h.c.Get(uint(k))
		get = append(get, map[string]any{"s": s, "ok": ok})
	}
	entries, _ := h.met.Get("collect_sent_reasons_cache_entries")
	out := map[string]any{"get": get, "ret": h.ret, "entries": entries}
	if h.panicv != "" {
		out["panic"] = h.panicv
	}
	return out, nil
}

func TestVerifCX2Reasons(t *testing.T) {
	if err := verifkit.Main(&cx2ReasonsHarness{}); err != nil {
		t.Fatal(err)
	}
}
