SPECIFICATION Spec
CONSTANTS
  Mode = "pipeline"
  Shapes <- ShapesPipe
  Names = {"prod", "web"}
  Prefixes = {"", "cls"}
  RuleSets <- RuleSetsAll
  DefaultKinds = {"det", "dyn"}
  Encs = {"json", "msgpack", "event"}
  WithReload = TRUE
  UpperHexIsClassic = TRUE
INVARIANTS TypeOK EnvKeyUsesEnvironment ClassicKeyUsesDataset DocumentedShapes NeverWithoutSampler PrefixSeparates ExtractedIsWhatDeciderReads DecisionOfOneTarget
PROPERTY DecisionFollowsRules
ACTION_CONSTRAINT Dump
VIEW View
CHECK_DEADLOCK FALSE
