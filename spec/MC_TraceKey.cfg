SPECIFICATION Spec
CONSTANTS
  DataFields = {"a", "b"}
  Vals = {"s:x", "i:7", "b:true"}
  DelimVals = {}
  MaxSpans = 2
  CfgNames = {"ab", "a_rb", "a_ra"}
  Samplers = {"dynamic", "emadynamic", "emathroughput", "windowedthroughput", "totalthroughput"}
  GhostFields = {"z"}
  ProvValSet = {"s:x", "i:7"}
  ProvMaxSpans = 2
  ProvCfgNames = {"ab", "a_rb", "a_ra"}
  ProvUTL = {FALSE}
  ProvMix = "one"
INVARIANTS TypeOK NFSound PermutationInvariant DuplicationInvariant IrrelevantCellsInvariant PairsDistinct PayloadSound ProvenanceInvariant AnyProvenanceInvariant OutConsistent
CHECK_DEADLOCK FALSE
ACTION_CONSTRAINT Dump
VIEW View
