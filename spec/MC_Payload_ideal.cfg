SPECIFICATION Spec
CONSTANTS
  Names = {"svc", "nested", "trace.trace_id", "bin.key", "meta.refinery.reason", "app.extra"}
  Reserved = {"meta.refinery.reason"}
  KeyFields = {"svc", "nested"}
  TsNames = {"svc", "nested"}
  TsPaths = {"msgp", "metaonly", "umsg"}
  ClientNames = {"svc", "nested", "trace.trace_id", "bin.key", "meta.refinery.reason", "app.extra"}
  Settable = {"meta.refinery.reason", "app.extra", "svc"}
  SetVals = {"s1", "s2"}
  MemoSets = {{"svc", "nested"}, {"bin.key", "app.extra"}, {"trace.trace_id"}, {"svc"}}
  Paths = {"map", "jsonbatch", "msgp", "metaonly", "umsg"}
  Variants = {1}
  MaxOps = 5
  Faithful = FALSE
CHECK_DEADLOCK FALSE
INVARIANTS TypeOK C20Exact C20Added MissingSound MemoSound NoAlter
