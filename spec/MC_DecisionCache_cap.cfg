SPECIFICATION Spec
CONSTANTS
  Traces = {"a", "b"}
  KeepTraces = {}
  DropTraces = {"a"}
  Rates = {1}
  Reasons = {"ra"}
  Coupled = TRUE
  KeptSizes = {1}
  ResizeKept = {1}
  DropSizes = {3, 4}
  MaxQueue = 1
  MaxCount = 1
  MaxTotal = 0
  TrackPromise = FALSE
INVARIANTS TypeOK KeptRemembered RecencyOrder DroppedRemembered RecentRemembered
PROPERTIES ResizeKeepsNewest EvictOnlyOldest RecordDroppedAnswered RecentSticks ObligationEndsOnlyWhenFull NoSpontaneousAnswer
ACTION_CONSTRAINT Dump
VIEW View
