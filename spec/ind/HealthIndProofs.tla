--------------------------- MODULE HealthIndProofs ---------------------------
(* TLAPS proofs about HealthInd for ARBITRARY constants satisfying ConstOK: *)
(* any sets of subsystems (also infinite), any Tick >= 1, any positive      *)
(* timeouts, both values of Exact.   tlapm --threads 16 HealthIndProofs.tla *)
EXTENDS HealthInd, TLAPS

ASSUME Const == ConstOK

S3 == {"never", "reg", "unreg"}
D3 == {"none", "ready", "notready"}

TypePart ==
  /\ status \in [Subs -> S3] /\ timeout \in [Subs -> Int] /\ timeLeft \in [Subs -> Int]
  /\ readyFlag \in [Subs -> BOOLEAN] /\ sil \in [Subs -> Int] /\ decl \in [Subs -> D3]
  /\ phase \in Int /\ 0 <= phase /\ phase < Tick
  /\ pending \in BOOLEAN /\ (pending => phase = 0)
  /\ obsAlive \in BOOLEAN /\ obsReady \in BOOLEAN

LEMMA Split == IndInv <=> (TypePart /\ (\A s \in Subs : SubInv(s)) /\ ObsOK)
  BY DEF IndInv, TypePart, S3, D3
LEMMA SplitP == IndInv' <=> (TypePart' /\ (\A s \in Subs : SubInv(s)') /\ ObsOK')
  BY DEF IndInv, TypePart, S3, D3

LEMMA TickFacts == Tick \in Int /\ Tick >= 1
  BY Const DEF ConstOK
LEMMA TimeoutFacts == ASSUME NEW s \in Subs, NEW to \in TimeoutsOf(s) PROVE to \in Int /\ to >= 1 /\ to \in Timeouts /\ to <= MaxTimeout
  BY Const DEF ConstOK, TimeoutsOf, Timeouts, Subs

\* a subsystem none of whose components changed, with the clock standing still
LEMMA Frame == ASSUME NEW s \in Subs, SubInv(s),
                      status'[s] = status[s], timeout'[s] = timeout[s], timeLeft'[s] = timeLeft[s],
                      readyFlag'[s] = readyFlag[s], sil'[s] = sil[s], decl'[s] = decl[s],
                      phase' = phase, pending' = pending
               PROVE  SubInv(s)'
  BY DEF SubInv, Window, Max

----------------------------------------------------------------------------
THEOREM InitInd == Init => IndInv
<1> SUFFICES ASSUME Init PROVE IndInv
  OBVIOUS
<1>1 TypePart  BY TickFacts DEF Init, TypePart, S3, D3
<1>2 ASSUME NEW s \in Subs PROVE SubInv(s)  BY DEF Init, SubInv
<1>3 ObsOK
  <2>1 Registered = {}  BY DEF Init, Registered
  <2>2 CodeAlive /\ ~CodeReady /\ MustAlive /\ ~MustDead /\ ~ReadyNecessary /\ ~MustReady
    BY <2>1 DEF Init, CodeAlive, CodeReady, MustAlive, MustDead, ReadyNecessary, MustReady
  <2>3 obsAlive = TRUE /\ obsReady = FALSE /\ Exact \in BOOLEAN  BY Const DEF Init, ConstOK
  <2>4 CodeAlive = TRUE /\ CodeReady = FALSE  BY <2>2 DEF CodeAlive, CodeReady
  <2> QED BY <2>2, <2>3, <2>4 DEF ObsOK, AliveAnswerOK, ReadyAnswerOK
<1> QED BY <1>1, <1>2, <1>3, Split

----------------------------------------------------------------------------
LEMMA StepIndNext == IndInv /\ Next => IndInv'
<1> SUFFICES ASSUME IndInv, Next PROVE IndInv'
  OBVIOUS
<1>0 TypePart /\ (\A s \in Subs : SubInv(s))  BY Split
<1>t Tick \in Int /\ Tick >= 1  BY TickFacts
<1>1 ASSUME NEW s0 \in Subs, NEW to \in TimeoutsOf(s0), Register(s0, to) PROVE IndInv'
  <2>0 to \in Int /\ to >= 1  BY TimeoutFacts
  <2>1 TypePart'  BY <1>1, <1>0, <2>0 DEF Register, Observe, TypePart, S3, D3
  <2>2 ASSUME NEW s \in Subs PROVE SubInv(s)'
    <3>1 CASE s = s0
      <4>1 /\ status'[s] = "reg" /\ timeout'[s] = to /\ timeLeft'[s] = -1 /\ readyFlag'[s] = FALSE
           /\ sil'[s] = 0 /\ decl'[s] = "none"
        BY <1>1, <1>0, <3>1 DEF Register, TypePart
      <4> QED BY <4>1, <2>0, <3>1, <1>t DEF SubInv, Max
    <3>2 CASE s # s0
      <4>1 /\ status'[s] = status[s] /\ timeout'[s] = timeout[s] /\ timeLeft'[s] = timeLeft[s]
           /\ readyFlag'[s] = readyFlag[s] /\ sil'[s] = sil[s] /\ decl'[s] = decl[s]
           /\ phase' = phase /\ pending' = pending
        BY <1>1, <1>0, <3>2 DEF Register, TypePart
      <4> QED BY <4>1, <1>0, Frame
    <3> QED BY <3>1, <3>2
  <2>3 ObsOK'  BY <1>1 DEF Register, Observe
  <2> QED BY <2>1, <2>2, <2>3, SplitP
<1>2 ASSUME NEW s0 \in Subs, Unregister(s0) PROVE IndInv'
  <2>1 TypePart'  BY <1>2, <1>0 DEF Unregister, Observe, TypePart, S3, D3
  <2>2 ASSUME NEW s \in Subs PROVE SubInv(s)'
    <3>1 CASE s = s0
      <4>1 /\ status'[s] = "unreg" /\ timeout'[s] = 0 /\ timeLeft'[s] = -1 /\ readyFlag'[s] = FALSE
           /\ sil'[s] = 0 /\ decl'[s] = "none"
        BY <1>2, <1>0, <3>1 DEF Unregister, TypePart
      <4> QED BY <4>1 DEF SubInv
    <3>2 CASE s # s0
      <4>1 /\ status'[s] = status[s] /\ timeout'[s] = timeout[s] /\ timeLeft'[s] = timeLeft[s]
           /\ readyFlag'[s] = readyFlag[s] /\ sil'[s] = sil[s] /\ decl'[s] = decl[s]
           /\ phase' = phase /\ pending' = pending
        BY <1>2, <1>0, <3>2 DEF Unregister, TypePart
      <4> QED BY <4>1, <1>0, Frame
    <3> QED BY <3>1, <3>2
  <2>3 ObsOK'  BY <1>2 DEF Unregister, Observe
  <2> QED BY <2>1, <2>2, <2>3, SplitP
<1>3 ASSUME NEW s0 \in Subs, NEW r \in BOOLEAN, Ready(s0, r) PROVE IndInv'
  <2>a phase' = phase /\ pending' = pending /\ status' = status /\ timeout' = timeout  BY <1>3 DEF Ready
  <2>3 ObsOK' /\ obsAlive' \in BOOLEAN /\ obsReady' \in BOOLEAN  BY <1>3 DEF Ready, Observe
  <2>4 CASE status[s0] # "reg"
    <3>1 UNCHANGED <<readyFlag, timeLeft, sil, decl>>  BY <1>3, <2>4 DEF Ready
    <3>2 TypePart'  BY <1>0, <2>a, <2>3, <3>1 DEF TypePart
    <3>3 ASSUME NEW s \in Subs PROVE SubInv(s)'  BY <1>0, <2>a, <3>1, Frame
    <3> QED BY <3>2, <3>3, <2>3, SplitP
  <2>5 CASE status[s0] = "reg"
    <3>1 /\ readyFlag' = [readyFlag EXCEPT ![s0] = r]
         /\ timeLeft' = [timeLeft EXCEPT ![s0] = timeout[s0]]
         /\ sil' = [sil EXCEPT ![s0] = 0]
         /\ decl' = [decl EXCEPT ![s0] = IF r THEN "ready" ELSE "notready"]
      BY <1>3, <2>5 DEF Ready
    <3>2 TypePart'  BY <1>0, <2>a, <2>3, <3>1 DEF TypePart, D3
    <3>3 ASSUME NEW s \in Subs PROVE SubInv(s)'
      <4>1 CASE s = s0
        <5>1 /\ status'[s] = "reg" /\ timeout'[s] = timeout[s] /\ timeLeft'[s] = timeout[s]
             /\ readyFlag'[s] = r /\ sil'[s] = 0 /\ decl'[s] = (IF r THEN "ready" ELSE "notready")
          BY <1>0, <2>a, <2>5, <3>1, <4>1 DEF TypePart
        <5>2 timeout[s] \in TimeoutsOf(s) /\ timeout[s] \in Int /\ timeout[s] >= 1
          BY <1>0, <2>5, <4>1, TimeoutFacts DEF SubInv
        <5>3 phase \in Int /\ 0 <= phase /\ phase < Tick /\ pending \in BOOLEAN  BY <1>0 DEF TypePart
        <5> QED BY <5>1, <5>2, <5>3, <2>a, <1>t DEF SubInv, Window
      <4>2 CASE s # s0
        <5>1 /\ status'[s] = status[s] /\ timeout'[s] = timeout[s] /\ timeLeft'[s] = timeLeft[s]
             /\ readyFlag'[s] = readyFlag[s] /\ sil'[s] = sil[s] /\ decl'[s] = decl[s]
          BY <1>0, <2>a, <3>1, <4>2 DEF TypePart
        <5> QED BY <5>1, <2>a, <1>0, Frame
      <4> QED BY <4>1, <4>2
    <3> QED BY <3>2, <3>3, <2>3, SplitP
  <2> QED BY <2>4, <2>5
<1>4 ASSUME NEW d \in 1 .. Tick, Advance(d) PROVE IndInv'
  <2>a /\ ~pending /\ phase + d <= Tick /\ phase' = (phase + d) % Tick /\ pending' = (phase + d = Tick)
       /\ sil' = [s \in Subs |-> IF status[s] = "reg" THEN Min(sil[s] + d, SilCap(s)) ELSE 0]
       /\ UNCHANGED <<status, timeout, timeLeft, readyFlag, decl>>
    BY <1>4 DEF Advance
  <2>b d \in Int /\ d >= 1 /\ phase \in Int /\ 0 <= phase /\ phase < Tick  BY <1>0, <1>t DEF TypePart
  <2>c phase' = (IF phase + d = Tick THEN 0 ELSE phase + d)  BY <2>a, <2>b, <1>t
  <2>3 ObsOK' /\ obsAlive' \in BOOLEAN /\ obsReady' \in BOOLEAN  BY <1>4 DEF Advance, Observe
  <2>d \A s \in Subs : SilCap(s) \in Int  BY <1>0, <1>t DEF SilCap, TypePart, Max
  <2>1 TypePart'
    <3>1 sil' \in [Subs -> Int]  BY <2>a, <2>b, <2>d, <1>0 DEF TypePart, Min
    <3> QED BY <3>1, <2>a, <2>b, <2>c, <2>3, <1>0, <1>t DEF TypePart
  <2>2 ASSUME NEW s \in Subs PROVE SubInv(s)'
    <3>0 SubInv(s)  BY <1>0
    <3>1 /\ status'[s] = status[s] /\ timeout'[s] = timeout[s] /\ timeLeft'[s] = timeLeft[s]
         /\ readyFlag'[s] = readyFlag[s] /\ decl'[s] = decl[s]
         /\ sil'[s] = (IF status[s] = "reg" THEN Min(sil[s] + d, SilCap(s)) ELSE 0)
      BY <2>a
    <3>2 /\ status[s] \in S3 /\ timeout[s] \in Int /\ timeLeft[s] \in Int /\ sil[s] \in Int /\ decl[s] \in D3
      BY <1>0 DEF TypePart
    <3>3 CASE status[s] # "reg"  BY <3>0, <3>1, <3>3 DEF SubInv
    <3>4 CASE status[s] = "reg" /\ decl[s] = "none"
      <4>1 SilCap(s) = Max(timeout[s] - Tick, 0)  BY <3>4 DEF SilCap
      <4> QED BY <3>0, <3>1, <3>2, <3>4, <4>1, <2>b, <1>t DEF SubInv, Min, Max
    <3>5 CASE status[s] = "reg" /\ decl[s] # "none"
      <4>1 SilCap(s) = timeout[s] + Tick + 1  BY <3>5 DEF SilCap
      <4>2 /\ 0 <= timeLeft[s] /\ timeLeft[s] <= timeout[s] /\ 0 <= sil[s] /\ sil[s] <= timeout[s] + Tick + 1
           /\ Window(s) /\ (readyFlag[s] <=> (decl[s] = "ready")) /\ timeout[s] \in TimeoutsOf(s)
        BY <3>0, <3>5 DEF SubInv
      <4>3 sil'[s] = Min(sil[s] + d, timeout[s] + Tick + 1)  BY <3>1, <3>5, <4>1
      <4>4 Window(s)'
        <5>1 CASE phase + d = Tick
          <6>1 pending' = TRUE /\ phase' = 0  BY <5>1, <2>a, <2>c
          <6> QED BY <6>1, <5>1, <4>2, <4>3, <3>1, <3>2, <2>a, <2>b, <1>t DEF Window, Min
        <5>2 CASE phase + d # Tick
          <6>1 pending' = FALSE /\ phase' = phase + d  BY <5>2, <2>a, <2>c
          <6> QED BY <6>1, <5>2, <4>2, <4>3, <3>1, <3>2, <2>a, <2>b, <1>t DEF Window, Min
        <5> QED BY <5>1, <5>2
      <4>5 0 <= sil'[s] /\ sil'[s] <= timeout[s] + Tick + 1  BY <4>2, <4>3, <3>2, <2>b, <1>t DEF Min
      <4> QED BY <3>1, <3>2, <3>5, <4>2, <4>4, <4>5 DEF SubInv, S3, D3
    <3> QED BY <3>2, <3>3, <3>4, <3>5 DEF S3
  <2> QED BY <2>1, <2>2, <2>3, SplitP
<1>5 ASSUME TickProc PROVE IndInv'
  <2>a /\ pending /\ pending' = FALSE
       /\ timeLeft' = [s \in Subs |-> IF status[s] = "reg" /\ timeLeft[s] > 0
                                        THEN Max(timeLeft[s] - Tick, 0) ELSE timeLeft[s]]
       /\ UNCHANGED <<status, timeout, readyFlag, phase, sil, decl>>
    BY <1>5 DEF TickProc
  <2>b phase = 0  BY <2>a, <1>0 DEF TypePart
  <2>3 ObsOK' /\ obsAlive' \in BOOLEAN /\ obsReady' \in BOOLEAN  BY <1>5 DEF TickProc, Observe
  <2>1 TypePart'
    <3>1 timeLeft' \in [Subs -> Int]  BY <2>a, <1>0, <1>t DEF TypePart, Max
    <3> QED BY <3>1, <2>a, <2>b, <2>3, <1>0, <1>t DEF TypePart
  <2>2 ASSUME NEW s \in Subs PROVE SubInv(s)'
    <3>0 SubInv(s)  BY <1>0
    <3>1 /\ status'[s] = status[s] /\ timeout'[s] = timeout[s] /\ sil'[s] = sil[s]
         /\ readyFlag'[s] = readyFlag[s] /\ decl'[s] = decl[s] /\ phase' = 0 /\ pending' = FALSE
         /\ timeLeft'[s] = (IF status[s] = "reg" /\ timeLeft[s] > 0 THEN Max(timeLeft[s] - Tick, 0) ELSE timeLeft[s])
      BY <2>a, <2>b
    <3>2 /\ status[s] \in S3 /\ timeout[s] \in Int /\ timeLeft[s] \in Int /\ sil[s] \in Int /\ decl[s] \in D3
      BY <1>0 DEF TypePart
    <3>3 CASE status[s] # "reg"  BY <3>0, <3>1, <3>3 DEF SubInv
    <3>4 CASE status[s] = "reg" /\ decl[s] = "none"
      BY <3>0, <3>1, <3>2, <3>4 DEF SubInv
    <3>5 CASE status[s] = "reg" /\ decl[s] # "none"
      <4>2 /\ 0 <= timeLeft[s] /\ timeLeft[s] <= timeout[s] /\ 0 <= sil[s] /\ sil[s] <= timeout[s] + Tick + 1
           /\ Window(s) /\ (readyFlag[s] <=> (decl[s] = "ready")) /\ timeout[s] \in TimeoutsOf(s)
        BY <3>0, <3>5 DEF SubInv
      <4>3 CASE timeLeft[s] > 0 /\ timeLeft[s] - Tick > 0
        <5>1 timeLeft'[s] = timeLeft[s] - Tick  BY <3>1, <3>2, <3>5, <4>3, <1>t DEF Max
        <5> QED BY <5>1, <4>3, <4>2, <3>1, <3>2, <3>5, <2>a, <2>b, <1>t DEF SubInv, Window, S3, D3
      <4>4 CASE timeLeft[s] > 0 /\ ~(timeLeft[s] - Tick > 0)
        <5>1 timeLeft'[s] = 0  BY <3>1, <3>2, <3>5, <4>4, <1>t DEF Max
        <5> QED BY <5>1, <4>4, <4>2, <3>1, <3>2, <3>5, <2>a, <2>b, <1>t DEF SubInv, Window, S3, D3
      <4>5 CASE ~(timeLeft[s] > 0)
        <5>1 timeLeft'[s] = timeLeft[s] /\ timeLeft[s] = 0  BY <3>1, <3>2, <4>5, <4>2
        <5> QED BY <5>1, <4>5, <4>2, <3>1, <3>2, <3>5, <2>a, <2>b, <1>t DEF SubInv, Window, S3, D3
      <4> QED BY <4>3, <4>4, <4>5
    <3> QED BY <3>2, <3>3, <3>4, <3>5 DEF S3
  <2> QED BY <2>1, <2>2, <2>3, SplitP
<1> QED BY <1>1, <1>2, <1>3, <1>4, <1>5 DEF Next

THEOREM StepInd == IndInv /\ [Next]_vars => IndInv'
<1>1 ASSUME IndInv, UNCHANGED vars PROVE IndInv'
  <2>1 UNCHANGED <<status, timeout, timeLeft, readyFlag, phase, pending, sil, decl, obsAlive, obsReady>>  BY <1>1 DEF vars
  <2> QED BY <1>1, <2>1 DEF IndInv, SubInv, Window, ObsOK, AliveAnswerOK, ReadyAnswerOK, CodeAlive, CodeReady, MustAlive, MustDead,
                            ReadyNecessary, MustReady, Registered, Punctual, Overdue
<1> QED BY <1>1, StepIndNext

----------------------------------------------------------------------------
THEOREM IndSafe == IndInv => Safety
<1> SUFFICES ASSUME IndInv PROVE Safety
  OBVIOUS
<1>0 TypePart /\ (\A s \in Subs : SubInv(s)) /\ ObsOK  BY Split
<1>t Tick \in Int /\ Tick >= 1 /\ MaxTimeout \in Int /\ MaxTimeout >= 0  BY Const DEF ConstOK
<1>1 ASSUME NEW s \in Subs
     PROVE  /\ timeout[s] \in Timeouts \cup {0} /\ timeLeft[s] \in -1 .. MaxTimeout
            /\ sil[s] \in 0 .. (MaxTimeout + Tick + 1)
  <2>0 SubInv(s) /\ status[s] \in S3 /\ timeout[s] \in Int /\ timeLeft[s] \in Int /\ sil[s] \in Int /\ decl[s] \in D3
    BY <1>0 DEF TypePart
  <2>1 CASE status[s] # "reg"  BY <2>0, <2>1, <1>t DEF SubInv
  <2>2 CASE status[s] = "reg"
    <3>1 timeout[s] \in TimeoutsOf(s)  BY <2>0, <2>2 DEF SubInv
    <3>2 timeout[s] \in Timeouts /\ timeout[s] <= MaxTimeout /\ timeout[s] >= 1  BY <3>1, TimeoutFacts
    <3>3 CASE decl[s] = "none"  BY <2>0, <2>2, <3>2, <3>3, <1>t DEF SubInv, Max
    <3>4 CASE decl[s] # "none"  BY <2>0, <2>2, <3>2, <3>4, <1>t DEF SubInv
    <3> QED BY <3>3, <3>4
  <2> QED BY <2>1, <2>2
<1>2 TypeOK
  <2>1 timeout \in [Subs -> Timeouts \cup {0}]  BY <1>0, <1>1 DEF TypePart
  <2>2 timeLeft \in [Subs -> -1 .. MaxTimeout]  BY <1>0, <1>1 DEF TypePart
  <2>3 sil \in [Subs -> 0 .. (MaxTimeout + Tick + 1)]  BY <1>0, <1>1 DEF TypePart
  <2>4 phase \in 0 .. (Tick - 1)  BY <1>0, <1>t DEF TypePart
  <2> QED BY <2>1, <2>2, <2>3, <2>4, <1>0 DEF TypePart, TypeOK, S3, D3
<1>3 CodeMatchesGhosts
  <2> SUFFICES ASSUME NEW s \in Subs
               PROVE /\ status[s] = "reg" => /\ (timeLeft[s] = -1) <=> (decl[s] = "none")
                                             /\ readyFlag[s] <=> (decl[s] = "ready")
                                             /\ Punctual(s) => timeLeft[s] # 0
                                             /\ Overdue(s) => timeLeft[s] = 0
                     /\ status[s] # "reg" => ~readyFlag[s] /\ decl[s] = "none"
    BY DEF CodeMatchesGhosts
  <2>0 /\ SubInv(s) /\ status[s] \in S3 /\ timeout[s] \in Int /\ timeLeft[s] \in Int /\ sil[s] \in Int /\ decl[s] \in D3
       /\ phase \in Int /\ 0 <= phase /\ phase < Tick /\ pending \in BOOLEAN /\ (pending => phase = 0)
    BY <1>0 DEF TypePart
  <2>1 CASE status[s] # "reg"  BY <2>0, <2>1 DEF SubInv
  <2>2 CASE status[s] = "reg" /\ decl[s] = "none"  BY <2>0, <2>2 DEF SubInv, Overdue, D3
  <2>3 CASE status[s] = "reg" /\ decl[s] # "none"
    <3>1 /\ 0 <= timeLeft[s] /\ timeLeft[s] <= timeout[s] /\ Window(s) /\ (readyFlag[s] <=> (decl[s] = "ready"))
      BY <2>0, <2>3 DEF SubInv
    <3>2 Punctual(s) => timeLeft[s] # 0  BY <3>1, <2>0, <1>t DEF Punctual, Window
    <3>3 Overdue(s) => timeLeft[s] = 0  BY <3>1, <2>0, <1>t DEF Overdue, Window
    <3> QED BY <3>1, <3>2, <3>3, <2>0, <2>3
  <2> QED BY <2>0, <2>1, <2>2, <2>3 DEF S3
<1>4 CodeWithinStatement
  <2>0 \A s \in Subs : timeLeft[s] \in Int /\ timeLeft[s] >= -1  BY <1>1
  <2>1 MustAlive => CodeAlive  BY <1>3 DEF MustAlive, CodeAlive, CodeMatchesGhosts, Registered
  <2>2 MustDead => ~CodeAlive  BY <1>3 DEF MustDead, CodeAlive, CodeMatchesGhosts, Registered
  <2>3 CodeReady => ReadyNecessary
    <3> SUFFICES ASSUME CodeReady PROVE ReadyNecessary  OBVIOUS
    <3>1 \A s \in Subs : status[s] # "unreg"  BY <1>3, <1>0 DEF CodeReady, CodeMatchesGhosts, TypePart, S3
    <3>2 Registered # {}  BY <3>1, <1>0 DEF CodeReady, Registered, TypePart, S3
    <3>3 \A s \in Registered : decl[s] = "ready"  BY <1>3 DEF CodeReady, CodeMatchesGhosts, Registered
    <3> QED BY <3>1, <3>2, <3>3 DEF ReadyNecessary
  <2>4 MustReady => CodeReady
    <3> SUFFICES ASSUME MustReady PROVE CodeReady  OBVIOUS
    <3>1 \E s \in Subs : status[s] # "never"  BY DEF MustReady, ReadyNecessary, Registered
    <3>2 \A s \in Registered : timeLeft[s] > 0
      BY <1>3, <2>0 DEF MustReady, ReadyNecessary, CodeMatchesGhosts, Registered
    <3>3 \A s \in Subs : status[s] # "never" => readyFlag[s]
      BY <1>3, <1>0 DEF MustReady, ReadyNecessary, CodeMatchesGhosts, Registered, TypePart, S3
    <3> QED BY <3>1, <3>2, <3>3 DEF CodeReady
  <2> QED BY <2>1, <2>2, <2>3, <2>4 DEF CodeWithinStatement
<1>5 C30Alive /\ C30Ready
  BY <1>0, <1>4 DEF ObsOK, AliveAnswerOK, ReadyAnswerOK, C30Alive, C30Ready, CodeWithinStatement, TypePart
<1> QED BY <1>2, <1>3, <1>4, <1>5 DEF Safety, C30

\* "dead until it reports again": IndInv /\ Next => the label-free DeadUntilReport
THEOREM StepDead == IndInv /\ Next => DeadUntilReportStep
<1> SUFFICES ASSUME IndInv, Next, NEW s \in Subs, s \in Registered, Overdue(s), obsAlive'
             PROVE  \/ \E to \in TimeoutsOf(s) : Register(s, to)
                    \/ Unregister(s)
                    \/ \E r \in BOOLEAN : Ready(s, r)
  BY DEF DeadUntilReportStep
<1>0 TypePart /\ (\A u \in Subs : SubInv(u))  BY Split
<1>t Tick \in Int /\ Tick >= 1  BY TickFacts
<1>1 IndInv'  BY StepIndNext
<1>2 Safety'  BY <1>1, IndSafe, PTL
<1>3 MustDead' => ~obsAlive'  BY <1>2 DEF Safety, C30, C30Alive
<1>4 /\ status[s] = "reg" /\ decl[s] # "none" /\ sil[s] > timeout[s] + Tick
     /\ sil[s] \in Int /\ timeout[s] \in Int /\ sil[s] <= timeout[s] + Tick + 1
  BY <1>0 DEF Registered, Overdue, SubInv, TypePart
\* it suffices that s is still registered and overdue afterwards
<1>5 ASSUME status'[s] = "reg", decl'[s] = decl[s], timeout'[s] = timeout[s], sil'[s] > timeout[s] + Tick PROVE FALSE
  <2>1 s \in Registered' /\ Overdue(s)'  BY <1>4, <1>5 DEF Registered, Overdue
  <2>2 MustDead'  BY <2>1 DEF MustDead
  <2> QED BY <2>2, <1>3
<1>6 ASSUME NEW s0 \in Subs, NEW to \in TimeoutsOf(s0), Register(s0, to)
     PROVE  \E to2 \in TimeoutsOf(s) : Register(s, to2)
  <2>1 CASE s0 = s  BY <1>6, <2>1
  <2>2 CASE s0 # s
    <3>1 status'[s] = "reg" /\ decl'[s] = decl[s] /\ timeout'[s] = timeout[s] /\ sil'[s] = sil[s]
      BY <1>6, <1>0, <1>4, <2>2 DEF Register, TypePart
    <3> QED BY <3>1, <1>4, <1>5
  <2> QED BY <2>1, <2>2
<1>7 ASSUME NEW s0 \in Subs, Unregister(s0) PROVE Unregister(s)
  <2>1 CASE s0 = s  BY <1>7, <2>1
  <2>2 CASE s0 # s
    <3>1 status'[s] = "reg" /\ decl'[s] = decl[s] /\ timeout'[s] = timeout[s] /\ sil'[s] = sil[s]
      BY <1>7, <1>0, <1>4, <2>2 DEF Unregister, TypePart
    <3> QED BY <3>1, <1>4, <1>5
  <2> QED BY <2>1, <2>2
<1>8 ASSUME NEW s0 \in Subs, NEW r \in BOOLEAN, Ready(s0, r) PROVE \E r2 \in BOOLEAN : Ready(s, r2)
  <2>1 CASE s0 = s  BY <1>8, <2>1
  <2>2 CASE s0 # s
    <3>1 status'[s] = "reg" /\ decl'[s] = decl[s] /\ timeout'[s] = timeout[s] /\ sil'[s] = sil[s]
      <4>1 CASE status[s0] = "reg"  BY <1>8, <1>0, <1>4, <2>2, <4>1 DEF Ready, TypePart
      <4>2 CASE status[s0] # "reg"  BY <1>8, <1>0, <1>4, <2>2, <4>2 DEF Ready, TypePart
      <4> QED BY <4>1, <4>2
    <3> QED BY <3>1, <1>4, <1>5
  <2> QED BY <2>1, <2>2
<1>9 ASSUME NEW d \in 1 .. Tick, Advance(d) PROVE FALSE
  <2>1 /\ status' = status /\ decl' = decl /\ timeout' = timeout
       /\ sil'[s] = Min(sil[s] + d, SilCap(s))
    BY <1>9, <1>4 DEF Advance
  <2>2 SilCap(s) = timeout[s] + Tick + 1  BY <1>4 DEF SilCap
  <2>3 sil'[s] > timeout[s] + Tick  BY <2>1, <2>2, <1>4, <1>t DEF Min
  <2> QED BY <2>1, <2>3, <1>4, <1>5
<1>10 ASSUME TickProc PROVE FALSE
  <2>1 status' = status /\ decl' = decl /\ timeout' = timeout /\ sil' = sil  BY <1>10 DEF TickProc
  <2> QED BY <2>1, <1>4, <1>5
<1> QED BY <1>6, <1>7, <1>8, <1>9, <1>10 DEF Next

THEOREM Unbounded == Spec => []Safety
<1>1 Init => IndInv  BY InitInd
<1>2 IndInv /\ [Next]_vars => IndInv'  BY StepInd
<1>3 IndInv => Safety  BY IndSafe
<1> QED BY <1>1, <1>2, <1>3, PTL DEF Spec
=============================================================================
