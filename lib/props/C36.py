"""C36 Graceful shutdown drains buffered traces and stops cleanly."""

PROP = dict(
    level="model_checking",
    technique="TLA+ specs Shutdown.tla + StopOrder.tla (order in which Stop takes the collector's parts down while a worker is inside a send tick; TLC proves the repository's order never uses a stopped part and that Stop returns, and refutes the two permuted orders; its overlapped schedules are executed on a real collector in child processes, a panic being the observation); Shutdown.tla (collector + upstream transmission stop sequence after any ingestion prefix) model-checked by TLC incl. termination under fairness; every generated transition replayed into a real InMemCollector + DirectTransmission + fake Honeycomb, with panic and goroutine-leak observation",
    design_ref="DESIGN.md section 5 C36",
    level_text="TLC enumerates Stop requested after every prefix of an ingestion scenario (spans of kept and dropped traces, send ticks, batch dispatches) and checks StoppedClean (nothing buffered or pending after the stop), NothingLost on the ideal design and termination of the stop sequence; every transition is replayed on the real collector and transmission (their real Stop methods, in startstop's order) and the spans a loopback Honeycomb actually received, the transmission's pending gauge, panics, and goroutines still running inside collect/transmit code after the stop must equal the model's.",
    level_note="Data path only (collector + upstream transmission); routers, agent and the main.go signal handling are not driven, so 'stops accepting data' is represented by the scenario ending at StopCollector. The collector's lack of a drain step is the open known finding C36-no-drain (deviation edge). Goroutine-leak observation polls up to 5 s for exiting goroutines. Bounded: 3 traces, 3-4 spans.",
    assumptions=["Honeycomb accepts every batch", "components are stopped in dependency order (collector before the transmission it uses)"],
    stages=[dict(kind="walk", name="shutdown", module="Shutdown", pkg="collect", test="TestVerifShutdown", harness=["collect/collector_test.go", "collect/shutdown_test.go"],
                 cfg={"quick": "MC_Shutdown_q.cfg", "thorough": "MC_Shutdown_big.cfg"}, budget={"quick": 40, "thorough": 300}, maxwalk=20),
            dict(kind="tlc", name="stop-order", module="StopOrder", cfg={"quick": "MC_StopOrder_code.cfg", "thorough": "MC_StopOrder_code.cfg"}, workers=4),
            dict(kind="gotest", name="midtick", pkg="collect", test="TestVerifC36MidTick", harness=["collect/collector_test.go", "collect/shutdown_test.go", "collect/c36_midtick_test.go"],
                 budget={"quick": 60, "thorough": 240}),
            dict(kind="tlc", name="ideal", module="Shutdown", cfg={"quick": "MC_Shutdown_ideal.cfg", "thorough": "MC_Shutdown_ideal.cfg"}, workers=4)],
)

import os, sys  # noqa: E402
sys.path.insert(0, os.path.dirname(os.path.dirname(os.path.abspath(__file__))))
import extstages  # noqa: E402
# coverage extension CX6 (lib/ext/CX6.py, spec/OpAMP.tla): the OpAMP agent (agent/agent.go is one of C36's anchors). Its health walk includes Stop:
# every goroutine of the agent must have ended (StopEnds). On the unchanged tree it reproduced Agent.healthCheck spinning forever after Stop
# (empty case on ctx.Done()), repaired by fix 8af5346; the deviation edge stays in OpAMP.tla, so the defect returning is reported again.
# This stage DECIDES (a goroutine left running after Stop is what C36 forbids); the rest of CX6 is hosted by C27 / C34 as advisory stages.
PROP["stages"] += extstages.pick("CX6", ["health"])
