SPECIFICATION Spec
CONSTANTS
  AddrSeq <- Universe4
  Live = {"a:1", "b:1", "c:1"}
  MaxMult = 2
  MaxDup = 2
  Views = {"sorted", "reversed", "rotated"}
  Traces = {"t1", "t2"}
  MaxSends = 3
  Rebuild = "always"
INVARIANTS TypeOK TableIsCurrent SameListSameOwner OwnerListed OneOwner AtMostOneHop NoSelfForward
ACTION_CONSTRAINT Dump
VIEW View
CHECK_DEADLOCK FALSE
