\* C15 walk stage hold, thorough bound; convention HoldStrict=False ExpiryClosed=True; hold by stored deadline (the code), its deviation edges included (Faithful)
SPECIFICATION Spec
CONSTANTS
  Peers = {"p1"}
  LocalLevels = {0, 40, 100}
  PeerLevels = {0, 100}
  Sources = {"mixed"}
  ModeNames = {"never", "monitor", "always"}
  Thresholds <- ThTwo
  MinDurs = {0, 2}
  Timeout = 1
  AdvSteps = {1, 3}
  HoldStrict = FALSE
  ExpiryClosed = TRUE
  HoldBy = "deadline"
  Faithful = TRUE
INVARIANTS TypeOK LevelBounded
PROPERTIES LevelFormula OnlyRecalcSwitches OnOnlyIfReached OnWhenReached OffOnlyAfterHold ModePins
ACTION_CONSTRAINT Dump
VIEW View
