"""C24 Ingest authorization and key replacement are uniform across protocols."""

_H = ["route/c24_auth_test.go"]

PROP = dict(
    level="model_checking",
    technique="TLA+ spec Auth.tla (the documented AcceptOnlyListedKeys / ReceiveKeys / ReceiveKeyIDs / SendKey / SendKeyMode behaviour transcribed from config.md and the README as operators; every ingestion handler a pipeline of the two operations) enumerated exhaustively by TLC; every (configuration, client key) vector is replayed, one Eval step per endpoint and body encoding, into a real route.Router (the mux and gRPC server built by Router.LnS, on loopback listeners) whose collector and transmissions record the API key of every event (function-vector replay, B3)",
    design_ref="DESIGN.md §5 C24, §7 C24",
    level_text="TLC enumerates the full product SendKeyMode (6) x AcceptOnlyListedKeys x SendKey set/unset x ReceiveKeyIDs configured/not (thorough: x ReceiveKeys configured/not) x client key (blank, the SendKey, listed, listed by key ID only, unlisted) and for each vector the six ingestion endpoints in all their body encodings (/1/events and /1/batch in JSON and msgpack, OTLP/HTTP traces and logs in protobuf and JSON, OTLP/gRPC traces and logs), and checks on the model Uniform (every endpoint answers a vector alike), AcceptedOnlyIfAuthorized, RefusedOnlyIfUnauthorizedOrBlank, NeverBlank, KeyPerTable and SendKeyOnlyForListed. Every vector is then sent for real: the access-key section is loaded by the real config loader from YAML, the request goes over loopback HTTP / gRPC into the real Router, a fake Honeycomb /1/auth supplies key IDs, and the acceptance (2xx / gRPC OK vs 401-403 / Unauthenticated) and the set of API keys carried by the events handed to the collector and the transmissions must equal the model's. The known deviation (gRPC traces replace the key before the acceptance check) is a named second successor; any other difference is a violation.",
    level_note="Exhaustive over the enumerated classes, not over key strings: one concrete key per class, all of the new (non-classic) key shape so that key IDs exist; classic/legacy keys, the X-Hny-Team short header, compressed bodies and requests without a dataset header are not enumerated. Readings adopted: a request whose prescribed upstream key is blank must be refused (the statement's last sentence; GetReplaceKey documents the error); SendKeyMode `unlisted` with a blank client key is left open by the documents, so two alternatives (blank stays blank and is refused / SendKey is injected) are accepted as long as all endpoints follow the same one; a refusal must be an authorization status (HTTP 401/403, gRPC Unauthenticated/PermissionDenied), any other non-success status on a refused vector is reported. Events are observed where the router hands them to the collector / upstream / peer transmission (the key travels unchanged from there: transmission is C26).",
    assumptions=["Honeycomb /1/auth returns the key ID of every non-classic key (fake server)",
                 "the API key of an event is not changed between the router hand-off and the upstream request (covered by C26)",
                 "one concrete key string per key class"],
    stages=[dict(kind="walk", module="Auth", pkg="route", test="TestVerifC24Auth", harness=_H, maxwalk=16,
                 alternatives=[dict(name="unlisted-blank-refused", cfg={"quick": "MC_Auth_reject.cfg", "thorough": "MC_Auth_reject_big.cfg"}),
                               dict(name="unlisted-blank-injected", cfg={"quick": "MC_Auth_inject.cfg", "thorough": "MC_Auth_inject_big.cfg"})],
                 budget={"quick": 60, "thorough": 300}),
            dict(kind="tlc", name="AuthIdeal", module="Auth", cfg={"quick": "MC_Auth_ideal.cfg", "thorough": "MC_Auth_ideal.cfg"}, workers=4),
            dict(kind="tlc", name="AuthIdealInject", module="Auth", cfg={"quick": None, "thorough": "MC_Auth_ideal_inject.cfg"}, workers=4)],
)
