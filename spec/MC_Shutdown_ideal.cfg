SPECIFICATION FairSpec
CONSTANTS
  Traces = {"k1", "k2", "d1"}
  Kept = {"k1", "k2"}
  MaxSpans = 4
  Faithful = FALSE
INVARIANTS TypeOK StoppedClean NothingLost
PROPERTIES Terminates
VIEW View
CHECK_DEADLOCK FALSE
