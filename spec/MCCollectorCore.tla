-------------------------- MODULE MCCollectorCore --------------------------
(* C01 / C02: two workers, two traces, roots and children, late spans, a rules
   reload that flips tB's verdict. *)
EXTENDS Collector
mc_Traces == {"tA", "tB"}
mc_WorkerOf == [t \in mc_Traces |-> IF t = "tA" THEN 0 ELSE 1]
mc_Verdicts == << [t \in mc_Traces |-> [keep |-> TRUE, rate |-> 2]],
                  [t \in mc_Traces |-> IF t = "tA" THEN [keep |-> TRUE, rate |-> 3] ELSE [keep |-> FALSE, rate |-> 3]] >>
mc_Reason == <<"deterministic/chance", "deterministic/chance">>
mc_Shapes == {[kind |-> "span", root |-> FALSE, crate |-> 0], [kind |-> "span", root |-> TRUE, crate |-> 0]}
mc_Cfg0 == [dryRun |-> FALSE, addReason |-> TRUE, addCounts |-> FALSE, addSpanCount |-> FALSE, addHost |-> FALSE, attrs |-> ""]
mc_Cfgs == {mc_Cfg0}
=============================================================================
