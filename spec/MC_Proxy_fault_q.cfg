SPECIFICATION Spec
CONSTANTS
  Faithful = TRUE
  CrossResps <- CoreResps
  Sides = {"fault"}
  FaultReqs <- FaultReqsQ
  FaultResps <- FaultRespsQ
INVARIANTS TypeOK RelayedUnchanged XffDeviationShape ReturnedUnchanged UpstreamHeaderWins OneCall FailureIsReported FaithfulPresentations OwnAnswerOnly DevsOnlyWhenFaithful
ACTION_CONSTRAINT Dump
VIEW View
CHECK_DEADLOCK FALSE
