SPECIFICATION SpecU
CONSTANTS
  Signals = {"traces", "logs"}
  MaxCum = 3
  Steps = {1, 2}
  Overwrite = FALSE
  ZeroReports = "never"
  Attempts = 3
INVARIANTS InitSame SameInv
PROPERTIES Fwd Bwd SameAct
VIEW View
