---------------------------- MODULE TraceReload ----------------------------
(***************************************************************************)
(* Trace validation (binding B2) for the step model of Reload.tla: a Go    *)
(* driver calls fileConfig.Reload from two goroutines while it replaces    *)
(* the files, and logs what can be seen WITHOUT hooks inside Reload:       *)
(*                                                                         *)
(*   reset  {c, r}          a fresh fileConfig was started on (c, r), two  *)
(*                          listeners registered                          *)
(*   wbegin {file, to}      the driver is about to replace a file ...      *)
(*   wend   {file}          ... has replaced it (rename returned)          *)
(*   call   {p}             goroutine p is about to call Reload()          *)
(*   ret    {p, err}        Reload() has returned to p (err: non-nil?)     *)
(*   notify {l, c, r}       listener l runs, with the hashes of (c, r)     *)
(*   obs    {c, r}          GetHashes() at a moment when nobody reloads    *)
(*                                                                         *)
(* Everything else - Start, ReadC, ReadR, Validate, Compare, CompareR,     *)
(* Apply, BeginCallbacks, Return, and the instant at which a file really   *)
(* changes between wbegin and wend - is a silent step: TLC looks for an    *)
(* interleaving of the model's steps that explains the log (a             *)
(* linearizability check against the step model).  The log is accepted if  *)
(* every line can be consumed.                                             *)
(***************************************************************************)
EXTENDS Reload, Sequences, SequencesExt

VARIABLES l,        \* number of trace lines consumed so far
          pend,     \* the write announced by wbegin that has not happened yet
          flight,   \* per reloader: "no" | "called" (Reload() invoked) | "running" (Start taken)
          tres      \* per reloader: result of the Reload() that has finished ("-" while none)

Trace == ndJsonDeserialize("trace.ndjson")

tvars == <<vars, l, pend, flight, tres>>
NoPend == [file |-> "-", to |-> "-"]

TraceInit == /\ Init /\ l = 0 /\ TLCSet(1, 0)
             /\ pend = NoPend
             /\ flight = [p \in Procs |-> "no"]
             /\ tres = [p \in Procs |-> "-"]

Line == Trace[l + 1]
Consume == l < Len(Trace) /\ l' = l + 1
HWM == TLCSet(1, IF l > TLCGet(1) THEN l ELSE TLCGet(1))
IsEvent(e) == Consume /\ Line.event = e

(***************************************************************************)
(* logged events                                                           *)
(***************************************************************************)
TraceReset ==
  /\ IsEvent("reset")
  /\ fileC' = Line.c /\ fileR' = Line.r /\ verC' = 0 /\ verR' = 0
  /\ runC' = Line.c /\ runR' = Line.r /\ runVC' = 0 /\ runVR' = 0
  /\ registered' = InitListeners
  /\ lastNotif' = Zero /\ lastRes' = "none"
  /\ pc' = [p \in Procs |-> "idle"] /\ loc' = [p \in Procs |-> NoLoc]
  /\ cbLeft' = [p \in Procs |-> {}] /\ res' = [p \in Procs |-> "none"]
  /\ lock' = "free" /\ expected' = Zero /\ notified' = Zero
  /\ snap' = [p \in Procs |-> NoSnap]
  /\ act' = [name |-> "Init"]
  /\ pend' = NoPend /\ flight' = [p \in Procs |-> "no"] /\ tres' = [p \in Procs |-> "-"]

WBegin == /\ IsEvent("wbegin") /\ pend = NoPend
          /\ pend' = [file |-> Line.file, to |-> Line.to]
          /\ UNCHANGED <<vars, flight, tres>>

WEnd == /\ IsEvent("wend") /\ pend = NoPend     \* the write has happened
        /\ UNCHANGED <<vars, pend, flight, tres>>

Call == /\ IsEvent("call") /\ flight[Line.p] = "no"
        /\ flight' = [flight EXCEPT ![Line.p] = "called"]
        /\ UNCHANGED <<vars, pend, tres>>

ErrOf(r) == IF r = "err" THEN {TRUE} ELSE IF r = "nil" THEN {FALSE} ELSE BOOLEAN   \* "warn": either
Ret == /\ IsEvent("ret")
       /\ flight[Line.p] = "running" /\ pc[Line.p] = "idle"
       /\ Line.err \in ErrOf(tres[Line.p])
       /\ flight' = [flight EXCEPT ![Line.p] = "no"]
       /\ tres' = [tres EXCEPT ![Line.p] = "-"]
       /\ UNCHANGED <<vars, pend>>

\* a listener runs: a step of the callback loop of some reloader that applied exactly these contents
Notify == /\ IsEvent("notify")
          /\ \E p \in Procs : /\ loc[p].rdC = Line.c /\ loc[p].rdR = Line.r
                              /\ Callback(p, Line.l)
          /\ UNCHANGED <<pend, flight, tres>>

Obs == /\ IsEvent("obs")
       /\ runC = Line.c /\ runR = Line.r
       /\ UNCHANGED <<vars, pend, flight, tres>>

(***************************************************************************)
(* silent steps                                                            *)
(***************************************************************************)
\* the file really changes
SilentWrite == /\ pend # NoPend
               /\ IF pend.file = "c" THEN WriteC(pend.to) ELSE WriteR(pend.to)
               /\ pend' = NoPend
               /\ UNCHANGED <<l, flight, tres>>

SilentStart == \E p \in Procs : /\ flight[p] = "called"
                                /\ Start(p)
                                /\ flight' = [flight EXCEPT ![p] = "running"]
                                /\ UNCHANGED <<l, pend, tres>>

\* any step of a running Reload() but a listener call; remembers the result when it finishes
ResultOf(p) == IF pc[p] \in {"readC", "readR", "validate"} THEN "err"
               ELSE IF loc[p].verdict = "warn" THEN "warn" ELSE "nil"
SilentStep == \E p \in Procs :
                /\ flight[p] = "running"
                /\ \/ ReadC(p) \/ ReadR(p) \/ Validate(p) \/ Compare(p) \/ CompareR(p)
                   \/ Apply(p) \/ BeginCallbacks(p) \/ Return(p)
                /\ tres' = IF pc'[p] = "idle" THEN [tres EXCEPT ![p] = ResultOf(p)] ELSE tres
                /\ UNCHANGED <<l, pend, flight>>

TraceNext == \/ TraceReset \/ WBegin \/ WEnd \/ Call \/ Ret \/ Notify \/ Obs
             \/ SilentWrite \/ SilentStart \/ SilentStep

TraceSpec == TraceInit /\ [][TraceNext]_tvars

TraceAccepted ==
  LET hwm == TLCGet(1) IN
  IF hwm = Len(Trace) THEN PrintT(<<"TRACE-ACCEPTED", hwm>>)
  ELSE PrintT(<<"TRACE-HWM", hwm>>) /\ FALSE

\* all variables but the action label and the ghosts that only grow with the length of the log
TraceView == <<fileC, fileR, runC, runR, registered, pc, loc, cbLeft, lock, l, pend, flight, tres>>
=============================================================================
