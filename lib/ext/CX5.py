"""CX5 coverage extension: unbounded safety of the small integer / finite-set shaped specifications by inductive invariants
(Apalache, TLAPS), tied to the original modules by TLC.  Stage kind "ind" is lib/indstage.py."""


def _apa(mod, obligations, **kw):
    return dict(kind="ind", name=f"{mod}-apalache", tool="apalache", module=f"{mod}IndApa", cinit="ConstInit", obligations=obligations, timeout=600, **kw)


def _ob(name, init, inv, length):
    return dict(name=name, init=init, inv=inv, length=length)


def _std(safety="Safety", steps=()):
    """base case, induction step, IndInv => the state invariants of the original cfg, IndInv /\\ Next => each action property"""
    return [_ob("init", "Init", "IndInv", 0), _ob("step", "IndInit", "IndInv", 1), _ob("safety", "IndInit", safety, 0)] + \
           [_ob("act-" + s, "IndInit", s, 1) for s in steps]


PROP = dict(
    level="proof",
    technique="inductive invariants for typed companions (spec/ind/<M>Ind.tla) of the small specifications, discharged by Apalache (symbolic integers, "
              "sets of bounded cardinality) and TLAPS (arbitrary constants); TLC checks on the bounded models of the original cfgs that the companion's "
              "transition relation and properties are the original module's",
    design_ref="spec/ind/*.tla headers (to become a DESIGN.md section)",
    level_text="see the module headers in spec/ind/",
    level_note="A proof is about the companion module; the tie to the module the Go code is bound to is a TLC check on bounded models (Fwd, Bwd, SameInv, Same* in <M>IndRef.tla).",
    assumptions=["Apalache: set-valued constants have at most the cardinality given to Gen in <M>IndApa.tla", "TLAPS: backends (Zenon, Isabelle, SMT) are sound"],
    stages=[
        dict(kind="ind", name="TTL-ref", tool="tlc", module="TTLIndRef", cfg=["MC_TTLIndRef_closed.cfg", "MC_TTLIndRef_open.cfg"], workers=4, timeout=300),
        _apa("TTL", _std(steps=["NoResurrectionStep"])),
        dict(kind="ind", name="TTL-tlaps", tool="tlaps", module="TTLIndProofs", timeout=600),
    ],
)
