SPECIFICATION Spec
CONSTANTS
  Faithful = FALSE
  CrossResps <- MidResps
INVARIANTS TypeOK RelayedUnchanged XffDeviationShape ReturnedUnchanged UpstreamHeaderWins OneCall FailureIsReported DevsOnlyWhenFaithful NoDeviation
CHECK_DEADLOCK FALSE
