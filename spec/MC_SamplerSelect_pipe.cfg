SPECIFICATION Spec
CONSTANTS
  Mode = "pipeline"
  Shapes <- ShapesPipeQuick
  Names = {"prod", "web"}
  Prefixes = {"", "cls"}
  RuleSets <- RuleSetsQuick
  DefaultKinds = {"dyn"}
  Encs = {"json", "msgpack"}
  WithReload = TRUE
  UpperHexIsClassic = FALSE
INVARIANTS TypeOK EnvKeyUsesEnvironment ClassicKeyUsesDataset DocumentedShapes NeverWithoutSampler PrefixSeparates ExtractedIsWhatDeciderReads DecisionOfOneTarget
PROPERTY DecisionFollowsRules
ACTION_CONSTRAINT Dump
VIEW View
CHECK_DEADLOCK FALSE
