"""CX3 (coverage extension) A cluster of real nodes end to end: the composition of C01, C02, C04, C16, C17, C19, C20, C22."""

_H = ["route/cx3_system_test.go"]

_NOTE = ("A cluster-in-a-process: per node a real DeterministicSharder over the peer listeners' loopback addresses (each node sees the peer list in its own order), two real "
         "Routers whose batch handlers sit behind the real middleware chain (mounted as Router.LnS mounts them; LnS itself - fixed listen addresses - is not driven), a real "
         "InMemCollector with the real DeterministicSampler at rate 2, two real DirectTransmissions; fake clocks everywhere. The hop between nodes is the real wire path "
         "(zstd-compressed msgpack POST from the real peer transmission into the owner's real peer batch handler); clients are served in-process by the incoming handler chain; "
         "one fake Honeycomb decodes what it receives with its types. Model steps are atomic (hook-event and queue-length barriers after each step), so node-internal "
         "concurrency is not explored here (C35 / the collector trace stage do that). Bounded: 2 nodes x 4 traces x 2 events and stress relief toggling on both nodes x 2 traces x 2 events (quick); 2 nodes x 3 traces x 3 events, "
         "3 nodes x 3 traces x 2 events incl. events without trace id, stress toggling on both nodes with both client rates, on the owner x 3 events (thorough); a cluster at "
         "rest is reused for the next run with fresh trace ids (model action NewEpoch), rebuilt every 160 steps; trace ids are chosen per reset "
         "from a seeded stream so that the real sharder and sampler realise the model's ownership and verdicts. The stress-relief level arithmetic and hash rule are stubs "
         "with a fixed verdict per trace (C15 / C10). Demands nothing beyond the listed properties: 'remembered' is per deciding node (DESIGN.md section 9), JSON numbers may "
         "come back as integers or floats, the value of meta.* fields other than the probe / stressed markers and final_sample_rate is free.")

_INV = "TypeOK AtMostOnce InOnePlace VerdictRespected JustifiedAtNode ExactlyOnceAtRest AccountedAtRest RatesCompose OnlyOwnerCollects DecidedOnce HnyIntact PeerIntact OneHop NoSelfForward ArrivesAtOwner Remembered HnyGrows"


def _walk(name, module, q, t, bq, bt, **kw):
    d = dict(kind="walk", name=name, module=module, pkg="route", test="TestVerifSystem", harness=_H,
             cfg={"quick": q, "thorough": t}, budget={"quick": bq, "thorough": bt}, maxwalk=160)
    d.update(kw)
    return d


PROP = dict(
    level="model_checking",
    technique="TLA+ spec System.tla (N nodes: incoming and peer listener, collector buffer + decision memory, upstream and peer queue; one ownership function shared by all nodes; deterministic sampler; stress relief per node) model-checked by TLC incl. liveness under fair ticks and dispatches; every generated transition replayed into a cluster of real nodes in one process whose peer hop is the real wire path",
    design_ref="DESIGN.md section 5 CX3 (pending_fixes/CX3-design.md until spliced)",
    level_text="TLC enumerates every interleaving of client sends (any entry node, any trace, client rate absent or 3, root or child, msgpack or JSON), peer-queue dispatch (delivery into the owner's peer listener), collector ticks per node, upstream dispatch per node, late spans after the decision and - second family - stress relief switching on and off on the non-owner and on the owner, and checks on the model (" + _INV + "): (E1) a span reaches Honeycomb exactly once iff its trace's verdict is keep, whichever node it entered and however its arrival interleaves with the decision, is never in two places, and at rest is either at Honeycomb or dropped by a recorded decision; (E2) its rate is client rate x the rate of the decision that kept it; (E3) without stress relief only the owner ever buffers or decides a trace, once; (E4) Honeycomb and peers receive the client's key, dataset, nanosecond timestamp and typed fields (int, 2^53+1, float, string, bool, nested map) and nothing but documented meta fields, never a probe at Honeycomb; (E5) an event crosses at most one peer listener, the owner's, never its sender's. Every transition is replayed on the real cluster and after each step what Honeycomb received, what every peer listener received, every node's queue lengths, buffered events and decisions must equal the model's.",
    level_note=_NOTE,
    assumptions=["stable membership: every node sees the same peer set", "fake Honeycomb accepts everything (status 202); no network loss on loopback", "decision memory large enough that nothing is evicted", "clockwork fake clocks and the guarded collector hooks (collect/verif_on.go) are trusted"],
    stages=[
        _walk("system-base", "MCSystemBase", "MC_System_base_q.cfg", "MC_System_base_t.cfg", 8, 45),
        _walk("system-stress", "MCSystemStress", "MC_System_stress_q.cfg", "MC_System_stress_t.cfg", 8, 40),
        _walk("system-stress3", "MCSystemStress", None, "MC_System_stress3_t.cfg", 0, 30, tiers=("thorough",)),
        _walk("system-trio", "MCSystemBase", None, "MC_System_trio_t.cfg", 0, 30, tiers=("thorough",)),
        dict(kind="tlc", name="system-live", module="MCSystemBase", cfg={"quick": None, "thorough": "MC_System_live.cfg"}, workers=4, tiers=("thorough",)),
        dict(kind="tlc", name="system-mc", module="MCSystemStress", cfg={"quick": None, "thorough": "MC_System_mc.cfg"}, workers=8, tiers=("thorough",)),
    ],
)
