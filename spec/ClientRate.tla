---------------------------- MODULE ClientRate ----------------------------
(* C04, first half of the statement: "the client-supplied rate (1 when absent or
   zero)". Collector.tla starts with spans whose client rate is already set;
   this module covers the step before it: the sample rate a client writes on
   the wire -> the SampleRate of the span the router hands to the collector,
   for every Honeycomb ingest decoder (B3, a pure function of the request).

   One vector = how the rates are written (fmt) and a sequence of 1-3 client
   rates, one per event, -1 standing for "the client wrote none":
     events-hdr    one POST /1/events per event, X-Honeycomb-Samplerate header
     json          one POST /1/batch JSON body, "samplerate" before "data"
     json-tail     the same with "samplerate" after "data"
     msgpack       one POST /1/batch msgpack body, samplerate before data
     msgpack-tail  the same with samplerate after data
   The harness sends every vector to ONE live router, so whatever a decoder
   carries from one event (or request) to the next shows up as a rate that is
   not the event's own. *)
EXTENDS Integers, Sequences, TLC, Json

CONSTANTS Rates,      \* client rates written on the wire, -1 = absent
          MaxLen      \* events per vector (1 .. MaxLen)

VARIABLES vec, out, act
vars == <<vec, out, act>>

Fmts == {"events-hdr", "json", "json-tail", "msgpack", "msgpack-tail"}
Absent == -1

\* the statement's reading of one event's client rate
Eff(r) == IF r <= 0 THEN 1 ELSE r

SeqsUpTo(S, n) == UNION { [1 .. k -> S] : k \in 1 .. n }

Init == /\ vec \in [fmt : Fmts, rates : SeqsUpTo(Rates, MaxLen)]
        /\ out = <<>>
        /\ act = [name |-> "Init"]

\* the events go through the router; out = the client rate of the span the
\* collector was handed for each of them, in the order of the vector
Eval == /\ out = <<>>
        /\ out' = << [i \in 1 .. Len(vec.rates) |-> Eff(vec.rates[i])] >>
        /\ act' = [name |-> "Eval"]
        /\ UNCHANGED vec

Next == Eval
Spec == Init /\ [][Next]_vars

---------------------------------------------------------------------------
Done == out # <<>>
O == out[1]

TypeOK == /\ vec.fmt \in Fmts
          /\ Len(vec.rates) \in 1 .. MaxLen
          /\ \A i \in 1 .. Len(vec.rates) : vec.rates[i] \in Rates
          /\ Len(out) <= 1
          /\ Done => Len(O) = Len(vec.rates)

\* C04: every span's client rate is at least 1 ...
AtLeastOne == Done => \A i \in 1 .. Len(O) : O[i] >= 1
\* ... is the rate its own event carried when that is a positive number ...
OwnRate == Done => \A i \in 1 .. Len(O) : vec.rates[i] > 0 => O[i] = vec.rates[i]
\* ... is 1 when the event carried none or zero, whatever its neighbours carried
AbsentIsOne == Done => \A i \in 1 .. Len(O) : vec.rates[i] <= 0 => O[i] = 1
\* ... and does not depend on the other events of the batch: replacing the
\* neighbours by anything leaves the expected rate of event i unchanged
NeighbourFree == Done => \A i \in 1 .. Len(O) : \A r \in Rates :
                   \A j \in (1 .. Len(O)) \ {i} : Eff([vec.rates EXCEPT ![j] = r][i]) = O[i]

Abs == [fmt |-> vec.fmt, rates |-> vec.rates, out |-> out]
St == Abs
Dump == PrintT(ToJson([fs |-> St, fa |-> act.name, act |-> act', ts |-> St', fabs |-> Abs, tabs |-> Abs']))
View == <<vec, out>>

---------------------------------------------------------------------------
RatesQuick == {-1, 0, 1, 3, 10}
RatesAll == {-1, 0, 1, 2, 3, 10, 255, 65536, 2147483647}
=============================================================================
