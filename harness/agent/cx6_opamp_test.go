//go:build verif

package agent

import (
	"context"
	"errors"
	"fmt"
	"os"
	"path/filepath"
	"runtime"
	"sort"
	"strconv"
	"strings"
	"sync"
	"testing"
	"testing/synctest"
	"time"

	hpsf "github.com/honeycombio/hpsf/pkg/config"
	"github.com/honeycombio/refinery/config"
	"github.com/honeycombio/refinery/internal/health"
	"github.com/honeycombio/refinery/internal/verifkit"
	"github.com/honeycombio/refinery/logger"
	"github.com/honeycombio/refinery/metrics"
	"github.com/jonboulle/clockwork"
	"github.com/open-telemetry/opamp-go/client"
	"github.com/open-telemetry/opamp-go/client/types"
	"github.com/open-telemetry/opamp-go/protobufs"
	"go.opentelemetry.io/collector/pdata/pmetric"
	"gopkg.in/yaml.v3"
)

// cx6 binds spec/OpAMP.tla to the real agent.Agent.
//
//   - The OpAMP client is a fake (cx6Client) that keeps what a server would know: the last remote
//     config status, effective configuration and health it was handed, and the custom messages it
//     accepted. It holds the callbacks exactly as connect() registers them (OnMessage ->
//     Agent.onMessage, GetEffectiveConfig -> Agent.composeEffectiveConfig) and mirrors the checks of
//     opamp-go's ClientCommon that matter here (nil hash refused, unknown capability refused).
//   - The configuration is a REAL fileConfig (config.NewConfig over two temp files, running version
//     v3.0.0) behind a thin recorder (cx6Config) that counts Reload calls and keeps their result.
//   - health.MockHealthReporter, a map-backed metrics store, and a clock whose tickers fire when the
//     harness says so.
//
// connect() itself cannot be used (it builds a websocket client), so Reset mirrors it: same calls
// on the client, same two goroutines. Everything runs inside a testing/synctest bubble; after every
// stimulus synctest.Wait() lets the agent's goroutines run until they are durably blocked. A loop
// that spins after Stop would make Wait hang, so the agent's context is a cx6Ctx: a loop that asks
// it for Done() more than cx6SpinLimit times after the cancellation is recorded as still alive and
// ended with runtime.Goexit.

const (
	cx6Version   = "v3.0.0"
	cx6SpinLimit = 1000
)

func cx6ConfigYAML(delay string, batch int, extra string) []byte {
	return []byte(fmt.Sprintf("General:\n  ConfigurationVersion: 2\nTraces:\n  SendDelay: %s\n  MaxBatchSize: %d\n%s", delay, batch, extra))
}

func cx6RulesYAML(rate int) []byte {
	return []byte(fmt.Sprintf("RulesVersion: 2\nSamplers:\n  __default__:\n    DeterministicSampler:\n      SampleRate: %d\n", rate))
}

// content classes of spec/OpAMP.tla; a class with several entries is concretised by rotation
func cx6ConfigContents() map[string][][]byte {
	return map[string][][]byte{
		"A": {cx6ConfigYAML("1s", 100, "")},
		"B": {cx6ConfigYAML("2s", 200, "")},
		"W": {cx6ConfigYAML("3s", 300, "Collection:\n  CacheCapacity: 1000\n")},
		"N": {cx6ConfigYAML("4s", 400, "OpAMP:\n  RecordUsage: false\n")},
		"X": {
			cx6ConfigYAML("6s", 600, "NoSuchGroup:\n  Foo: 1\n"),
			cx6ConfigYAML("6s", 600, "  NoSuchField: 1\n"),
			cx6ConfigYAML("bogus", 600, ""),
			cx6ConfigYAML("6s", 7, ""),
			append(cx6ConfigYAML("6s", 600, ""), "  Broken: [1,\n"...),
		},
	}
}

func cx6RulesContents() map[string][][]byte {
	return map[string][][]byte{
		"A": {cx6RulesYAML(5)},
		"B": {cx6RulesYAML(7)},
		"X": {
			[]byte("RulesVersion: 2\nSamplers:\n  __default__:\n    InvalidSampler:\n      SampleRate: 50\n"),
			[]byte("RulesVersion: 3\nSamplers:\n  __default__:\n    DeterministicSampler:\n      SampleRate: 9\n"),
			[]byte("RulesVersion: 2\nSamplers: [1,\n"),
		},
	}
}

var cx6DelayClass = map[int]string{1: "A", 2: "B", 3: "W", 4: "N"}
var cx6RateClass = map[int]string{5: "A", 7: "B"}

func cx6Class(m map[int]string, v int) string {
	if c, ok := m[v]; ok {
		return c
	}
	return "?" + strconv.Itoa(v)
}

// ---------------------------------------------------------------- configuration recorder

type cx6Config struct {
	config.Config
	calls    int
	errs     []error
	notified int
	touched  bool // Reload has been called on this object
}

func (c *cx6Config) Reload(opts ...config.ReloadedConfigDataOption) error {
	c.calls++
	c.touched = true
	err := c.Config.Reload(opts...)
	c.errs = append(c.errs, err)
	return err
}

func (c *cx6Config) clear() { c.calls, c.errs, c.notified = 0, nil, 0 }

// outcome classifies what Config.Reload did during the last action.
func (c *cx6Config) outcome() string {
	if c.calls == 0 {
		return "none"
	}
	if c.calls > 1 {
		return fmt.Sprintf("%d calls", c.calls)
	}
	err := c.errs[0]
	var fe *config.FileConfigError
	switch {
	case err == nil && c.notified == 1:
		return "applied"
	case err == nil && c.notified == 0:
		return "unchanged"
	case errors.As(err, &fe) && !fe.HasErrors() && c.notified == 1:
		return "warn"
	case err != nil && c.notified == 0 && !(errors.As(err, &fe) && !fe.HasErrors()):
		return "refused"
	}
	return fmt.Sprintf("err=%v notified=%d", err != nil, c.notified)
}

func cx6Running(c config.Config) map[string]any {
	delay := -1
	if d := time.Duration(c.GetTracesConfig().SendDelay); d%time.Second == 0 {
		delay = int(d / time.Second)
	}
	rate := -1
	if sc, _ := c.GetSamplerConfigForDestName("cx6-env"); sc != nil {
		if d, ok := sc.(*config.DeterministicSamplerConfig); ok {
			rate = d.SampleRate
		}
	}
	return map[string]any{"c": cx6Class(cx6DelayClass, delay), "r": cx6Class(cx6RateClass, rate)}
}

// cx6Decode maps a serialized effective configuration back to content classes.
func cx6Decode(eff *protobufs.EffectiveConfig) map[string]any {
	out := map[string]any{"c": "?none", "r": "?none"}
	files := eff.GetConfigMap().GetConfigMap()
	if f, ok := files[string(hpsf.RefineryConfigType)]; ok {
		var m struct {
			Traces struct {
				SendDelay string `yaml:"SendDelay"`
			} `yaml:"Traces"`
		}
		if err := yaml.Unmarshal(f.GetBody(), &m); err != nil {
			out["c"] = "?" + err.Error()
		} else if d, err := time.ParseDuration(m.Traces.SendDelay); err != nil || d%time.Second != 0 {
			out["c"] = "?" + m.Traces.SendDelay
		} else {
			out["c"] = cx6Class(cx6DelayClass, int(d/time.Second))
		}
	}
	if f, ok := files[string(hpsf.RefineryRulesType)]; ok {
		var m struct {
			Samplers map[string]struct {
				DeterministicSampler *struct {
					SampleRate int `yaml:"SampleRate"`
				} `yaml:"DeterministicSampler"`
			} `yaml:"Samplers"`
		}
		if err := yaml.Unmarshal(f.GetBody(), &m); err != nil {
			out["r"] = "?" + err.Error()
		} else if s, ok := m.Samplers["__default__"]; !ok || s.DeterministicSampler == nil {
			out["r"] = "?nodefault"
		} else {
			out["r"] = cx6Class(cx6RateClass, s.DeterministicSampler.SampleRate)
		}
	}
	return out
}

// ---------------------------------------------------------------- fake OpAMP client

var cx6ErrRefused = errors.New("verif: connection refused")

type cx6Client struct {
	client.OpAMPClient // anything else the agent calls panics: recorded as a divergence
	mu                 sync.Mutex
	callbacks          types.Callbacks
	caps               map[string]bool
	started, stopped   bool
	statuses           []*protobufs.RemoteConfigStatus // handed over during the current action
	status             *protobufs.RemoteConfigStatus   // what upstream holds
	eff                *protobufs.EffectiveConfig
	health             *protobufs.ComponentHealth
	script             []string // answers to the next SendCustomMessage calls
	offers             [][]byte // payloads offered during the current action
	extra              []string
	accepted           []byte
	held               chan struct{}
	sent               [][]byte // payloads the client has sent (environment truth)
}

func (c *cx6Client) SetAgentDescription(d *protobufs.AgentDescription) error {
	if d == nil || len(d.IdentifyingAttributes) == 0 {
		return errors.New("verif: agent description without identifying attributes")
	}
	return nil
}

func (c *cx6Client) SetHealth(h *protobufs.ComponentHealth) error {
	c.mu.Lock()
	defer c.mu.Unlock()
	if h == nil {
		return errors.New("verif: nil health")
	}
	c.health = h
	return nil
}

func (c *cx6Client) SetCustomCapabilities(cc *protobufs.CustomCapabilities) error {
	c.mu.Lock()
	defer c.mu.Unlock()
	c.caps = map[string]bool{}
	for _, s := range cc.GetCapabilities() {
		c.caps[s] = true
	}
	return nil
}

func (c *cx6Client) Start(ctx context.Context, s types.StartSettings) error {
	c.callbacks = s.Callbacks
	c.started = true
	// the first message carries the effective configuration (ClientCommon.PrepareFirstMessage)
	eff, err := c.callbacks.GetEffectiveConfig(ctx)
	if err != nil {
		return err
	}
	c.eff = eff
	return nil
}

func (c *cx6Client) Stop(ctx context.Context) error {
	c.mu.Lock()
	defer c.mu.Unlock()
	c.stopped = true
	return nil
}

func (c *cx6Client) UpdateEffectiveConfig(ctx context.Context) error {
	eff, err := c.callbacks.GetEffectiveConfig(ctx)
	if err != nil {
		return err
	}
	c.mu.Lock()
	defer c.mu.Unlock()
	c.eff = eff
	return nil
}

func (c *cx6Client) SetRemoteConfigStatus(s *protobufs.RemoteConfigStatus) error {
	c.mu.Lock()
	defer c.mu.Unlock()
	if s.LastRemoteConfigHash == nil {
		return errors.New("verif: LastRemoteConfigHash is nil")
	}
	c.status = s
	c.statuses = append(c.statuses, s)
	return nil
}

func (c *cx6Client) SendCustomMessage(m *protobufs.CustomMessage) (chan struct{}, error) {
	c.mu.Lock()
	defer c.mu.Unlock()
	if m == nil {
		return nil, types.ErrCustomMessageMissing
	}
	if !c.caps[m.Capability] {
		c.extra = append(c.extra, "custom message with capability "+m.Capability)
		return nil, types.ErrCustomCapabilityNotSupported
	}
	c.offers = append(c.offers, m.Data)
	if len(c.script) == 0 {
		c.extra = append(c.extra, "unexpected SendCustomMessage")
		return nil, cx6ErrRefused
	}
	ans := c.script[0]
	c.script = c.script[1:]
	closed := make(chan struct{})
	close(closed)
	switch ans {
	case "fail":
		return nil, cx6ErrRefused
	case "pending": // another message is in the way; it has gone out by the time the agent looks
		return closed, types.ErrCustomMessagePending
	case "hold": // accepted, not sent yet
		c.accepted = m.Data
		c.held = make(chan struct{})
		return c.held, nil
	default: // accepted and sent
		c.sent = append(c.sent, m.Data)
		return closed, nil
	}
}

// ---------------------------------------------------------------- context, clock, metrics

// cx6Ctx is the agent's context. After the cancellation it counts, per loop, how often Done() is
// asked for: a loop that keeps asking without ever blocking is spinning.
type cx6Ctx struct {
	mu        sync.Mutex
	done      chan struct{}
	cancelled bool
	post      map[string]int
	spun      map[string]bool
	killAll   bool
}

func cx6NewCtx() *cx6Ctx {
	return &cx6Ctx{done: make(chan struct{}), post: map[string]int{}, spun: map[string]bool{}}
}

func cx6Loop() string {
	pcs := make([]uintptr, 16)
	n := runtime.Callers(2, pcs)
	fr := runtime.CallersFrames(pcs[:n])
	for {
		f, more := fr.Next()
		switch {
		case strings.HasSuffix(f.Function, ".healthCheck"):
			return "health"
		case strings.HasSuffix(f.Function, ".reportUsagePeriodically"), strings.HasSuffix(f.Function, ".sendUsageReport"):
			return "usage"
		}
		if !more {
			return "other"
		}
	}
}

func (c *cx6Ctx) Done() <-chan struct{} {
	c.mu.Lock()
	if c.cancelled {
		who := cx6Loop()
		c.post[who]++
		if c.killAll || c.post[who] > cx6SpinLimit {
			if !c.killAll {
				c.spun[who] = true
			}
			c.mu.Unlock()
			runtime.Goexit()
		}
	}
	c.mu.Unlock()
	return c.done
}

func (c *cx6Ctx) Err() error {
	c.mu.Lock()
	defer c.mu.Unlock()
	if c.cancelled {
		return context.Canceled
	}
	return nil
}

func (c *cx6Ctx) Deadline() (time.Time, bool) { return time.Time{}, false }
func (c *cx6Ctx) Value(any) any               { return nil }

func (c *cx6Ctx) cancel() {
	c.mu.Lock()
	defer c.mu.Unlock()
	if !c.cancelled {
		c.cancelled = true
		close(c.done)
	}
}

type cx6Ticker struct {
	ch      chan time.Time
	stopped bool
}

func (t *cx6Ticker) Chan() <-chan time.Time { return t.ch }
func (t *cx6Ticker) Reset(time.Duration)    {}
func (t *cx6Ticker) Stop()                  { t.stopped = true }

// fire delivers one tick the way time.Ticker does (dropped if the previous one was not taken).
func (t *cx6Ticker) fire() {
	select {
	case t.ch <- time.Unix(1700000000, 0):
	default:
	}
}

func (t *cx6Ticker) drain() {
	select {
	case <-t.ch:
	default:
	}
}

// cx6Clock hands out tickers the harness fires by hand, keyed by their period.
type cx6Clock struct {
	clockwork.Clock
	mu      sync.Mutex
	tickers map[time.Duration]*cx6Ticker
}

func (c *cx6Clock) NewTicker(d time.Duration) clockwork.Ticker {
	c.mu.Lock()
	defer c.mu.Unlock()
	t := &cx6Ticker{ch: make(chan time.Time, 1)}
	c.tickers[d] = t
	return t
}

func (c *cx6Clock) ticker(d time.Duration) *cx6Ticker {
	c.mu.Lock()
	defer c.mu.Unlock()
	return c.tickers[d]
}

type cx6Metrics struct {
	metrics.NullMetrics
	mu  sync.Mutex
	cum map[string]float64
}

var cx6Counters = map[string]bool{"bytes_received_traces": true, "bytes_received_logs": true, "incoming_router_span": true,
	"incoming_router_nonspan_event": true, "incoming_router_event": true, "events_dropped": true}

func (m *cx6Metrics) Get(name string) (float64, bool) {
	m.mu.Lock()
	defer m.mu.Unlock()
	v, ok := m.cum[name]
	return v, ok || cx6Counters[name]
}

// ---------------------------------------------------------------- harness

const (
	cx6HealthEvery = 7 * time.Second
	cx6UsageEvery  = 11 * time.Second
)

type cx6Harness struct {
	dir        string
	cc, rc     map[string][][]byte
	rot        map[string]int
	checked    bool
	catalogue  map[string]map[string]string
	signals    []string
	agent      *Agent
	ctx        *cx6Ctx
	cl         *cx6Client
	cfg        *cx6Config
	clock      *cx6Clock
	met        *cx6Metrics
	rep        *health.MockHealthReporter
	mu         sync.Mutex
	live       map[string]bool
	stopped    bool
	offered    map[string]int
	offeredOn  bool
	effSrc     *protobufs.EffectiveConfig
	effSent    map[string]any
	effective  map[string]any // composeEffectiveConfig() decoded; recomputed after every action that can change it
	panicked   string
	notes      []string
	unparsable int
}

func (h *cx6Harness) pick(m map[string][][]byte, kind, name string) []byte {
	v := m[name]
	k := kind + name
	h.rot[k]++
	return v[h.rot[k]%len(v)]
}

func (h *cx6Harness) opts() *config.CmdEnv {
	return &config.CmdEnv{ConfigLocations: []string{filepath.Join(h.dir, "config.yaml")}, RulesLocations: []string{filepath.Join(h.dir, "rules.yaml")}}
}

func (h *cx6Harness) newConfig() (*cx6Config, error) {
	c, err := config.NewConfig(h.opts(), cx6Version)
	if c == nil {
		return nil, fmt.Errorf("startup rejected the local files: %v", err)
	}
	w := &cx6Config{Config: c}
	c.RegisterReloadCallback(func(string, string) { w.notified++ })
	return w, nil
}

// checkClasses makes sure the real Reload still classifies the concrete bodies the way the
// specification's content classes say, laid over the local files. A mismatch is a stale harness
// (the validation rules changed), not a verdict about the agent.
func (h *cx6Harness) checkClasses() error {
	want := map[string]string{"A": "applied", "B": "applied", "N": "applied", "W": "warn", "X": "refused"}
	for name, variants := range h.cc {
		for i, b := range variants {
			c, err := h.newConfig()
			if err != nil {
				return err
			}
			c.Reload(config.WithConfigData(config.NewConfigData(b, config.FormatYAML, "opamp://config")))
			if got := c.outcome(); got != want[name] {
				return fmt.Errorf("stale harness: config body %s[%d] over the files: Reload %s (%v), the specification says %s", name, i, got, c.errs[0], want[name])
			}
			if name != "X" && cx6Running(c)["c"] != name {
				return fmt.Errorf("stale harness: config body %s[%d] reads back as %v", name, i, cx6Running(c))
			}
		}
	}
	for name, variants := range h.rc {
		for i, b := range variants {
			c, err := h.newConfig()
			if err != nil {
				return err
			}
			c.Reload(config.WithRulesData(config.NewConfigData(b, config.FormatYAML, "opamp://rules")))
			if got := c.outcome(); got != want[name] {
				return fmt.Errorf("stale harness: rules body %s[%d] over the files: Reload %s (%v), the specification says %s", name, i, got, c.errs[0], want[name])
			}
			if name != "X" && cx6Running(c)["r"] != name {
				return fmt.Errorf("stale harness: rules body %s[%d] reads back as %v", name, i, cx6Running(c))
			}
		}
	}
	return nil
}

// settle lets the agent's goroutines run until they are durably blocked or gone.
func (h *cx6Harness) settle() { synctest.Wait() }

func (h *cx6Harness) spawn(name string, f func()) {
	h.mu.Lock()
	h.live[name] = true
	live := h.live
	h.mu.Unlock()
	go func() {
		defer func() {
			h.mu.Lock()
			delete(live, name)
			h.mu.Unlock()
		}()
		f()
	}()
}

// shutdown ends the agent of the previous walk, whatever state it is in.
func (h *cx6Harness) shutdown() {
	if h.agent == nil {
		return
	}
	if !h.stopped {
		func() {
			defer func() { recover() }()
			h.agent.Stop(context.Background())
		}()
	}
	h.ctx.cancel()
	h.settle()
	// anything still there is blocked on something the cancellation does not release: wake it and end it
	h.ctx.mu.Lock()
	h.ctx.killAll = true
	h.ctx.mu.Unlock()
	for _, t := range h.clock.tickers {
		t.fire()
	}
	if h.cl.held != nil {
		close(h.cl.held)
		h.cl.held = nil
	}
	h.settle()
	h.agent = nil
}

func (h *cx6Harness) Reset(init map[string]any) error {
	h.shutdown()
	if !h.checked {
		dir, err := os.MkdirTemp("", "cx6-")
		if err != nil {
			return err
		}
		h.dir = dir
		h.cc, h.rc = cx6ConfigContents(), cx6RulesContents()
		h.rot = map[string]int{}
		disk, _ := init["disk"].(map[string]any)
		dc, dr := verifkit.Str(disk, "c"), verifkit.Str(disk, "r")
		if h.cc[dc] == nil || h.rc[dr] == nil {
			return fmt.Errorf("initial state names unknown file contents: %v", disk)
		}
		if err := os.WriteFile(filepath.Join(dir, "config.yaml"), h.cc[dc][0], 0o644); err != nil {
			return err
		}
		if err := os.WriteFile(filepath.Join(dir, "rules.yaml"), h.rc[dr][0], 0o644); err != nil {
			return err
		}
		if err := h.checkClasses(); err != nil {
			return err
		}
		h.checked = true
	}
	h.catalogue = map[string]map[string]string{}
	cat, _ := init["catalogue"].(map[string]any)
	for hash, v := range cat {
		m, _ := v.(map[string]any)
		h.catalogue[hash] = map[string]string{"kind": verifkit.Str(m, "kind"), "c": verifkit.Str(m, "c"), "r": verifkit.Str(m, "r")}
	}
	sig := map[string]bool{}
	feeds, _ := init["feeds"].(map[string]any)
	h.met = &cx6Metrics{cum: map[string]float64{}}
	for counter, s := range feeds {
		if !cx6Counters[counter] {
			return fmt.Errorf("specification counter %q is not one the agent reads", counter)
		}
		name, _ := s.(string)
		if _, ok := signalToMetric[usageSignal(name)]; !ok {
			return fmt.Errorf("specification signal %q is not a usage signal of the agent", name)
		}
		sig[name] = true
	}
	h.signals = h.signals[:0]
	for s := range sig {
		h.signals = append(h.signals, s)
	}
	sort.Strings(h.signals)

	// a configuration no Reload has touched is as good as new
	cfg := h.cfg
	if cfg == nil || cfg.touched {
		var err error
		if cfg, err = h.newConfig(); err != nil {
			return err
		}
		h.cfg = cfg
	}
	cfg.clear()
	h.effective = nil
	h.ctx = cx6NewCtx()
	h.cl = &cx6Client{}
	h.clock = &cx6Clock{Clock: clockwork.NewFakeClock(), tickers: map[time.Duration]*cx6Ticker{}}
	h.rep = &health.MockHealthReporter{}
	h.live = map[string]bool{}
	h.stopped, h.panicked, h.notes, h.unparsable = false, "", nil, 0
	h.offered, h.offeredOn = map[string]int{}, false

	a := &Agent{
		ctx:                 h.ctx,
		cancel:              h.ctx.cancel,
		clock:               h.clock,
		logger:              Logger{Logger: &logger.NullLogger{}},
		agentType:           serviceName,
		agentVersion:        "1.0.0",
		effectiveConfig:     cfg,
		metrics:             h.met,
		health:              h.rep,
		usageTracker:        newUsageTracker(),
		healthCheckInterval: cx6HealthEvery,
		reportUsageInterval: cx6UsageEvery,
	}
	a.createAgentIdentity()
	a.hostname = "verif-host"
	h.agent = a
	// --- what connect() does, with the fake in the place of client.NewWebSocket
	a.opampClient = h.cl
	settings := types.StartSettings{
		Callbacks: types.Callbacks{
			GetEffectiveConfig: func(ctx context.Context) (*protobufs.EffectiveConfig, error) {
				return a.composeEffectiveConfig(), nil
			},
			OnMessage:                 a.onMessage,
			OnOpampConnectionSettings: a.onOpampConnectionSettings,
		},
	}
	if err := h.cl.SetAgentDescription(a.agentDescription); err != nil {
		return err
	}
	if err := h.cl.SetHealth(healthMessage(false)); err != nil {
		return err
	}
	h.cl.SetCustomCapabilities(&protobufs.CustomCapabilities{Capabilities: []string{sendAgentTelemetryCapability}})
	if err := h.cl.Start(context.Background(), settings); err != nil {
		return err
	}
	h.spawn("health", a.healthCheck)
	h.spawn("usage", a.reportUsagePeriodically)
	h.settle()
	if h.clock.ticker(cx6HealthEvery) == nil || h.clock.ticker(cx6UsageEvery) == nil {
		return fmt.Errorf("the agent's loops did not ask the clock for their tickers (health %v, usage %v)", cx6HealthEvery, cx6UsageEvery)
	}
	return nil
}

func (h *cx6Harness) message(hash string) (*types.MessageData, error) {
	m, ok := h.catalogue[hash]
	if !ok {
		return nil, fmt.Errorf("hash %q is not in the catalogue", hash)
	}
	h.rot["msg"]++
	rc := &protobufs.AgentRemoteConfig{ConfigHash: []byte(hash)}
	if m["kind"] == "nomap" {
		if h.rot["msg"]%2 == 0 {
			rc.Config = &protobufs.AgentConfigMap{}
		}
		return &types.MessageData{RemoteConfig: rc}, nil
	}
	files := map[string]*protobufs.AgentConfigFile{}
	if m["c"] != "-" {
		files[string(hpsf.RefineryConfigType)] = &protobufs.AgentConfigFile{Body: h.pick(h.cc, "c", m["c"]), ContentType: "text/yaml"}
	}
	if m["r"] != "-" {
		files[string(hpsf.RefineryRulesType)] = &protobufs.AgentConfigFile{Body: h.pick(h.rc, "r", m["r"]), ContentType: "text/yaml"}
	}
	if len(files) == 0 && h.rot["msg"]%2 == 0 {
		files["collector.yaml"] = &protobufs.AgentConfigFile{Body: []byte("receivers: {}\n")}
	}
	rc.Config = &protobufs.AgentConfigMap{ConfigMap: files}
	return &types.MessageData{RemoteConfig: rc}, nil
}

func (h *cx6Harness) usage(data []byte) map[string]int {
	out := map[string]int{}
	m, err := (&pmetric.JSONUnmarshaler{}).UnmarshalMetrics(data)
	if err != nil {
		h.unparsable++
		return out
	}
	rms := m.ResourceMetrics()
	for i := 0; i < rms.Len(); i++ {
		sms := rms.At(i).ScopeMetrics()
		for j := 0; j < sms.Len(); j++ {
			ms := sms.At(j).Metrics()
			for k := 0; k < ms.Len(); k++ {
				met := ms.At(k)
				if met.Type() != pmetric.MetricTypeSum {
					continue
				}
				dps := met.Sum().DataPoints()
				for l := 0; l < dps.Len(); l++ {
					dp := dps.At(l)
					attr := ""
					if v, ok := dp.Attributes().Get("signal"); ok {
						attr = v.Str()
					}
					sig := met.Name() + "/" + attr
					for s, mm := range signalToMetric {
						if mm.metricName == met.Name() && mm.signal == attr {
							sig = string(s)
						}
					}
					switch dp.ValueType() {
					case pmetric.NumberDataPointValueTypeInt:
						out[sig] += int(dp.IntValue())
					case pmetric.NumberDataPointValueTypeDouble:
						out[sig] += int(dp.DoubleValue())
					}
				}
			}
		}
	}
	return out
}

func (h *cx6Harness) Apply(a map[string]any) (err error) {
	h.cfg.clear()
	h.cl.mu.Lock()
	h.cl.statuses, h.cl.offers, h.cl.script = nil, nil, nil
	h.cl.mu.Unlock()
	defer func() {
		if r := recover(); r != nil {
			h.panicked = fmt.Sprint(r)
		}
	}()
	name := verifkit.Str(a, "name")
	if name == "OnMessage" || name == "OnMessageNone" || name == "Poll" || name == "Stop" {
		h.effective = nil
	}
	if h.stopped {
		return fmt.Errorf("%s after Stop: the specification has nothing after Stop", name)
	}
	switch name {
	case "OnMessage":
		msg, err := h.message(verifkit.Str(a, "h"))
		if err != nil {
			return err
		}
		h.cl.callbacks.OnMessage(context.Background(), msg)
	case "OnMessageNone":
		h.cl.callbacks.OnMessage(context.Background(), &types.MessageData{})
	case "Poll":
		eff, err := h.cl.callbacks.GetEffectiveConfig(context.Background())
		if err != nil {
			return err
		}
		h.cl.eff = eff
	case "SetAlive":
		h.rep.SetAlive(verifkit.Bool(a, "b"))
	case "SetReady":
		h.rep.SetReady(verifkit.Bool(a, "b"))
	case "Grow":
		h.met.mu.Lock()
		h.met.cum[verifkit.Str(a, "m")] += float64(verifkit.Int(a, "d"))
		h.met.mu.Unlock()
	case "HealthTick":
		t := h.clock.ticker(cx6HealthEvery)
		t.fire()
		h.settle()
		t.drain()
	case "UsageTick":
		switch o := verifkit.Str(a, "o"); o {
		case "ok":
			h.cl.script = []string{"ok"}
		case "fail":
			h.cl.script = []string{"fail"}
		case "pendok":
			h.cl.script = []string{"pending", "ok"}
		case "hold":
			h.cl.script = []string{"hold"}
		default:
			return fmt.Errorf("unknown client answer %q", o)
		}
		h.offered, h.offeredOn = map[string]int{}, false
		t := h.clock.ticker(cx6UsageEvery)
		t.fire()
		h.settle()
		t.drain()
		h.cl.mu.Lock()
		if n := len(h.cl.offers); n > 0 {
			h.offeredOn = true
			h.offered = h.usage(h.cl.offers[n-1])
			first := h.usage(h.cl.offers[0])
			for _, s := range h.signals { // a retry must carry the same report
				if first[s] != h.offered[s] {
					h.notes = append(h.notes, fmt.Sprintf("retry carries %v, first attempt carried %v", h.offered, first))
					break
				}
			}
		}
		h.cl.mu.Unlock()
	case "Ack":
		if h.cl.held == nil {
			return fmt.Errorf("Ack: the client holds no message")
		}
		h.cl.mu.Lock()
		h.cl.sent = append(h.cl.sent, h.cl.accepted)
		held := h.cl.held
		h.cl.held = nil
		h.cl.mu.Unlock()
		close(held)
		h.settle()
	case "Stop":
		h.agent.Stop(context.Background())
		h.stopped = true
		h.settle()
	default:
		return fmt.Errorf("unknown action %v", a)
	}
	return nil
}

func cx6Status(s *protobufs.RemoteConfigStatus, reloadErr error) map[string]any {
	if s == nil {
		return map[string]any{"hash": "none", "st": "UNSET", "err": false}
	}
	st := strings.TrimPrefix(s.GetStatus().String(), "RemoteConfigStatuses_")
	return map[string]any{"hash": string(s.GetLastRemoteConfigHash()), "st": st, "err": s.GetErrorMessage() != ""}
}

func (h *cx6Harness) Project() (any, error) {
	h.cl.mu.Lock()
	defer h.cl.mu.Unlock()
	sent := []any{}
	for _, s := range h.cl.statuses {
		sent = append(sent, cx6Status(s, nil))
	}
	delivered, offered := map[string]any{}, map[string]any{}
	total := map[string]int{}
	for _, p := range h.cl.sent {
		for s, v := range h.usage(p) {
			total[s] += v
		}
	}
	for _, s := range h.signals {
		delivered[s] = total[s]
		offered[s] = h.offered[s]
	}
	for s, v := range total { // usage under a signal the specification does not have
		if _, ok := delivered[s]; !ok && v != 0 {
			delivered[s] = v
		}
	}
	for s, v := range h.offered {
		if _, ok := offered[s]; !ok && v != 0 {
			offered[s] = v
		}
	}
	h.mu.Lock()
	h.ctx.mu.Lock()
	live := []any{}
	for _, l := range []string{"health", "usage", "other"} {
		if h.live[l] || h.ctx.spun[l] {
			live = append(live, l)
		}
	}
	h.ctx.mu.Unlock()
	h.mu.Unlock()
	if h.effective == nil {
		h.effective = cx6Decode(h.agent.composeEffectiveConfig())
	}
	if h.cl.eff != h.effSrc {
		h.effSrc, h.effSent = h.cl.eff, cx6Decode(h.cl.eff)
	}
	out := map[string]any{
		"running":   cx6Running(h.cfg),
		"effective": h.effective,
		"effSent":   h.effSent,
		"status":    cx6Status(h.cl.status, nil),
		"sent":      sent,
		"reload":    h.cfg.outcome(),
		"healthUp":  map[string]any{"healthy": h.cl.health.GetHealthy()},
		"offered":   map[string]any{"on": h.offeredOn, "u": offered},
		"delivered": delivered,
		"inflight":  h.cl.held != nil && !h.stopped,
		"liveSet":   live,
		"stopped":   h.stopped,
	}
	// (1) FAILED carries the text of the error Reload returned (possibly with more around it)
	if st := h.cl.status; st != nil && len(h.cl.statuses) > 0 && st.GetStatus() == protobufs.RemoteConfigStatuses_RemoteConfigStatuses_FAILED &&
		len(h.cfg.errs) == 1 && h.cfg.errs[0] != nil && !strings.Contains(st.GetErrorMessage(), h.cfg.errs[0].Error()) {
		out["errorText"] = fmt.Sprintf("status says %q, Reload said %q", st.GetErrorMessage(), h.cfg.errs[0].Error())
	}
	if h.stopped != h.cl.stopped {
		out["clientStopped"] = h.cl.stopped
	}
	if h.panicked != "" {
		out["panic"] = h.panicked
	}
	if len(h.notes) > 0 {
		out["inconsistent"] = h.notes
	}
	if len(h.cl.extra) > 0 {
		out["client"] = h.cl.extra
	}
	if h.unparsable > 0 {
		out["unparsable"] = h.unparsable
	}
	return out, nil
}

// The walker stays outside the synctest bubble (its budget runs on the real clock); the harness
// lives inside and is reached through cx6Proxy.
type cx6Req struct {
	kind  string
	arg   map[string]any
	reply chan cx6Resp
}

type cx6Resp struct {
	v   any
	err error
}

type cx6Proxy struct{ reqs chan cx6Req }

func (p *cx6Proxy) call(kind string, arg map[string]any) (any, error) {
	r := cx6Req{kind, arg, make(chan cx6Resp, 1)}
	p.reqs <- r
	x := <-r.reply
	return x.v, x.err
}

func (p *cx6Proxy) Reset(init map[string]any) error { _, err := p.call("reset", init); return err }
func (p *cx6Proxy) Apply(a map[string]any) error    { _, err := p.call("apply", a); return err }
func (p *cx6Proxy) Project() (any, error)           { return p.call("project", nil) }

func TestVerifCX6OpAMP(t *testing.T) {
	p := &cx6Proxy{reqs: make(chan cx6Req)}
	result := make(chan error, 1)
	go func() {
		result <- verifkit.Main(p)
		close(p.reqs)
	}()
	synctest.Test(t, func(t *testing.T) {
		h := &cx6Harness{}
		for r := range p.reqs {
			var x cx6Resp
			switch r.kind {
			case "reset":
				x.err = h.Reset(r.arg)
			case "apply":
				x.err = h.Apply(r.arg)
			case "project":
				x.v, x.err = h.Project()
			}
			r.reply <- x
		}
		h.shutdown()
		if h.dir != "" {
			os.RemoveAll(h.dir)
		}
	})
	if err := <-result; err != nil {
		t.Fatal(err)
	}
}
