SPECIFICATION Spec
CONSTANTS
  Mode = "list"
  Big = TRUE
  PairScopes = {}
  Faithful = TRUE
INVARIANTS TypeOK FirstMatch Decision Delegation OwnSampler AbsentNeverMatches SpanImpliesTrace DevOnlyOnAbsent
ACTION_CONSTRAINT Dump
VIEW View
CHECK_DEADLOCK FALSE
