SPECIFICATION Spec
CONSTANTS
  Faithful = TRUE
  CrossResps <- CoreResps
INVARIANTS TypeOK RelayedUnchanged XffDeviationShape ReturnedUnchanged UpstreamHeaderWins OneCall FailureIsReported DevsOnlyWhenFaithful
ACTION_CONSTRAINT Dump
VIEW View
CHECK_DEADLOCK FALSE
