"""C01 One keep/drop decision per trace, applied to every span."""

PROP = dict(
    level="model_checking",
    technique="TLA+ spec Collector.tla model-checked by TLC (exhaustive, small bounds); every generated transition replayed into a real InMemCollector under a fake clock with hook-event barriers (transition tour)",
    design_ref="DESIGN.md section 5 C01, Appendix A",
    level_text="TLC enumerates every interleaving of span arrivals (root/child, on-time and late), send ticks and a rules reload that flips a verdict, for 2 workers x 2 traces, and checks OneDecision (at most one sampler decision per trace; all accepted spans forwarded iff kept) and ExactlyOnce on the model; every generated transition is then executed on a real InMemCollector and buffers, deadlines, forwarded spans with all decorations, decision and drop counts must equal the model's after each step.",
    level_note="Bounded (1-2 workers, 1-3 traces, <=3 spans, horizon of a few SendTicker ticks; one model tick = one SendTicker period). Worker steps are atomic in the transition-tour binding (hook-event barrier after each step; sender drained), so only sequential schedules are forced here; really concurrent schedules are covered by the recorded-trace stage where present. Decision memory is sized so nothing is evicted (eviction is C31's subject). Sampler = real DeterministicSampler with trace IDs chosen by hash to realise the model's verdicts. Trusted: clockwork fake clock, the harness's recording Transmission, the guarded hooks (collect/verif_on.go).",
    assumptions=["stable membership, no stress toggling while buffered (as the property states)", "decision memory large enough that nothing is evicted", "bounded model: see level_note"],
    stages=[dict(kind="walk", name="core", module="MCCollectorCore", pkg="collect", test="TestVerifCollector", harness=["collect/collector_test.go"], cfg={"quick": "MC_Collector_core_q.cfg", "thorough": "MC_Collector_core.cfg"}, budget={"quick": 45, "thorough": 600}, maxwalk=40),
            dict(kind="gotest", name="backpressure", pkg="collect", test="TestVerifBackpressure", harness=["collect/collector_test.go", "collect/backpressure_test.go"],
                 budget={"quick": 60, "thorough": 60}),
            dict(kind="trace", name="concurrent", module="TraceCollector", cfg="TraceCollector.cfg", pkg="collect", test="TestVerifCollectorTrace",
                 harness=["collect/collector_test.go", "collect/collector_trace_test.go"], race=True, budget={"quick": 15, "thorough": 120})],
)
