//go:build verif

package types

import (
	"bytes"
	"encoding/binary"
	"encoding/hex"
	"encoding/json"
	"fmt"
	"math"
	"math/big"
	"os"
	"reflect"
	"regexp"
	"sort"
	"strconv"
	"strings"
	"testing"
	"time"

	"github.com/honeycombio/refinery/config"
	"github.com/honeycombio/refinery/internal/verifkit"
	jsoniter "github.com/json-iterator/go"
	"github.com/tinylib/msgp/msgp"
	"github.com/valyala/fastjson"
)

// c20Harness binds spec/Payload.tla to a real types.Payload.
//
// The specification works on tokens ("c" = the client's value for that name,
// "s1"/"s2" = a value Refinery set, "-" = absent); this harness attaches the
// concrete typed values, builds the event through the real ingestion path,
// performs the API calls, and after EVERY step marshals the payload the way
// transmit.batchedEvent.MarshalMsg does (Payload.MarshalMsg appended to a
// non-empty buffer), decodes the bytes with its own msgpack decoder (c20Decode,
// which shares nothing with Payload or tinylib's reader and reports duplicate
// keys) and turns what it finds back into tokens. Get/Exists, All() and
// MarshalJSON (decoded by encoding/json) must tell the same story.
type c20Harness struct {
	path      string
	client    []string // in payload order
	ts        map[string]bool
	vs        int
	seed      int
	cfg       *config.MockConfig
	p         *Payload
	clientVal map[string]c20Val // what the client sent
	setCanon  map[string]string // name|token -> canonical value Refinery set
	setVals   map[string]any
	added     map[string]string // reserved names Refinery set -> token
	fill      map[string]c20Val // the constant key fields, one per pool value
	keyFields []string
	panicMsg  string
}

// c20Val is one concrete client value in both encodings.
type c20Val struct {
	mp    []byte // msgpack encoding (msgpack paths)
	js    string // JSON text (JSON paths)
	canon string // canonical typed form an independent decoder sees
}

const (
	c20K = "svc"
	c20N = "nested"
	c20T = "trace.trace_id"
	c20B = "bin.key"
	c20R = "meta.refinery.reason"
	c20A = "app.extra"
)

var c20Universe = []string{c20K, c20N, c20T, c20B, c20R, c20A}

// ---------------------------------------------------------------------------
// independent msgpack decoder -> canonical typed text
//   i:<decimal>  f32:<bits>  f64:<bits>  s:<quoted>  b:<hex>  t:true  nil
//   ts:<sec>:<nsec>  ext:<type>:<hex>  m{k=v,...} (keys sorted)  a[v,...]
// ---------------------------------------------------------------------------

type c20KV struct{ k, v string }

func c20Decode(b []byte) (canon string, rest []byte, err error) {
	if len(b) == 0 {
		return "", nil, fmt.Errorf("short")
	}
	need := func(n int) error {
		if len(b) < n {
			return fmt.Errorf("short")
		}
		return nil
	}
	c := b[0]
	be := binary.BigEndian
	str := func(hdr, n int) (string, []byte, error) {
		if err := need(hdr + n); err != nil {
			return "", nil, err
		}
		return "s:" + strconv.Quote(string(b[hdr:hdr+n])), b[hdr+n:], nil
	}
	bin := func(hdr, n int) (string, []byte, error) {
		if err := need(hdr + n); err != nil {
			return "", nil, err
		}
		return "b:" + hex.EncodeToString(b[hdr:hdr+n]), b[hdr+n:], nil
	}
	ext := func(hdr, n int) (string, []byte, error) {
		if err := need(hdr + 1 + n); err != nil {
			return "", nil, err
		}
		typ := int8(b[hdr])
		data := b[hdr+1 : hdr+1+n]
		rest := b[hdr+1+n:]
		if typ == -1 {
			switch n {
			case 4:
				return fmt.Sprintf("ts:%d:0", be.Uint32(data)), rest, nil
			case 8:
				v := be.Uint64(data)
				return fmt.Sprintf("ts:%d:%d", v&0x3ffffffff, v>>34), rest, nil
			case 12:
				return fmt.Sprintf("ts:%d:%d", int64(be.Uint64(data[4:])), be.Uint32(data[:4])), rest, nil
			}
		}
		return fmt.Sprintf("ext:%d:%s", typ, hex.EncodeToString(data)), rest, nil
	}
	arr := func(hdr, n int) (string, []byte, error) {
		r := b[hdr:]
		parts := make([]string, 0, n)
		for i := 0; i < n; i++ {
			var v string
			var err error
			v, r, err = c20Decode(r)
			if err != nil {
				return "", nil, err
			}
			parts = append(parts, v)
		}
		return "a[" + strings.Join(parts, ",") + "]", r, nil
	}
	mp := func(hdr, n int) (string, []byte, error) {
		kvs, r, err := c20DecodeMapBody(b[hdr:], n)
		if err != nil {
			return "", nil, err
		}
		sort.Slice(kvs, func(i, j int) bool { return kvs[i].k < kvs[j].k })
		parts := make([]string, len(kvs))
		for i, kv := range kvs {
			parts[i] = kv.k + "=" + kv.v
		}
		return "m{" + strings.Join(parts, ",") + "}", r, nil
	}
	switch {
	case c <= 0x7f:
		return fmt.Sprintf("i:%d", c), b[1:], nil
	case c >= 0xe0:
		return fmt.Sprintf("i:%d", int8(c)), b[1:], nil
	case c >= 0xa0 && c <= 0xbf:
		return str(1, int(c&0x1f))
	case c >= 0x90 && c <= 0x9f:
		return arr(1, int(c&0x0f))
	case c >= 0x80 && c <= 0x8f:
		return mp(1, int(c&0x0f))
	}
	switch c {
	case 0xc0:
		return "nil", b[1:], nil
	case 0xc2:
		return "t:false", b[1:], nil
	case 0xc3:
		return "t:true", b[1:], nil
	case 0xc4, 0xd9, 0xc7:
		if err := need(2); err != nil {
			return "", nil, err
		}
		n := int(b[1])
		if c == 0xc4 {
			return bin(2, n)
		} else if c == 0xd9 {
			return str(2, n)
		}
		return ext(2, n)
	case 0xc5, 0xda, 0xc8, 0xdc, 0xde:
		if err := need(3); err != nil {
			return "", nil, err
		}
		n := int(be.Uint16(b[1:]))
		switch c {
		case 0xc5:
			return bin(3, n)
		case 0xda:
			return str(3, n)
		case 0xc8:
			return ext(3, n)
		case 0xdc:
			return arr(3, n)
		}
		return mp(3, n)
	case 0xc6, 0xdb, 0xc9, 0xdd, 0xdf:
		if err := need(5); err != nil {
			return "", nil, err
		}
		n := int(be.Uint32(b[1:]))
		switch c {
		case 0xc6:
			return bin(5, n)
		case 0xdb:
			return str(5, n)
		case 0xc9:
			return ext(5, n)
		case 0xdd:
			return arr(5, n)
		}
		return mp(5, n)
	case 0xca:
		if err := need(5); err != nil {
			return "", nil, err
		}
		return fmt.Sprintf("f32:%08x", be.Uint32(b[1:])), b[5:], nil
	case 0xcb:
		if err := need(9); err != nil {
			return "", nil, err
		}
		return fmt.Sprintf("f64:%016x", be.Uint64(b[1:])), b[9:], nil
	case 0xcc:
		if err := need(2); err != nil {
			return "", nil, err
		}
		return fmt.Sprintf("i:%d", b[1]), b[2:], nil
	case 0xcd:
		if err := need(3); err != nil {
			return "", nil, err
		}
		return fmt.Sprintf("i:%d", be.Uint16(b[1:])), b[3:], nil
	case 0xce:
		if err := need(5); err != nil {
			return "", nil, err
		}
		return fmt.Sprintf("i:%d", be.Uint32(b[1:])), b[5:], nil
	case 0xcf:
		if err := need(9); err != nil {
			return "", nil, err
		}
		return fmt.Sprintf("i:%d", be.Uint64(b[1:])), b[9:], nil
	case 0xd0:
		if err := need(2); err != nil {
			return "", nil, err
		}
		return fmt.Sprintf("i:%d", int8(b[1])), b[2:], nil
	case 0xd1:
		if err := need(3); err != nil {
			return "", nil, err
		}
		return fmt.Sprintf("i:%d", int16(be.Uint16(b[1:]))), b[3:], nil
	case 0xd2:
		if err := need(5); err != nil {
			return "", nil, err
		}
		return fmt.Sprintf("i:%d", int32(be.Uint32(b[1:]))), b[5:], nil
	case 0xd3:
		if err := need(9); err != nil {
			return "", nil, err
		}
		return fmt.Sprintf("i:%d", int64(be.Uint64(b[1:]))), b[9:], nil
	case 0xd4, 0xd5, 0xd6, 0xd7, 0xd8:
		return ext(1, 1<<(c-0xd4))
	}
	return "", nil, fmt.Errorf("c20: unknown msgpack lead byte %#x", c)
}

// c20DecodeMapBody decodes n key/value pairs; keys may be str or bin and are
// reported as their raw bytes.
func c20DecodeMapBody(b []byte, n int) ([]c20KV, []byte, error) {
	var out []c20KV
	for i := 0; i < n; i++ {
		k, r, err := c20Decode(b)
		if err != nil {
			return nil, nil, err
		}
		var key string
		switch {
		case strings.HasPrefix(k, "s:"):
			key, _ = strconv.Unquote(k[2:])
		case strings.HasPrefix(k, "b:"):
			raw, _ := hex.DecodeString(k[2:])
			key = string(raw)
		default:
			return nil, nil, fmt.Errorf("c20: map key %s is neither str nor bin", k)
		}
		v, r2, err := c20Decode(r)
		if err != nil {
			return nil, nil, err
		}
		out = append(out, c20KV{key, v})
		b = r2
	}
	return out, b, nil
}

// c20DecodeTopMap decodes a whole msgpack map into ordered key/values.
func c20DecodeTopMap(b []byte) ([]c20KV, []byte, error) {
	if len(b) == 0 {
		return nil, nil, fmt.Errorf("empty")
	}
	var n, hdr int
	switch c := b[0]; {
	case c >= 0x80 && c <= 0x8f:
		n, hdr = int(c&0x0f), 1
	case c == 0xde && len(b) >= 3:
		n, hdr = int(binary.BigEndian.Uint16(b[1:])), 3
	case c == 0xdf && len(b) >= 5:
		n, hdr = int(binary.BigEndian.Uint32(b[1:])), 5
	default:
		return nil, nil, fmt.Errorf("c20: not a map (lead byte %#x)", b[0])
	}
	return c20DecodeMapBody(b[hdr:], n)
}

// c20CanonGo renders a Go value handed out by Get/All the same way.
func c20CanonGo(v any) string {
	switch x := v.(type) {
	case nil:
		return "nil"
	case bool:
		return fmt.Sprintf("t:%v", x)
	case int:
		return fmt.Sprintf("i:%d", x)
	case int8, int16, int32, int64:
		return fmt.Sprintf("i:%d", reflect.ValueOf(x).Int())
	case uint, uint8, uint16, uint32, uint64:
		return fmt.Sprintf("i:%d", reflect.ValueOf(x).Uint())
	case float32:
		return fmt.Sprintf("f32:%08x", math.Float32bits(x))
	case float64:
		return fmt.Sprintf("f64:%016x", math.Float64bits(x))
	case string:
		return "s:" + strconv.Quote(x)
	case []byte:
		return "b:" + hex.EncodeToString(x)
	case time.Time:
		return fmt.Sprintf("ts:%d:%d", x.Unix(), x.Nanosecond())
	case *msgp.RawExtension:
		raw, err := msgp.AppendExtension(nil, x)
		if err != nil {
			return fmt.Sprintf("go:badext:%v", x)
		}
		c, _, err := c20Decode(raw)
		if err != nil {
			return fmt.Sprintf("go:badext:%v", x)
		}
		return c
	case json.Number:
		f, _ := x.Float64()
		return fmt.Sprintf("f64:%016x", math.Float64bits(f))
	case map[string]any:
		keys := make([]string, 0, len(x))
		for k := range x {
			keys = append(keys, k)
		}
		sort.Strings(keys)
		parts := make([]string, len(keys))
		for i, k := range keys {
			parts[i] = k + "=" + c20CanonGo(x[k])
		}
		return "m{" + strings.Join(parts, ",") + "}"
	case []any:
		parts := make([]string, len(x))
		for i, e := range x {
			parts[i] = c20CanonGo(e)
		}
		return "a[" + strings.Join(parts, ",") + "]"
	}
	return fmt.Sprintf("go:%T:%v", v, v)
}

// ---------------------------------------------------------------------------
// value pools
// ---------------------------------------------------------------------------

var c20Time = time.Unix(1700000000, 123456789).UTC()

func c20MsgpPool() [][]byte {
	nestedInner := msgp.AppendMapHeader(nil, 2)
	nestedInner = msgp.AppendString(nestedInner, "c")
	nestedInner = msgp.AppendUint64(nestedInner, math.MaxUint64)
	nestedInner = msgp.AppendString(nestedInner, "d")
	nestedInner = msgp.AppendFloat32(nestedInner, 0.1)
	arr := msgp.AppendArrayHeader(nil, 4)
	arr = msgp.AppendInt64(arr, -7)
	arr = msgp.AppendString(arr, "two")
	arr = msgp.AppendNil(arr)
	arr = msgp.AppendBytes(arr, []byte{0, 1, 0xff})
	return [][]byte{
		msgp.AppendInt64(nil, -5),
		msgp.AppendUint64(nil, math.MaxUint64),
		msgp.AppendFloat32(nil, 0.1),
		msgp.AppendFloat64(nil, 2.25e100),
		msgp.AppendBool(nil, true),
		msgp.AppendString(nil, ""),
		msgp.AppendString(nil, "héllo \"w\"\n世"),
		msgp.AppendBytes(nil, []byte{0xde, 0xad, 0, 0xbe, 0xef}),
		msgp.AppendNil(nil),
		arr,
		append([]byte{0xd3}, 0, 0, 0, 0, 0, 0, 0, 9), // int64 format holding a small value
		msgp.AppendInt64(nil, math.MinInt64),
		msgp.AppendUint64(nil, 300),
		append(append(msgp.AppendMapHeader(nil, 1), msgp.AppendString(nil, "in")...), nestedInner...),
		msgp.AppendString(nil, strings.Repeat("x", 300)),
		msgp.AppendFloat64(nil, math.Inf(-1)),
	}
}

var c20JSONPool = []string{
	`5`, `-1.5e3`, `1e100`, `12345678901234567890`, `"str"`, `""`, `"héllo \"w\"\n世"`, `true`, `false`, `null`,
	`[1,"a",{"x":null},[]]`, `0.1`, `{"in":{"c":18446744073709551615,"d":[true]}}`, `-0`, `9007199254740993`, `"` + strings.Repeat("y", 300) + `"`,
}

func c20MsgpNested(v int, withTime bool) []byte {
	b := msgp.AppendMapHeader(nil, 3)
	b = msgp.AppendString(b, "a")
	b = msgp.AppendInt64(b, int64(v))
	b = msgp.AppendString(b, "b")
	b = msgp.AppendMapHeader(b, 2)
	b = msgp.AppendString(b, "c")
	b = msgp.AppendUint64(b, math.MaxUint64)
	b = msgp.AppendString(b, "t")
	if withTime {
		b = msgp.AppendTimeExt(b, c20Time)
	} else {
		b = msgp.AppendFloat64(b, 1.7e9)
	}
	b = msgp.AppendString(b, "arr")
	b = msgp.AppendArrayHeader(b, 3)
	b = msgp.AppendFloat32(b, 1.5)
	b = msgp.AppendString(b, "2")
	b = msgp.AppendBytes(b, []byte{3})
	return b
}

// Besides the universe of the specification every event carries one constant
// field per value of the pool, c20Fill(i) = "kf.<i>", and ALL of them are key
// fields of the destination's sampler: on the paths that extract key fields
// they are memoized at construction, on the others whenever the model calls
// MemoizeFields with the sampler's key fields - so every wire type (uint64
// extremes, float32, int64-format small ints, bin, nil, arrays, maps ...) goes
// through raw pass-through AND through memoize + re-encode in every walk. They
// must come out with the type family and exact value the client sent.
const c20NFill = 16

func c20Fill(i int) string { return fmt.Sprintf("kf.%02d", i) }

func (h *c20Harness) fillValue(i int) (c20Val, error) {
	var v c20Val
	mp := c20MsgpPool()
	v.mp = mp[i%len(mp)]
	if i%len(mp) == 15 { // JSON (MarshalJSON) cannot carry -Inf; keep that view alive
		v.mp = msgp.AppendFloat64(nil, math.Copysign(0, -1))
	}
	v.js = c20JSONPool[i%len(c20JSONPool)]
	return h.finishValue(c20Fill(i), v)
}

func (h *c20Harness) isJSON() bool { return h.path == "map" || h.path == "jsonbatch" }

// clientValue picks the concrete value the client sends for name (index idx in
// the universe).
func (h *c20Harness) clientValue(name string, idx int) (c20Val, error) {
	var v c20Val
	sel := idx*5 + h.vs*7 + h.seed*3
	switch {
	case name == c20T:
		s := fmt.Sprintf("trace-%d-%d", h.vs, h.seed)
		v.mp, v.js = msgp.AppendString(nil, s), strconv.Quote(s)
	case name == c20R:
		v.mp, v.js = msgp.AppendString(nil, "client-reason"), `"client-reason"`
	case name == c20N:
		v.mp = c20MsgpNested(sel, h.ts[name])
		v.js = fmt.Sprintf(`{"a":%d,"b":{"c":18446744073709551615,"t":"2023-11-14T22:13:20Z"},"arr":[1.5,"2",null]}`, sel)
	case h.ts[name]:
		v.mp = msgp.AppendTimeExt(nil, c20Time)
	default:
		mp := c20MsgpPool()
		v.mp = mp[sel%len(mp)]
		v.js = c20JSONPool[sel%len(c20JSONPool)]
	}
	return h.finishValue(name, v)
}

// finishValue computes what an independent decoder reads from the input.
func (h *c20Harness) finishValue(name string, v c20Val) (c20Val, error) {
	if h.isJSON() {
		// the independent reading of a JSON value: encoding/json, numbers -> float64
		var x any
		if err := json.Unmarshal([]byte(v.js), &x); err != nil {
			return v, fmt.Errorf("c20: pool json %q: %v", v.js, err)
		}
		v.canon = c20CanonGo(x)
	} else {
		c, rest, err := c20Decode(v.mp)
		if err != nil || len(rest) != 0 {
			return v, fmt.Errorf("c20: pool msgpack for %s does not decode: %v", name, err)
		}
		v.canon = c
	}
	return v, nil
}

func c20Names(v any) []string {
	var out []string
	if l, ok := v.([]any); ok {
		for _, x := range l {
			s, _ := x.(string)
			out = append(out, s)
		}
	}
	return out
}

func (h *c20Harness) Reset(init map[string]any) error {
	h.path = verifkit.Str(init, "path")
	h.vs = verifkit.Int(init, "vs")
	seed, _ := strconv.Atoi(os.Getenv("VERIF_SEED"))
	h.seed = seed
	sent := map[string]bool{}
	for _, n := range c20Names(init["clientSet"]) {
		sent[n] = true
	}
	h.ts = map[string]bool{}
	for _, n := range c20Names(init["tsSet"]) {
		h.ts[n] = true
	}
	// payload order: the universe rotated by variant+seed
	h.client = h.client[:0]
	h.clientVal = map[string]c20Val{}
	rot := (h.vs + h.seed) % len(c20Universe)
	for i := range c20Universe {
		idx := (i + rot) % len(c20Universe)
		n := c20Universe[idx]
		if !sent[n] {
			continue
		}
		v, err := h.clientValue(n, idx)
		if err != nil {
			return err
		}
		h.client = append(h.client, n)
		h.clientVal[n] = v
	}
	h.fill = map[string]c20Val{}
	var before, after []string
	keyFields := []string{c20K, c20N}
	for i := 0; i < c20NFill; i++ {
		v, err := h.fillValue(i)
		if err != nil {
			return err
		}
		n := c20Fill(i)
		h.fill[n] = v
		h.clientVal[n] = v
		keyFields = append(keyFields, n)
		if (i+h.seed+h.vs)%2 == 0 {
			before = append(before, n)
		} else {
			after = append(after, n)
		}
	}
	h.client = append(append(before, h.client...), after...)
	h.keyFields = keyFields
	h.setVals = map[string]any{
		c20R + "|s1": "reason-one", c20R + "|s2": "reason-two",
		c20A + "|s1": "attr-one", c20A + "|s2": int64(4242),
		c20K + "|s1": "svc-set", c20K + "|s2": 3.5,
	}
	h.setCanon = map[string]string{}
	for k, v := range h.setVals {
		h.setCanon[k] = c20CanonGo(v)
	}
	h.added = map[string]string{}
	h.p = nil
	h.panicMsg = ""
	h.cfg = &config.MockConfig{
		TraceIdFieldNames:  []string{c20T, "traceId"},
		ParentIdFieldNames: []string{"trace.parent_id", "parentId"},
		Samplers: map[string]*config.V2SamplerChoice{"__default__": {DynamicSampler: &config.DynamicSamplerConfig{
			SampleRate: 1, FieldList: h.keyFields}}},
	}
	return nil
}

func (h *c20Harness) msgpackInput() []byte {
	b := msgp.AppendMapHeader(nil, uint32(len(h.client)))
	for _, n := range h.client {
		if n == c20B { // a key of msgpack type bin
			b = append(b, 0xc4, byte(len(n)))
			b = append(b, n...)
		} else {
			b = msgp.AppendString(b, n)
		}
		b = append(b, h.clientVal[n].mp...)
	}
	return b
}

func (h *c20Harness) jsonInput() []byte {
	var b bytes.Buffer
	b.WriteByte('{')
	for i, n := range h.client {
		if i > 0 {
			b.WriteByte(',')
		}
		b.WriteString(strconv.Quote(n))
		b.WriteByte(':')
		b.WriteString(h.clientVal[n].js)
	}
	b.WriteByte('}')
	return b.Bytes()
}

func (h *c20Harness) construct() error {
	cu := NewCoreFieldsUnmarshaler(CoreFieldsUnmarshalerOptions{Config: h.cfg, APIKey: "c20key", Env: "c20env", Dataset: "c20ds"})
	p := NewPayload(h.cfg, nil)
	switch h.path {
	case "map": // route.requestToEvent: jsoniter into a map, NewPayload
		data := map[string]any{}
		if err := jsoniter.Unmarshal(h.jsonInput(), &data); err != nil {
			return err
		}
		p = NewPayload(h.cfg, data)
	case "jsonbatch": // route.batchedEvents.UnmarshalJSON
		var parser fastjson.Parser
		v, err := parser.ParseBytes(h.jsonInput())
		if err != nil {
			return err
		}
		buf, err := AppendJSONValue(make([]byte, 0, 128), v)
		if err != nil {
			return err
		}
		if _, err := cu.UnmarshalMsgpFirstEvent(buf, &p); err != nil {
			return err
		}
		for i := range buf { // the route returns this buffer to a pool
			buf[i] = 0xc1
		}
	case "msgp": // route.batchedEvent.UnmarshalMsg: the event is followed by more of the batch
		in := append(h.msgpackInput(), 0xc0, 0xc0)
		rest, err := cu.UnmarshalMsgpFirstEvent(in, &p)
		if err != nil {
			return err
		}
		if len(rest) != 2 {
			return fmt.Errorf("c20: UnmarshalMsgpFirstEvent left %d bytes, want 2", len(rest))
		}
		for i := range in { // the request body is not the payload's to keep
			in[i] = 0xc1
		}
	case "metaonly":
		if err := cu.UnmarshalMsgpEventMetadataOnly(h.msgpackInput(), &p); err != nil {
			return err
		}
	case "umsg":
		in := append(h.msgpackInput(), 0xc0)
		if _, err := p.UnmarshalMsg(in); err != nil {
			return err
		}
		for i := range in {
			in[i] = 0xc1
		}
	default:
		return fmt.Errorf("c20: unknown path %q", h.path)
	}
	h.p = &p
	return nil
}

func (h *c20Harness) Apply(a map[string]any) (err error) {
	defer func() {
		if r := recover(); r != nil {
			h.panicMsg = fmt.Sprint(r)
			err = nil
		}
	}()
	switch verifkit.Str(a, "name") {
	case "Construct":
		return h.construct()
	case "ExtractMetadata":
		return h.p.ExtractMetadata()
	case "MemoizeFields":
		keys := c20Names(a["arg"])
		for _, k := range keys {
			if k == c20K { // collector_worker: sp.Data.MemoizeFields(allFields...)
				keys = append(keys, h.keyFields[2:]...)
				break
			}
		}
		h.p.MemoizeFields(keys...)
	case "Set":
		arg, _ := a["arg"].(map[string]any)
		n, tok := verifkit.Str(arg, "n"), verifkit.Str(arg, "v")
		v, ok := h.setVals[n+"|"+tok]
		if !ok {
			return fmt.Errorf("c20: no value for Set(%s,%s)", n, tok)
		}
		h.p.Set(n, v)
		h.added[n] = tok
	case "Query":
		switch verifkit.Str(a, "arg") {
		case "Get":
			for _, n := range c20Universe {
				h.p.Get(n)
			}
		case "Exists":
			for _, n := range c20Universe {
				h.p.Exists(n)
			}
		case "All":
			for range h.p.All() {
			}
		case "MarshalMsg":
			if _, err := h.p.MarshalMsg(nil); err != nil {
				return err
			}
		case "MarshalJSON":
			// JSON cannot carry every msgpack value (e.g. -Inf); Project judges the outcome
			_, _ = h.p.MarshalJSON()
		}
	default:
		return fmt.Errorf("c20: unknown action %v", a)
	}
	return nil
}

var c20Ext5 = regexp.MustCompile(`ext:5:[0-9a-f]{24}`)

// token turns the canonical value found for name back into a specification token.
func (h *c20Harness) token(name, canon string, present bool) string {
	_, reserved := metadataFields[name]
	cv, sent := h.clientVal[name]
	if reserved && sent {
		return "masked" // the statement's exception: a reserved name the client used
	}
	if !present {
		return "-"
	}
	for _, tok := range []string{"s1", "s2"} {
		if c, ok := h.setCanon[name+"|"+tok]; ok && c == canon && (h.added[name] == tok || !reserved) {
			return tok
		}
	}
	if sent && canon == cv.canon {
		return "c"
	}
	if sent && h.ts[name] && strings.Contains(canon, "ext:5:") {
		// tinylib's private time extension (8 bytes seconds, 4 bytes nanoseconds)
		// in place of the msgpack timestamp the client sent, nothing else changed
		back := c20Ext5.ReplaceAllStringFunc(canon, func(m string) string {
			raw, _ := hex.DecodeString(m[len("ext:5:"):])
			return fmt.Sprintf("ts:%d:%d", int64(binary.BigEndian.Uint64(raw)), binary.BigEndian.Uint32(raw[8:]))
		})
		if back == cv.canon {
			return "c~tsext5"
		}
	}
	return "ALTERED:" + canon
}

func (h *c20Harness) Project() (out any, err error) {
	res := map[string]any{"built": h.p != nil}
	tokens := map[string]string{}
	for _, n := range c20Universe {
		tokens[n] = "-"
	}
	res["out"] = tokens
	if h.panicMsg != "" {
		res["panic"] = h.panicMsg
		return res, nil
	}
	if h.p == nil {
		return res, nil
	}
	defer func() {
		if r := recover(); r != nil {
			res["panic"] = fmt.Sprint(r)
			out, err = res, nil
		}
	}()
	var disagree []string
	// --- the forwarded bytes, framed like transmit.batchedEvent.MarshalMsg ---
	prefix := []byte{0x83, 0xa4, 't', 'i', 'm', 'e', 0xc0, 0xa4, 'd', 'a', 't', 'a'}
	buf, merr := h.p.MarshalMsg(append(make([]byte, 0, 64), prefix...))
	if merr != nil {
		res["marshalError"] = merr.Error()
		return res, nil
	}
	if !bytes.HasPrefix(buf, prefix) {
		disagree = append(disagree, "MarshalMsg damaged the bytes already in the buffer")
		buf = append(append([]byte{}, prefix...), buf...)
	}
	kvs, rest, derr := c20DecodeTopMap(buf[len(prefix):])
	if derr != nil || len(rest) != 0 {
		res["decodeError"] = fmt.Sprintf("MarshalMsg output does not decode as one map: %v, %d trailing bytes", derr, len(rest))
		return res, nil
	}
	seen := map[string]string{}
	var dups, extra []string
	for _, kv := range kvs {
		if _, dup := seen[kv.k]; dup {
			dups = append(dups, kv.k)
		}
		seen[kv.k] = kv.v
	}
	inUniverse := map[string]bool{}
	for _, n := range c20Universe {
		inUniverse[n] = true
		c, ok := seen[n]
		tokens[n] = h.token(n, c, ok)
	}
	for n, fv := range h.fill {
		inUniverse[n] = true
		if c, ok := seen[n]; !ok || c != fv.canon {
			disagree = append(disagree, fmt.Sprintf("forwarded %s = %q (present %v), client sent %q", n, c, ok, fv.canon))
		}
		g := h.p.Get(n)
		if !h.p.Exists(n) || c20CanonGo(g) != fv.canon {
			disagree = append(disagree, fmt.Sprintf("Get(%s) = %q (exists %v), client sent %q", n, c20CanonGo(g), h.p.Exists(n), fv.canon))
		}
	}
	for k := range seen {
		if _, reserved := metadataFields[k]; !inUniverse[k] && !reserved {
			extra = append(extra, k)
		}
	}
	// --- Get / Exists ---
	for _, n := range c20Universe {
		ex := h.p.Exists(n)
		g := h.p.Get(n)
		if !ex && g != nil {
			disagree = append(disagree, fmt.Sprintf("Exists(%s)=false but Get=%v", n, g))
		}
		if t := h.token(n, c20CanonGo(g), ex); t != strings.TrimSuffix(tokens[n], "~tsext5") {
			disagree = append(disagree, fmt.Sprintf("Get/Exists(%s) says %s, MarshalMsg says %s", n, t, tokens[n]))
		}
	}
	// --- All() ---
	all := map[string]any{}
	var allDups []string
	for k, v := range h.p.All() {
		if _, dup := all[k]; dup {
			allDups = append(allDups, k)
		}
		all[k] = v
	}
	if len(allDups) > 0 {
		disagree = append(disagree, fmt.Sprintf("All() yields %v twice", allDups))
	}
	for _, n := range c20Universe {
		v, ok := all[n]
		if t := h.token(n, c20CanonGo(v), ok); t != strings.TrimSuffix(tokens[n], "~tsext5") {
			disagree = append(disagree, fmt.Sprintf("All()[%s] says %s, MarshalMsg says %s", n, t, tokens[n]))
		}
	}
	for n, fv := range h.fill {
		if v, ok := all[n]; !ok || c20CanonGo(v) != fv.canon {
			disagree = append(disagree, fmt.Sprintf("All()[%s] = %q (present %v), client sent %q", n, c20CanonGo(v), ok, fv.canon))
		}
	}
	for k := range all {
		if _, reserved := metadataFields[k]; !inUniverse[k] && !reserved {
			disagree = append(disagree, "All() yields the unknown name "+k)
		}
	}
	// --- MarshalJSON, read by encoding/json: same names; values compared with
	// what encoding/json itself makes of the value Get hands out ---
	jb, jerr := h.p.MarshalJSON()
	if jerr != nil {
		// JSON cannot carry every value (e.g. -Inf); not a statement about the forwarded bytes
		if !strings.Contains(jerr.Error(), "unsupported value") {
			disagree = append(disagree, "MarshalJSON: "+jerr.Error())
		}
	} else {
		var jm map[string]any
		if err := json.Unmarshal(jb, &jm); err != nil {
			disagree = append(disagree, "MarshalJSON output is not a JSON object: "+err.Error())
		} else {
			for _, n := range c20Universe {
				jv, ok := jm[n]
				if tokens[n] == "masked" {
					continue
				}
				if ok != (tokens[n] != "-") {
					disagree = append(disagree, fmt.Sprintf("MarshalJSON has %s: %v, MarshalMsg says %s", n, ok, tokens[n]))
					continue
				}
				if ok {
					wantRaw, werr := json.Marshal(h.p.Get(n))
					var want any
					if werr == nil && json.Unmarshal(wantRaw, &want) == nil && !reflect.DeepEqual(want, jv) {
						disagree = append(disagree, fmt.Sprintf("MarshalJSON[%s] = %v, want %v", n, jv, want))
					}
				}
			}
			for n := range h.fill {
				if _, ok := jm[n]; !ok {
					disagree = append(disagree, "MarshalJSON lacks "+n)
				}
			}
			for k := range jm {
				if _, reserved := metadataFields[k]; !inUniverse[k] && !reserved {
					disagree = append(disagree, "MarshalJSON has the unknown name "+k)
				}
			}
		}
	}
	if len(disagree) > 0 {
		sort.Strings(disagree)
		res["disagree"] = disagree
	}
	if len(dups) > 0 {
		sort.Strings(dups)
		res["dupSet"] = dups
	}
	if len(extra) > 0 {
		sort.Strings(extra)
		res["extraSet"] = extra
	}
	return res, nil
}

func TestVerifC20Payload(t *testing.T) {
	// self-test of the independent decoder on values whose canonical form is known
	for _, tc := range []struct {
		in   []byte
		want string
	}{
		{msgp.AppendUint64(nil, math.MaxUint64), "i:" + new(big.Int).SetUint64(math.MaxUint64).String()},
		{msgp.AppendInt64(nil, math.MinInt64), fmt.Sprintf("i:%d", int64(math.MinInt64))},
		{msgp.AppendTimeExt(nil, c20Time), fmt.Sprintf("ts:%d:%d", c20Time.Unix(), c20Time.Nanosecond())},
		{msgp.AppendFloat32(nil, 0.1), fmt.Sprintf("f32:%08x", math.Float32bits(0.1))},
	} {
		got, rest, err := c20Decode(tc.in)
		if err != nil || len(rest) != 0 || got != tc.want {
			t.Fatalf("c20 decoder self-test: %x -> %q (%v), want %q", tc.in, got, err, tc.want)
		}
	}
	if err := verifkit.Main(&c20Harness{}); err != nil {
		t.Fatal(err)
	}
}
