"""C31 The decision cache remembers what it promises."""

PROP = dict(
    level="model_checking",
    technique="TLA+ spec DecisionCache.tla model-checked by TLC; every generated transition replayed into a real cuckooSentCache (spec->code transition tour)",
    design_ref="DESIGN.md §5 C31",
    level_text="x",
    level_note="x",
    assumptions=[],
    stages=[dict(kind="walk", name="DecisionCache-drop", module="DecisionCache", pkg="collect/cache", test="TestVerifDecisionCache",
                 harness=["collect/cache/c31_test.go"],
                 cfg={"quick": "MC_DecisionCache_drop.cfg", "thorough": "MC_DecisionCache_drop.cfg"},
                 budget={"quick": 40, "thorough": 240})],
)
