//go:build verif

package collect

import (
	"fmt"
	"math/rand"
	"os"
	"runtime"
	"strconv"
	"sync"
	"testing"
	"time"

	"github.com/honeycombio/refinery/config"
	"github.com/honeycombio/refinery/internal/verifkit"
	"github.com/honeycombio/refinery/types"
)

// TestVerifCollectorTrace is the B2 driver for spec/TraceCollector.tla: a real
// InMemCollector with 3 workers is fed by concurrent producers while the fake
// clock advances, the rules are reloaded and memory-pressure ejections are
// requested, all concurrently. Every hook event and every span handed to the
// transmission is logged in the order of the trace writer's mutex; TLC then
// checks that the log is a behaviour of the specification.
func TestVerifCollectorTrace(t *testing.T) {
	tw, err := verifkit.NewTraceWriter(os.Getenv("VERIF_TRACE_OUT"))
	if err != nil {
		t.Fatal(err)
	}
	seed, _ := strconv.ParseInt(os.Getenv("VERIF_SEED"), 10, 64)
	budget, _ := strconv.ParseFloat(os.Getenv("VERIF_BUDGET_S"), 64)
	if budget == 0 {
		budget = 20
	}
	deadline := time.Now().Add(time.Duration(budget * float64(time.Second)))
	rng := rand.New(rand.NewSource(seed))
	runs := 0
	for time.Now().Before(deadline) && runs < 400 {
		if err := c01TraceRun(tw, rand.New(rand.NewSource(rng.Int63())), runs); err != nil {
			tw.Close()
			t.Fatalf("run %d: %v", runs, err)
		}
		runs++
	}
	if err := tw.Close(); err != nil {
		t.Fatal(err)
	}
	verifkit.WriteJSON(os.Getenv("VERIF_OUT"), map[string]any{"traces": tw.Traces, "events": tw.Events})
}

func c01TraceRun(tw *verifkit.TraceWriter, rng *rand.Rand, run int) error {
	const ntraces = 6
	dry := run%4 == 3
	// model-side description handed to the same Reset the transition tour uses
	workerOf := map[string]any{}
	e1, e2 := map[string]any{}, map[string]any{}
	keeps1, keeps2 := []string{}, []string{}
	for i := 0; i < ntraces; i++ {
		t := fmt.Sprintf("t%d", i)
		workerOf[t] = float64(i % 3)
		k1 := i%2 == 0
		k2 := i%4 == 0 // kept at rate 3 implies kept at rate 2
		e1[t] = map[string]any{"keep": k1, "rate": float64(2)}
		e2[t] = map[string]any{"keep": k2, "rate": float64(3)}
		if k1 {
			keeps1 = append(keeps1, t)
		}
		if k2 {
			keeps2 = append(keeps2, t)
		}
	}
	sl := 0
	if run%3 == 1 {
		sl = 3
	}
	h := &c01Harness{}
	init := map[string]any{
		"epoch": float64(1),
		"cfg":   map[string]any{"dryRun": dry, "addReason": true, "addCounts": true, "addSpanCount": false, "addHost": false, "attrs": ""},
		"params": map[string]any{"tt": float64(2), "sd": float64(1), "sl": float64(sl), "me": float64(run % 2), // MaxExpired 0 or 1
			"workerOf": workerOf, "verdicts": []any{e1, e2}, "reasons": []any{"deterministic/chance", "deterministic/chance"}},
	}
	if err := h.Reset(init); err != nil {
		return err
	}
	defer func() {
		if h.stop != nil {
			h.stop()
		}
	}()
	tw.Reset(map[string]any{"dry_run": dry, "rates": []int{2, 3}, "keeps": [][]string{keeps1, keeps2}})
	sid := func(kv []any) int {
		sp, _ := c01kv(kv, "span").(*types.Span)
		switch v := sp.Data.Get("sid").(type) {
		case int:
			return v
		case int64:
			return int(v)
		case float64:
			return int(v)
		}
		return -1
	}
	h.ev.log = func(event string, kv []any) {
		switch event {
		case "buffered":
			tw.Emit(event, map[string]any{"t": h.rev[c01kv(kv, "t").(string)], "id": sid(kv), "n": c01kv(kv, "n")})
		case "late":
			tw.Emit(event, map[string]any{"t": h.rev[c01kv(kv, "t").(string)], "id": sid(kv), "kept": c01kv(kv, "kept")})
		case "decision":
			tw.Emit(event, map[string]any{"t": h.rev[c01kv(kv, "t").(string)], "keep": c01kv(kv, "keep"), "rate": c01kv(kv, "rate"), "n": c01kv(kv, "n"), "send_reason": c01kv(kv, "send_reason")})
		case "trace_dropped", "trace_queued":
			tw.Emit(event, map[string]any{"t": h.rev[c01kv(kv, "t").(string)], "n": c01kv(kv, "n")})
		case "trace_sent":
			tw.Emit(event, map[string]any{"t": h.rev[c01kv(kv, "t").(string)]})
		case "tick", "ejected", "worker_reloaded":
			tw.Emit(event, map[string]any{"w": c01kv(kv, "w")})
		case "reloaded":
			tw.Emit(event, nil)
		}
	}
	h.tx.mu.Lock()
	h.tx.onFwd = func(rec map[string]any) {
		tw.Emit("forward", map[string]any{"t": rec["t"], "id": rec["id"], "rate": rec["rate"], "final": rec["final"], "orig": rec["orig"], "dry": rec["dry"]})
	}
	h.tx.mu.Unlock()

	// the spans: ids are unique per trace; split among producers
	type spanSpec struct {
		t           string
		id, crate   int
		root        bool
		kind        string
	}
	var all []spanSpec
	for i := 0; i < ntraces; i++ {
		n := 1 + rng.Intn(5)
		rootAt := rng.Intn(n + 2) // may be absent
		for k := 1; k <= n; k++ {
			all = append(all, spanSpec{t: fmt.Sprintf("t%d", i), id: k, crate: []int{0, 0, 1, 3}[rng.Intn(4)], root: k == rootAt, kind: []string{"span", "span", "event", "link"}[rng.Intn(4)]})
		}
	}
	rng.Shuffle(len(all), func(i, j int) { all[i], all[j] = all[j], all[i] })
	nprod := 3
	var wg sync.WaitGroup
	errs := make(chan error, 16)
	for p := 0; p < nprod; p++ {
		mine := []spanSpec{}
		for i, s := range all {
			if i%nprod == p {
				mine = append(mine, s)
			}
		}
		wg.Add(1)
		go func(mine []spanSpec, prng *rand.Rand) {
			defer wg.Done()
			for _, s := range mine {
				sp := h.span(map[string]any{"t": s.t, "id": float64(s.id), "kind": s.kind, "root": s.root, "crate": float64(s.crate)})
				tw.Emit("arrive", map[string]any{"t": s.t, "id": s.id, "crate": s.crate})
				if err := h.coll.AddSpan(sp); err != nil {
					errs <- err
					return
				}
				if prng.Intn(3) == 0 {
					runtime.Gosched()
				}
			}
		}(mine, rand.New(rand.NewSource(rng.Int63())))
	}
	// the clock, the reloader and the ejector run concurrently with the producers
	wg.Add(1)
	go func(prng *rand.Rand) {
		defer wg.Done()
		for k := 0; k < 3; k++ {
			for y := 0; y < prng.Intn(50); y++ {
				runtime.Gosched()
			}
			h.clock.Advance(h.tick)
		}
	}(rand.New(rand.NewSource(rng.Int63())))
	if run%2 == 0 {
		wg.Add(1)
		go func(prng *rand.Rand) {
			defer wg.Done()
			for y := 0; y < prng.Intn(80); y++ {
				runtime.Gosched()
			}
			tw.Emit("rules_changed", nil)
			h.conf.Mux.Lock()
			h.conf.GetSamplerTypeVal = &config.DeterministicSamplerConfig{SampleRate: 3}
			h.conf.Mux.Unlock()
			h.conf.Reload()
		}(rand.New(rand.NewSource(rng.Int63())))
	}
	if run%3 == 2 {
		wg.Add(1)
		go func(prng *rand.Rand) {
			defer wg.Done()
			for y := 0; y < prng.Intn(80); y++ {
				runtime.Gosched()
			}
			var ewg sync.WaitGroup
			for _, w := range h.coll.workers {
				ewg.Add(1)
				w.sendEarly <- sendEarly{wg: &ewg, bytesToSend: 400 * prng.Intn(4)}
			}
			ewg.Wait()
		}(rand.New(rand.NewSource(rng.Int63())))
	}
	wg.Wait()
	select {
	case err := <-errs:
		return err
	default:
	}
	// drain: everything accepted has been processed, then enough ticks for every deadline
	total := len(all)
	if err := h.ev.waitFor("all spans processed", func() bool { return h.ev.counts["processed"] >= total }); err != nil {
		return err
	}
	for k := 0; k < 2+ntraces+3; k++ { // MaxExpired may be 1: one trace per worker per tick
		base := map[int]int{}
		h.ev.mu.Lock()
		for w := 0; w < h.nwork; w++ {
			base[w] = h.ev.counts[fmt.Sprintf("tick/%d", w)]
		}
		h.ev.mu.Unlock()
		h.clock.Advance(h.tick)
		if err := h.ev.waitFor("drain tick", func() bool {
			for w := 0; w < h.nwork; w++ {
				if h.ev.counts[fmt.Sprintf("tick/%d", w)] <= base[w] {
					return false
				}
			}
			return true
		}); err != nil {
			return err
		}
	}
	if err := h.senderIdle(); err != nil {
		return err
	}
	tw.Emit("quiesce", nil)
	return nil
}
