\* Not part of the check: TLC must REPORT A VIOLATION here. It shows that the
\* two named deviations (what the unpatched code does) break the property.
SPECIFICATION Spec
CONSTANTS
  MaxEvents = 1
  Faithful = TRUE
  Macro = FALSE
  EnvAts = {1, 2}
  EnvFaults = {"401"}
  BodyFaults = {}
  ParseFaults = {"garbage"}
INVARIANTS TypeOK CodeErrorMeansNoEffects CodeExactlyOneStatus CodeSuccessMeansTried
CHECK_DEADLOCK FALSE
