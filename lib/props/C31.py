"""C31 The decision cache remembers what it promises."""


def _walk(name, qb, tb):
    return dict(kind="walk", name="DecisionCache-" + name, module="DecisionCache", pkg="collect/cache", test="TestVerifDecisionCache",
                harness=["collect/cache/c31_test.go"],
                cfg={"quick": f"MC_DecisionCache_{name}.cfg", "thorough": f"MC_DecisionCache_{name}_big.cfg"},
                budget={"quick": qb, "thorough": tb})


PROP = dict(
    level="model_checking",
    technique="TLA+ spec DecisionCache.tla (kept LRU, recent set, add queue, two-generation cuckoo filter as slot-bounded bags, resize) model-checked by TLC; "
              "every generated transition replayed into a real cuckooSentCache built by NewCuckooSentCache (spec->code transition tour)",
    design_ref="DESIGN.md §5 C31, §9 (reading of 'filled to capacity since the record')",
    level_text="TLC explores every order of kept/dropped records, CheckSpan/CheckTrace lookups, add-queue drains, Maintain cycles (future creation at load > 0.5, rotation at load > 0.99), "
               "recent-set expiry and Resize for 2-3 trace ids, kept capacity 1-3, 4- and 8-slot filters, and checks on the model: the keptCap most recently recorded-or-consulted kept decisions "
               "answer kept with the recorded rate and reason (KeptRemembered, RecencyOrder, EvictOnlyOldest), Resize keeps the newest min(n,size) (ResizeKeepsNewest), a drained dropped record is answered "
               "dropped by both lookups even if also recorded kept until the first rotation after it or until the current filter overflows (DroppedRemembered, ObligationEndsOnlyWhenFull), and CheckSpan answers "
               "dropped from the moment of the record while the recent set holds it (RecordDroppedAnswered, RecentSticks). Four scenario configurations (kept / mix / cap / drop) are dumped as transition graphs and "
               "every transition is executed on the real cache: the returned record (kept/dropped/none, rate, interned reason, span counts), the Maintain gauges and the Resize error are compared with the model's, "
               "and the LRU order, filter membership, recent set, queue length, filter loads and capacities after every step.",
    level_note="Exhaustive only within the bounds (see spec/MC_DecisionCache_*.cfg). The add-queue goroutine is stopped after construction and its loop body is run by the Drain action; Maintain is called directly "
               "(its internal 1 ms drain time-out is avoided by draining first); recentDroppedIDs runs on a fake clock and only 'all recent entries expire' is explored (C32 covers TTL instants). "
               "False positives are excluded by choosing trace ids with pairwise distinct fingerprints that may live in either bucket (established through the filter's public API), so the filter is exact for the ids used; "
               "an insert into a full filter may lose any one fingerprint and every such outcome is accepted. Add-queue overflow (1000 pending ids) is not explored. Concurrency of Record/Check/Resize is C35's subject, not explored here. "
               "Sample rates above 2^32-1 are truncated by keptTraceCacheEntry (uint32) and are not asserted.",
    assumptions=["clockwork.FakeClock is faithful", "panmari/cuckoofilter: 4-slot buckets, capacity<=3 -> 1 bucket, 4..7 -> 2 buckets (checked by the harness at Reset)",
                 "bounded: 2-3 trace ids, kept capacity 1-3, filter of 4/8 slots, add queue <= 2"],
    stages=[_walk("kept", 20, 120), _walk("mix", 20, 120), _walk("cap", 25, 90), _walk("drop", 30, 120),
            dict(kind="tlc", name="DecisionCache-full", module="DecisionCache", cfg={"quick": None, "thorough": "MC_DecisionCache_full.cfg"}, workers=8, timeout=540)],
)
