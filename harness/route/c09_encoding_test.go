//go:build verif

package route

// Binding of spec/Encoding.tla (property C09: the sampling outcome does not
// depend on the wire encoding of the spans or on their arrival order) to the
// real ingestion paths and the real samplers.
//
// A vector of the specification is (sampler configuration, abstract trace);
// every edge leaving it is one ENCODING of that trace (arrival order, per span
// an ingestion path, per number a wire type). For each edge the harness
//
//   - writes every span down byte by byte in the chosen format (JSON text,
//     msgpack assembled by hand so that the integer / float width is exactly
//     the one the specification chose, OTLP protobuf),
//   - hands it to the handler a client would reach: the mux that Router.LnS
//     builds (/1/events/{dataset}, /1/batch/{dataset}, /v1/traces) of a real
//     incoming Router, so the request decoders (requestToEvent + unmarshal,
//     batchedEvents.UnmarshalJSON / UnmarshalMsg, husky's OTLP translation +
//     UnmarshalMsgpEventMetadataOnly) and processEvent run as in production;
//   - for a "forwarded" span the receiving router does not own the trace: its
//     processEvent hands the event to a real transmit.DirectTransmission (batch
//     size 1), which serialises it with batchedEvent.MarshalMsg /
//     Payload.MarshalMsg and posts it over loopback HTTP to a real PEER-type
//     Router, whose /1/batch handler decodes it again;
//   - the router's Collector is a recorder: the spans it is handed are
//     assembled into a types.Trace exactly as collect.CollectorWorker does
//     (AddSpan, RootSpan, MemoizeFields of the sampler's key fields) and given
//     to the sampler the real SamplerFactory builds for the dataset from a
//     rules file loaded by config.NewConfig.
//
// NON-SCALAR values (family "ns"): a field may be nil or a document (a map or
// an array, Encoding!Docs gives their JSON text). JSON requests carry the text
// as it is, msgpack requests the same document element by element (fixmap /
// fixarray, strings, small integers as fixint); OTLP does not carry them
// (Encoding!Carries). Nothing else changes: the span goes through the same
// handlers, and the sampler of a configuration with CheckNestedFields reads
// dotted paths out of the real payload's JSON rendering.
//
// Observation: (rate, keep where it is deterministic, reason, sample key) of
// GetSampleRate, compared with the same observation for the REFERENCE encoding
// of the same abstract trace (Encoding!RefEnc), evaluated once per vector by
// the same machinery. res = "agree" / "differ" is what the specification's
// successor states carry.

import (
	"bytes"
	"encoding/binary"
	"encoding/json"
	"fmt"
	"math"
	"math/rand"
	"net/http"
	"net/http/httptest"
	"os"
	"path/filepath"
	"sort"
	"strconv"
	"strings"
	"testing"
	"time"

	"go.opentelemetry.io/otel/trace/noop"
	collectortrace "go.opentelemetry.io/proto/otlp/collector/trace/v1"
	commonpb "go.opentelemetry.io/proto/otlp/common/v1"
	resourcepb "go.opentelemetry.io/proto/otlp/resource/v1"
	tracepb "go.opentelemetry.io/proto/otlp/trace/v1"
	"google.golang.org/protobuf/proto"

	"github.com/honeycombio/refinery/config"
	"github.com/honeycombio/refinery/internal/health"
	"github.com/honeycombio/refinery/internal/verifkit"
	"github.com/honeycombio/refinery/logger"
	"github.com/honeycombio/refinery/metrics"
	"github.com/honeycombio/refinery/sample"
	"github.com/honeycombio/refinery/sharder"
	"github.com/honeycombio/refinery/transmit"
	"github.com/honeycombio/refinery/types"
)

const (
	c09Key   = "c09a45edf5d245834089a1bd6cc9ad01" // classic key: the sampler is chosen by dataset, no environment lookup
	c09Guard = 60 * time.Second                   // failure guard on channel receives, never waited for in a passing run
)

// the trace id every path carries: 16 bytes in OTLP, their hex text elsewhere
var c09TraceBytes = []byte{0xc0, 0x9a, 0x01, 0x02, 0x03, 0x04, 0x05, 0x06, 0x07, 0x08, 0x09, 0x0a, 0x0b, 0x0c, 0x0d, 0x0e}

func c09TraceHex() string { return fmt.Sprintf("%x", c09TraceBytes) }

// --- the specification's records -------------------------------------------------

type c09Val struct {
	K string `json:"k"` // abs | s | b | n | nf (rule Value: whole number as float literal) | nil | c (document) | none | list
	N int    `json:"n"` // tenths for k = n, 0/1 for k = b
	S string `json:"s"` // the string for k = s, the name of the document (Encoding!Docs) for k = c
}

// c09Docs is Encoding!Docs (params.docs of the graph): document name -> JSON text.
var c09Docs map[string]string

func c09Doc(v c09Val) (string, error) {
	d, ok := c09Docs[v.S]
	if !ok || v.K != "c" {
		return "", fmt.Errorf("value %+v is not a document of Encoding!Docs", v)
	}
	return d, nil
}

type c09Field struct {
	R bool   `json:"r"`
	N string `json:"n"`
	P string `json:"p"` // dotted path below the field (CheckNestedFields), "" for the field itself
}

func (f c09Field) name() string {
	n := f.N
	if f.P != "" {
		n += "." + f.P
	}
	if f.R {
		return "root." + n
	}
	return n
}

type c09Cond struct {
	Fields []c09Field `json:"fields"`
	Op     string     `json:"op"`
	Dt     string     `json:"dt"`
	Val    c09Val     `json:"val"`
	List   []c09Val   `json:"list"`
}

type c09Cfg struct {
	Kind   string     `json:"kind"`
	Scope  string     `json:"scope"`
	Conds  []c09Cond  `json:"conds"`
	Key    []c09Field `json:"key"`
	Utl    bool       `json:"utl"`
	Nested bool       `json:"nested"` // CheckNestedFields
}

type c09Span struct {
	F c09Val `json:"f"`
	G c09Val `json:"g"`
}

type c09Trace struct {
	Spans []c09Span `json:"spans"`
	Root  int       `json:"root"`
}

type c09Vec struct {
	Cfg   c09Cfg   `json:"cfg"`
	Trace c09Trace `json:"trace"`
}

type c09SpanEnc struct {
	Base string `json:"base"`
	Fwd  bool   `json:"fwd"`
	Wf   string `json:"wf"`
	Wg   string `json:"wg"`
}

type c09Enc struct {
	Perm []int        `json:"perm"`
	Se   []c09SpanEnc `json:"se"`
}

// c09RefEnc is Encoding!RefEnc: every span by msgpack /1/batch in trace order,
// integral numbers as int64, the others as float64.
func c09RefEnc(t c09Trace) c09Enc {
	w := func(v c09Val) string {
		switch {
		case v.K != "n":
			return "-"
		case v.N%10 == 0:
			return "i64"
		}
		return "f64"
	}
	e := c09Enc{}
	for i, sp := range t.Spans {
		e.Perm = append(e.Perm, i+1)
		e.Se = append(e.Se, c09SpanEnc{Base: "mpBatch", Wf: w(sp.F), Wg: w(sp.G)})
	}
	return e
}

// --- rules file -------------------------------------------------------------------

func c09YAMLValue(v c09Val) (any, error) {
	switch v.K {
	case "s":
		return v.S, nil
	case "b":
		return v.N == 1, nil
	case "n":
		if v.N%10 == 0 {
			return v.N / 10, nil
		}
		return float64(v.N) / 10, nil
	case "nf": // a whole number written as a float literal: the loader yields float64
		if v.N%10 != 0 {
			break
		}
		return json.RawMessage(fmt.Sprintf("%d.0", v.N/10)), nil
	}
	return nil, fmt.Errorf("value %+v cannot be written into a rules file", v)
}

func c09CondMap(c c09Cond) (map[string]any, error) {
	m := map[string]any{"Operator": c.Op}
	switch len(c.Fields) {
	case 0:
		return nil, fmt.Errorf("condition without field: %+v", c)
	case 1:
		m["Field"] = c.Fields[0].name()
	default:
		var fs []string
		for _, f := range c.Fields {
			fs = append(fs, f.name())
		}
		m["Fields"] = fs
	}
	if c.Dt != "none" {
		m["Datatype"] = c.Dt
	}
	switch c.Val.K {
	case "none":
	case "list":
		var l []any
		for _, x := range c.List {
			v, err := c09YAMLValue(x)
			if err != nil {
				return nil, err
			}
			l = append(l, v)
		}
		m["Value"] = l
	default:
		v, err := c09YAMLValue(c.Val)
		if err != nil {
			return nil, err
		}
		m["Value"] = v
	}
	return m, nil
}

func c09DynMap(key []c09Field, utl bool) map[string]any {
	var fl []string
	for _, f := range key {
		fl = append(fl, f.name())
	}
	m := map[string]any{"SampleRate": 10, "ClearFrequency": "1000h", "FieldList": fl}
	if utl {
		m["UseTraceLength"] = true
	}
	return map[string]any{"DynamicSampler": m}
}

func c09SamplerMap(c c09Cfg) (map[string]any, error) {
	switch c.Kind {
	case "dyn":
		return c09DynMap(c.Key, c.Utl), nil
	case "rules":
		r1 := map[string]any{"Name": "r1", "Scope": c.Scope}
		var conds []any
		for _, cd := range c.Conds {
			m, err := c09CondMap(cd)
			if err != nil {
				return nil, err
			}
			conds = append(conds, m)
		}
		r1["Conditions"] = conds
		if len(c.Key) > 0 {
			r1["Sampler"] = c09DynMap(c.Key, false)
		} else {
			r1["Drop"] = true
		}
		r2 := map[string]any{"Name": "r2", "SampleRate": 1}
		rb := map[string]any{"Rules": []any{r1, r2}}
		if c.Nested {
			rb["CheckNestedFields"] = true
		}
		return map[string]any{"RulesBasedSampler": rb}, nil
	}
	return nil, fmt.Errorf("unknown configuration kind %q", c.Kind)
}

// --- the node(s) --------------------------------------------------------------------

// c09Collector records the spans a router hands to its collector.
type c09Collector struct{ spans chan *types.Span }

func (c *c09Collector) AddSpan(sp *types.Span) error         { c.spans <- sp; return nil }
func (c *c09Collector) AddSpanFromPeer(sp *types.Span) error { c.spans <- sp; return nil }
func (c *c09Collector) Stressed() bool                       { return false }
func (c *c09Collector) GetStressedSampleRate(string) (uint, bool, string) {
	return 1, true, ""
}
func (c *c09Collector) ProcessSpanImmediately(*types.Span) (bool, bool) { return false, false }

// c09Elsewhere is a sharder for which every trace belongs to the peer.
type c09Elsewhere struct{ self, peer *sharder.TestShard }

func (s *c09Elsewhere) MyShard() sharder.Shard          { return s.self }
func (s *c09Elsewhere) WhichShard(string) sharder.Shard { return s.peer }

type c09Env struct {
	cfg      config.Config
	factory  *sample.SamplerFactory
	samplers map[string]sample.Sampler
	dataset  map[string]string // canonical cfg -> dataset name

	local, fwd, peer          *Router
	localCol, fwdCol, peerCol *c09Collector
	tx                        *transmit.DirectTransmission
	peerSrv                   *httptest.Server
}

func c09NewRouter(cfg config.Config, typ types.RouterType, col *c09Collector, sh sharder.Sharder, peerTx transmit.Transmission, mm metrics.Metrics) (*Router, error) {
	hr := &health.MockHealthReporter{}
	hr.SetAlive(true)
	hr.SetReady(true)
	r := &Router{
		Config:               cfg,
		Logger:               &logger.NullLogger{},
		Health:               hr,
		HTTPTransport:        &http.Transport{},
		UpstreamTransmission: &transmit.MockTransmission{},
		PeerTransmission:     peerTx,
		Sharder:              sh,
		Collector:            col,
		Metrics:              mm,
		Tracer:               noop.Tracer{},
	}
	r.UpstreamTransmission.(*transmit.MockTransmission).Start()
	if mt, ok := peerTx.(*transmit.MockTransmission); ok {
		mt.Start()
	}
	r.SetVersion("c09")
	r.SetType(typ)
	r.LnS()
	if r.server == nil {
		return nil, fmt.Errorf("Router.LnS did not build its server")
	}
	return r, nil
}

func c09NewEnv(dir string, cfgs map[string]c09Cfg) (*c09Env, error) {
	e := &c09Env{samplers: map[string]sample.Sampler{}, dataset: map[string]string{}}
	keys := make([]string, 0, len(cfgs))
	for k := range cfgs {
		keys = append(keys, k)
	}
	sort.Strings(keys)
	samplers := map[string]any{"__default__": map[string]any{"DeterministicSampler": map[string]any{"SampleRate": 1}}}
	for i, k := range keys {
		ds := fmt.Sprintf("c09cfg%d", i+1)
		e.dataset[k] = ds
		m, err := c09SamplerMap(cfgs[k])
		if err != nil {
			return nil, err
		}
		samplers[ds] = m
	}
	rules, err := json.MarshalIndent(map[string]any{"RulesVersion": 2, "Samplers": samplers}, "", " ")
	if err != nil {
		return nil, err
	}
	cpath := filepath.Join(dir, "c09-config.yaml")
	rpath := filepath.Join(dir, "c09-rules.yaml") // JSON is YAML
	cy := "General:\n  ConfigurationVersion: 2\nNetwork:\n  ListenAddr: 127.0.0.1:0\n  PeerListenAddr: 127.0.0.1:0\n"
	if err := os.WriteFile(cpath, []byte(cy), 0o600); err != nil {
		return nil, err
	}
	if err := os.WriteFile(rpath, rules, 0o600); err != nil {
		return nil, err
	}
	cfg, err := config.NewConfig(&config.CmdEnv{ConfigLocations: []string{cpath}, RulesLocations: []string{rpath}}, "v3.0.0")
	if cfg == nil {
		return nil, fmt.Errorf("the real loader rejected the generated configuration: %v", err)
	}
	e.cfg = cfg
	e.factory = &sample.SamplerFactory{Config: cfg, Logger: &logger.NullLogger{}, Metrics: &metrics.NullMetrics{}}
	if err := e.factory.Start(); err != nil {
		return nil, err
	}
	mm := &metrics.MockMetrics{}
	mm.Start()

	// the peer: a PEER-type router that owns every trace it is sent
	e.peerCol = &c09Collector{spans: make(chan *types.Span, 64)}
	self := &sharder.TestShard{Addr: "http://c09-peer"}
	if e.peer, err = c09NewRouter(cfg, types.RouterTypePeer, e.peerCol, &sharder.MockSharder{Self: self}, &transmit.MockTransmission{}, mm); err != nil {
		return nil, err
	}
	e.peerSrv = httptest.NewServer(e.peer.server.Handler)

	// the node a client reaches when its spans are NOT forwarded
	e.localCol = &c09Collector{spans: make(chan *types.Span, 64)}
	if e.local, err = c09NewRouter(cfg, types.RouterTypeIncoming, e.localCol, &sharder.MockSharder{Self: &sharder.TestShard{Addr: "http://c09-local"}}, &transmit.MockTransmission{}, mm); err != nil {
		return nil, err
	}

	// the node a client reaches when its spans belong to the peer: real peer transmission, every event sent at once
	e.tx = transmit.NewDirectTransmission(types.TransmitTypePeer, http.DefaultTransport.(*http.Transport).Clone(), 1, 24*time.Hour, 30*time.Second, false, nil)
	e.tx.Config, e.tx.Logger, e.tx.Metrics, e.tx.Version = cfg, &logger.NullLogger{}, mm, "c09"
	if err := e.tx.Start(); err != nil {
		return nil, err
	}
	e.fwdCol = &c09Collector{spans: make(chan *types.Span, 64)}
	sh := &c09Elsewhere{self: &sharder.TestShard{Addr: "http://c09-fwd"}, peer: &sharder.TestShard{Addr: e.peerSrv.URL}}
	if e.fwd, err = c09NewRouter(cfg, types.RouterTypeIncoming, e.fwdCol, sh, e.tx, mm); err != nil {
		return nil, err
	}
	return e, nil
}

func (e *c09Env) close() {
	if e == nil {
		return
	}
	if e.peerSrv != nil {
		e.peerSrv.Close()
	}
	for _, r := range []*Router{e.local, e.fwd, e.peer} {
		if r != nil {
			r.Stop()
		}
	}
	if e.tx != nil {
		e.tx.Stop()
	}
	if e.factory != nil {
		e.factory.Stop()
	}
}

// --- writing a span down ------------------------------------------------------------

func c09Float(n int) float64 { return float64(n) / 10 }

// c09JSONNumber is the JSON literal of the number n (tenths) in form w.
func c09JSONNumber(n int, w string) (string, error) {
	integral := n%10 == 0
	switch w {
	case "jnum":
		if integral {
			return strconv.Itoa(n / 10), nil
		}
		return strconv.FormatFloat(c09Float(n), 'f', -1, 64), nil
	case "jalt":
		if integral {
			return strconv.Itoa(n/10) + ".0", nil
		}
		return strconv.FormatFloat(c09Float(n), 'f', -1, 64) + "0", nil
	case "jexp":
		if !integral {
			break
		}
		m, exp := n/10, 0
		for m != 0 && m%10 == 0 {
			m /= 10
			exp++
		}
		return fmt.Sprintf("%de%d", m, exp), nil
	}
	return "", fmt.Errorf("number %d/10 has no JSON form %q", n, w)
}

func c09MpStr(b []byte, s string) []byte {
	switch {
	case len(s) < 32:
		b = append(b, 0xa0|byte(len(s)))
	case len(s) < 256:
		b = append(b, 0xd9, byte(len(s)))
	default:
		b = append(b, 0xda)
		b = binary.BigEndian.AppendUint16(b, uint16(len(s)))
	}
	return append(b, s...)
}

// c09MpNumber appends the number n (tenths) in exactly the msgpack format w.
func c09MpNumber(b []byte, n int, w string) ([]byte, error) {
	bad := fmt.Errorf("number %d/10 does not fit msgpack %s", n, w)
	integral := n%10 == 0
	v := int64(n / 10)
	switch w {
	case "fix":
		if !integral || v < -32 || v > 127 {
			return nil, bad
		}
		return append(b, byte(int8(v))), nil
	case "i8":
		if !integral || v < math.MinInt8 || v > math.MaxInt8 {
			return nil, bad
		}
		return append(b, 0xd0, byte(int8(v))), nil
	case "i16":
		if !integral || v < math.MinInt16 || v > math.MaxInt16 {
			return nil, bad
		}
		return binary.BigEndian.AppendUint16(append(b, 0xd1), uint16(int16(v))), nil
	case "i32":
		if !integral || v < math.MinInt32 || v > math.MaxInt32 {
			return nil, bad
		}
		return binary.BigEndian.AppendUint32(append(b, 0xd2), uint32(int32(v))), nil
	case "i64":
		if !integral {
			return nil, bad
		}
		return binary.BigEndian.AppendUint64(append(b, 0xd3), uint64(v)), nil
	case "u8":
		if !integral || v < 0 || v > math.MaxUint8 {
			return nil, bad
		}
		return append(b, 0xcc, byte(v)), nil
	case "u16":
		if !integral || v < 0 || v > math.MaxUint16 {
			return nil, bad
		}
		return binary.BigEndian.AppendUint16(append(b, 0xcd), uint16(v)), nil
	case "u32":
		if !integral || v < 0 || v > math.MaxUint32 {
			return nil, bad
		}
		return binary.BigEndian.AppendUint32(append(b, 0xce), uint32(v)), nil
	case "u64":
		if !integral || v < 0 {
			return nil, bad
		}
		return binary.BigEndian.AppendUint64(append(b, 0xcf), uint64(v)), nil
	case "f32":
		f := float32(c09Float(n))
		if float64(f) != c09Float(n) {
			return nil, bad
		}
		return binary.BigEndian.AppendUint32(append(b, 0xca), math.Float32bits(f)), nil
	case "f64":
		return binary.BigEndian.AppendUint64(append(b, 0xcb), math.Float64bits(c09Float(n))), nil
	}
	return nil, fmt.Errorf("unknown msgpack wire type %q", w)
}

// c09MpDoc appends the document (JSON text) in msgpack, element by element in
// the order of the text: objects as fixmap, arrays as fixarray, strings, small
// integers as fixint, true / false / null.
func c09MpDoc(b []byte, doc string) ([]byte, error) {
	dec := json.NewDecoder(strings.NewReader(doc))
	dec.UseNumber()
	b, err := c09MpDocValue(b, dec)
	if err != nil {
		return nil, fmt.Errorf("document %s: %w", doc, err)
	}
	if dec.More() {
		return nil, fmt.Errorf("document %s: trailing text", doc)
	}
	return b, nil
}

func c09MpDocValue(b []byte, dec *json.Decoder) ([]byte, error) {
	tok, err := dec.Token()
	if err != nil {
		return nil, err
	}
	switch t := tok.(type) {
	case json.Delim:
		if t != '{' && t != '[' {
			return nil, fmt.Errorf("unexpected %v", t)
		}
		var body []byte
		n := 0
		for dec.More() {
			if t == '{' {
				kt, err := dec.Token()
				if err != nil {
					return nil, err
				}
				k, ok := kt.(string)
				if !ok {
					return nil, fmt.Errorf("object key %v", kt)
				}
				body = c09MpStr(body, k)
			}
			if body, err = c09MpDocValue(body, dec); err != nil {
				return nil, err
			}
			n++
		}
		if _, err := dec.Token(); err != nil { // the closing delimiter
			return nil, err
		}
		if n > 15 {
			return nil, fmt.Errorf("%d elements do not fit a fixmap / fixarray", n)
		}
		if t == '{' {
			b = append(b, 0x80|byte(n))
		} else {
			b = append(b, 0x90|byte(n))
		}
		return append(b, body...), nil
	case string:
		return c09MpStr(b, t), nil
	case json.Number:
		i, err := strconv.Atoi(t.String())
		if err != nil {
			return nil, fmt.Errorf("inner number %s is not a small integer", t)
		}
		return c09MpNumber(b, i*10, "fix")
	case bool:
		if t {
			return append(b, 0xc3), nil
		}
		return append(b, 0xc2), nil
	case nil:
		return append(b, 0xc0), nil
	}
	return nil, fmt.Errorf("unexpected token %v", tok)
}

// c09Wire is one field of a span as it is written: name, abstract value, wire type of a number.
type c09Wire struct {
	name string
	val  c09Val
	w    string
}

// c09Fields: the fields every path carries for span i (1-based) of the trace.
// trace.trace_id / trace.parent_id are the reserved identity fields (in OTLP
// they are the span's trace_id / parent_span_id).
func c09Fields(t c09Trace, i int, se c09SpanEnc) []c09Wire {
	sp := t.Spans[i-1]
	out := []c09Wire{{name: "name", val: c09Val{K: "s", S: fmt.Sprintf("span%d", i)}}}
	if sp.F.K != "abs" {
		out = append(out, c09Wire{"f", sp.F, se.Wf})
	}
	out = append(out, c09Wire{name: "filler", val: c09Val{K: "s", S: "x"}})
	if sp.G.K != "abs" {
		out = append(out, c09Wire{"g", sp.G, se.Wg})
	}
	return out
}

func c09JSONObject(t c09Trace, i int, se c09SpanEnc) (string, error) {
	var b strings.Builder
	fmt.Fprintf(&b, "{%q:%q", "trace.trace_id", c09TraceHex())
	if t.Root != i {
		fmt.Fprintf(&b, ",%q:%q", "trace.parent_id", "c09parent")
	}
	for _, f := range c09Fields(t, i, se) {
		fmt.Fprintf(&b, ",%q:", f.name)
		switch f.val.K {
		case "s":
			fmt.Fprintf(&b, "%q", f.val.S)
		case "b":
			fmt.Fprintf(&b, "%v", f.val.N == 1)
		case "n":
			lit, err := c09JSONNumber(f.val.N, f.w)
			if err != nil {
				return "", err
			}
			b.WriteString(lit)
		case "nil":
			b.WriteString("null")
		case "c":
			doc, err := c09Doc(f.val)
			if err != nil {
				return "", err
			}
			b.WriteString(doc)
		default:
			return "", fmt.Errorf("value %+v has no JSON form", f.val)
		}
	}
	b.WriteString("}")
	return b.String(), nil
}

func c09MpObject(t c09Trace, i int, se c09SpanEnc) ([]byte, error) {
	fs := c09Fields(t, i, se)
	n := len(fs) + 1
	if t.Root != i {
		n++
	}
	b := []byte{0x80 | byte(n)}
	b = c09MpStr(b, "trace.trace_id")
	b = c09MpStr(b, c09TraceHex())
	if t.Root != i {
		b = c09MpStr(b, "trace.parent_id")
		b = c09MpStr(b, "c09parent")
	}
	for _, f := range fs {
		b = c09MpStr(b, f.name)
		switch f.val.K {
		case "s":
			b = c09MpStr(b, f.val.S)
		case "b":
			if f.val.N == 1 {
				b = append(b, 0xc3)
			} else {
				b = append(b, 0xc2)
			}
		case "n":
			var err error
			if b, err = c09MpNumber(b, f.val.N, f.w); err != nil {
				return nil, err
			}
		case "nil":
			b = append(b, 0xc0)
		case "c":
			doc, err := c09Doc(f.val)
			if err != nil {
				return nil, err
			}
			if b, err = c09MpDoc(b, doc); err != nil {
				return nil, err
			}
		default:
			return nil, fmt.Errorf("value %+v has no msgpack form", f.val)
		}
	}
	return b, nil
}

func c09OTLPBody(t c09Trace, i int, se c09SpanEnc) ([]byte, error) {
	sp := &tracepb.Span{
		TraceId:           c09TraceBytes,
		SpanId:            []byte{0xc0, 0x9b, 0, 0, 0, 0, 0, byte(i)},
		Kind:              tracepb.Span_SPAN_KIND_INTERNAL,
		StartTimeUnixNano: 1700000000000000000,
		EndTimeUnixNano:   1700000000001000000,
	}
	if t.Root != i {
		sp.ParentSpanId = []byte{0xc0, 0x9c, 0, 0, 0, 0, 0, 1}
	}
	for _, f := range c09Fields(t, i, se) {
		if f.name == "name" {
			sp.Name = f.val.S
			continue
		}
		av := &commonpb.AnyValue{}
		switch f.val.K {
		case "s":
			av.Value = &commonpb.AnyValue_StringValue{StringValue: f.val.S}
		case "b":
			av.Value = &commonpb.AnyValue_BoolValue{BoolValue: f.val.N == 1}
		case "n":
			switch f.w {
			case "oint":
				if f.val.N%10 != 0 {
					return nil, fmt.Errorf("number %d/10 is not an OTLP int_value", f.val.N)
				}
				av.Value = &commonpb.AnyValue_IntValue{IntValue: int64(f.val.N / 10)}
			case "odbl":
				av.Value = &commonpb.AnyValue_DoubleValue{DoubleValue: c09Float(f.val.N)}
			default:
				return nil, fmt.Errorf("unknown OTLP wire type %q", f.w)
			}
		default:
			// nil and documents: Encoding!Carries excludes OTLP (husky would deliver other fields / a string)
			return nil, fmt.Errorf("value %+v has no OTLP form", f.val)
		}
		sp.Attributes = append(sp.Attributes, &commonpb.KeyValue{Key: f.name, Value: av})
	}
	req := &collectortrace.ExportTraceServiceRequest{ResourceSpans: []*tracepb.ResourceSpans{{
		Resource:   &resourcepb.Resource{},
		ScopeSpans: []*tracepb.ScopeSpans{{Spans: []*tracepb.Span{sp}}},
	}}}
	return proto.Marshal(req)
}

// c09Request builds the HTTP request a client would send for span i.
func c09Request(t c09Trace, i int, se c09SpanEnc, dataset string) (*http.Request, error) {
	var path, ctype string
	var body []byte
	switch se.Base {
	case "jsonEvent":
		o, err := c09JSONObject(t, i, se)
		if err != nil {
			return nil, err
		}
		path, ctype, body = "/1/events/"+dataset, "application/json", []byte(o)
	case "jsonBatch":
		o, err := c09JSONObject(t, i, se)
		if err != nil {
			return nil, err
		}
		path, ctype = "/1/batch/"+dataset, "application/json"
		body = []byte(`[{"time":"2023-11-14T22:13:20Z","samplerate":1,"data":` + o + `}]`)
	case "mpEvent":
		o, err := c09MpObject(t, i, se)
		if err != nil {
			return nil, err
		}
		path, ctype, body = "/1/events/"+dataset, "application/msgpack", o
	case "mpBatch":
		o, err := c09MpObject(t, i, se)
		if err != nil {
			return nil, err
		}
		path, ctype = "/1/batch/"+dataset, "application/msgpack"
		body = append(c09MpStr([]byte{0x91, 0x81}, "data"), o...) // [ {"data": {...}} ]
	case "otlp":
		o, err := c09OTLPBody(t, i, se)
		if err != nil {
			return nil, err
		}
		path, ctype, body = "/v1/traces", "application/protobuf", o
	default:
		return nil, fmt.Errorf("unknown ingestion path %q", se.Base)
	}
	req := httptest.NewRequest(http.MethodPost, path, bytes.NewReader(body))
	req.Header.Set("Content-Type", ctype)
	req.Header.Set(types.APIKeyHeader, c09Key)
	req.Header.Set(types.DatasetHeader, dataset)
	return req, nil
}

// c09Send pushes span i through its path and returns the span the (final)
// router handed to its collector.
func (e *c09Env) c09Send(t c09Trace, i int, se c09SpanEnc, dataset string) (*types.Span, error) {
	req, err := c09Request(t, i, se, dataset)
	if err != nil {
		return nil, err
	}
	router, col := e.local, e.localCol
	if se.Fwd {
		router, col = e.fwd, e.fwdCol
	}
	rec := httptest.NewRecorder()
	router.server.Handler.ServeHTTP(rec, req)
	if rec.Code/100 != 2 {
		return nil, fmt.Errorf("%s request for span %d refused: %d %s", se.Base, i, rec.Code, strings.TrimSpace(rec.Body.String()))
	}
	if strings.HasSuffix(se.Base, "Batch") && !strings.Contains(rec.Body.String(), `"status":202`) {
		return nil, fmt.Errorf("%s request for span %d: event not accepted: %s", se.Base, i, strings.TrimSpace(rec.Body.String()))
	}
	if !se.Fwd {
		select {
		case sp := <-col.spans:
			return sp, nil
		default:
			return nil, fmt.Errorf("%s: span %d was not handed to the collector", se.Base, i)
		}
	}
	select {
	case <-col.spans:
		return nil, fmt.Errorf("%s: span %d was collected by the forwarding node", se.Base, i)
	default:
	}
	select {
	case sp := <-e.peerCol.spans:
		return sp, nil
	case <-time.After(c09Guard):
		return nil, fmt.Errorf("%s: forwarded span %d never reached the peer's collector", se.Base, i)
	}
}

// --- the decision ---------------------------------------------------------------------

type c09Outcome struct {
	Rate   uint     `json:"rate"`
	Keep   string   `json:"keep"` // "true" | "false" | "random" (rate > 1: a coin, not compared)
	Reason string   `json:"reason"`
	Key    string   `json:"key"`
	Seen   []string `json:"seen,omitempty"` // diagnostics only: Go types the sampler was given ("-": the payload says the field is not there), in arrival order
	Panic  string   `json:"panic,omitempty"`
}

func (o c09Outcome) same(p c09Outcome) bool {
	return o.Rate == p.Rate && o.Keep == p.Keep && o.Reason == p.Reason && o.Key == p.Key && o.Panic == p.Panic
}

func (e *c09Env) sampler(dataset string) (sample.Sampler, error) {
	if s, ok := e.samplers[dataset]; ok {
		return s, nil
	}
	s := e.factory.GetSamplerImplementationForKey(dataset)
	if s == nil {
		return nil, fmt.Errorf("sampler factory returned nil for %s", dataset)
	}
	if _, isDet := s.(*sample.DeterministicSampler); isDet {
		return nil, fmt.Errorf("dataset %s resolved to the default sampler", dataset)
	}
	e.samplers[dataset] = s
	return s, nil
}

// evaluate ingests the trace under the encoding and asks the sampler.
func (e *c09Env) evaluate(v c09Vec, dataset string, enc c09Enc) (out c09Outcome, err error) {
	if len(enc.Perm) != len(v.Trace.Spans) || len(enc.Se) != len(v.Trace.Spans) {
		return out, fmt.Errorf("encoding %+v does not fit a trace of %d spans", enc, len(v.Trace.Spans))
	}
	var spans []*types.Span
	for _, i := range enc.Perm {
		sp, err := e.c09Send(v.Trace, i, enc.Se[i-1], dataset)
		if err != nil {
			return out, err
		}
		spans = append(spans, sp)
	}
	// as collect.CollectorWorker.processSpan / makeDecision
	tr := &types.Trace{APIKey: c09Key, Dataset: dataset, TraceID: spans[0].TraceID}
	for _, sp := range spans {
		tr.AddSpan(sp)
		if sp.IsRoot {
			tr.RootSpan = sp
		}
	}
	s, err := e.sampler(dataset)
	if err != nil {
		return out, err
	}
	all, nonRoot := s.GetKeyFields()
	for _, sp := range tr.GetSpans() {
		if sp.IsRoot {
			sp.Data.MemoizeFields(all...)
		} else {
			sp.Data.MemoizeFields(nonRoot...)
		}
	}
	for _, sp := range spans {
		ty := func(n string) string {
			if !sp.Data.Exists(n) {
				return "-"
			}
			return fmt.Sprintf("%T", sp.Data.Get(n))
		}
		out.Seen = append(out.Seen, fmt.Sprintf("f:%s g:%s root:%v", ty("f"), ty("g"), sp.IsRoot))
	}
	defer func() {
		if r := recover(); r != nil {
			out.Panic = fmt.Sprint(r)
		}
	}()
	rate, keep, reason, key := s.GetSampleRate(tr)
	out.Rate, out.Reason, out.Key = rate, reason, key
	switch {
	case rate > 1:
		out.Keep = "random"
	default:
		out.Keep = strconv.FormatBool(keep)
	}
	return out, nil
}

// --- driver -----------------------------------------------------------------------------

type c09GraphFile struct {
	Module string `json:"module"`
	Params struct {
		Vecs []json.RawMessage `json:"vecs"` // Encoding!VecSeq: the states carry only the index vid
		Docs map[string]string `json:"docs"` // Encoding!Docs
	} `json:"params"`
	States []json.RawMessage `json:"states"`
	Abs    []json.RawMessage `json:"abs"`
	Init   []int             `json:"init"`
	Edges  []struct {
		F int            `json:"f"`
		T int            `json:"t"`
		A map[string]any `json:"a"`
	} `json:"edges"`
}

func c09Label(a map[string]any) (map[string]any, string, string) {
	lab := map[string]any{}
	for k, v := range a {
		if k != "dev" {
			lab[k] = v
		}
	}
	dev, _ := a["dev"].(string)
	return lab, verifkit.Canon(lab), dev
}

// c09VecOf resolves the vector of a graph state (its vid) and returns it typed,
// and the state as generic JSON with the vector spelled out under "vec" (what
// divergences and replay files show).
func (g *c09GraphFile) c09VecOf(raw json.RawMessage) (c09Vec, map[string]any, error) {
	var st struct {
		Vid int `json:"vid"`
	}
	if err := json.Unmarshal(raw, &st); err != nil {
		return c09Vec{}, nil, err
	}
	if st.Vid < 1 || st.Vid > len(g.Params.Vecs) {
		return c09Vec{}, nil, fmt.Errorf("state %s: vid outside params.vecs (%d vectors)", raw, len(g.Params.Vecs))
	}
	var v c09Vec
	if err := json.Unmarshal(g.Params.Vecs[st.Vid-1], &v); err != nil {
		return c09Vec{}, nil, err
	}
	var generic map[string]any
	if err := json.Unmarshal(raw, &generic); err != nil {
		return c09Vec{}, nil, err
	}
	var vecAny any
	if err := json.Unmarshal(g.Params.Vecs[st.Vid-1], &vecAny); err != nil {
		return c09Vec{}, nil, err
	}
	generic["vec"] = vecAny
	return v, generic, nil
}

func c09CfgKey(generic map[string]any) string {
	vec, _ := generic["vec"].(map[string]any)
	return verifkit.Canon(vec["cfg"])
}

// c09Drive replays the one-step graph of Encoding.tla: per initial state (a
// vector) the reference outcome is computed once, then every out-edge (one
// encoding each) is executed and accepted with verifkit.Walk's rule: the
// observed projection must equal a successor the specification allows under
// the same action label; a deviation edge counts only when no ideal edge
// explains the step.
func c09Drive(t *testing.T) error {
	start := time.Now()
	raw, err := os.ReadFile(os.Getenv("VERIF_GRAPH"))
	if err != nil {
		return err
	}
	g := &c09GraphFile{}
	if err := json.Unmarshal(raw, g); err != nil {
		return err
	}
	if len(g.Abs) != len(g.States) {
		return fmt.Errorf("graph without projections")
	}
	c09Docs = g.Params.Docs
	isInit := make([]bool, len(g.States))
	for _, s := range g.Init {
		isInit[s] = true
	}
	outEdges := make([][]int, len(g.States))
	for i, ed := range g.Edges {
		if !isInit[ed.F] || isInit[ed.T] {
			return fmt.Errorf("Encoding graph is not one-step (edge %d)", i)
		}
		outEdges[ed.F] = append(outEdges[ed.F], i)
	}
	// every configuration of the graph goes into ONE rules file
	cfgs := map[string]c09Cfg{}
	for _, s := range g.Init {
		v, generic, err := g.c09VecOf(g.States[s])
		if err != nil {
			return err
		}
		cfgs[c09CfgKey(generic)] = v.Cfg
	}
	env, err := c09NewEnv(t.TempDir(), cfgs)
	if err != nil {
		return err
	}
	defer env.close()

	seed, _ := strconv.ParseInt(os.Getenv("VERIF_SEED"), 10, 64)
	budget, _ := strconv.ParseFloat(os.Getenv("VERIF_BUDGET_S"), 64)
	if budget == 0 {
		budget = 60
	}
	deadline := start.Add(time.Duration(budget * float64(time.Second)))
	res := &verifkit.Result{Module: g.Module, Seed: seed, States: len(g.States), Edges: len(g.Edges), DevCounts: map[string]int{},
		Divergences: []verifkit.Divergence{}, DevHits: []verifkit.DevHit{}, Samples: [][]verifkit.Step{}}
	for _, s := range g.Init {
		seen := map[string]bool{}
		for _, ei := range outEdges[s] {
			if _, l, _ := c09Label(g.Edges[ei].A); !seen[l] {
				seen[l] = true
				res.Groups++
			}
		}
	}
	order := append([]int(nil), g.Init...)
	rng := rand.New(rand.NewSource(seed))
	rng.Shuffle(len(order), func(i, j int) { order[i], order[j] = order[j], order[i] })

	onlyLabel := ""
	if replay := os.Getenv("VERIF_REPLAY"); replay != "" {
		rawr, err := os.ReadFile(replay)
		if err != nil {
			return err
		}
		var rf verifkit.ReplayFile
		if err := json.Unmarshal(rawr, &rf); err != nil {
			return err
		}
		want := verifkit.Canon(rf.Init["vec"]) // the vector itself: ids may shift when the specification changes
		order = nil
		for _, s := range g.Init {
			_, st, err := g.c09VecOf(g.States[s])
			if err != nil {
				return err
			}
			if verifkit.Canon(st["vec"]) == want {
				order = []int{s}
				break
			}
		}
		if order == nil {
			res.Note = "replay init state not in graph"
		}
		if len(rf.Actions) > 0 {
			_, onlyLabel, _ = c09Label(rf.Actions[0])
		}
		deadline = start.Add(24 * time.Hour)
	}

	canonOf := func(raw json.RawMessage) (any, string, error) {
		var v any
		if err := json.Unmarshal(raw, &v); err != nil {
			return nil, "", err
		}
		return v, verifkit.Canon(v), nil
	}
	fail := func(init map[string]any, act map[string]any, err error) {
		res.Divergences = append(res.Divergences, verifkit.Divergence{Kind: "error", Init: init, Prefix: []verifkit.Step{}, Act: act, Err: err.Error()})
	}

vectors:
	for _, s := range order {
		if len(res.Divergences) >= 5 {
			break
		}
		if time.Now().After(deadline) {
			res.TimedOut = true
			break
		}
		vec, init, err := g.c09VecOf(g.States[s])
		if err != nil {
			return err
		}
		absS, _, err := canonOf(g.Abs[s])
		if err != nil {
			return err
		}
		dataset, ok := env.dataset[c09CfgKey(init)]
		if !ok {
			return fmt.Errorf("configuration of state %d not loaded", s)
		}
		ref, err := env.evaluate(vec, dataset, c09RefEnc(vec.Trace))
		if err != nil {
			fail(init, map[string]any{"name": "Reference"}, err)
			continue
		}
		res.Walks++
		type grp struct {
			act   map[string]any
			edges []int
		}
		groups := map[string]*grp{}
		var labels []string
		for _, ei := range outEdges[s] {
			lab, l, _ := c09Label(g.Edges[ei].A)
			if groups[l] == nil {
				groups[l] = &grp{act: lab}
				labels = append(labels, l)
			}
			groups[l].edges = append(groups[l].edges, ei)
		}
		sort.Strings(labels)
		for _, l := range labels {
			if onlyLabel != "" && l != onlyLabel {
				continue
			}
			if time.Now().After(deadline) {
				res.TimedOut = true
				break vectors
			}
			gr := groups[l]
			var enc c09Enc
			encRaw, _ := json.Marshal(gr.act["enc"])
			if err := json.Unmarshal(encRaw, &enc); err != nil {
				return err
			}
			got, err := env.evaluate(vec, dataset, enc)
			res.Steps++
			res.GroupsCovered++
			if err != nil {
				fail(init, gr.act, err)
				continue vectors
			}
			r := "agree"
			if !got.same(ref) {
				r = "differ"
			}
			obs := map[string]any{"res": r}
			oc := verifkit.Canon(obs)
			detail := map[string]any{"res": r, "reference": ref, "observed": got}
			var allowed []any
			ideal, devEdge := -1, -1
			for _, ei := range gr.edges {
				ed := g.Edges[ei]
				absT, canonT, cerr := canonOf(g.Abs[ed.T])
				if cerr != nil {
					return cerr
				}
				allowed = append(allowed, absT)
				if canonT == oc {
					if _, _, dev := c09Label(ed.A); dev == "" {
						ideal = ei
					} else {
						devEdge = ei
					}
				}
			}
			switch {
			case ideal >= 0:
				res.EdgesCovered++
				if len(res.Samples) < 3 {
					res.Samples = append(res.Samples, []verifkit.Step{{Act: gr.act, Observed: detail}})
				}
			case devEdge >= 0:
				res.EdgesCovered++
				_, _, dev := c09Label(g.Edges[devEdge].A)
				res.DevCounts[dev]++
				n := 0
				for _, h := range res.DevHits {
					if h.Dev == dev {
						n++
					}
				}
				if n < 2 {
					res.DevHits = append(res.DevHits, verifkit.DevHit{Dev: dev, Init: init, Prefix: []verifkit.Step{}, Act: gr.act, State: absS, Obs: detail})
				}
			default:
				res.Divergences = append(res.Divergences, verifkit.Divergence{Kind: "mismatch", Init: init, Prefix: []verifkit.Step{}, State: absS,
					Act: gr.act, Allowed: allowed, Observed: detail, Diff: []string{"res"}})
				if len(res.Divergences) >= 5 {
					break vectors
				}
			}
		}
	}
	res.WallS = time.Since(start).Seconds()
	if res.Note == "" {
		res.Note = "one-step graph replayed by the driver of harness/route/c09_encoding_test.go (reference outcome once per vector)"
	}
	rawOut, err := json.Marshal(res)
	if err != nil {
		return err
	}
	return os.WriteFile(os.Getenv("VERIF_OUT"), rawOut, 0o644)
}

func TestVerifC09Encoding(t *testing.T) {
	if err := c09Drive(t); err != nil {
		t.Fatal(err)
	}
}
