SPECIFICATION Spec
CONSTANTS
  Mode = "single"
  Big = FALSE
  PairScopes = {}
  Faithful = TRUE
INVARIANTS TypeOK FirstMatch Decision AbsentNeverMatches SpanImpliesTrace DevOnlyOnAbsent
ACTION_CONSTRAINT Dump
VIEW View
CHECK_DEADLOCK FALSE
