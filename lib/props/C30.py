"""C30 Liveness and readiness follow subsystem reports within one tick."""

PROP = dict(
    level="model_checking",
    technique="TLA+ spec Health.tla (code state of internal/health.Health + ghost report history) model-checked by TLC; every generated transition replayed into a real started Health (real ticker goroutine, clockwork fake clock, deterministic tick barrier) and IsAlive/IsReady compared (spec->code transition tour)",
    design_ref="DESIGN.md §5 C30",
    level_text="TLC explores every order of Register/Unregister/Ready(true|false)/clock advance/tick processing for 2 subsystems on a 250 ms (quick) or 100 ms (thorough) time grid with timeouts that are not multiples of the 500 ms tick (750/1250 ms; 600/1200 ms; the pure TLC stage also 300/1000/1700 ms), including calls racing with the tick at a tick boundary, and checks on the model that the answers the code computes satisfy C30: alive whenever every registered subsystem was heard from less than timeout-tick ago, dead whenever one that reported has been silent for more than timeout+tick and until it reports again, ready only if something is registered, every registered subsystem reported ready and nothing is unregistered (re-registration counts as registered). Each generated transition is then executed on the real Health and IsAlive()/IsReady() must equal the model's answers.",
    level_note="The walk first demands the exact answers of the code model (alternative 'exact'); only if the code departs from it is it compared with the alternative 'loose', in which IsAlive/IsReady may be anything the C30 statement allows (+-1 tick slack; readiness open while a subsystem is dead) - VIOLATION only if neither fits. Readings: an unreported subsystem must not be reported dead within timeout-tick of its registration; ready must be TRUE when all the listed conditions hold and every subsystem is punctual. Exhaustive only within the bound (2 subsystems, the listed timeouts, saturating silence counters); /alive and /ready HTTP/gRPC endpoints of route.go are not driven (they call the same Reporter methods); the barrier relies on Health.ticker re-evaluating tick.Chan() per loop iteration (otherwise the check reports cannot-decide, not a violation); clockwork's fake ticker is trusted.",
    assumptions=["clockwork.FakeClock/fake ticker is faithful", "bounded: 2 subsystems, timeouts from a small set, time on a 100/250 ms grid",
                 "a tick is processed by the ticker goroutine before the clock moves on (calls at the same instant may come before or after it)"],
    stages=[dict(kind="walk", module="Health", pkg="internal/health", test="TestVerifC30Health", harness=["internal/health/c30_health_test.go"],
                 alternatives=[dict(name="exact", cfg={"quick": "MC_Health_exact.cfg", "thorough": "MC_Health_exact_big.cfg"}),
                               dict(name="loose", cfg={"quick": "MC_Health_loose.cfg", "thorough": "MC_Health_loose_big.cfg"})],
                 budget={"quick": 40, "thorough": 240}),
            dict(kind="tlc", name="HealthMC", module="Health", cfg={"quick": None, "thorough": "MC_Health_mc.cfg"}, workers=8)],
)
