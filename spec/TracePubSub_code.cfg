SPECIFICATION TraceSpec
CONSTANTS
  Topics = {"a", "b"}
  Subs = {"s1", "s2", "s3", "s4"}
  Pubs = {"p1", "p2", "p3"}
  MaxPub = 1000000
  MaxStops = 1000000
  Hows = {"Close", "Stop"}
  Step = TRUE
  Faithful = TRUE
  Revive = TRUE
  Metrics = FALSE
  ParkPlain = TRUE
  Watcher = FALSE
  CwModes = {}
  MaxNow = 0
CONSTRAINT HWM
VIEW TraceView
POSTCONDITION TraceAccepted
CHECK_DEADLOCK FALSE
