SPECIFICATION Spec
CONSTANTS
  T1 = "trace.trace_id"
  T2 = "traceId"
  P1 = "trace.parent_id"
  P2 = "parentId"
  IdConfigs <- IdConfigsQuick
  RuleSets <- RuleSetsQuick
  Events <- EventsQuick
  Paths = {"event-json", "batch-json", "batch-msgp", "otlp-http", "otlp-grpc", "peer-batch"}
  FixedT1 = {"otlp-http", "otlp-httpjson", "otlp-grpc"}
  LogPaths = {"otlp-logs"}
  MaxDrive = 2
  Both = TRUE
  Refresh = "always"
CHECK_DEADLOCK FALSE
INVARIANTS TypeOK C21LiveBelongs C21LiveConfiguredOrder C21LiveRoot C21LiveHistoryFree ViewOK
ACTION_CONSTRAINT Dump
VIEW View
