----------------------------- MODULE WireFields -----------------------------
(***************************************************************************)
(* Property C20, second half: what the DECISION PIPELINE does to an event  *)
(* between ingest and transmission.  Payload.tla models types.Payload as   *)
(* an object; this module models the fields ON THE WIRE of every span of   *)
(* one trace while it travels                                              *)
(*                                                                         *)
(*   ingest -> InMemCollector buffer -> makeDecision (MemoizeFields of the *)
(*   sampler's key fields, then the sampler's reads: Exists / Get on the   *)
(*   span and on the root span, the nested-path lookup of the rules        *)
(*   sampler = a JSON rendering of the whole payload, the key building of  *)
(*   the dynamic samplers) -> send / sendTraces (the documented            *)
(*   decorations) -> Transmission.EnqueueSpan,                             *)
(*                                                                         *)
(* and late spans (dealWithSentTrace).  The promise: at every moment a     *)
(* span could be marshalled, the non-meta names it would carry are exactly *)
(* the client's, and the sampler's reads change nothing at all.            *)
(*                                                                         *)
(* State per span s:                                                       *)
(*   client[s]   names the client sent at top level (fixed)                *)
(*   data[s]     names held in the serialized msgpData (derived from path) *)
(*   memo[s]     payload.memoizedFields (names); missing[s] missingFields  *)
(*   meta[s]     documented additions made so far (meta.* names and the    *)
(*               configured additional attributes)                         *)
(*   stage[s]    "new" | "buf" | "sent" | "dropped"                        *)
(* The wire content is DERIVED the way Payload.MarshalMsg derives it:      *)
(*   Wire(s) = Base \cup meta[s] \cup memo[s] \cup data[s]                 *)
(* so a read that leaves something behind in memo (a "lookup cache") shows *)
(* up on the wire, which is exactly the class of defect to exclude.        *)
(*                                                                         *)
(* Names: ClientNames are top-level names a client may send; PathNames are *)
(* names a rule condition / sampler key field may use that can ALSO (or    *)
(* only) resolve as a path into a nested client value (Under[p] = the top- *)
(* level name that holds it).  "http.response.status" is in both: a client *)
(* may send it literally, or as http: {response: {status: ..}}.            *)
(*                                                                         *)
(* The sampler is a record [id, all, nonroot, nested, paths]:              *)
(*   all / nonroot  what Sampler.GetKeyFields() returns (root.-prefixed    *)
(*                  names stripped into all only)                          *)
(*   nested         CheckNestedFields                                      *)
(*   paths          the names its conditions look up                       *)
(* The verdict (keep / drop) and whether the sampler reports a sample key  *)
(* are the environment's choice here (C08-C13 decide them); the harness    *)
(* observes both.                                                          *)
(*                                                                         *)
(* CacheNested = TRUE turns on a code model in which the nested lookup     *)
(* memoizes what it resolved (span.Data.Set(path, value)); it exists only  *)
(* to show that the invariants bite (MC_WireFields_cex.cfg, run with       *)
(* MCWireFieldsQ, must FAIL on C20ExactlyClient; no stage uses it).        *)
(*                                                                         *)
(* Values are not in the model: the harness reports a client name only if  *)
(* the forwarded value is exactly the client's (type family and bits) and  *)
(* anything else under a tag (ALTERED:/LOST:/DUP:/FOREIGN:) that is in no  *)
(* state of this specification.                                            *)
(***************************************************************************)
EXTENDS Integers, FiniteSets, Sequences, TLC, Json

CONSTANTS Spans,        \* span ids (strings)
          Root,         \* the span with IsRoot
          ClientNames,  \* top-level names a client may send
          PathNames,    \* names that may resolve as nested paths
          Under,        \* PathNames -> ClientNames: the holder of the path
          Shapes,       \* Spans -> set of client field sets to enumerate
          Samplers,     \* set of sampler records
          Profiles,     \* set of configuration records
          IngestPaths,  \* subset of {"msgp", "umsg", "map"}
          Crate,        \* Spans -> client sample rate (0 = none sent)
          Variants,     \* value-pool variants (harness only)
          DecideHows,   \* what makes the worker decide: "timer" (SendDelay / TraceTimeout expiry), "eject" (memory pressure)
          CacheNested

VARIABLES sampler, cfg, path, vs, client,          \* inputs, fixed after Init
          stage, memo, missing, meta, decision, sent, act

vars == <<sampler, cfg, path, vs, client, stage, memo, missing, meta, decision, sent, act>>

Names == ClientNames \cup PathNames

\* what an ingested event carries before anybody adds anything: the trace id
\* the router extracted and the root marker (Payload metadata, always marshalled)
Base == {"meta.trace_id", "meta.refinery.root"}

CountNames == {"meta.span_count", "meta.event_count"}   \* span-event / link counts are 0 here and a zero count is not marshalled
ReasonNames == {"meta.refinery.reason", "meta.refinery.send_reason"}
MetaNames == Base \cup CountNames \cup ReasonNames \cup
             {"meta.refinery.sample_key", "meta.refinery.dryrun.kept", "meta.refinery.local_hostname",
              "meta.refinery.original_sample_rate", "meta.refinery.final_sample_rate", "meta.dryrun.sample_rate"}
AttrNames == UNION {p.attrs : p \in Profiles}

\* names held in the serialized form (JSON events arrive as a Go map: everything is memoized)
Data(s) == IF path = "map" THEN {} ELSE client[s]

\* Payload.MarshalMsg: metadata fields, memoized fields, then the serialized fields not memoized
Wire(s) == IF stage[s] \in {"new", "dropped"} THEN {}
           ELSE Base \cup meta[s] \cup memo[s] \cup Data(s)

WireKey(s) == s \o "Set"
Abs == [stage |-> stage, decision |-> decision,
        wire |-> [k \in {WireKey(s) : s \in Spans} |-> Wire(CHOOSE s \in Spans : WireKey(s) = k)]]

Init == /\ sampler \in Samplers
        /\ cfg \in Profiles
        /\ path \in IngestPaths
        /\ vs \in Variants
        /\ client \in {f \in [Spans -> UNION {Shapes[s] : s \in Spans}] : \A s \in Spans : f[s] \in Shapes[s]}
        /\ stage = [s \in Spans |-> "new"]
        /\ memo = [s \in Spans |-> {}]
        /\ missing = [s \in Spans |-> {}]
        /\ meta = [s \in Spans |-> {}]
        /\ decision = "none"
        /\ sent = FALSE
        /\ act = [name |-> "Init"]

Fixed == UNCHANGED <<sampler, cfg, path, vs, client>>

\* ---- ingest: the router builds the payload, the collector buffers the span ----
\* "msgp": CoreFieldsUnmarshaler.UnmarshalMsgpFirstEvent memoizes the destination sampler's key
\*         fields (root.-stripped and plain alike, on every span) and notes the absent ones
\* "umsg": Payload.UnmarshalMsgpack (nothing memoized);  "map": NewPayload(map) (all memoized)
Ingest(s) ==
  /\ stage[s] = "new" /\ decision = "none"
  /\ stage' = [stage EXCEPT ![s] = "buf"]
  /\ memo' = [memo EXCEPT ![s] = CASE path = "map" -> client[s]
                                   [] path = "msgp" -> sampler.all \cap client[s]
                                   [] OTHER -> {}]
  /\ missing' = [missing EXCEPT ![s] = IF path = "msgp" THEN sampler.all \ client[s] ELSE {}]
  /\ act' = [name |-> "Ingest", s |-> s]
  /\ UNCHANGED <<meta, decision, sent>> /\ Fixed

\* ---- decision: CollectorWorker.makeDecision, reached from sendExpiredTracesInCache (ticker) or sendTracesEarly ----
KeysFor(s) == IF s = Root THEN sampler.all ELSE sampler.nonroot

\* Payload.MemoizeFields(keys): skip what is memoized or known missing, look the rest up in msgpData
MemoAfter(s) == LET find == {k \in KeysFor(s) : k \notin missing[s] /\ k \notin memo[s]}
                IN  memo[s] \cup (find \cap Data(s))
MissingAfter(s) == LET find == {k \in KeysFor(s) : k \notin missing[s] /\ k \notin memo[s]}
                   IN  missing[s] \cup (find \ Data(s))

\* the sampler's reads.  Exists/Get and the key builders only read.  The nested lookup renders the
\* payload as JSON (Payload.All) and resolves the path with gjson: it reads too.  Code model with a
\* lookup cache (CacheNested): the resolved path is Set on the span.
Resolves(s, p) == p \in PathNames /\ p \notin client[s] /\ Under[p] \in client[s]
ReadEffect(s, m) == IF CacheNested /\ sampler.nested
                    THEN m \cup {p \in sampler.paths : Resolves(s, p)}
                    ELSE m

Decide ==
  /\ decision = "none"
  /\ \E s \in Spans : stage[s] = "buf"
  /\ \E keep \in BOOLEAN, how \in DecideHows :
       /\ decision' = IF keep THEN "keep" ELSE "drop"
       /\ act' = [name |-> "Decide", how |-> how]
  /\ memo' = [s \in Spans |-> IF stage[s] = "buf" THEN ReadEffect(s, MemoAfter(s)) ELSE memo[s]]
  /\ missing' = [s \in Spans |-> IF stage[s] = "buf" THEN MissingAfter(s) ELSE missing[s]]
  /\ UNCHANGED <<stage, meta, sent>> /\ Fixed

\* ---- the documented decorations ----
RateNames(s) == (IF Crate[s] # 0 THEN {"meta.refinery.original_sample_rate"} ELSE {})
                \cup (IF cfg.dryRun THEN {"meta.dryrun.sample_rate"} ELSE {"meta.refinery.final_sample_rate"})
RootCounts(s) == IF s # Root THEN {}
                 ELSE IF cfg.addCounts THEN CountNames
                 ELSE IF cfg.addSpanCount THEN {"meta.span_count"} ELSE {}
HostNames == IF cfg.addHost THEN {"meta.refinery.local_hostname"} ELSE {}
DryNames == IF cfg.dryRun THEN {"meta.refinery.dryrun.kept"} ELSE {}

\* InMemCollector.send + sendTraces for a buffered span of a kept (or dry-run) trace
SendMeta(s, haskey) ==
  (IF cfg.addReason THEN ReasonNames \cup (IF haskey THEN {"meta.refinery.sample_key"} ELSE {}) ELSE {})
  \cup RootCounts(s) \cup DryNames \cup HostNames \cup RateNames(s) \cup cfg.attrs

\* InMemCollector.dealWithSentTrace for a span arriving after the decision
LateMeta(s) ==
  (IF cfg.addReason THEN ReasonNames ELSE {}) \cup HostNames \cup DryNames \cup cfg.attrs
  \cup (IF decision = "keep" THEN RateNames(s) \cup RootCounts(s) ELSE {})

Forwarded == decision = "keep" \/ cfg.dryRun

\* additional attributes are Set on the payload: they are memoized fields
Send ==
  /\ decision # "none" /\ ~sent
  /\ sent' = TRUE
  /\ \E haskey \in (IF cfg.addReason THEN BOOLEAN ELSE {FALSE}) :
       meta' = [s \in Spans |-> IF stage[s] = "buf" /\ Forwarded THEN meta[s] \cup SendMeta(s, haskey) ELSE meta[s]]
  /\ stage' = [s \in Spans |-> IF stage[s] = "buf" THEN (IF Forwarded THEN "sent" ELSE "dropped") ELSE stage[s]]
  /\ act' = [name |-> "Send"]
  /\ UNCHANGED <<memo, missing, decision>> /\ Fixed

Late(s) ==
  /\ sent /\ stage[s] = "new"
  /\ stage' = [stage EXCEPT ![s] = IF Forwarded THEN "sent" ELSE "dropped"]
  /\ memo' = [memo EXCEPT ![s] = CASE path = "map" -> client[s]
                                   [] path = "msgp" -> sampler.all \cap client[s]
                                   [] OTHER -> {}]
  /\ missing' = [missing EXCEPT ![s] = IF path = "msgp" THEN sampler.all \ client[s] ELSE {}]
  /\ meta' = [meta EXCEPT ![s] = IF Forwarded THEN LateMeta(s) ELSE {}]
  /\ act' = [name |-> "Late", s |-> s]
  /\ UNCHANGED <<decision, sent>> /\ Fixed

Next == \/ \E s \in Spans : Ingest(s)
        \/ Decide
        \/ Send
        \/ \E s \in Spans : Late(s)

Spec == Init /\ [][Next]_vars

\* ------------------------------- properties -------------------------------
TypeOK == /\ stage \in [Spans -> {"new", "buf", "sent", "dropped"}]
          /\ decision \in {"none", "keep", "drop"}
          /\ \A s \in Spans : /\ memo[s] \subseteq Names \cup AttrNames
                              /\ missing[s] \subseteq Names
                              /\ meta[s] \subseteq MetaNames \cup AttrNames
                              /\ client[s] \subseteq ClientNames

Live(s) == stage[s] \in {"buf", "sent"}

\* C20: whatever is on the wire and is not documented metadata / a configured attribute is a client
\* field, and every client field is there
C20ExactlyClient == \A s \in Spans : Live(s) => Wire(s) \ (MetaNames \cup cfg.attrs) = client[s]
\* a buffered span is still exactly what the client sent
C20BufferedUntouched == \A s \in Spans : stage[s] = "buf" => Wire(s) = Base \cup client[s]
\* only additions the configuration in force documents
Allowed(s) == Base \cup cfg.attrs \cup DryNames \cup HostNames \cup RateNames(s) \cup RootCounts(s)
              \cup (IF cfg.addReason THEN ReasonNames \cup {"meta.refinery.sample_key"} ELSE {})
C20OnlyDocumented == \A s \in Spans : Live(s) => Wire(s) \ client[s] \subseteq Allowed(s)
\* a trace that is dropped outside dry run forwards nothing; anything else forwards everything it buffered
C20Forwarding == sent => \A s \in Spans : stage[s] # "buf" /\ (stage[s] = "sent" => Forwarded) /\ (stage[s] = "dropped" => ~Forwarded)
\* bookkeeping of the payload model
MemoSound == \A s \in Spans : memo[s] \subseteq client[s] \cup cfg.attrs
MissingSound == \A s \in Spans : missing[s] \cap Data(s) = {}

\* the sampler's reads (and its verdict) change nothing on the wire of any span
C20ReadsArePure == [][act'.name = "Decide" => \A s \in Spans : Wire(s)' = Wire(s)]_vars
\* nothing is ever taken off the wire of a live span
C20Monotone == [][\A s \in Spans : (Live(s) /\ Live(s)') => Wire(s) \subseteq Wire(s)']_vars

Hid == [sampler |-> sampler.id, samplerAllSet |-> sampler.all, samplerNonRootSet |-> sampler.nonroot, cfg |-> cfg, path |-> path, vs |-> vs,
        client |-> client, memo |-> memo, missing |-> missing, meta |-> meta, sent |-> sent]
Dump == PrintT(ToJson([fabs |-> Abs, fhid |-> Hid, fa |-> act.name, act |-> act', tabs |-> Abs', thid |-> Hid']))
View == <<sampler, cfg, path, vs, client, stage, memo, missing, meta, decision, sent>>
=============================================================================
