SPECIFICATION FairSpec
CONSTANTS
  Addr <- Addr2
  Gaps <- GapsFixed2
  T = 10
  D = 1
  MaxEvents = 3
  MaxFails = 2
  Extra = "none"
  Backoff = FALSE
  Closed = TRUE
  ObserveCb = TRUE
  TrackQuiet = FALSE
  UnitMs = 1000
  Boot <- NoNodes
  CrashSet <- AllNodes
  StopSet <- AllNodes
  Sync = FALSE
  TrackAge = FALSE
INVARIANTS TypeOK
PROPERTIES EventuallyAgreed HashCatchesUp
