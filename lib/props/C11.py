"""C11 Dynamic sample keys depend only on the trace's distinct field values."""
# thorough-only stages (3 spans)
_DEEP = [dict(kind="walk", name="TraceKeyDeep", module="TraceKey", pkg="sample", test="TestVerifC11TraceKey",
              harness=["sample/c11_tracekey_test.go"],
              cfg={"quick": "MC_TraceKey_deep.cfg", "thorough": "MC_TraceKey_deep.cfg"},
              budget={"quick": 300, "thorough": 300}, maxwalk=4, tiers=("thorough",)),
         dict(kind="walk", name="TraceKeyDeep1", module="TraceKey", pkg="sample", test="TestVerifC11TraceKey",
              harness=["sample/c11_tracekey_test.go"],
              cfg={"quick": "MC_TraceKey_deep1.cfg", "thorough": "MC_TraceKey_deep1.cfg"},
              budget={"quick": 300, "thorough": 300}, maxwalk=4, tiers=("thorough",))]

PROP = dict(
    level="model_checking",
    technique="TLA+ spec TraceKey.tla: abstract key AKey(cfg, trace) = per-field value sets + root-only values + span count; TLC enumerates every small trace (all span orders, duplications, splits of values over spans, unconfigured fields) with its normal form NF = a trace rebuilt from the abstract key alone, and every pair of different separable classes; each vector is concretised as real types.Trace objects and evaluated by the five dynsampler-backed samplers' GetSampleRate (B3 function vectors)",
    design_ref="DESIGN.md §5 C11",
    level_text="TLC checks on the model that the abstract key is invariant under every span permutation, under span duplication exactly when UseTraceLength is off, and under any change of unconfigured fields or of root-only fields outside the root span, and that the normal form is a sound class representative. Binding: for every enumerated (field list, UseTraceLength, trace) the real key returned by DynamicSampler, EMADynamicSampler, EMAThroughputSampler, WindowedThroughputSampler and TotalThroughputSampler.GetSampleRate for the trace (built with extra unconfigured fields and partly msgpack-backed payloads, samplers created by SamplerFactory.createSampler and reused across vectors) must equal the key of the class's normal form, so all enumerated traces of one abstract class get one key; for every pair of different classes with all fields present the two keys must differ; every returned rate must be >= 1 and repeated calls must return the same key. A separate stage checks the keep frequency against the reported rate (6-sigma band).",
    level_note="Bounded enumeration: quick = 2 fields, 3 typed values string/int/bool, <= 2 spans, field lists [a,b], [a,root.b], [a,root.a], about 7k vectors; thorough = (2 fields, 3 values string/float/string-with-',' - the delimiter value is excluded from the separation clause as the property says -, <= 2 spans, all 7 field lists) + (2 fields, 2 values, <= 3 spans, [a,b], [a,root.b], [a,b,root.a]) + (1 field, 3 values, <= 3 spans, [a], [a,root.a], [root.a]), about 40k vectors; each with and without UseTraceLength. Values of different type with the same rendering (1 vs \"1\") are not in the domain. The 100-distinct-values cap is only approached by the gotest stage (order/duplication invariance with 41, 98 and 99 distinct values, seeded shuffles; oracle: the same AKey relation). Rates other than the samplers' initial ones appear only if a dynsampler interval elapses during the run. Oracle of the keep-frequency check: kept/calls per reported rate within 6 sigma (+8) of 1/rate, exact for rate 1; it depends on math/rand's global source.",
    assumptions=["dynsampler-go returns rates independent of the key text", "vmihailenco/msgpack encodes the test payloads faithfully",
                 "bounded: <= 2 fields, 3-4 values, <= 3 spans"],
    stages=[
        dict(kind="walk", name="TraceKey", module="TraceKey", pkg="sample", test="TestVerifC11TraceKey",
             harness=["sample/c11_tracekey_test.go"],
             cfg={"quick": "MC_TraceKey.cfg", "thorough": "MC_TraceKey_big.cfg"},
             budget={"quick": 40, "thorough": 300}, maxwalk=4),
    ] + _DEEP + [
        dict(kind="gotest", name="KeepStats", pkg="sample", test="TestVerifC11KeepStats",
             harness=["sample/c11_tracekey_test.go"], budget={"quick": 30, "thorough": 120}),
    ],
)
