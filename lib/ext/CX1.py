"""CX1 (coverage extension) LocalPubSub hands every message published between Subscribe and Close to the subscriber exactly once and to nobody else; ConfigWatcher republishes configuration changes over it."""

_KIT = "internal/cx1kit/cx1kit.go"
_HB = ["pubsub/cx1_pubsub_test.go", _KIT]
_HT = ["pubsub/cx1_trace_test.go", _KIT]
_HW = ["internal/configwatcher/cx1_watcher_test.go", _KIT]


def _alts(stem, dead=True):
    # what a Subscribe after Close/Stop yields is not promised: the bus works again (the code) or the subscription is dead
    a = [dict(name="revive", cfg={"quick": f"MC_PubSub_{stem[0]}.cfg", "thorough": f"MC_PubSub_{stem[1]}.cfg"})]
    if dead:
        a.append(dict(name="dead", cfg={"quick": f"MC_PubSub_{stem[0]}_dead.cfg", "thorough": f"MC_PubSub_{stem[1]}_dead.cfg"}))
    return a


def _tlc(name, cfg, tiers=("thorough",), workers=8):
    return dict(kind="tlc", name=name, module="PubSub", cfg=cfg, workers=workers, tiers=tiers)


PROP = dict(
    level="model_checking",
    technique="TLA+ spec PubSub.tla (pubsub.LocalPubSub at two granularities - one action per public call, and one action per critical section: PubCall/PubSnap/PubVisit/PubRet, "
              "CloseSnap/CloseNil, bus Close, goroutine entry - plus configwatcher.ConfigWatcher with its monitor ticker, ReloadCallback and SubscriptionListener on that bus) model-checked by TLC; "
              "the per-call graph is replayed transition by transition into a real LocalPubSub / a real ConfigWatcher on a real LocalPubSub inside a testing/synctest bubble "
              "(every callback parks on entry and is released by the model's Run; virtual clock drives time.Now and the monitor's ticker) - spec->code transition tour; "
              "logs of real concurrent runs (call/return of every operation from three goroutines, entry of every callback, under the race detector) are validated by TLC against the "
              "per-critical-section model with silent internal steps (TracePubSub.tla)",
    design_ref="DESIGN.md §5 CX1 (pending_fixes/CX1-design.md)",
    level_text="TLC explores every order of Subscribe (2 slots, 2 topics), Publish (<= 2 quick / 3 thorough), Subscription.Close (also repeated), Close()/Stop() of the bus and completion of each parked callback, "
               "and checks: a message whose Publish was called after Subscribe returned and returned before Close was called is handed to the subscriber (MustDeliver), never twice (AtMostOnce), never to a "
               "subscription of another topic, to one closed before the Publish was called or to one made after it returned (NoForbidden, OwnTopic); on the per-critical-section model (two concurrent "
               "publishers, Close racing Publish, bus Close racing both) the same invariants, NoCallbackAfterClose for the ideal draining design, and - thorough, under weak fairness - every "
               "delivery that must happen eventually does and every call returns. Every generated transition of the per-call graph is executed on the real LocalPubSub: the set of callbacks "
               "entered and not yet finished (message id, slot, payload), the delivered sequence per slot, the two counters (local_pubsub_published exactly; local_pubsub_received modulo the "
               "known finding) and 'no call waits for a slow consumer' must equal the model's. Watcher: TLC explores file changes, ticks of the jittered reload ticker, peer messages "
               "(current stamp / malformed), delayed delivery of the watcher's own and foreign messages, Stop, Start immediately followed by Stop, OpAMP mode and interval 0 within 3 intervals and 2 publishes, "
               "and checks StormAvoidance (nothing is announced within one interval of a received stamp), ChangeAnnounced, NoReloadAfterStop (ideal) and OpAMPInert; every transition is executed on "
               "the real ConfigWatcher and the number of Config.Reload calls, the messages it published (stamp mapped back to model time), its parked listener calls and the virtual time must equal the model's. "
               "Concurrent stage: 24 (quick) / 150 (thorough) logs of 3 goroutines x 5 random operations on one bus are each explained by some interleaving of the step model, first of the ideal design, then of the code as it is.",
    level_note="Exhaustive only within the bounds (2 slots, 2 topics, <= 3 publishes, 1 bus close; watcher: 1 watcher + 1 foreign subscriber, <= 3 intervals). Delivery order is left open (each delivery is its own goroutine; "
               "not even one publisher's messages are ordered), as are Subscribe after Close/Stop (alternatives 'revive'/'dead'), the error value of Publish after Stop, and use before Start. "
               "The walk observes a callback from the moment it is entered (the harness parks it), so 'a callback is entered after Close returned' (deviation callback-after-close of the step model) is only "
               "visible in the concurrent stage, which accepts both the ideal and the as-is model and therefore does not report it; TLC's counterexample is MC_PubSub_step_code_cex.cfg. "
               "Two departures are reproduced on the unchanged tree and reported as KNOWN-FINDING: received-counts-closed and monitor-leak (Start();Stop() on one P). "
               "The monitor's jitter (0.9..1.1 x interval, math/rand) is not controlled: the harness samples at half-interval offsets where the number of ticks is jitter-independent (<= 4 intervals) and the model "
               "allows both outcomes where two ticks are compared with the interval. Config is a harness double (Reload notices a pending change and calls the callbacks synchronously, as fileConfig does); "
               "the real Reload is C27's. testing/synctest (Go 1.25) is trusted for quiescence and virtual time. GoRedisPubSub is not covered. A draining Close (which would block while callbacks are parked) "
               "cannot be replayed by the walk harness and would be reported as cannot-decide, not as a violation.",
    assumptions=["testing/synctest quiescence (Wait) and virtual time are faithful", "bounded: 2 slots, 2 topics, <= 3 publishes, <= 1 bus close, <= 3 reload intervals",
                 "Config.Reload calls its callbacks synchronously when the files changed (harness double)", "monitor jitter stays within 0.9..1.1 of the interval"],
    stages=[
        dict(kind="walk", name="bus", module="PubSub", pkg="pubsub", test="TestVerifCX1Bus", harness=_HB,
             alternatives=_alts(("bus_q", "bus_t")), budget={"quick": 5, "thorough": 30}, maxwalk=40),
        dict(kind="walk", name="watcher", module="PubSub", pkg="internal/configwatcher", test="TestVerifCX1Watcher", harness=_HW,
             alternatives=_alts(("cw_q", "cw_t"), dead=False), budget={"quick": 4, "thorough": 25}, maxwalk=40),
        dict(kind="walk", name="watcher-stop", module="PubSub", pkg="internal/configwatcher", test="TestVerifCX1Watcher", harness=_HW, tiers=("thorough",),
             alternatives=_alts(("cwstop_t", "cwstop_t")), budget={"thorough": 15}, maxwalk=40),
        dict(kind="trace", name="TracePubSub", module="TracePubSub", cfg=["TracePubSub_ideal.cfg", "TracePubSub_code.cfg"], pkg="pubsub",
             test="TestVerifCX1Trace", harness=_HT, race=True, race_oracle=True),
        _tlc("step-code-2pub", "MC_PubSub_step_code_q.cfg"),      # two concurrent publishers, one slot
        _tlc("step-ideal-2pub", "MC_PubSub_step_ideal_q.cfg"),
        _tlc("step-code", "MC_PubSub_step_code_t.cfg"),           # one publisher, two slots, two topics
        _tlc("step-ideal", "MC_PubSub_step_ideal_t.cfg"),
        _tlc("bus-mc", "MC_PubSub_bus_mc.cfg"),
        _tlc("bus-ideal-mc", "MC_PubSub_bus_ideal_mc.cfg"),
        _tlc("watcher-mc", "MC_PubSub_cw_mc.cfg"),
        _tlc("watcher-ideal-mc", "MC_PubSub_cw_ideal_mc.cfg"),
        _tlc("step-live", "MC_PubSub_step_live.cfg", workers=4),
    ],
)
