SPECIFICATION Spec
CONSTANTS
  Elems = {1, 2, 3}
  ArgSets = {{}, {1}, {2, 3}, {1, 3}}
INVARIANTS TypeOK Laws
PROPERTIES OperandsUntouched Membership
ACTION_CONSTRAINT Dump
VIEW View
