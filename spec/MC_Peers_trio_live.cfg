SPECIFICATION FairSpec
CONSTANTS
  Addr <- Addr3
  Gaps <- GapsFixed3
  T = 10
  D = 0
  MaxEvents = 3
  MaxFails = 0
  Extra = "none"
  Backoff = FALSE
  Closed = TRUE
  ObserveCb = TRUE
  TrackQuiet = FALSE
  UnitMs = 1000
  Boot <- NoNodes
  CrashSet <- AllNodes
  StopSet <- AllNodes
  Sync = FALSE
  TrackAge = FALSE
INVARIANTS TypeOK
PROPERTIES EventuallyAgreed HashCatchesUp
